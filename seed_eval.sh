#!/bin/bash
# seed_eval.sh <ID> [checks...]
# Confirms a seeded change produced in /tmp/seed-<ID> (patch.diff + demo) and runs our checks against it.
# Steps (all inside the scratch worktree, never in /repo):
#   1. clean checkout, demo copied in: demo must PASS without the patch
#   2. apply patch.diff: build, demo must FAIL
#   3. tests of the touched packages must pass with the patch (demo removed)
#   4. VP_REPO=<worktree> ./check run <check> for each named check (default: the seed's own property)
# Results are appended to /verif/build/seed_eval/<ID>.log and a one-line summary is printed.
id=$1; shift
checks="$@"; [ -z "$checks" ] && checks=$id
pfx=${SEED_PREFIX:-seed}
wt=/tmp/$pfx-$id
out=/verif/build/seed_eval; mkdir -p $out
log=$out/$pfx-$id.log; : > $log
export GOFLAGS=-mod=mod GOPROXY=off GOSUMDB=off GOTOOLCHAIN=local
cd $wt || exit 2
[ -f SEED/patch.diff ] || { echo "$id: no SEED/patch.diff"; exit 2; }
# keep deliverables aside
rm -rf /tmp/${pfx}keep-$id; cp -r SEED /tmp/${pfx}keep-$id
git checkout -q -- . ; git clean -fdq -e SEED -e TASK.md
demo_files=$(ls /tmp/${pfx}keep-$id/demo/*.go 2>/dev/null)
runcmd=$(grep -m1 -oE '(go test|go run) [^`]*' /tmp/${pfx}keep-$id/demo/RUN.txt | sed 's/[[:space:]]*$//')
pkgdir=$(echo "$runcmd" | grep -oE '(^| )\./[a-zA-Z0-9_./-]+' | tail -1 | tr -d ' ' | sed 's|/\.\.\.$||; s|/$||')
echo "RUN: $runcmd  PKGDIR: $pkgdir" >> $log
place_demo() {
  for f in $demo_files; do
    b=$(basename $f)
    # explicit destination named in RUN.txt (a path ending in the file name that is not under SEED/), else the package of the run command
    d=$(grep -oE "[a-zA-Z0-9_./-]*/$b" /tmp/${pfx}keep-$id/demo/RUN.txt | grep -v '^SEED/' | grep -v '/demo/' | grep -v '^demo/' | sed "s|^/tmp/$pfx-$id/||" | head -1)
    [ -z "$d" ] && d=$pkgdir/$b
    d=${d#./}
    mkdir -p $(dirname $d); cp $f $d; echo "placed $d" >> $log
  done
}
place_demo
echo "== demo WITHOUT patch" >> $log
( eval "timeout 1200 $runcmd" ) >> $log 2>&1; rc_without=$?
git apply SEED/patch.diff >> $log 2>&1 || { echo "$id: patch does not apply"; exit 2; }
echo "== demo WITH patch" >> $log
( eval "timeout 1200 $runcmd" ) >> $log 2>&1; rc_with=$?
# remove demo, test touched packages
git clean -fdq -e SEED -e TASK.md
pkgs=$(git diff --name-only | grep '\.go$' | xargs -n1 dirname | sort -u | sed 's|^|./|')
echo "== unit tests of touched packages: $pkgs" >> $log
timeout 1500 go test -vet=off -count=1 $pkgs >> $log 2>&1; rc_unit=$?
res=""
for c in $checks; do
  ( cd /verif && VP_REPO=$wt timeout 3000 ./check run $c ) > $out/$pfx-$id.check-$c.log 2>&1; rc=$?
  res="$res $c:rc=$rc"
done
echo "$id demo_without=$rc_without demo_with=$rc_with unit=$rc_unit checks:$res" | tee -a $log
