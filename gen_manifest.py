#!/usr/bin/env python3
"""Regenerates MANIFEST.json from checks.d/*.json (one file per claimed property) and notclaimed.json."""
import json, glob, os, subprocess
V = os.path.dirname(os.path.abspath(__file__))
props = [json.loads(l)["id"] for l in open(os.path.join(V, "properties.jsonl")) if l.strip()]
notclaimed = json.load(open(os.path.join(V, "notclaimed.json"))) if os.path.exists(os.path.join(V, "notclaimed.json")) else {}
checks, na = [], []
for pid in props:
    f = os.path.join(V, "checks.d", pid + ".json")
    try:
        c = json.load(open(f)) if os.path.exists(f) else None
    except Exception:
        c = None
    if c and c.get("claimed", False):
        m = c.get("manifest", {})
        checks.append({
            "property_id": pid,
            "quick_cmd": "./check run %s --tier quick" % pid,
            "thorough_cmd": "./check run %s --tier thorough" % pid,
            "evidence_file": "/verif/evidence/%s.json" % pid,
            "replay_cmd_template": "./check replay {path}",
            "engine": "rapid-harness",
            "level_claimed": {"category": c.get("level", "exploration"), "text": m.get("level_text", ""), "design_ref": m.get("design_ref", "DESIGN.md section 4, " + pid)},
            "level_note": m.get("level_note", ""),
            "technique": m.get("technique", "property-based testing (pgregory.net/rapid) against an explicit oracle"),
        })
    else:
        na.append({"property_id": pid, "reason": notclaimed.get(pid, "no check is registered for this property yet; it is not claimed")})
hooks_commits = []
hf = os.path.join(V, "hooks.json")
hooks = json.load(open(hf)) if os.path.exists(hf) else {}
man = {
    "version": 1,
    "setup_cmd": "./check setup",
    "hooks": {
        "guard": "verif",
        "enable": "go test -tags verif (the driver ./check passes -tags verif to every build of /repo)",
        "baseline_off_cmd": "cd /repo && GOFLAGS=-mod=mod GOPROXY=off GOSUMDB=off GOTOOLCHAIN=local go test -vet=off -count=1 -timeout 25m ./...",
        "source_commits": hooks.get("source_commits", []),
        "add_only": True,
    },
    "engines": [
        {"name": "rapid-harness", "path": "/verif/check", "serves_properties": [c["property_id"] for c in checks],
         "kind_free_text": "python driver that rebuilds Go test binaries from /repo's working tree (black-box module /verif/harness with replace => /repo; white-box files injected with go test -overlay), runs pgregory.net/rapid properties sharded over processes, pinned regression replays and (thorough) native go fuzzing, merges coverage counters into the evidence file"},
    ],
    "checks": checks,
    "not_applicable": na,
    "notes": "Technique family: property-based testing and fuzzing. Exit 0 = held on everything explored, 1 = VIOLATION line, 2 = inconclusive (build failure, watchdog, fewer cases than requested). Known genuine defects are listed in /verif/known_findings.json and reported as KNOWN-FINDING lines.",
}
json.dump(man, open(os.path.join(V, "MANIFEST.json"), "w"), indent=1)
print("claimed:", len(checks), "not claimed:", len(na))
