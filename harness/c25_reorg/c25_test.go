// C25 (best chain converges to the heaviest branch for any delivery order) and C26 (the block sequence log
// replays to the best chain). A builder node produces a generated tree of valid blocks; every generated
// delivery order is fed to a fresh node; the oracle is (a) an independent heaviest-leaf selection over the
// tree with math/big, (b) the persisted view of a fresh reference node that received only the winning branch
// in order, (c) a replay of the sequence log on an empty height->hash map.
package c25

import (
	"github.com/33cn/chain33/blockchain"
	"bytes"
	"fmt"
	"math/big"
	"os"
	"sort"
	"strconv"
	"testing"

	"github.com/33cn/chain33/types"
	"pgregory.net/rapid"
	"verifharness/chainfix"
	"verifharness/lib"
)

func TestMain(m *testing.M) { lib.Main(m) }

// ---- tree description (pure data: this is what is rendered into replays and samples) ----

type txSpec struct {
	From   int   `json:"from"`   // key index
	To     int   `json:"to"`     // key index
	Amount int64 `json:"amount"` // in 1e-8 coins
	Reuse  int   `json:"reuse"`  // >=0: reuse the first tx of block Reuse (a non-ancestor at the same height)
}

type blockSpec struct {
	ID     int      `json:"id"`
	Parent int      `json:"parent"` // -1 = genesis
	Height int64    `json:"height"`
	Bits   uint32   `json:"bits"`
	Txs    []txSpec `json:"txs"`
}

type treeSpec struct {
	Trunk  int         `json:"trunk"` // number of trunk blocks
	Blocks []blockSpec `json:"blocks"`
}

type caseSpec struct {
	Tree  treeSpec `json:"tree"`
	Order []int    `json:"order"` // block ids in delivery order (duplicates allowed)
	Pids  []int    `json:"pids"`
}

var bitsChoices = []uint32{0x1f00ffff, 0x1f00ffff, 0x1f00ffff, 0x1f007fff, 0x1f00fffe, 0x1e00ffff, 0x1f0fffff}

const margin = 12 // blockchain refuses to reorganise to a node below finalized+12; finalized = 0 on these nodes

func genTree(t *rapid.T, maxBranches, maxDepth int) treeSpec {
	var tr treeSpec
	tr.Trunk = rapid.IntRange(8, 12).Draw(t, "trunk")
	nkeys := len(chainfix.Keys())
	genTxs := func(id int, h int64, siblings []int) []txSpec {
		n := rapid.IntRange(1, 3).Draw(t, "ntx")
		var txs []txSpec
		for i := 0; i < n; i++ {
			tx := txSpec{From: 1, To: rapid.IntRange(0, nkeys-1).Draw(t, "to"), Amount: int64(rapid.IntRange(1, 50).Draw(t, "amt")) * 1e8, Reuse: -1}
			if i == 0 && len(siblings) > 0 && rapid.IntRange(0, 3).Draw(t, "reuse") == 0 {
				tx.Reuse = rapid.SampledFrom(siblings).Draw(t, "sib")
			} else if i > 0 && rapid.IntRange(0, 2).Draw(t, "fromOther") == 0 {
				tx.From = rapid.IntRange(0, nkeys-1).Draw(t, "from") // may be unfunded on this branch: then the producer drops it
				tx.Amount = int64(rapid.IntRange(1, 5).Draw(t, "amt2")) * 1e7
			}
			txs = append(txs, tx)
		}
		return txs
	}
	for i := 0; i < tr.Trunk; i++ {
		tr.Blocks = append(tr.Blocks, blockSpec{ID: i, Parent: i - 1, Height: int64(i + 1), Bits: bitsChoices[0], Txs: genTxs(i, int64(i+1), nil)})
	}
	nb := rapid.IntRange(2, maxBranches).Draw(t, "branches")
	for b := 0; b < nb; b++ {
		var parent int
		if b == 0 {
			parent = tr.Trunk - 1 // the first branch extends the trunk tip, so every leaf ends at height >= margin
		} else {
			var cands []int
			for _, bl := range tr.Blocks {
				if bl.Height >= int64(tr.Trunk-4) {
					cands = append(cands, bl.ID)
				}
			}
			parent = rapid.SampledFrom(cands).Draw(t, "forkParent")
		}
		ph := tr.Blocks[parent].Height
		minDepth := 1
		if int(margin-ph) > minDepth {
			minDepth = int(margin - ph)
		}
		md := maxDepth
		if md < minDepth {
			md = minDepth
		}
		depth := rapid.IntRange(minDepth, md).Draw(t, "depth")
		for d := 0; d < depth; d++ {
			id := len(tr.Blocks)
			h := ph + int64(d) + 1
			// candidate blocks at the same height that are not ancestors (for tx reuse across branches)
			var sib []int
			for _, bl := range tr.Blocks {
				if bl.Height == h {
					sib = append(sib, bl.ID)
				}
			}
			tr.Blocks = append(tr.Blocks, blockSpec{ID: id, Parent: parent, Height: h, Bits: rapid.SampledFrom(bitsChoices).Draw(t, "bits"), Txs: genTxs(id, h, sib)})
			parent = id
		}
	}
	return tr
}

// ---- materialisation ----

type builtTree struct {
	spec    treeSpec
	genesis *types.Block
	blocks  []*types.Block // by id
	td      []*big.Int
	txs     [][]byte // all tx hashes of all blocks
	addrs   []string
}

var builder *chainfix.Builder

func getBuilder() *chainfix.Builder {
	if builder == nil {
		builder = chainfix.NewBuilder()
	}
	return builder
}

func build(tr treeSpec) (*builtTree, error) {
	b := getBuilder()
	bt := &builtTree{spec: tr, genesis: b.N.Genesis()}
	keys := chainfix.Keys()
	for _, k := range keys {
		bt.addrs = append(bt.addrs, chainfix.Addr(k))
	}
	firstTx := map[int]*types.Transaction{}
	for _, bs := range tr.Blocks {
		parent := bt.genesis
		ptd := chainfix.Work(bt.genesis.Difficulty)
		if bs.Parent >= 0 {
			parent = bt.blocks[bs.Parent]
			ptd = bt.td[bs.Parent]
		}
		var txs []*types.Transaction
		for i, ts := range bs.Txs {
			if ts.Reuse >= 0 && firstTx[ts.Reuse] != nil && !isAncestor(tr, ts.Reuse, bs.ID) {
				txs = append(txs, firstTx[ts.Reuse])
				continue
			}
			txs = append(txs, chainfix.TransferTx(b.N.Cfg, keys[ts.From], chainfix.Addr(keys[ts.To]), ts.Amount, int64(bs.ID*100+i+1)))
		}
		// de-duplicate inside the block (a reused tx may coincide)
		seen := map[string]bool{}
		var utxs []*types.Transaction
		for _, tx := range txs {
			if !seen[string(tx.Hash())] {
				seen[string(tx.Hash())] = true
				utxs = append(utxs, tx)
			}
		}
		blk, err := b.Child(parent, utxs, bs.Bits, bt.genesis.BlockTime+bs.Height*10+int64(bs.ID%7))
		if err != nil {
			return nil, fmt.Errorf("building block %d: %v", bs.ID, err)
		}
		if len(blk.Txs) > 0 {
			firstTx[bs.ID] = blk.Txs[0]
		}
		bt.blocks = append(bt.blocks, blk)
		bt.td = append(bt.td, new(big.Int).Add(ptd, chainfix.Work(bs.Bits)))
		for _, tx := range blk.Txs {
			bt.txs = append(bt.txs, tx.Hash())
		}
	}
	return bt, nil
}

func isAncestor(tr treeSpec, anc, of int) bool {
	for p := tr.Blocks[of].Parent; p >= 0; p = tr.Blocks[p].Parent {
		if p == anc {
			return true
		}
	}
	return anc == of
}

// reference selection: leaves with maximal total work
func (bt *builtTree) heaviest() (best []int) {
	hasChild := map[int]bool{}
	for _, b := range bt.spec.Blocks {
		hasChild[b.Parent] = true
	}
	var max *big.Int
	for _, b := range bt.spec.Blocks {
		if hasChild[b.ID] {
			continue
		}
		c := 0
		if max != nil {
			c = bt.td[b.ID].Cmp(max)
		}
		if max == nil || c > 0 {
			max, best = bt.td[b.ID], []int{b.ID}
		} else if c == 0 {
			best = append(best, b.ID)
		}
	}
	return
}

func (bt *builtTree) path(id int) []int {
	var p []int
	for x := id; x >= 0; x = bt.spec.Blocks[x].Parent {
		p = append([]int{x}, p...)
	}
	return p
}

func (bt *builtTree) idOf(hash []byte) int {
	cfg := getBuilder().N.Cfg
	for i, b := range bt.blocks {
		if bytes.Equal(b.Hash(cfg), hash) {
			return i
		}
	}
	return -1
}

func (bt *builtTree) lcaHeight(a, b int) int64 {
	pa, pb := bt.path(a), bt.path(b)
	h := int64(0)
	for i := 0; i < len(pa) && i < len(pb) && pa[i] == pb[i]; i++ {
		h = bt.spec.Blocks[pa[i]].Height
	}
	return h
}

var refCache = map[string]*chainfix.View{}

func (bt *builtTree) reference(winner int) *chainfix.View {
	key := fmt.Sprintf("%p-%d", bt, winner)
	if v, ok := refCache[key]; ok {
		return v
	}
	n := chainfix.NewNode()
	defer n.Close()
	for _, id := range bt.path(winner) {
		if _, _, err := n.Deliver(bt.blocks[id], "ref", false); err != nil {
			panic(fmt.Sprintf("reference node rejected block %d of the winning branch: %v", id, err))
		}
	}
	v := n.Snapshot(bt.txs, bt.addrs)
	if len(refCache) > 64 {
		refCache = map[string]*chainfix.View{}
	}
	refCache[key] = v
	return v
}

type runStats struct {
	orphans, reorgs, maxDepth, delRecords int
}

// runOrder delivers the order to a fresh node and evaluates C25 and C26. which: "C25", "C26" or "both".
func runOrder(t lib.TB, test string, bt *builtTree, c caseSpec) runStats {
	var rs runStats
	which := os.Getenv("VERIF_PROP") // the driver runs this package once as C25 and once as C26
	if which != "C25" && which != "C26" {
		which = "both"
	}
	n := chainfix.NewNode()
	defer n.Close()
	cfg := n.Cfg
	if !bytes.Equal(n.Genesis().Hash(cfg), bt.genesis.Hash(cfg)) {
		lib.Inconclusive("fixture: genesis of follower differs from builder")
	}
	_, prevTip := n.Tip()
	prevID := -1
	for i, id := range c.Order {
		pid := "peer" + strconv.Itoa(c.Pids[i%len(c.Pids)])
		_, orphan, err := n.Deliver(bt.blocks[id], pid, false)
		if orphan {
			rs.orphans++
		}
		if err != nil && err != types.ErrBlockExist {
			lib.Violation(t, "C25", test, c, "delivery %d of valid block id=%d (height %d) was rejected: %v", i, id, bt.spec.Blocks[id].Height, err)
		}
		_, tip := n.Tip()
		if !bytes.Equal(tip, prevTip) {
			nid := bt.idOf(tip)
			if nid < 0 {
				lib.Violation(t, "C25", test, c, "after delivery %d the tip %x is not a block of the tree", i, tip)
			}
			if prevID >= 0 && !isAncestor(bt.spec, prevID, nid) {
				rs.reorgs++
				d := int(bt.spec.Blocks[prevID].Height - bt.lcaHeight(prevID, nid))
				if d > rs.maxDepth {
					rs.maxDepth = d
				}
			}
			prevTip, prevID = tip, nid
		}
	}
	if which == "C26" {
		goto seqlog
	}
	// C25 (a): tip is the heaviest leaf
	{
		best := bt.heaviest()
		_, tip := n.Tip()
		tipID := bt.idOf(tip)
		ok := false
		for _, b := range best {
			if b == tipID {
				ok = true
			}
		}
		if !ok {
			lib.Violation(t, "C25", test, c, "best chain tip is block id=%d (td %s) but the heaviest leaf is %v (td %s)", tipID, tdStr(bt, tipID), best, bt.td[best[0]])
		}
		// C25 (b): persisted view identical to a fresh node that received only the winning branch
		got := n.Snapshot(bt.txs, bt.addrs)
		want := bt.reference(tipID)
		if d := chainfix.Diff(got, want); d != "" {
			lib.Violation(t, "C25", test, c, "persisted chain differs from a fresh node fed only the winning branch (tip id=%d):\n%s", tipID, d)
		}
	}
	if which == "C25" {
		return rs
	}
seqlog:
	// C26: sequence log
	h, _ := n.Tip()
	rs.delRecords = seqLogOracle(t, test, c, n.GetBlockChain().GetStore(), h, "")
	return rs
}

// seqLogOracle is the C26 oracle on a block store: sequence numbers 0..last all present, replaying them reproduces the
// height->hash index, and hash->sequence of every best-chain block names an add record of it. Returns the number of
// delete records.
func seqLogOracle(t lib.TB, test string, c interface{}, st *blockchain.BlockStore, h int64, stage string) (delRecords int) {
	last, err := st.LoadBlockLastSequence()
	if err != nil {
		lib.Violation(t, "C26", test, c, "%ssequence log has no last sequence: %v", stage, err)
	}
	var recs []chainfix.SeqRecord
	for s := int64(0); s <= last; s++ {
		r, err := st.GetBlockSequence(s)
		if err != nil {
			lib.Violation(t, "C26", test, c, "%ssequence log is not gap-free: sequence %d of 0..%d missing: %v", stage, s, last, err)
		}
		recs = append(recs, chainfix.SeqRecord{Seq: s, Hash: r.Hash, Type: r.Type})
	}
	cur := map[int64]string{}
	top := int64(-1)
	for _, r := range recs {
		hdr, err := st.GetBlockHeaderByHash(r.Hash)
		if err != nil {
			lib.Violation(t, "C26", test, c, "%ssequence %d names unknown block %x", stage, r.Seq, r.Hash)
		}
		switch r.Type {
		case types.AddBlock:
			if hdr.Height != top+1 {
				lib.Violation(t, "C26", test, c, "%ssequence %d adds height %d on top %d", stage, r.Seq, hdr.Height, top)
			}
			cur[hdr.Height] = string(r.Hash)
			top = hdr.Height
		case types.DelBlock:
			delRecords++
			if hdr.Height != top || cur[top] != string(r.Hash) {
				lib.Violation(t, "C26", test, c, "%ssequence %d deletes %x at height %d but replay top is height %d hash %x", stage, r.Seq, r.Hash, hdr.Height, top, cur[top])
			}
			delete(cur, top)
			top--
		default:
			lib.Violation(t, "C26", test, c, "%ssequence %d has unknown type %d", stage, r.Seq, r.Type)
		}
	}
	if top != h {
		lib.Violation(t, "C26", test, c, "%sreplaying the sequence log (0..%d) ends at height %d, node is at %d", stage, last, top, h)
	}
	for x := int64(0); x <= h; x++ {
		hash, _ := st.GetBlockHashByHeight(x)
		if cur[x] != string(hash) {
			lib.Violation(t, "C26", test, c, "%sreplay gives %x at height %d, node index has %x", stage, cur[x], x, hash)
		}
		seq, err := st.GetSequenceByHash(hash)
		if err != nil || seq < 0 || seq > last || !bytes.Equal(recs[seq].Hash, hash) || recs[seq].Type != types.AddBlock {
			lib.Violation(t, "C26", test, c, "%shash->sequence of best-chain block at height %d is %d (err %v), which is not an add record of it", stage, x, seq, err)
		}
	}
	return delRecords
}

func tdStr(bt *builtTree, id int) string {
	if id < 0 {
		return "?"
	}
	return bt.td[id].String()
}

func genOrder(t *rapid.T, nblocks int) ([]int, []int) {
	ids := make([]int, nblocks)
	for i := range ids {
		ids[i] = i
	}
	var order []int
	switch rapid.IntRange(0, 3).Draw(t, "orderKind") {
	case 0: // full random permutation
		order = rapid.Permutation(ids).Draw(t, "perm")
	case 1: // reversed (every child before its parent)
		for i := nblocks - 1; i >= 0; i-- {
			order = append(order, i)
		}
	default: // mostly in order with local shuffles
		order = append(order, ids...)
		k := rapid.IntRange(1, 8).Draw(t, "swaps")
		for i := 0; i < k; i++ {
			a, b := rapid.IntRange(0, nblocks-1).Draw(t, "a"), rapid.IntRange(0, nblocks-1).Draw(t, "b")
			order[a], order[b] = order[b], order[a]
		}
	}
	nd := rapid.IntRange(0, 3).Draw(t, "dups")
	for i := 0; i < nd; i++ {
		pos := rapid.IntRange(0, len(order)).Draw(t, "dupPos")
		v := rapid.IntRange(0, nblocks-1).Draw(t, "dupID")
		order = append(order[:pos], append([]int{v}, order[pos:]...)...)
	}
	pids := rapid.SliceOfN(rapid.IntRange(1, 3), 1, 5).Draw(t, "pids")
	return order, pids
}

func account(c caseSpec, bt *builtTree, rs runStats) {
	lib.Eval()
	if rs.orphans > 0 {
		lib.Class("orphan_pool_used")
	}
	if rs.reorgs > 0 {
		lib.Class("reorg")
	}
	if rs.maxDepth >= 2 {
		lib.Class("reorg_depth>=2")
	}
	if rs.delRecords > 0 {
		lib.Class("seq_delete_records")
	}
	if len(bt.heaviest()) > 1 {
		lib.Class("tied_heaviest")
	}
	if os.Getenv("VERIF_PROP") == "C26" {
		if rs.delRecords > 0 {
			lib.NonTrivialCase(c)
		}
	} else if rs.maxDepth >= 2 && rs.orphans > 0 {
		lib.NonTrivialCase(c)
	}
}

// TestPropReorgAnyOrder: generated trees x generated delivery orders.
func TestPropReorgAnyOrder(t *testing.T) {
	defer lib.Flush()
	ordersPerTree := lib.Pick(3, 4)
	rapid.Check(t, func(t *rapid.T) {
		tr := genTree(t, 4, 4)
		bt, err := build(tr)
		if err != nil {
			lib.Inconclusive("builder could not produce the generated tree: %v", err)
		}
		for k := 0; k < ordersPerTree; k++ {
			order, pids := genOrder(t, len(tr.Blocks))
			c := caseSpec{Tree: tr, Order: order, Pids: pids}
			rs := runOrder(t, "TestPropReorgAnyOrder", bt, c)
			account(c, bt, rs)
		}
	})
}

// TestGenExhaustiveOrders (thorough): for small trees every permutation of the fork blocks (trunk delivered
// first, in order) is delivered — exhaustive within that bound.
func TestGenExhaustiveOrders(t *testing.T) {
	defer lib.Flush()
	seed, _ := strconv.ParseUint(os.Getenv("VERIF_SHARD_SEED"), 10, 64)
	if seed == 0 {
		seed = 1
	}
	trees, _ := strconv.Atoi(os.Getenv("TREES"))
	if trees == 0 {
		trees = 1
	}
	maxFork, _ := strconv.Atoi(os.Getenv("MAXFORK"))
	if maxFork == 0 {
		maxFork = 5
	}
	done := 0
	for i := 0; done < trees && i < trees*50; i++ {
		var tr treeSpec
		ok := false
		// a tree is drawn through rapid's generators from a derived seed so that the case is a function of VERIF_SEED
		ex := rapid.Custom(func(t *rapid.T) treeSpec { return genTree(t, 3, 2) })
		tr = ex.Example(int(seed%1000003) + i)
		nf := len(tr.Blocks) - tr.Trunk
		if nf >= 3 && nf <= maxFork {
			ok = true
		}
		if !ok {
			continue
		}
		done++
		bt, err := build(tr)
		if err != nil {
			lib.Inconclusive("builder could not produce the generated tree: %v", err)
		}
		var fork []int
		var trunk []int
		for _, b := range tr.Blocks {
			if b.ID < tr.Trunk {
				trunk = append(trunk, b.ID)
			} else {
				fork = append(fork, b.ID)
			}
		}
		sort.Ints(fork)
		permute(fork, func(p []int) {
			c := caseSpec{Tree: tr, Order: append(append([]int{}, trunk...), p...), Pids: []int{1, 2}}
			rs := runOrder(t, "TestGenExhaustiveOrders", bt, c)
			account(c, bt, rs)
			lib.Class("exhaustive_order")
		})
	}
	lib.SetExhaustive(false) // exhaustive only within each tree's fork-block permutations, not over the property's whole space
}

func permute(a []int, f func([]int)) {
	var rec func(int)
	rec = func(k int) {
		if k == len(a) {
			f(append([]int{}, a...))
			return
		}
		for i := k; i < len(a); i++ {
			a[k], a[i] = a[i], a[k]
			rec(k + 1)
			a[k], a[i] = a[i], a[k]
		}
	}
	rec(0)
}
