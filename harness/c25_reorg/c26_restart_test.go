package c25

import (
	"bytes"
	"os"
	"path/filepath"
	"strconv"
	"testing"

	"github.com/33cn/chain33/types"
	"pgregory.net/rapid"
	"verifharness/chainfix"
	"verifharness/lib"
)

// C26 across restarts: the same generated trees and delivery orders, fed to a node whose databases live on disk; the node
// is closed and re-opened at generated points of the order (start-up re-examines the sequence bookkeeping), and the
// sequence-log oracle is evaluated after every re-opening and at the end.

type restartOrder struct {
	Tree  treeSpec `json:"tree"`
	Order []int    `json:"order"`
	Pids  []int    `json:"pids"`
	Cuts  []int    `json:"restartAfter"` // the node is restarted after these many deliveries (ascending)
	Late  bool     `json:"enableLate"`   // sequence recording is off until the first restart and on afterwards (the log is back-filled at start-up)
}

var restartSerial int

func runRestartOrder(t lib.TB, test string, bt *builtTree, c restartOrder) (restartsAfterReorg, delRecords int, enabledLateAt int64) {
	enabledLateAt = -1
	restartSerial++
	dir := filepath.Join(os.Getenv("VERIF_WORK"), "c26r", strconv.Itoa(os.Getpid())+"-"+strconv.Itoa(restartSerial))
	if os.Getenv("VERIF_WORK") == "" {
		dir = filepath.Join(os.TempDir(), "verif-c26r-"+strconv.Itoa(os.Getpid())+"-"+strconv.Itoa(restartSerial))
	}
	_ = os.RemoveAll(dir)
	defer os.RemoveAll(dir)
	recOff := func(cfg *types.Chain33Config) { cfg.GetModuleConfig().BlockChain.IsRecordBlockSequence = false }
	recording := !c.Late
	var n *chainfix.PNode
	if c.Late {
		n = chainfix.OpenPersistent(dir, recOff)
	} else {
		n = chainfix.OpenPersistent(dir)
	}
	defer func() { n.Close() }()
	cfg := n.Cfg
	if last, err := n.Chain.GetStore().LoadBlockLastSequence(); recording && (err != nil || last != 0) {
		lib.Inconclusive("fixture: fresh persistent node has last sequence %d (%v)", last, err)
	}
	g, err := n.Chain.GetBlock(0)
	if err != nil || !bytes.Equal(g.Block.Hash(cfg), bt.genesis.Hash(cfg)) {
		lib.Inconclusive("fixture: genesis of the persistent node differs from the builder's")
	}
	check := func(stage string) int {
		if !recording {
			return 0
		}
		return seqLogOracle(t, test, c, n.Chain.GetStore(), n.Chain.GetBlockHeight(), stage)
	}
	cut := 0
	for i, id := range c.Order {
		pid := "peer" + strconv.Itoa(c.Pids[i%len(c.Pids)])
		_ = n.Deliver(bt.blocks[id], pid)
		if cut < len(c.Cuts) && c.Cuts[cut] == i+1 {
			cut++
			dels := check("before restart " + strconv.Itoa(cut) + ": ")
			hBefore := n.Chain.GetBlockHeight()
			tipBefore := n.Chain.GetStore().LastHeader().Hash
			n.Close()
			n = chainfix.OpenPersistent(dir) // recording on (the default) from here
			if !recording {
				recording = true
				enabledLateAt = hBefore
			}
			if n.Chain.GetBlockHeight() != hBefore || !bytes.Equal(n.Chain.GetStore().LastHeader().Hash, tipBefore) {
				lib.Inconclusive("fixture: the re-opened node is at height %d, was at %d", n.Chain.GetBlockHeight(), hBefore)
			}
			if dels > 0 {
				restartsAfterReorg++
			}
			check("after restart " + strconv.Itoa(cut) + ": ")
		}
	}
	delRecords = check("at the end: ")
	return
}

func TestPropSeqLogRestart(t *testing.T) {
	defer lib.Flush()
	rapid.Check(t, func(t *rapid.T) {
		tr := genTree(t, 3, 4)
		bt, err := build(tr)
		if err != nil {
			lib.Inconclusive("builder: %v", err)
		}
		order, pids := genOrder(t, len(tr.Blocks))
		if rapid.IntRange(0, 2).Draw(t, "ascendingBranches") > 0 {
			// branch by branch, lighter branches first, each in chain order: every heavier branch reorganises the chain, and
			// nothing depends on the in-memory orphan pool (which a restart empties)
			order = bt.ascendingBranchOrder()
		}
		c := restartOrder{Tree: tr, Order: order, Pids: pids}
		// one restart at a drawn point and one after the whole order (so that a log with delete records is re-opened whenever
		// the order produced one)
		p := rapid.IntRange(len(order)/3, len(order)).Draw(t, "cut")
		c.Cuts = []int{p}
		if p != len(order) {
			c.Cuts = append(c.Cuts, len(order))
		}
		c.Late = rapid.IntRange(0, 2).Draw(t, "enableLate") == 0
		lib.Eval()
		rr, dels, late := runRestartOrder(t, "TestPropSeqLogRestart", bt, c)
		if late > 0 {
			lib.Class("recording_enabled_on_existing_chain")
			lib.NonTrivialCase(c)
		}
		lib.Class("restart")
		if dels > 0 {
			lib.Class("log_with_delete_records")
		}
		if rr > 0 {
			lib.Class("restart_after_reorganisation")
			lib.NonTrivialCase(c)
		}
	})
}

// ascendingBranchOrder: the leaves sorted by total work ascending (ties by id); for each leaf its path from the root in
// order, skipping blocks already listed.
func (bt *builtTree) ascendingBranchOrder() []int {
	hasChild := map[int]bool{}
	for _, b := range bt.spec.Blocks {
		hasChild[b.Parent] = true
	}
	var leaves []int
	for _, b := range bt.spec.Blocks {
		if !hasChild[b.ID] {
			leaves = append(leaves, b.ID)
		}
	}
	for i := 1; i < len(leaves); i++ {
		for j := i; j > 0 && bt.td[leaves[j]].Cmp(bt.td[leaves[j-1]]) < 0; j-- {
			leaves[j], leaves[j-1] = leaves[j-1], leaves[j]
		}
	}
	seen := map[int]bool{}
	var order []int
	for _, l := range leaves {
		for _, id := range bt.path(l) {
			if !seen[id] {
				seen[id] = true
				order = append(order, id)
			}
		}
	}
	return order
}
