// Package model is the chain33-independent half of the C05 check ("state pruning never deletes live
// state"): the history generator, the reference model of what a pruned store must still serve, and the
// oracle loop.  It is shared by the black-box unit (real mavl.Store) and the white-box unit (package
// mavl/db, which needs unexported access to run the background trigger deterministically), each of which
// only supplies a Backend.
//
// Oracle, derived from the property text: "for any history of per-height commits (including re-commits at
// already-used heights after a rollback or reorganisation, and heights with no state change) and any
// pruning runs, every key of the tip's state, and of every current-chain state within the configured prune
// interval below the tip, stays readable with its correct value".
//   - the model keeps, per commit on the current chain, the full key->value content;
//   - a prune run at tip T (interval PH) only licenses the loss of states with height <= T-PH, so the model
//     keeps one integer `floor` = max over all prune runs of (T-PH) (bg mode: a run is recognised by the node
//     records that disappear during a commit at height T, whatever rule made the store start it, and it
//     licenses exactly T-PH because T is the tip at that moment): every current-chain state with
//     height in (floor, tip] must read back exactly its model content (states are identified by the root
//     returned at commit time; a height without state change has the root of the last commit below it);
//   - nothing is asserted about keys absent from a state, nor about states at or below floor.
//
// Soundness of histories (only what a real node produces): heights advance by one per block starting at 0
// (runs of blocks without state change are rendered as one "empty" op and never reach the tree, exactly
// like Store.MemSet/Commit with an empty KV set); a height <= the highest used one is committed again only
// after a rollback; a rollback never goes to a state at or below floor (a node's prune interval exceeds
// its reorganisation depth; such a state is not promised readable); synchronous prune runs use
// curHeight = tip (what Tree.Save passes to the background trigger); values are non-empty and keys are
// never deleted (the mavl store has no delete).
package model

import (
	"fmt"
	"runtime/debug"
	"sort"
	"strings"

	"pgregory.net/rapid"
	"verifharness/lib"
)

// Prop is the property id.
const Prop = "C05"

// Known-finding ids (see TestKnown_* in the units).
const (
	FindRoot  = "C05-shared-root-record"
	FindStale = "C05-stale-index-empty-recommit"
	FindLeaf  = "C05-root-leaf-index-not-cleaned"
)

// KV is one write of a batch.
type KV struct {
	K string `json:"k"`
	V string `json:"v"`
}

// Op is one step of a history.
//
//	commit   : block at height tip+1 whose execution writes KV (in order; a later duplicate key wins)
//	empty    : N consecutive blocks without state change (tip += N)
//	rollback : reorganisation back to height To (blocks above To are abandoned)
//	prune    : synchronous prune run with curHeight = tip (sync mode only)
//	discard  : a block at tip+1 is pre-executed (MemSet) and then dropped (store Rollback); nothing persists
type Op struct {
	Op string `json:"op"`
	KV []KV   `json:"kv,omitempty"`
	N  int64  `json:"n,omitempty"`
	To int64  `json:"to,omitempty"`
}

// Case is one generated history.
type Case struct {
	PH   int32  `json:"pruneHeight"`
	Mode string `json:"mode"` // "sync": prune ops call the prune routine; "bg": Tree.Save's own trigger prunes
	DB   string `json:"db"`   // "memdb" | "leveldb"
	Ops  []Op   `json:"ops"`
}

// Backend is the store under test.
type Backend interface {
	// Commit applies a non-empty batch on top of parent at the given height, persists it and returns the new
	// state root.  In bg mode the store may start its pruning goroutine; Commit returns after it finished.
	Commit(parent []byte, height int64, kvs []KV) ([]byte, error)
	// Discard pre-executes a batch without persisting it.
	Discard(parent []byte, height int64, kvs []KV)
	// Empty passes n blocks without state change, heights from..from+n-1.
	Empty(parent []byte, from, n int64)
	// Prune runs the pruning routine synchronously with curHeight = cur.
	Prune(cur int64)
	// Read returns the values of keys in the state root ("" = absent); failure != "" when the state cannot be
	// walked (missing root / "database damaged" panic), with the missing node in the text.
	Read(root []byte, keys []string) (vals []string, failure string)
	// Keys lists every record key of the database.
	Keys() []string
	Close()
}

// CleanupPanic is the error a Backend returns from Commit when the store panicked inside the index cleanup
// that a re-commit at an already-used height performs (DelLeafCountKV walking the trees of the abandoned
// blocks of that height).  The property speaks about readability of live states, not about this walk, so Run
// does not count it as a violation; it ends the history and is counted in class "recommit_cleanup_panicked".
type CleanupPanic struct{ Text string }

func (e *CleanupPanic) Error() string { return "panic in re-commit index cleanup: " + e.Text }

// ClassifyCommitPanic is for a Backend's deferred recover in Commit: a panic raised below DelLeafCountKV
// becomes a *CleanupPanic, any other panic is raised again (and reported as it is).
func ClassifyCommitPanic(r interface{}) error {
	if !strings.Contains(string(debug.Stack()), "DelLeafCountKV") {
		panic(r)
	}
	return &CleanupPanic{Text: fmt.Sprint(r)}
}

type entry struct {
	h       int64 // commit height
	upto    int64 // last height whose state this is (set by required)
	content map[string]string
	batch   []KV
	root    []byte
}

// sim is the reference model (no backend): current chain, tip, floor and the bookkeeping the generator and
// the classification need.
type sim struct {
	ph    int64
	mode  string
	chain []entry // commits of the current chain, ascending height
	tip   int64   // -1 before genesis
	floor int64   // states with height > floor are promised readable
	gen   bool    // generator-side copy: in bg mode it cannot see the store, so it assumes the documented
	// trigger (every pruneHeight-th height from 2*pruneHeight on) pruned; the oracle-side copy moves floor only
	// when Run observed deletions (pruned), which can only be later/lower, so generated rollbacks stay valid
	maxH  int64             // highest height ever committed
	dirty map[int64][]entry // abandoned commits at heights not committed again since
	held  map[string]map[string]bool
	prev  map[string]string // value a key held before its current one
}

func newSim(ph int32, mode string) *sim {
	return &sim{ph: int64(ph), mode: mode, tip: -1, floor: -1, maxH: -1, dirty: map[int64][]entry{}, held: map[string]map[string]bool{}, prev: map[string]string{}}
}

func (s *sim) cur() map[string]string {
	if len(s.chain) == 0 {
		return map[string]string{}
	}
	return s.chain[len(s.chain)-1].content
}

func fp(content map[string]string) string {
	ks := make([]string, 0, len(content))
	for k := range content {
		ks = append(ks, k)
	}
	sort.Strings(ks)
	var b strings.Builder
	for _, k := range ks {
		b.WriteString(k)
		b.WriteByte(0)
		b.WriteString(content[k])
		b.WriteByte(1)
	}
	return b.String()
}

func applyBatch(content map[string]string, kvs []KV) map[string]string {
	out := make(map[string]string, len(content)+len(kvs))
	for k, v := range content {
		out[k] = v
	}
	for _, kv := range kvs {
		out[kv.K] = kv.V
	}
	return out
}

func sameBatch(a, b []KV) bool {
	if len(a) != len(b) {
		return false
	}
	for i := range a {
		if a[i] != b[i] {
			return false
		}
	}
	return true
}

// recurs reports whether committing content at height h makes the whole state equal to the state of another
// commit whose pruning index is still in the database: any commit of the current chain, or an abandoned one
// at a height that has not been committed again (a commit at h itself replaces the abandoned index of h).
func (s *sim) recurs(h int64, content map[string]string) bool {
	f := fp(content)
	for _, e := range s.chain {
		if fp(e.content) == f {
			return true
		}
	}
	for dh, es := range s.dirty {
		if dh == h {
			continue
		}
		for _, e := range es {
			if fp(e.content) == f {
				return true
			}
		}
	}
	return false
}

func (s *sim) valid(o Op) bool {
	switch o.Op {
	case "commit", "discard":
		if len(o.KV) == 0 || (o.Op == "discard" && s.tip < 0) {
			return false
		}
		for _, kv := range o.KV {
			if kv.K == "" || kv.V == "" {
				return false
			}
		}
		return true
	case "empty":
		return s.tip >= 0 && o.N >= 1
	case "rollback":
		return s.tip >= 0 && o.To >= 0 && o.To > s.floor && o.To < s.tip
	case "prune":
		return s.tip >= 0 && s.mode == "sync"
	}
	return false
}

type stepInfo struct{ recommit, belowTop, equalAbandoned, recurs, leafRec, staleEmpty bool }

// apply advances the model by one valid op.
func (s *sim) apply(o Op) (inf stepInfo) {
	switch o.Op {
	case "commit":
		h := s.tip + 1
		content := applyBatch(s.cur(), o.KV)
		inf.recurs = s.recurs(h, content)
		inf.recommit = h <= s.maxH
		inf.belowTop = h < s.maxH // the abandoned fork is still longer than the new one
		for _, e := range s.dirty[h] {
			if sameBatch(e.batch, o.KV) {
				inf.equalAbandoned = true
			}
		}
		old := s.cur()
		for _, kv := range o.KV {
			if s.held[kv.K][kv.V] {
				inf.leafRec = true
			}
		}
		for k, v := range content {
			if ov, ok := old[k]; ok && ov != v {
				s.prev[k] = ov
			}
			if s.held[k] == nil {
				s.held[k] = map[string]bool{}
			}
			s.held[k][v] = true
		}
		delete(s.dirty, h)
		s.chain = append(s.chain, entry{h: h, content: content, batch: o.KV})
		s.tip = h
		if h > s.maxH {
			s.maxH = h
		}
		if s.gen && s.mode == "bg" && h%s.ph == 0 && h/s.ph > 1 {
			s.pruned(h)
		}
	case "empty":
		for h := range s.dirty {
			if h > s.tip && h <= s.tip+o.N {
				inf.staleEmpty = true
			}
		}
		s.tip += o.N
	case "rollback":
		i := len(s.chain)
		for i > 0 && s.chain[i-1].h > o.To {
			i--
			s.dirty[s.chain[i].h] = append(s.dirty[s.chain[i].h], s.chain[i])
		}
		s.chain = s.chain[:i]
		s.tip = o.To
	case "prune":
		s.pruned(s.tip)
	}
	return
}

// pruned records a prune run at tip t: it licenses dropping the states of heights <= t-PH and nothing else.
func (s *sim) pruned(t int64) {
	if t-s.ph > s.floor {
		s.floor = t - s.ph
	}
}

// required lists the distinct states the property promises readable: one per height in (floor, tip].
func (s *sim) required() []entry {
	var out []entry
	lo := s.floor + 1
	if lo < 0 {
		lo = 0
	}
	if lo > s.tip {
		return nil
	}
	for i, e := range s.chain {
		next := s.tip + 1
		if i+1 < len(s.chain) {
			next = s.chain[i+1].h
		}
		if next-1 >= lo { // e is the state of heights e.h .. next-1
			e.upto = next - 1
			out = append(out, e)
		}
	}
	return out
}

// ---------------------------------------------------------------------------------------------- generator

// GenOpt selects what the generator may produce.
type GenOpt struct {
	Modes      []string
	Jumps      bool // height jumps beyond the second/third-level thresholds (500 000 / 1 500 000)
	AvoidRoot  bool // known finding FindRoot listed: do not generate whole-state recurrences
	AvoidStale bool // known finding FindStale listed: no block without state change at an abandoned, not re-committed height
	AvoidLeaf  bool // known finding FindLeaf listed: the genesis state has at least two keys (no un-prefixed root leaf)
	MaxOps     int
}

// keyPool mixes short keys in prefix relation, digit tails that resemble the height field of the pruning
// index, and keys shaped like real state keys.
var keyPool = []string{"a", "k1", "mavl-coins-bty-1AbC", "a0", "k10", "mavl-coins-bty-1AbD", "b", "a0000000001", "k", "mavl-ticket-7",
	"ab", "k100", "mavl-coins-bty-exec-16ht:1AbC", "a1", "z", "b0000000002", "mavl-ticket-70", "k1-", "aa", "m",
	"mavl-coins-bty-1AbC0000000003", "k9", "c", "ba", "mavl-manage-x", "a00", "y9", "mavl-ticket-700", "d", "k0000000010"}

var alphabet = []string{"a", "b", "c"}

// Gen draws one history.  All validity constraints are enforced by construction against the model.
func Gen(t *rapid.T, o GenOpt) Case {
	c := Case{
		PH:   rapid.SampledFrom([]int32{1, 2, 2, 3, 3, 5, 10}).Draw(t, "pruneHeight"),
		Mode: rapid.SampledFrom(o.Modes).Draw(t, "mode"),
		DB:   "leveldb", // the in-memory backend is not usable: its batch reports "not found" for deletes of absent keys
	}
	pool := keyPool[:rapid.IntRange(6, len(keyPool)).Draw(t, "nkeys")]
	s := newSim(c.PH, c.Mode)
	s.gen = true
	uniq := 0
	nops := rapid.IntRange(6, o.MaxOps).Draw(t, "nops")
	kinds := []string{"commit", "commit", "commit", "commit", "commit", "commit", "empty", "rollback", "rollback", "prune", "prune", "prune", "discard"}
	if o.Jumps && rapid.IntRange(0, 9).Draw(t, "jumps") < 3 {
		kinds = append(kinds, "jump")
	}
	genBatch := func() []KV {
		cur := s.cur()
		var existing []string
		for _, k := range pool {
			if _, ok := cur[k]; ok {
				existing = append(existing, k)
			}
		}
		randKV := func() KV {
			return KV{rapid.SampledFrom(pool).Draw(t, "key"), rapid.SampledFrom(alphabet).Draw(t, "val")}
		}
		var kvs []KV
		style := rapid.SampledFrom([]string{"rand", "rand", "rand", "unchanged", "flipback", "abandoned"}).Draw(t, "style")
		switch {
		case len(s.chain) == 0: // genesis: several distinct keys
			n := rapid.IntRange(1, 6).Draw(t, "ngenesis")
			if n == 1 && o.AvoidLeaf {
				n = 2
				lib.ExcludedKnown(FindLeaf)
			}
			for _, k := range pool[:n] {
				kvs = append(kvs, KV{k, rapid.SampledFrom(alphabet).Draw(t, "val")})
			}
		case style == "abandoned" && len(s.dirty[s.tip+1]) > 0: // the same batch as the abandoned block of that height
			es := s.dirty[s.tip+1]
			kvs = append(kvs, es[len(es)-1].batch...)
		case style == "unchanged" && len(existing) > 0: // rewrite keys with their current values (+ maybe one change)
			for i, n := 0, rapid.IntRange(1, 3).Draw(t, "nsame"); i < n; i++ {
				k := rapid.SampledFrom(existing).Draw(t, "samekey")
				kvs = append(kvs, KV{k, cur[k]})
			}
			if rapid.Bool().Draw(t, "plusone") {
				kvs = append(kvs, randKV())
			}
		case style == "flipback" && len(s.prev) > 0: // a key returns to the value it had before
			var ks []string
			for _, k := range pool {
				if _, ok := s.prev[k]; ok {
					ks = append(ks, k)
				}
			}
			k := rapid.SampledFrom(ks).Draw(t, "flipkey")
			kvs = append(kvs, KV{k, s.prev[k]})
		default:
			for i, n := 0, rapid.IntRange(1, 4).Draw(t, "nkv"); i < n; i++ {
				kvs = append(kvs, randKV())
			}
		}
		if o.AvoidRoot && s.recurs(s.tip+1, applyBatch(cur, kvs)) {
			// known finding FindRoot: make the whole-state content new by giving the last write a value never used
			uniq++
			kvs[len(kvs)-1].V = fmt.Sprintf("u%d", uniq)
			lib.ExcludedKnown(FindRoot)
		}
		return kvs
	}
	for len(c.Ops) < nops {
		kind := "commit"
		if len(s.chain) > 0 {
			kind = rapid.SampledFrom(kinds).Draw(t, "kind")
		}
		var op Op
		switch kind {
		case "empty", "jump":
			n := int64(rapid.SampledFrom([]int{1, 1, 2, 3, int(c.PH), int(c.PH) + 1}).Draw(t, "nempty"))
			if kind == "jump" {
				n = rapid.SampledFrom([]int64{500000, 1000000, 1500000}).Draw(t, "jump") + int64(rapid.IntRange(-3, 3).Draw(t, "jitter"))
			}
			if o.AvoidStale {
				// known finding FindStale: a block without state change must not pass an abandoned height
				clipped := false
				for h := range s.dirty {
					if h > s.tip && h <= s.tip+n {
						n, clipped = h-s.tip-1, true
					}
				}
				if clipped {
					lib.ExcludedKnown(FindStale)
				}
			}
			if n >= 1 {
				op = Op{Op: "empty", N: n}
			} else {
				op = Op{Op: "commit", KV: genBatch()}
			}
		case "rollback":
			lo, hi := s.floor+1, s.tip-1
			if lo < 0 {
				lo = 0
			}
			if lo > hi {
				op = Op{Op: "commit", KV: genBatch()}
				break
			}
			// mostly shallow, sometimes as deep as the promise of readable states allows
			depth := int64(rapid.IntRange(1, 4).Draw(t, "depth"))
			if depth > s.tip-lo {
				depth = s.tip - lo
			}
			if s.tip-lo <= 12 && rapid.IntRange(0, 4).Draw(t, "deep") == 0 {
				depth = int64(rapid.IntRange(1, int(s.tip-lo)).Draw(t, "deepdepth"))
			}
			op = Op{Op: "rollback", To: s.tip - depth}
			if c.Mode == "bg" {
				// reorganisation across a height at which the store's trigger fires: go back below the last
				// multiple of pruneHeight (>= 2*pruneHeight) so that the new fork re-commits it, usually while
				// still shorter than the abandoned one
				if t0 := s.tip / s.ph * s.ph; t0 >= 2*s.ph && lo <= t0-1 && rapid.Bool().Draw(t, "crossTrigger") {
					op.To = int64(rapid.IntRange(int(lo), int(t0-1)).Draw(t, "crossTo"))
				}
			}
		case "prune":
			if c.Mode != "sync" {
				op = Op{Op: "commit", KV: genBatch()}
				break
			}
			op = Op{Op: "prune"}
		case "discard":
			op = Op{Op: "discard", KV: genBatch()}
		default:
			op = Op{Op: "commit", KV: genBatch()}
		}
		if !s.valid(op) {
			panic(fmt.Sprintf("generator produced an invalid op %+v", op))
		}
		s.apply(op)
		c.Ops = append(c.Ops, op)
	}
	return c
}

// ------------------------------------------------------------------------------------------------- oracle

// Zero is the parent "state hash" of the genesis block.
var Zero = make([]byte, 32)

func isIndexKey(k string) bool {
	return strings.HasPrefix(k, "..mk..") || strings.HasPrefix(k, "..mok..")
}

// Run executes the history against the backend, checks the oracle after every commit and prune run, records
// the class counters, and returns whether the case is non-trivial by the stated rule: >= 1 prune run that
// deleted >= 1 node record, in a history with >= 1 re-commit after a rollback or >= 1 write giving a key a
// value it already held at an earlier commit.
func Run(tb lib.TB, test string, c Case, be Backend) bool {
	tb.Helper()
	s := newSim(c.PH, c.Mode)
	var prunedNodes, prunes, recommits, leafRec, rollbacks, empties, bgPruneOnRecommit int
	fail := func(i int, format string, a ...interface{}) {
		cc := c
		cc.Ops = c.Ops[:i+1]
		lib.Violation(tb, Prop, test, cc, "op %d (%s): %s", i, c.Ops[i].Op, fmt.Sprintf(format, a...))
	}
	check := func(i int) {
		for _, e := range s.required() {
			keys := make([]string, 0, len(e.content))
			for k := range e.content {
				keys = append(keys, k)
			}
			sort.Strings(keys)
			vals, failure := be.Read(e.root, keys)
			if failure != "" {
				fail(i, "the state of heights %d..%d (root %x), required because tip=%d and no prune run licensed dropping heights above %d (pruneHeight=%d), is unreadable: %s", e.h, e.upto, e.root, s.tip, s.floor, c.PH, failure)
			}
			for j, k := range keys {
				if vals[j] != e.content[k] {
					fail(i, "the state of heights %d..%d (root %x): key %q reads %q, committed value %q (tip=%d, heights above %d promised readable)", e.h, e.upto, e.root, k, vals[j], e.content[k], s.tip, s.floor)
				}
			}
		}
	}
	deleted := func(before []string) int {
		now := map[string]bool{}
		for _, k := range be.Keys() {
			now[k] = true
		}
		n := 0
		for _, k := range before {
			if !now[k] && !isIndexKey(k) {
				n++
			}
		}
		return n
	}
	parent := func() []byte {
		if len(s.chain) == 0 {
			return Zero
		}
		return s.chain[len(s.chain)-1].root
	}
	for i, o := range c.Ops {
		if !s.valid(o) {
			// hand-written cases, or a store that pruned where the generator did not expect it: the rest of the
			// history was generated for another model state, so it is not executed
			lib.Class("history_cut_at_invalid_op")
			break
		}
		switch o.Op {
		case "commit":
			var before []string
			if c.Mode == "bg" {
				before = be.Keys()
			}
			root, err := be.Commit(parent(), s.tip+1, o.KV)
			if _, ok := err.(*CleanupPanic); ok {
				lib.Class("recommit_cleanup_panicked")
				lib.Class("recommit_cleanup_panicked_" + c.Mode)
				return false
			}
			if err != nil || len(root) == 0 {
				fail(i, "commit at height %d failed: %v", s.tip+1, err)
			}
			inf := s.apply(o)
			s.chain[len(s.chain)-1].root = root
			if inf.recommit {
				recommits++
				if inf.equalAbandoned {
					lib.Class("recommit_equal_batch")
				} else {
					lib.Class("recommit_other_batch")
				}
			}
			if inf.leafRec {
				leafRec++
			}
			if inf.recurs {
				lib.Class("whole_state_recurs")
			}
			if c.Mode == "bg" {
				if n := deleted(before); n > 0 {
					// node records disappeared during this commit: the store's own trigger ran a prune while the
					// tip was this height, which licenses tip-PH and not a height of any abandoned fork
					s.pruned(s.tip)
					prunedNodes += n
					prunes++
					if inf.belowTop {
						bgPruneOnRecommit++
					}
				}
			}
			check(i)
		case "discard":
			be.Discard(parent(), s.tip+1, o.KV)
		case "empty":
			be.Empty(parent(), s.tip+1, o.N)
			if s.apply(o).staleEmpty {
				lib.Class("empty_block_at_abandoned_height")
			}
			empties++
		case "rollback":
			s.apply(o)
			rollbacks++
		case "prune":
			before := be.Keys()
			be.Prune(s.tip)
			s.apply(o)
			prunes++
			prunedNodes += deleted(before)
			check(i)
		}
	}
	// classes (per history)
	lib.Class("mode_" + c.Mode)
	lib.Class(fmt.Sprintf("pruneHeight_%d", c.PH))
	lib.Class("db_" + c.DB)
	cls := func(b bool, l string) {
		if b {
			lib.Class(l)
		}
	}
	cls(rollbacks > 0, "has_rollback")
	cls(recommits > 0, "has_recommit")
	cls(empties > 0, "has_empty_blocks")
	cls(leafRec > 0, "has_leaf_value_recurrence")
	cls(prunedNodes > 0, "prune_deleted_nodes")
	cls(bgPruneOnRecommit > 0, "bg_prune_ran_on_recommit_below_old_top")
	cls(s.tip >= 1000000, "beyond_second_level_threshold")
	cls(s.tip >= 3000000, "beyond_third_level_threshold")
	for _, k := range be.Keys() {
		if strings.HasPrefix(k, "..mok..") {
			lib.Class("second_level_index_present")
			break
		}
	}
	for _, k := range be.Keys() {
		if k == "_..mslphk.._" {
			lib.Class("second_level_prune_ran")
			break
		}
	}
	return prunedNodes > 0 && (recommits > 0 || leafRec > 0)
}

// ------------------------------------------------------------------------------- pinned known-finding cases

// Evaluate runs a fixed case and returns the first oracle failure ("" when the property held).
func Evaluate(test string, c Case, be Backend) (violation string) {
	rec := &recorder{}
	defer func() {
		if r := recover(); r != nil {
			if r != interface{}(rec) {
				panic(r)
			}
			violation = strings.TrimSpace(rec.msg)
			if i := strings.Index(violation, ": "); strings.HasPrefix(violation, "VERIF-VIOLATION") && i > 0 {
				violation = violation[i+2:]
			}
		}
	}()
	Run(rec, test, c, be)
	return ""
}

type recorder struct{ msg string }

func (r *recorder) Helper() {}
func (r *recorder) Fatalf(format string, a ...interface{}) {
	r.msg = fmt.Sprintf(format, a...)
	panic(r)
}

// PinnedRoot: two blocks rewrite a key with its current value, so three heights share one whole-state
// content and therefore one (un-prefixed) root record; pruning the oldest leaf version deletes that record.
var PinnedRoot = Case{PH: 1, Mode: "sync", DB: "leveldb", Ops: []Op{
	{Op: "commit", KV: []KV{{"k", "a"}, {"j", "a"}}},
	{Op: "commit", KV: []KV{{"k", "a"}}},
	{Op: "commit", KV: []KV{{"k", "a"}}},
	{Op: "prune"},
}}

// WhatRoot describes finding FindRoot.
const WhatRoot = "pruning deletes the tip's root record when an earlier height had the same whole-state content: the root record is stored without height prefix, is shared by both heights, and is listed among the parents of the older leaf versions that the prune run removes"

// PinnedStale: height 2 of an abandoned branch wrote k; after the reorganisation the new branch has no state
// change at height 2, so the abandoned pruning-index entry of k survives and outranks k's live version.
var PinnedStale = Case{PH: 1, Mode: "sync", DB: "leveldb", Ops: []Op{
	{Op: "commit", KV: []KV{{"k", "a"}, {"j", "a"}, {"m", "a"}}},
	{Op: "commit", KV: []KV{{"j", "b"}}},
	{Op: "commit", KV: []KV{{"k", "b"}}},
	{Op: "rollback", To: 1},
	{Op: "empty", N: 1},
	{Op: "commit", KV: []KV{{"m", "b"}}},
	{Op: "prune"},
}}

// WhatStale describes finding FindStale.
const WhatStale = "after a reorganisation whose new branch has no state change at a height the abandoned branch had written, the abandoned branch's pruning-index entries of that height are never removed (DelLeafCountKV only runs from Tree.Save at that height); the next prune run takes the abandoned leaf for the newest version and deletes the key's live leaf and its parents"

// PinnedLeaf: a single-key genesis state is one un-prefixed root leaf; the abandoned block at height 1 rewrites
// that key (again a root leaf), and the re-commit of height 1 cannot find that leaf when it cleans the index.
var PinnedLeaf = Case{PH: 1, Mode: "sync", DB: "leveldb", Ops: []Op{
	{Op: "commit", KV: []KV{{"a", "a"}}},
	{Op: "commit", KV: []KV{{"a", "b"}}},
	{Op: "rollback", To: 0},
	{Op: "commit", KV: []KV{{"j", "a"}}},
	{Op: "commit", KV: []KV{{"j", "b"}}},
	{Op: "prune"},
}}

// WhatLeaf describes finding FindLeaf.
const WhatLeaf = "when an abandoned block's state consists of a single key its only leaf is the un-prefixed root; the index cleanup of a re-commit (RemoveLeafCountKey) only looks at leaves stored under the _mb_-<height>- prefix, so that leaf's pruning-index entry survives and the next prune run deletes the key's live leaf"
