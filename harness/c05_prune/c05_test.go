// C05 black-box unit: the generated histories of verifharness/c05_prune/model against the real mavl Store
// (MemSet / Commit / Rollback / Get, i.e. the calls the store's message loop makes for a block) and the
// exported mavl/db.PruningTree.
//
// Process-global pruning state and how this unit keeps it from causing false alarms:
//   - the Store is configured with pruneHeight 2^30, so Tree.Save's background trigger
//     (height % pruneHeight == 0 && height / pruneHeight > 1) can never fire for the generated heights; prune
//     runs are the generated synchronous PruningTree calls with the history's small interval (the commit path
//     does not read PruneHeight, only the trigger and the prune routine do);
//   - Store.Close is never called: it calls ClosePrune, which sets the package's `quit` flag for good and
//     would turn every later prune run in this process into a no-op; the database handle is closed directly;
//   - `maxBlockHeight` cannot be reset from outside the package: after the first history every commit is
//     treated as a re-commit (extra, empty index clean-up scans; same database contents otherwise).  The
//     first-commit / re-commit distinction and the background trigger are exercised by the white-box unit;
//   - no height jumps here (secLvlPruningH is another sticky global); they are in the white-box unit.
package c05

import (
	"fmt"
	"os"
	"path/filepath"
	"testing"

	dbm "github.com/33cn/chain33/common/db"
	l15 "github.com/33cn/chain33/common/log/log15"
	"github.com/33cn/chain33/system/store/mavl"
	mavldb "github.com/33cn/chain33/system/store/mavl/db"
	"github.com/33cn/chain33/types"
	lru "github.com/hashicorp/golang-lru"
	"pgregory.net/rapid"
	"verifharness/c05_prune/model"
	"verifharness/lib"
)

func TestMain(m *testing.M) {
	l15.Root().SetHandler(l15.DiscardHandler())
	lib.Main(m)
}

// noCache hides the node cache: a read through it sees what is persisted (what a restarted node reads).
type noCache struct{ dbm.DB }

func (noCache) GetCache() *lru.ARCCache { return nil }

// noSync makes the prune routine's batches non-fsync batches (durability is not the subject; ~10 ms each on disk).
type noSync struct{ dbm.DB }

func (d noSync) NewBatch(bool) dbm.Batch { return d.DB.NewBatch(false) }

type storeBackend struct {
	s   *mavl.Store
	cfg *mavldb.TreeConfig // what the prune runs and the cache-free reads use
	dir string
}

var seq int

func newStore(c model.Case) *storeBackend {
	base := os.Getenv("C05_DBDIR") // optional tmpfs directory; falls back to the run's scratch dir
	if st, err := os.Stat(base); base == "" || err != nil || !st.IsDir() {
		if base = os.Getenv("VERIF_WORK"); base == "" {
			base = os.TempDir()
		}
	}
	seq++
	dir := filepath.Join(base, fmt.Sprintf("c05bb-%d-%d", os.Getpid(), seq))
	sub := []byte(`{"enableMavlPrune":true,"pruneHeight":1073741824}`)
	s := mavl.New(&types.Store{Name: "mavl", Driver: "leveldb", DbPath: dir, DbCache: 16}, sub, nil).(*mavl.Store)
	return &storeBackend{s: s, dir: dir, cfg: &mavldb.TreeConfig{EnableMavlPrefix: true, EnableMavlPrune: true, PruneHeight: c.PH}}
}

func (b *storeBackend) Close() {
	b.s.GetDB().Close()
	os.RemoveAll(b.dir)
}

func toKV(kvs []model.KV) (out []*types.KeyValue) {
	for _, kv := range kvs {
		out = append(out, &types.KeyValue{Key: []byte(kv.K), Value: []byte(kv.V)})
	}
	return
}

func (b *storeBackend) Commit(parent []byte, height int64, kvs []model.KV) (root []byte, err error) {
	defer func() {
		if r := recover(); r != nil {
			root, err = nil, model.ClassifyCommitPanic(r)
		}
	}()
	hash, err := b.s.MemSet(&types.StoreSet{StateHash: parent, KV: toKV(kvs), Height: height}, false)
	if err != nil {
		return nil, err
	}
	if _, err = b.s.Commit(&types.ReqHash{Hash: hash}); err != nil {
		return nil, err
	}
	return hash, nil
}

func (b *storeBackend) Discard(parent []byte, height int64, kvs []model.KV) {
	if hash, err := b.s.MemSet(&types.StoreSet{StateHash: parent, KV: toKV(kvs), Height: height}, false); err == nil {
		b.s.Rollback(&types.ReqHash{Hash: hash})
	}
}

func (b *storeBackend) Empty(parent []byte, from, n int64) {
	for h := from; h < from+n && h < from+8; h++ { // the store's own path for a block without state change
		if hash, err := b.s.MemSet(&types.StoreSet{StateHash: parent, Height: h}, false); err == nil {
			b.s.Commit(&types.ReqHash{Hash: hash})
		}
	}
}

func (b *storeBackend) Prune(cur int64) { mavldb.PruningTree(noSync{b.s.GetDB()}, cur, b.cfg) }

func (b *storeBackend) Read(root []byte, keys []string) (vals []string, failure string) {
	ks := make([][]byte, len(keys))
	for i, k := range keys {
		ks[i] = []byte(k)
	}
	read := func(how string, get func() ([][]byte, error)) (out []string, failure string) {
		defer func() {
			if r := recover(); r != nil {
				failure = fmt.Sprintf("%s: panic: %v", how, r)
			}
		}()
		got, err := get()
		if err != nil {
			return nil, fmt.Sprintf("%s: loading the root: %v", how, err)
		}
		for _, v := range got {
			out = append(out, string(v))
		}
		return out, ""
	}
	vals, failure = read("Store.Get", func() ([][]byte, error) {
		return b.s.Get(&types.StoreGet{StateHash: root, Keys: ks}), nil
	})
	if failure != "" {
		return
	}
	direct, failure := read("GetKVPair without node cache (what a restarted node reads)", func() ([][]byte, error) {
		return mavldb.GetKVPair(noCache{b.s.GetDB()}, &types.StoreGet{StateHash: root, Keys: ks}, b.cfg)
	})
	if failure != "" {
		return nil, failure
	}
	for i := range direct {
		if direct[i] != vals[i] {
			return nil, fmt.Sprintf("key %q reads %q through Store.Get and %q from the database", keys[i], vals[i], direct[i])
		}
	}
	return vals, ""
}

func (b *storeBackend) Keys() (out []string) {
	it := b.s.GetDB().Iterator(nil, types.EmptyValue, false)
	defer it.Close()
	for it.Rewind(); it.Valid(); it.Next() {
		out = append(out, string(it.Key()))
	}
	return
}

func TestPropStorePruneKeepsLiveState(t *testing.T) {
	defer lib.Flush()
	opt := model.GenOpt{Modes: []string{"sync"}, Jumps: false, MaxOps: 40,
		AvoidRoot: lib.Known(model.FindRoot), AvoidStale: lib.Known(model.FindStale), AvoidLeaf: lib.Known(model.FindLeaf)}
	rapid.Check(t, func(t *rapid.T) {
		c := model.Gen(t, opt)
		lib.Eval()
		be := newStore(c)
		defer be.Close()
		if model.Run(t, "TestPropStorePruneKeepsLiveState", c, be) {
			lib.NonTrivialCase(c)
		}
	})
}

func pinned(t *testing.T, test, id, what string, c model.Case) {
	be := newStore(c)
	defer be.Close()
	if msg := model.Evaluate(test, c, be); msg != "" {
		if !lib.Known(id) {
			what += " [" + msg + "]"
		}
		lib.KnownOrViolation(t, model.Prop, test, id, c, what)
	}
}

func TestKnown_SharedRootRecord(t *testing.T) {
	pinned(t, "TestKnown_SharedRootRecord", model.FindRoot, model.WhatRoot, model.PinnedRoot)
}

func TestKnown_StaleIndexEmptyRecommit(t *testing.T) {
	pinned(t, "TestKnown_StaleIndexEmptyRecommit", model.FindStale, model.WhatStale, model.PinnedStale)
}

func TestKnown_RootLeafIndexNotCleaned(t *testing.T) {
	pinned(t, "TestKnown_RootLeafIndexNotCleaned", model.FindLeaf, model.WhatLeaf, model.PinnedLeaf)
}
