package c31

import (
	"fmt"
	"testing"

	"github.com/33cn/chain33/types"
	"verifharness/lib"
)

// Pinned minimal cases of the genuine findings (plain tests, no generation).  Each rebuilds the case, evaluates the
// pool oracle "a transaction touching a blocked account is not admitted" and reports through lib.KnownOrViolation.

// pinnedPool delivers one item to node 1 (main chain, pool far below the fork, exec check off) with the blacklist
// installed and says whether the pool took it; the pool is left as it was.
func pinnedPool(spec itemSpec, blockedAcct spelled) (admitted bool, n *node, it *built) {
	n = getNode(false, 1)
	it = n.w.buildItem(spec, map[who]bool{blockedAcct.who: true})
	setBlacklist([]spelled{blockedAcct})
	defer types.SetBlockedAccountsForTest(nil)
	switch spec.Route {
	case rReorg:
		blk := &types.Block{Height: n.height, BlockTime: n.btime, Txs: it.expanded}
		cli := n.mock.GetClient()
		if err := cli.Send(cli.NewMessage("mempool", types.EventDelBlock, &types.BlockDetail{Block: blk}), false); err != nil {
			lib.Inconclusive("EventDelBlock: %v", err)
		}
		l, err := n.mock.GetAPI().GetMempool(&types.ReqGetMempool{IsAll: true})
		if err != nil {
			lib.Inconclusive("GetMempool: %v", err)
		}
		for _, tx := range l.GetTxs() {
			admitted = admitted || string(tx.Hash()) == string(it.pool.Hash())
		}
	default:
		_, err := n.mock.GetAPI().SendTx(it.pool)
		admitted = err == nil
	}
	if admitted {
		_ = n.mock.GetAPI().RemoveTxsByHashList(&types.TxHashList{Hashes: [][]byte{it.pool.Hash()}})
	}
	return
}

// TestKnown_PoolProxyInnerRecipient: a proxy-exec transaction (evm executor, To = proxyExecAddress, secp256k1eth
// signature) whose inner coins transfer pays a blocked account is admitted by the mempool, although the executor
// unwraps exactly this transaction and applies the rule to the inner one (executor/execenv.go execTx).
func TestKnown_PoolProxyInnerRecipient(t *testing.T) {
	defer lib.Flush()
	lib.Eval()
	blockedAcct := spelled{who: who{K: 1}}
	spec := itemSpec{Route: rTx, Txs: []txShape{{Kind: kProxy, S: who{K: 0, Eth: true}, R: &blockedAcct}}}
	admitted, n, _ := pinnedPool(spec, blockedAcct)
	if admitted {
		lib.KnownOrViolation(t, prop, "TestKnown_PoolProxyInnerRecipient", kfProxyPool,
			map[string]interface{}{"node": n.nodeCfg, "pool_height": n.height, "blocked": blockedAcct.String(), "item": spec},
			fmt.Sprintf("mempool (height %d, ForkAccountBlacklist %d, disableExecCheck=true) admits a proxy-exec transaction whose inner coins transfer pays blocked account %s: CheckTxBlockedAccountImmediate inspects only the outer evm transaction (From, To = proxy address, ContractAddr, Para is not 20 bytes)", n.height, n.ForkH, blockedAcct.String()))
	}
}

// TestKnown_PoolReorgReadmit: when the tip block is disconnected (EventDelBlock) its transactions are pushed back
// into the pool by Mempool.delBlock without the blacklist check that EventTx applies.
func TestKnown_PoolReorgReadmit(t *testing.T) {
	defer lib.Flush()
	lib.Eval()
	blockedAcct := spelled{who: who{K: 2}}
	spec := itemSpec{Route: rReorg, Txs: []txShape{{Kind: kTransfer, S: who{K: 1}, R: &blockedAcct}}}
	admitted, n, _ := pinnedPool(spec, blockedAcct)
	if admitted {
		lib.KnownOrViolation(t, prop, "TestKnown_PoolReorgReadmit", kfReorg,
			map[string]interface{}{"node": n.nodeCfg, "pool_height": n.height, "blocked": blockedAcct.String(), "item": spec},
			fmt.Sprintf("after EventDelBlock of the tip block (height %d, below ForkAccountBlacklist %d) the pool holds its coins transfer to blocked account %s, which EventTx refuses with ErrBlockedAccount: Mempool.delBlock re-adds transactions with tx.Check and the expiry check only", n.height, n.ForkH, blockedAcct.String()))
	}
}
