// C31: blacklisted accounts cannot transact.
//
// Executor level (heights >= ForkAccountBlacklist): no transaction that touches a blocked account -- as sender, To,
// real recipient (para-chain coins payload), EVM contract address or 20-byte EVM Para, directly, as any member of a
// group, or as the inner transaction of a proxy-exec transaction -- may come back from EventExecTxList with an
// ExecOk receipt.  Pool level (any height): EventTx and EventAddDelayTx must answer such a transaction / group /
// delayed transaction with an error.  "Touches" is decided by the harness from the way the case was built: every
// address position is filled from a table of accounts and the blacklist is a set of those accounts, entered and used
// in any spelling the address drivers accept.
//
// Fixture: real in-process nodes (util/testnode), started once per process for a set of (fork height, mempool
// exec-check) configurations, accounts funded in block 1, mining then stopped so that chain height and state never
// change; the executor is driven through util.ExecTx (stateless: nothing is committed), the pool through the
// queue API.  Process-global state: the blacklist is installed per step with types.SetBlockedAccountsForTest and
// cleared right after; transactions admitted to a pool by the differential "witness" step are removed again.
package c31

import (
	"bytes"
	"fmt"
	"strings"
	"sync/atomic"
	"testing"
	"time"

	"github.com/33cn/chain33/common"
	"github.com/33cn/chain33/common/address"
	"github.com/33cn/chain33/common/crypto"
	"github.com/33cn/chain33/common/log/log15"
	_ "github.com/33cn/chain33/system"
	cty "github.com/33cn/chain33/system/dapp/coins/types"
	"github.com/33cn/chain33/types"
	"github.com/33cn/chain33/util"
	"github.com/33cn/chain33/util/testnode"
	"pgregory.net/rapid"
	"verifharness/lib"
)

const prop = "C31"

const (
	kfProxyPool  = "C31-pool-proxy-inner-recipient"
	kfDelayGroup = "C31-delay-group-member"
	kfReorg      = "C31-pool-reorg-readmit"
)

func TestMain(m *testing.M) {
	log15.Root().SetHandler(log15.DiscardHandler())
	// what the evm plugin's init does in a full build: without it every "evm" transaction is refused as
	// ErrExecNameNotAllow before the blacklist is consulted and the EVM positions could never be ExecOk
	types.AllowUserExec = append(types.AllowUserExec, []byte("evm"))
	lib.Main(m)
}

// ---------------------------------------------------------------------------------------------------------
// accounts, address forms and spellings

const nKeys = 6

// throwaway names the unfunded extra key (either address form).
func (w who) throwaway() bool { return w.K == nKeys }

type acct struct {
	priv    crypto.PrivKey // secp256k1
	privEth crypto.PrivKey // same scalar under the secp256k1eth driver (proxy-exec transactions)
	btc     string         // address id 0 (base58)
	eth     string         // address id 2 ("0x" + 40 lower-case hex digits)
}

var accts = func() []acct {
	c, err := crypto.Load("secp256k1", -1)
	if err != nil {
		panic(err)
	}
	ce, err := crypto.Load("secp256k1eth", -1)
	if err != nil {
		panic(err)
	}
	out := make([]acct, nKeys+1) // the last one is a throwaway key that is never funded (and never blocked)
	for i := range out {
		b := bytes.Repeat([]byte{byte(0x21 + i)}, 32)
		p, err := c.PrivKeyFromBytes(b)
		if err != nil {
			panic(err)
		}
		pe, err := ce.PrivKeyFromBytes(b)
		if err != nil {
			panic(err)
		}
		pub := p.PubKey().Bytes()
		out[i] = acct{priv: p, privEth: pe, btc: address.PubKeyToAddr(0, pub), eth: address.PubKeyToAddr(2, pub)}
	}
	return out
}()

var (
	signBtc   = int32(types.SECP256K1)
	signEth   = types.EncodeSignID(types.SECP256K1, 2)
	signProxy = types.EncodeSignID(types.SECP256K1ETH, 2)
)

// who is one ledger account: key K in its base58 (Eth=false) or eth (Eth=true) form.
type who struct {
	K   int  `json:"k"`
	Eth bool `json:"eth,omitempty"`
}

func (w who) canonical() string {
	if w.Eth {
		return accts[w.K].eth
	}
	return accts[w.K].btc
}

// raw20 is the 20-byte value an EVM transfer carries in Para.
func (w who) raw20() []byte {
	if w.Eth {
		b, _ := common.FromHex(accts[w.K].eth)
		return b
	}
	a, err := address.NewBtcAddress(accts[w.K].btc)
	if err != nil {
		panic(err)
	}
	return a.Hash160[:]
}

// spelled is an account written in one of the spellings its address driver validates.  base58 has one spelling;
// the eth driver (go-ethereum IsHexAddress) accepts any letter case, "0x"/"0X" or no prefix.
type spelled struct {
	who
	Sp   int    `json:"sp,omitempty"`   // 0 canonical, 1 0x+UPPER, 2 0X+UPPER, 3 0X+lower, 4 no prefix lower, 5 no prefix UPPER, 6 0x+mixed
	Mask uint64 `json:"mask,omitempty"` // letter-case mask for spelling 6
}

func (s spelled) String() string {
	c := s.canonical()
	if !s.Eth {
		return c
	}
	hex := c[2:]
	switch s.Sp {
	case 1:
		return "0x" + strings.ToUpper(hex)
	case 2:
		return "0X" + strings.ToUpper(hex)
	case 3:
		return "0X" + hex
	case 4:
		return hex
	case 5:
		return strings.ToUpper(hex)
	case 6:
		b := []byte(hex)
		for i := range b {
			if s.Mask>>(uint(i)%64)&1 == 1 {
				b[i] = byte(strings.ToUpper(string(b[i]))[0])
			}
		}
		return "0x" + string(b)
	}
	return c
}

func (s spelled) nonCanonical() bool { return s.Eth && s.String() != s.canonical() }

// ---------------------------------------------------------------------------------------------------------
// transaction shapes

// Kinds.  The account in R sits in the position named after the arrow.
const (
	kTransfer = "transfer" // coins Transfer                          -> To (main chain) / payload To = real recipient (para chain)
	kToExec   = "toexec"   // coins TransferToExec to the none executor   (only the sender can touch)
	kNone     = "none"     // notary transaction to the none executor     (only the sender can touch)
	kNoneTo   = "noneTo"   // notary transaction with an account in To -> To   (executor only: the pool requires To = executor address)
	kEvmCall  = "evmCall"  // evm action                               -> ContractAddr
	kEvmPara  = "evmPara"  // evm plain transfer                       -> 20-byte Para
	kProxy    = "proxy"    // proxy-exec: evm transaction to the proxy address whose Para is an encoded coins Transfer -> inner To
)

type txShape struct {
	Kind    string   `json:"kind"`
	S       who      `json:"s"`                  // sender
	R       *spelled `json:"r,omitempty"`        // the other account, where the kind has one
	EvmUser bool     `json:"evm_user,omitempty"` // evm kinds: executor name "user.evm.vf" (a user-named evm contract) instead of "evm"
	// Positions that live only in the payload (para-chain real recipient, EVM ContractAddr, EVM Para): what tx.To holds.
	// The para coins executor pays GetRealToAddr() and the EVM target comes from the payload whatever tx.To says, and
	// neither the executor framework nor the coins driver ties tx.To to the payload, so all of these are packed.
	ToMode string   `json:"to_mode,omitempty"` // "" the executor's own contract address, "acct" an ordinary account (ToAcct), "otherExec" another executor's address, "same" the account of R again
	ToAcct *spelled `json:"to_acct,omitempty"`
}

const (
	toExec      = ""
	toAcct      = "acct"
	toOtherExec = "otherExec"
	toSame      = "same"
)

// payloadLocated: the account in R is carried by the payload only (tx.To is free).
func payloadLocated(kind string, para bool) bool {
	return kind == kEvmCall || kind == kEvmPara || para && (kind == kTransfer || kind == kProxy)
}

func (sh txShape) hasR() bool { return sh.Kind != kToExec && sh.Kind != kNone }

type itemSpec struct {
	Txs   []txShape `json:"txs"`   // 1 = single, 2..4 = group
	Route string    `json:"route"` // how the pool meets it: "tx" EventTx, "delay" EventAddDelayTx, "reorg" EventDelBlock of a block holding it
}

const (
	rTx    = "tx"
	rDelay = "delay"
	rReorg = "reorg"
)

var nonceCtr int64 // unique nonce per built transaction: chain33's delay cache and dup checks are process-global

type world struct {
	cfg  *types.Chain33Config
	para bool
}

func (w *world) execer(name string) string { return w.cfg.ExecName(name) }

// toFor is tx.To of a transaction whose account position is in the payload.
func (w *world) toFor(sh txShape, execer string) string {
	switch sh.ToMode {
	case toAcct:
		return sh.ToAcct.String()
	case toOtherExec:
		return address.ExecAddress(w.execer("none"))
	case toSame:
		return sh.R.String()
	}
	return address.ExecAddress(execer)
}

func (w *world) build(sh txShape) *types.Transaction {
	cfg := w.cfg
	tx := &types.Transaction{Fee: 1e6, Nonce: atomic.AddInt64(&nonceCtr, 1), ChainID: cfg.GetChainID()}
	r := ""
	if sh.R != nil {
		r = sh.R.String()
	}
	coins := func(to string) []byte {
		return types.Encode(&cty.CoinsAction{Ty: cty.CoinsActionTransfer, Value: &cty.CoinsAction_Transfer{Transfer: &types.AssetsTransfer{Amount: 10000, To: to}}})
	}
	switch sh.Kind {
	case kTransfer:
		tx.Execer = []byte(w.execer("coins"))
		tx.Payload = coins(r)
		tx.To = r
		if w.para { // para chain: the recipient is only in the payload, To is normally the executor address
			tx.To = w.toFor(sh, string(tx.Execer))
		}
	case kToExec:
		tx.Execer = []byte(w.execer("coins"))
		none := w.execer("none")
		tx.Payload = types.Encode(&cty.CoinsAction{Ty: cty.CoinsActionTransferToExec, Value: &cty.CoinsAction_TransferToExec{
			TransferToExec: &types.AssetsTransferToExec{Amount: 10000, ExecName: none, To: address.ExecAddress(none)}}})
		tx.To = address.ExecAddress(none)
	case kNone, kNoneTo:
		tx.Execer = []byte(w.execer("none"))
		tx.Payload = []byte(fmt.Sprintf("note-%d", tx.Nonce))
		tx.To = address.ExecAddress(string(tx.Execer))
		if sh.Kind == kNoneTo {
			tx.To = r
		}
	case kEvmCall:
		tx.Execer = []byte(w.execer(evmName(sh)))
		tx.Payload = types.Encode(&types.EVMContractAction4Chain33{GasLimit: 100000, GasPrice: 1, Para: []byte("calldata-not-20-bytes-long"), ContractAddr: r})
		tx.To = w.toFor(sh, string(tx.Execer))
	case kEvmPara:
		tx.Execer = []byte(w.execer(evmName(sh)))
		tx.Payload = types.Encode(&types.EVMContractAction4Chain33{Amount: 1, GasLimit: 100000, GasPrice: 1, Para: sh.R.raw20(), ContractAddr: address.ExecAddress(string(tx.Execer))})
		tx.To = w.toFor(sh, string(tx.Execer))
	case kProxy:
		inner := &types.Transaction{Execer: []byte(w.execer("coins")), Payload: coins(r), To: r, Fee: 1e6, Nonce: tx.Nonce, ChainID: cfg.GetChainID()}
		if w.para {
			inner.To = w.toFor(sh, string(inner.Execer))
		}
		tx.Execer = []byte(w.execer("evm"))
		tx.Nonce = 0 // proxy-exec compares tx.Nonce with the sender's evm nonce, 0 for every account here
		// (Note must stay empty: the secp256k1eth verifier treats a non-empty Note as an embedded Ethereum transaction;
		// the unique inner nonce makes the outer hash unique)
		tx.Payload = types.Encode(&types.EVMContractAction4Chain33{GasLimit: 100000, GasPrice: 1, Para: types.Encode(inner),
			ContractAddr: cfg.GetModuleConfig().Exec.ProxyExecAddress})
		tx.To = cfg.GetModuleConfig().Exec.ProxyExecAddress
	default:
		panic("unknown kind " + sh.Kind)
	}
	return tx
}

func evmName(sh txShape) string {
	if sh.EvmUser {
		return "user.evm.vf"
	}
	return "evm"
}

func (w *world) sign(tx *types.Transaction, sh txShape) {
	switch {
	case sh.Kind == kProxy:
		tx.Sign(signProxy, accts[sh.S.K].privEth)
	case sh.S.Eth:
		tx.Sign(signEth, accts[sh.S.K].priv)
	default:
		tx.Sign(signBtc, accts[sh.S.K].priv)
	}
}

// built is an item ready for both levels.
type built struct {
	spec       itemSpec
	expanded   []*types.Transaction // block form (group members carry the group hash)
	pool       *types.Transaction   // pool form (single, or head clone carrying the whole group)
	touch      []bool               // per member: touches a blocked account
	touchAny   bool
	deep       bool   // touching only in a non-canonical spelling, a non-head member or an inner transaction
	proxyRcp   bool   // single proxy-exec transaction touching only through the recipient of its inner transaction
	tailOnly   bool   // group whose head does not touch but a later member does
	freeTo     []bool // per member: touches only through the payload while tx.To is neither the executor's address nor blocked
	senderOnly bool   // every touching member touches through its sender (signature) -- nothing the transaction id covers
}

// buildBody builds the unsigned transactions of an item (grouped when there are several).  Transaction.Hash() does not
// cover the signature, so everything signed from one body -- by whatever keys -- has the same transaction ids.
func (w *world) buildBody(spec itemSpec) []*types.Transaction {
	txs := make([]*types.Transaction, len(spec.Txs))
	for i, sh := range spec.Txs {
		txs[i] = w.build(sh)
	}
	if len(txs) > 1 {
		g, err := types.CreateTxGroup(txs, w.cfg.GetMinTxFeeRate())
		if err != nil {
			panic(fmt.Sprintf("CreateTxGroup: %v", err))
		}
		txs = g.Txs
	}
	return txs
}

// signBody signs a copy of the body, member i by signers[i] (nil: the senders named in the spec), and judges it
// against the given blacklist.
func (w *world) signBody(body []*types.Transaction, spec itemSpec, signers []who, blocked map[who]bool) *built {
	b := &built{spec: itemSpec{Route: spec.Route, Txs: append([]txShape(nil), spec.Txs...)}, senderOnly: true}
	spec = b.spec
	txs := make([]*types.Transaction, len(body))
	for i := range body {
		if signers != nil {
			spec.Txs[i].S = signers[i]
		}
		txs[i] = types.CloneTx(body[i])
		w.sign(txs[i], spec.Txs[i])
	}
	b.expanded = txs
	b.pool = txs[0]
	if len(txs) > 1 {
		b.pool = (&types.Transactions{Txs: txs}).Tx()
	}
	shallow := false // some touching position is plain: canonical spelling, head/single, outer transaction
	for i, sh := range spec.Txs {
		bySender := blocked[sh.S]
		byR := sh.hasR() && blocked[sh.R.who]
		byTo := sh.ToMode == toAcct && payloadLocated(sh.Kind, w.para) && blocked[sh.ToAcct.who] // an account written into a free tx.To
		b.touch = append(b.touch, bySender || byR || byTo)
		b.freeTo = append(b.freeTo, byR && !bySender && !byTo && payloadLocated(sh.Kind, w.para) && (sh.ToMode == toAcct || sh.ToMode == toOtherExec))
		if !(bySender || byR || byTo) {
			continue
		}
		b.touchAny = true
		if byR || byTo {
			b.senderOnly = false
		}
		if sh.Kind != kProxy && i == 0 && (bySender || byR && !sh.R.nonCanonical() || byTo && !sh.ToAcct.nonCanonical()) || sh.Kind == kProxy && bySender && i == 0 {
			shallow = true
		}
		if sh.Kind == kProxy && (byR || byTo) && !bySender && len(spec.Txs) == 1 {
			b.proxyRcp = true // signature of finding C31-pool-proxy-inner-recipient
		}
	}
	b.senderOnly = b.senderOnly && b.touchAny
	b.deep = b.touchAny && !shallow
	b.tailOnly = len(txs) > 1 && b.touchAny && !b.touch[0]
	return b
}

func (w *world) buildItem(spec itemSpec, blocked map[who]bool) *built {
	return w.signBody(w.buildBody(spec), spec, nil, blocked)
}

// ---------------------------------------------------------------------------------------------------------
// nodes

type nodeCfg struct {
	ForkH            int64 `json:"fork"`
	DisableExecCheck bool  `json:"disable_exec_check"`
	Extra            int   `json:"extra_blocks"` // blocks mined after the funding block
}

type node struct {
	nodeCfg
	w      *world
	mock   *testnode.Chain33Mock
	height int64
	state  []byte
	btime  int64
}

func cfgString(para bool) string {
	s := strings.Replace(types.GetDefaultCfgstring(), "eth=-2", "eth=0", 1) // eth address driver on from height 0
	if para {
		s = strings.Replace(s, `Title="local"`, `Title="user.p.verif."`, 1)
	}
	return s
}

func waitTx(n *node, hash []byte) {
	deadline := time.Now().Add(300 * time.Second)
	for {
		if _, err := n.mock.GetAPI().QueryTx(&types.ReqHash{Hash: hash}); err == nil {
			return
		}
		if time.Now().After(deadline) {
			lib.Inconclusive("fixture: transaction %x not mined within 300 s", hash)
		}
		time.Sleep(5 * time.Millisecond)
	}
}

func startNode(para bool, nc nodeCfg) *node {
	types.SetBlockedAccountsForTest(nil)
	cfg := types.NewChain33Config(cfgString(para))
	if cfg.IsPara() != para {
		lib.Inconclusive("fixture: title did not select para=%v", para)
	}
	cfg.SetFork(types.ForkAccountBlacklist, nc.ForkH) // before any module reads the configuration
	cfg.GetModuleConfig().Mempool.DisableExecCheck = nc.DisableExecCheck
	n := &node{nodeCfg: nc, w: &world{cfg: cfg, para: para}, mock: testnode.NewWithConfig(cfg, nil)}
	if n.mock == nil {
		lib.Inconclusive("fixture: node did not start")
	}
	// chain33 binds its executor types to the first configuration created in a process: a para-chain and a
	// main-chain fixture cannot share one (the driver runs every property in its own process)
	probe := n.w.build(txShape{Kind: kTransfer, R: &spelled{who: who{K: 0}}})
	if (probe.GetRealToAddr() != probe.To) != para {
		lib.Inconclusive("fixture: this process was initialised for the other chain kind; run TestPropMain and TestPropPara in separate processes")
	}
	// The test node does not run the rpc module's event loop; the mempool asks it for the evm nonce of every
	// secp256k1eth sender and would wait 2 s for the timeout.  Answer as that loop does when no evm executor type
	// is registered (rpc/server.go handleSysEvent): "not ok", which the mempool reads as nonce 0.
	cli := n.mock.GetClient()
	cli.Sub("rpc")
	go func() {
		for msg := range cli.Recv() {
			if msg.Ty == types.EventGetEvmNonce {
				msg.Reply(cli.NewMessage("", types.EventGetEvmNonce, &types.Reply{IsOk: false}))
			}
		}
	}()
	// fund both address forms of every key from the genesis account
	gen := n.mock.GetGenesisKey()
	var last []byte
	for k := 0; k < nKeys; k++ {
		for _, eth := range []bool{false, true} {
			tx := n.w.build(txShape{Kind: kTransfer, R: &spelled{who: who{K: k, Eth: eth}}})
			act := &cty.CoinsAction{Ty: cty.CoinsActionTransfer, Value: &cty.CoinsAction_Transfer{Transfer: &types.AssetsTransfer{Amount: 1e12, To: who{K: k, Eth: eth}.canonical()}}}
			tx.Payload = types.Encode(act)
			tx.Sign(signBtc, gen)
			if _, err := n.mock.GetAPI().SendTx(tx); err != nil {
				lib.Inconclusive("fixture: funding transaction refused: %v", err)
			}
			last = tx.Hash()
			waitTx(n, last) // one per block keeps this independent of the packing order
		}
	}
	for i := 0; i < nc.Extra; i++ {
		tx := n.w.build(txShape{Kind: kNone})
		tx.Sign(signBtc, gen)
		if _, err := n.mock.GetAPI().SendTx(tx); err != nil {
			lib.Inconclusive("fixture: filler transaction refused: %v", err)
		}
		waitTx(n, tx.Hash())
	}
	// stop mining: height and state stay fixed from here on
	msg := n.mock.GetClient().NewMessage("consensus", types.EventMinerStop, nil)
	if err := n.mock.GetClient().Send(msg, true); err != nil {
		lib.Inconclusive("fixture: cannot stop the miner: %v", err)
	}
	if _, err := n.mock.GetClient().Wait(msg); err != nil {
		lib.Inconclusive("fixture: cannot stop the miner: %v", err)
	}
	blk := n.mock.GetLastBlock()
	n.height, n.state, n.btime = blk.Height, blk.StateHash, blk.BlockTime
	for k := 0; k < nKeys; k++ {
		for _, eth := range []bool{false, true} {
			if bal := n.mock.GetAccount(n.state, who{K: k, Eth: eth}.canonical()).Balance; bal < 1e12 {
				lib.Inconclusive("fixture: account %v not funded (balance %d)", who{K: k, Eth: eth}, bal)
			}
		}
	}
	return n
}

// the node set of a process; every node is started on first use
var nodeCfgs = []nodeCfg{
	{ForkH: 1, DisableExecCheck: false, Extra: 0},   // pool height above the fork, exec check on
	{ForkH: 1000, DisableExecCheck: true, Extra: 0}, // pool height far below the fork
	{ForkH: 15, DisableExecCheck: true, Extra: 2},   // pool height 14: the next block is the first one under the rule
	{ForkH: 500, DisableExecCheck: false, Extra: 1}, // pool height below the fork, exec check on
}

var nodes = map[string][]*node{}

func getNode(para bool, i int) *node {
	key := fmt.Sprint(para)
	if nodes[key] == nil {
		nodes[key] = make([]*node, len(nodeCfgs))
	}
	if nodes[key][i] == nil {
		nodes[key][i] = startNode(para, nodeCfgs[i])
	}
	return nodes[key][i]
}

// ---------------------------------------------------------------------------------------------------------
// generators

type caseSpec struct {
	Para    bool       `json:"para"`
	Node    int        `json:"node"`
	HOff    int64      `json:"h_off"` // executor height = fork height + HOff (>= 1)
	Blocked []spelled  `json:"blocked"`
	Items   []itemSpec `json:"items"`
	Twin    *twinSpec  `json:"twin,omitempty"`
}

// twinSpec is a history in which ONE unsigned body (single transaction or group) is presented several times under
// different signature material -- the transaction id does not cover the signature, the sender comes from it -- with
// the blacklist installed once at the start and changed only by the explicit steps.
type twinSpec struct {
	Item      itemSpec   `json:"item"`       // the body; its senders are signature set "orig" (one member is aimed at a blocked sender)
	Alt       []who      `json:"alt"`        // signature set "alt": per member another signer; K == nKeys is the unfunded throwaway key
	Other     who        `json:"other"`      // an account outside Blocked that the steps add to / drop from the blacklist
	InitOther bool       `json:"init_other"` // the blacklist starts with Other in it
	Steps     []twinStep `json:"steps"`
}

type twinStep struct {
	Op    string `json:"op"`              // "present" | "traffic" (an unrelated clean transaction through pool and executor) | "reload" (same list installed again) | "toggleOther"
	Ver   string `json:"ver,omitempty"`   // present: "alt" | "orig"
	Route string `json:"route,omitempty"` // present: "exec" | "tx" | "delay" | "reorg"
	HOff  int64  `json:"h_off,omitempty"` // present/exec: height = fork height + HOff (>= 1)
}

const rExec = "exec"

func genWho(t *rapid.T, label string) who {
	return who{K: rapid.IntRange(0, nKeys-1).Draw(t, label+"K"), Eth: rapid.Bool().Draw(t, label+"Eth")}
}

func genSpelling(t *rapid.T, w who, label string) spelled {
	s := spelled{who: w}
	if w.Eth {
		s.Sp = rapid.IntRange(0, 6).Draw(t, label+"Sp")
		if s.Sp == 6 {
			s.Mask = rapid.Uint64().Draw(t, label+"Mask")
		}
	}
	return s
}

func genShape(t *rapid.T, kinds []string, blocked []spelled, aim bool, para bool) txShape {
	sh := genShapeCore(t, kinds, blocked, aim)
	if payloadLocated(sh.Kind, para) {
		sh.ToMode = rapid.SampledFrom([]string{toExec, toAcct, toExec, toAcct, toOtherExec, toSame}).Draw(t, "toMode")
		if sh.ToMode == toAcct {
			// an ordinary account that is not blocked (there are 12 accounts and at most 3 blocked ones)
			isBlocked := map[who]bool{}
			for _, b := range blocked {
				isBlocked[b.who] = true
			}
			a := genWho(t, "toAcct")
			for isBlocked[a] {
				if a.Eth = !a.Eth; !a.Eth {
					a.K = (a.K + 1) % nKeys
				}
			}
			sp := genSpelling(t, a, "toAcct")
			sh.ToAcct = &sp
		}
	}
	return sh
}

func genShapeCore(t *rapid.T, kinds []string, blocked []spelled, aim bool) txShape {
	sh := txShape{Kind: rapid.SampledFrom(kinds).Draw(t, "kind"), S: genWho(t, "s")}
	if sh.Kind == kEvmCall || sh.Kind == kEvmPara {
		sh.EvmUser = rapid.IntRange(0, 3).Draw(t, "evmUser") == 0
	}
	proxy := sh.Kind == kProxy // signed with the secp256k1eth key: the sender is always the eth-form account
	sh.S.Eth = sh.S.Eth || proxy
	var hit *who
	if aim && len(blocked) > 0 {
		h := rapid.SampledFrom(blocked).Draw(t, "hit").who
		hit = &h
	}
	if sh.hasR() {
		r := genWho(t, "r")
		if hit != nil && rapid.IntRange(0, 3).Draw(t, "hitPos") > 0 {
			r, hit = *hit, nil
		}
		sp := genSpelling(t, r, "r")
		sh.R = &sp
	}
	if hit != nil && (hit.Eth || !proxy) {
		sh.S = *hit
	}
	return sh
}

func genCase(t *rapid.T, para bool) *caseSpec {
	c := &caseSpec{Para: para, Node: rapid.IntRange(0, len(nodeCfgs)-1).Draw(t, "node")}
	c.HOff = rapid.SampledFrom([]int64{0, 1, -1, 2, -2, 50}).Draw(t, "hOff")
	nb := rapid.IntRange(1, 3).Draw(t, "nBlocked")
	for i := 0; i < nb; i++ {
		c.Blocked = append(c.Blocked, genSpelling(t, genWho(t, "b"), "b"))
	}
	kinds := []string{kTransfer, kTransfer, kEvmCall, kEvmPara, kNoneTo, kToExec, kNone}
	ni := rapid.IntRange(1, 3).Draw(t, "nItems")
	for i := 0; i < ni; i++ {
		var it itemSpec
		switch rapid.IntRange(0, 9).Draw(t, "itemKind") {
		case 0, 1: // proxy-exec is only unwrapped for a transaction outside a group
			it.Txs = []txShape{genShape(t, []string{kProxy}, c.Blocked, true, para)}
		case 2, 3, 4:
			it.Txs = []txShape{genShape(t, kinds, c.Blocked, true, para)}
		default:
			n := rapid.IntRange(2, 4).Draw(t, "groupN")
			aimAt := rapid.IntRange(0, n-1).Draw(t, "aimAt")
			for j := 0; j < n; j++ {
				it.Txs = append(it.Txs, genShape(t, kinds, c.Blocked, j == aimAt, para))
			}
		}
		it.Route = rapid.SampledFrom([]string{rTx, rTx, rTx, rDelay, rDelay, rReorg}).Draw(t, "route")
		c.Items = append(c.Items, it)
	}
	c.Twin = genTwin(t, c, kinds, para)
	return c
}

func genTwin(t *rapid.T, c *caseSpec, kinds []string, para bool) *twinSpec {
	isBlocked := map[who]bool{}
	for _, b := range c.Blocked {
		isBlocked[b.who] = true
	}
	unblocked := func(label string, eth *bool) who { // a funded account outside the blacklist
		a := genWho(t, label)
		if eth != nil {
			a.Eth = *eth
		}
		for isBlocked[a] {
			if eth == nil {
				a.Eth = !a.Eth
			}
			if eth != nil || !a.Eth {
				a.K = (a.K + 1) % nKeys
			}
		}
		return a
	}
	tw := &twinSpec{}
	// the body: positions other than the sender are drawn freely (rarely blocked); one member's sender is blocked
	n := rapid.SampledFrom([]int{1, 1, 2, 3}).Draw(t, "twinN")
	if n == 1 && rapid.IntRange(0, 4).Draw(t, "twinProxy") == 0 {
		tw.Item.Txs = []txShape{genShape(t, []string{kProxy}, nil, false, para)}
	} else {
		for j := 0; j < n; j++ {
			tw.Item.Txs = append(tw.Item.Txs, genShape(t, kinds, nil, false, para))
		}
	}
	aim := rapid.IntRange(0, len(tw.Item.Txs)-1).Draw(t, "twinAim")
	hit := rapid.SampledFrom(c.Blocked).Draw(t, "twinHit").who
	if sh := &tw.Item.Txs[aim]; sh.Kind != kProxy || hit.Eth {
		sh.S = hit
	}
	yes := true
	for _, sh := range tw.Item.Txs {
		alt := sh.S
		if isBlocked[sh.S] || rapid.IntRange(0, 3).Draw(t, "twinResign") == 0 {
			switch {
			case rapid.IntRange(0, 2).Draw(t, "twinThrow") == 0:
				alt = who{K: nKeys, Eth: sh.S.Eth || sh.Kind == kProxy}
			case sh.Kind == kProxy:
				alt = unblocked("twinAlt", &yes)
			default:
				alt = unblocked("twinAlt", nil)
			}
		}
		tw.Alt = append(tw.Alt, alt)
	}
	tw.Other = unblocked("twinOther", nil)
	tw.InitOther = rapid.IntRange(0, 3).Draw(t, "twinInitOther") == 0
	present := func(ver string) twinStep {
		st := twinStep{Op: "present", Ver: ver, Route: rapid.SampledFrom([]string{rExec, rExec, rTx, rTx, rDelay, rReorg}).Draw(t, "twinRoute")}
		if st.Route == rExec {
			st.HOff = rapid.SampledFrom([]int64{0, 1, 0, 50, -1}).Draw(t, "twinHOff")
		}
		return st
	}
	if rapid.IntRange(0, 2).Draw(t, "twinBlockedFirst") == 0 {
		tw.Steps = append(tw.Steps, present("orig"))
	}
	tw.Steps = append(tw.Steps, present("alt"))
	for k := rapid.IntRange(0, 2).Draw(t, "twinMid"); k > 0; k-- {
		op := rapid.SampledFrom([]string{"traffic", "traffic", "present", "reload", "toggleOther"}).Draw(t, "twinOp")
		if op == "present" {
			tw.Steps = append(tw.Steps, present("alt"))
		} else {
			tw.Steps = append(tw.Steps, twinStep{Op: op})
		}
	}
	tw.Steps = append(tw.Steps, present("orig"))
	if rapid.IntRange(0, 3).Draw(t, "twinAgain") == 0 {
		tw.Steps = append(tw.Steps, present("orig"))
	}
	return tw
}

// ---------------------------------------------------------------------------------------------------------
// the check

func setBlacklist(list []spelled) {
	var s []string
	for _, b := range list {
		s = append(s, b.String())
	}
	types.SetBlockedAccountsForTest(s)
}

func runCase(t lib.TB, test string, c *caseSpec) {
	lib.Eval()
	n := getNode(c.Para, c.Node)
	w := n.w
	blocked := map[who]bool{}
	for _, b := range c.Blocked {
		blocked[b.who] = true
	}
	defer types.SetBlockedAccountsForTest(nil)
	fail := func(format string, a ...interface{}) { lib.Violation(t, prop, test, c, format, a...) }

	items := make([]*built, len(c.Items))
	for i, spec := range c.Items {
		items[i] = w.buildItem(spec, blocked)
	}

	// ---- executor: one block holding every item, at a height around the fork
	height := n.ForkH + c.HOff
	if height < 1 {
		height = 1
	}
	active := height >= n.ForkH
	block := &types.Block{Height: height, BlockTime: n.btime + 1}
	for _, it := range items {
		block.Txs = append(block.Txs, it.expanded...)
	}
	setBlacklist(c.Blocked)
	got, err := util.ExecTx(n.mock.GetClient(), n.state, block)
	types.SetBlockedAccountsForTest(nil)
	if err != nil {
		lib.Inconclusive("executor refused the whole list: %v", err)
	}
	wit, err := util.ExecTx(n.mock.GetClient(), n.state, block) // witness: same block, empty blacklist
	if err != nil {
		lib.Inconclusive("executor refused the whole list (witness): %v", err)
	}
	if len(got.Receipts) != len(block.Txs) || len(wit.Receipts) != len(block.Txs) {
		lib.Inconclusive("executor returned %d receipts for %d transactions", len(got.Receipts), len(block.Txs))
	}
	if active {
		lib.Class("exec_rule_active")
	} else {
		lib.Class("exec_below_fork")
	}
	k := 0
	for i, it := range items {
		for j := range it.expanded {
			r, wr := got.Receipts[k], wit.Receipts[k]
			k++
			if !it.touch[j] {
				continue
			}
			lib.Class("exec_touch_" + it.spec.Txs[j].Kind)
			if sh := it.spec.Txs[j]; c.Para && sh.Kind == kTransfer && blocked[sh.R.who] {
				lib.Class("exec_touch_real_recipient_in_payload")
			}
			if it.freeTo[j] {
				lib.Class("exec_touch_payload_only_to_" + it.spec.Txs[j].ToMode + "_" + it.spec.Txs[j].Kind)
			}
			if !active {
				continue // no constraint below the fork
			}
			// The rule's contract (executor/execenv.go checkTx / checkTxGroup): a hit is an error before the fee is
			// taken, i.e. an ExecErr receipt, which keeps the transaction out of the block (PreExecBlock drops it, a
			// peer block holding it is refused).  Any other receipt means the transaction stays in a block at a
			// height where the rule is active: ExecOk is plain success, ExecPack is the normal receipt of
			// none-driver transactions and in every case charges the fee -- the account has transacted.
			if r.Ty != types.ExecErr {
				fail("height %d >= ForkAccountBlacklist %d: item %d member %d (%s) touches a blocked account and got receipt type %d (ExecErr=%d expected): it stays in the block", height, n.ForkH, i, j, it.spec.Txs[j].Kind, r.Ty, types.ExecErr)
			}
			if wr.Ty != types.ExecErr { // witness: without the blacklist the same transaction is packed
				lib.Class("exec_witness_packed")
				if it.freeTo[j] {
					lib.Class("exec_witness_packed_payload_only_free_to")
				}
				if wr.Ty == types.ExecOk {
					lib.Class("exec_witness_execok")
				}
				if it.deep {
					lib.Class("exec_nontrivial")
					lib.NonTrivialCase(map[string]interface{}{"level": "exec", "para": c.Para, "fork": n.ForkH, "height": height, "blocked": c.Blocked, "item": it.spec})
				}
			} else {
				lib.Class("exec_witness_not_packed_" + it.spec.Txs[j].Kind)
			}
		}
	}

	// ---- pool: every item on its own, at the node's (fixed) height
	below := n.height+1 < n.ForkH // the pool judges a transaction for the next block
	for i, it := range items {
		lib.Class("pool_route_" + it.spec.Route)
		inPool := func() bool {
			l, err := n.mock.GetAPI().GetMempool(&types.ReqGetMempool{IsAll: true})
			if err != nil {
				lib.Inconclusive("GetMempool: %v", err)
			}
			for _, tx := range l.GetTxs() {
				if bytes.Equal(tx.Hash(), it.pool.Hash()) {
					return true
				}
			}
			return false
		}
		send := func() error {
			switch it.spec.Route {
			case rDelay:
				_, err := n.mock.GetAPI().SendDelayTx(&types.DelayTx{Tx: it.pool, EndDelayTime: n.height + 100000}, true)
				return err
			case rReorg:
				// what the blockchain module sends when it disconnects the tip block; the mempool handles its
				// messages one at a time, so the GetMempool that follows sees the result
				blk := &types.Block{Height: n.height, BlockTime: n.btime, Txs: it.expanded}
				cli := n.mock.GetClient()
				if err := cli.Send(cli.NewMessage("mempool", types.EventDelBlock, &types.BlockDetail{Block: blk}), false); err != nil {
					lib.Inconclusive("EventDelBlock: %v", err)
				}
				if !inPool() {
					return fmt.Errorf("not re-admitted")
				}
				return nil
			}
			_, err := n.mock.GetAPI().SendTx(it.pool)
			return err
		}
		setBlacklist(c.Blocked)
		err1 := send()
		types.SetBlockedAccountsForTest(nil)
		admitted, witness := err1 == nil, false
		if it.touchAny && !admitted {
			witness = send() == nil // the very same item is admitted once the blacklist is empty
		}
		// leave the pool as it was before judging (a failing case is re-run by the shrinker); delay-cache entries
		// cannot be removed, their nonces are unique
		if (admitted || witness) && it.spec.Route != rDelay {
			_ = n.mock.GetAPI().RemoveTxsByHashList(&types.TxHashList{Hashes: [][]byte{it.pool.Hash()}})
		}
		if !it.touchAny {
			continue
		}
		lib.Class("pool_touching_item")
		if below {
			lib.Class("pool_touching_item_below_fork")
		}
		switch {
		case admitted && it.proxyRcp && lib.Known(kfProxyPool):
			lib.ExcludedKnown(kfProxyPool)
		case admitted && it.spec.Route == rDelay && it.tailOnly && lib.Known(kfDelayGroup):
			lib.ExcludedKnown(kfDelayGroup)
		case admitted && it.spec.Route == rReorg && lib.Known(kfReorg):
			lib.ExcludedKnown(kfReorg)
		case admitted:
			fail("pool at height %d (ForkAccountBlacklist %d, exec check %v, route %s) admitted item %d which touches a blocked account", n.height, n.ForkH, !n.DisableExecCheck, it.spec.Route, i)
		case witness:
			lib.Class("pool_witness_admitted")
			for j := range it.freeTo {
				if it.freeTo[j] {
					lib.Class("pool_witness_admitted_payload_only_free_to")
					break
				}
			}
			if it.deep {
				lib.Class("pool_nontrivial")
				lib.NonTrivialCase(map[string]interface{}{"level": "pool", "para": c.Para, "fork": n.ForkH, "pool_height": n.height, "exec_check": !n.DisableExecCheck, "blocked": c.Blocked, "item": it.spec})
			}
		default:
			lib.Class("pool_witness_refused_" + it.spec.Txs[0].Kind)
		}
	}

	if c.Twin != nil {
		runTwin(t, test, c, n)
	}
}

// runTwin plays a twinSpec.  The oracle is the one of runCase, evaluated at every presentation against the
// blacklist installed at that moment: at an active height a touching version gets ExecErr from the executor, and the
// pool never admits one.  Unlike runCase the blacklist is NOT re-installed around each call -- a verdict the node
// remembered for a transaction id must not outlive the signature it was reached for.
func runTwin(t lib.TB, test string, c *caseSpec, n *node) {
	w, tw := n.w, c.Twin
	fail := func(format string, a ...interface{}) { lib.Violation(t, prop, test, c, format, a...) }
	cur := map[who]bool{}
	install := func() {
		list := append([]spelled(nil), c.Blocked...)
		if cur[tw.Other] {
			list = append(list, spelled{who: tw.Other})
		}
		setBlacklist(list)
	}
	for _, b := range c.Blocked {
		cur[b.who] = true
	}
	cur[tw.Other] = tw.InitOther
	install()
	defer types.SetBlockedAccountsForTest(nil)

	body := w.buildBody(tw.Item)
	origSigners := make([]who, len(tw.Item.Txs))
	for i, sh := range tw.Item.Txs {
		origSigners[i] = sh.S
	}
	inPool := func(hash []byte) bool {
		l, err := n.mock.GetAPI().GetMempool(&types.ReqGetMempool{IsAll: true})
		if err != nil {
			lib.Inconclusive("GetMempool: %v", err)
		}
		for _, tx := range l.GetTxs() {
			if bytes.Equal(tx.Hash(), hash) {
				return true
			}
		}
		return false
	}
	// deliver returns, for route exec, the receipts; for the pool routes whether the item was admitted (and removes it)
	deliver := func(it *built, route string, height int64) (rc []int32, admitted bool) {
		switch route {
		case rExec:
			got, err := util.ExecTx(n.mock.GetClient(), n.state, &types.Block{Height: height, BlockTime: n.btime + 1, Txs: it.expanded})
			if err != nil || len(got.Receipts) != len(it.expanded) {
				lib.Inconclusive("executor refused the twin list: %v", err)
			}
			for _, r := range got.Receipts {
				rc = append(rc, r.Ty)
			}
			return rc, false
		case rDelay:
			_, err := n.mock.GetAPI().SendDelayTx(&types.DelayTx{Tx: it.pool, EndDelayTime: n.height + 100000}, true)
			return nil, err == nil
		case rReorg:
			cli := n.mock.GetClient()
			blk := &types.Block{Height: n.height, BlockTime: n.btime, Txs: it.expanded}
			if err := cli.Send(cli.NewMessage("mempool", types.EventDelBlock, &types.BlockDetail{Block: blk}), false); err != nil {
				lib.Inconclusive("EventDelBlock: %v", err)
			}
			admitted = inPool(it.pool.Hash())
		default:
			_, err := n.mock.GetAPI().SendTx(it.pool)
			admitted = err == nil
		}
		if admitted { // leave the pool as it was: the next version of the body has the same id
			_ = n.mock.GetAPI().RemoveTxsByHashList(&types.TxHashList{Hashes: [][]byte{it.pool.Hash()}})
		}
		return nil, admitted
	}
	heightOf := func(st twinStep) int64 {
		if h := n.ForkH + st.HOff; h >= 1 {
			return h
		}
		return 1
	}
	altSeen, reloaded := false, false // an alt presentation happened / the list was re-installed since
	var last *twinStep
	var lastIt *built
	for si := range tw.Steps {
		st := tw.Steps[si]
		switch st.Op {
		case "reload":
			install()
			reloaded = true
		case "toggleOther":
			cur[tw.Other] = !cur[tw.Other]
			install()
			reloaded = true
		case "traffic":
			spec := itemSpec{Txs: []txShape{{Kind: kNone, S: tw.Alt[0]}}} // an unrelated notary transaction
			it := w.signBody(w.buildBody(spec), spec, nil, cur)
			if !it.touchAny {
				deliver(it, rTx, 0)
				deliver(it, rExec, n.ForkH+1)
			}
		case "present":
			signers := origSigners
			if st.Ver == "alt" {
				signers = tw.Alt
			}
			it := w.signBody(body, tw.Item, signers, cur)
			height := heightOf(st)
			rc, admitted := deliver(it, st.Route, height)
			lib.Class("twin_present_" + st.Ver + "_" + st.Route)
			primed := st.Ver == "orig" && altSeen && !reloaded && it.senderOnly
			if primed {
				lib.Class("twin_orig_sender_only_after_alt_no_reload_" + st.Route)
			}
			if st.Ver == "alt" && !it.touchAny {
				altSeen, reloaded = true, false
				if tw.Alt[0].throwaway() {
					lib.Class("twin_alt_head_unfunded")
				}
			}
			if it.touchAny && st.Route == rExec && height >= n.ForkH {
				for j, r := range rc {
					if it.touch[j] && r != types.ExecErr {
						fail("twin step %d: height %d >= ForkAccountBlacklist %d: member %d (%s) of the %s-signed body touches a blocked account and got receipt type %d (ExecErr=%d expected)", si, height, n.ForkH, j, it.spec.Txs[j].Kind, st.Ver, r, types.ExecErr)
					}
				}
			}
			if it.touchAny && st.Route != rExec && admitted {
				switch {
				case it.proxyRcp && lib.Known(kfProxyPool):
					lib.ExcludedKnown(kfProxyPool)
				case st.Route == rDelay && it.tailOnly && lib.Known(kfDelayGroup):
					lib.ExcludedKnown(kfDelayGroup)
				case st.Route == rReorg && lib.Known(kfReorg):
					lib.ExcludedKnown(kfReorg)
				default:
					fail("twin step %d: pool at height %d (ForkAccountBlacklist %d, exec check %v, route %s) admitted the %s-signed body, which touches a blocked account", si, n.height, n.ForkH, !n.DisableExecCheck, st.Route, st.Ver)
				}
			}
			if primed && (st.Route != rExec || height >= n.ForkH) {
				last, lastIt = &tw.Steps[si], it
			}
		}
	}
	// witness and non-triviality: an orig presentation that touched only through its signers, came after a clean alt
	// presentation of the same body with no blacklist re-installation in between, and is packed / admitted as soon as
	// the blacklist is empty
	if last != nil {
		types.SetBlockedAccountsForTest(nil)
		rc, admitted := deliver(lastIt, last.Route, heightOf(*last))
		ok := admitted
		for _, r := range rc {
			ok = ok || r != types.ExecErr
		}
		if ok {
			lib.Class("twin_witness_ok")
			lib.Class("twin_nontrivial")
			lib.NonTrivialCase(map[string]interface{}{"level": "twin", "para": c.Para, "fork": n.ForkH, "pool_height": n.height, "blocked": c.Blocked, "twin": tw})
		}
	}
}

func TestPropMain(t *testing.T) {
	defer lib.Flush()
	rapid.Check(t, func(t *rapid.T) { runCase(t, "TestPropMain", genCase(t, false)) })
}

func TestPropPara(t *testing.T) {
	defer lib.Flush()
	rapid.Check(t, func(t *rapid.T) { runCase(t, "TestPropPara", genCase(t, true)) })
}
