package c31

import (
	"fmt"
	"strings"
	"testing"
	"time"

	"github.com/33cn/chain33/common/address"
	"github.com/33cn/chain33/common/log/log15"
	cty "github.com/33cn/chain33/system/dapp/coins/types"
	"github.com/33cn/chain33/types"
	"github.com/33cn/chain33/util"
	"github.com/33cn/chain33/util/testnode"
)

func TestExplorePara(t *testing.T) {
	log15.Root().SetHandler(log15.DiscardHandler())
	s := strings.Replace(types.GetDefaultCfgstring(), "eth=-2", "eth=0", 1)
	s = strings.Replace(s, `Title="local"`, `Title="user.p.verif."`, 1)
	cfg := types.NewChain33Config(s)
	fmt.Println("title", cfg.GetTitle(), "para", cfg.IsPara(), "fork", cfg.GetFork(types.ForkAccountBlacklist), "coinexec", cfg.GetCoinExec())
	cfg.SetFork(types.ForkAccountBlacklist, 5)
	t0 := time.Now()
	mock := testnode.NewWithConfig(cfg, nil)
	defer mock.Close()
	fmt.Println("node up", time.Since(t0))
	gen := mock.GetGenesisKey()
	blk := mock.GetLastBlock()
	fmt.Println("height", blk.Height, "genesis bal", mock.GetAccount(blk.StateHash, mock.GetGenesisAddress()).Balance)
	k1 := key(7)
	btc1 := address.PubKeyToAddr(0, k1.PubKey().Bytes())
	execer := cfg.ExecName("coins")
	v := &cty.CoinsAction_Transfer{Transfer: &types.AssetsTransfer{Amount: 1000, To: btc1}}
	tx := &types.Transaction{Execer: []byte(execer), Payload: types.Encode(&cty.CoinsAction{Value: v, Ty: cty.CoinsActionTransfer}), To: address.ExecAddress(execer), Fee: 1e6, Nonce: 1, ChainID: cfg.GetChainID()}
	tx.Sign(types.SECP256K1, gen)
	fmt.Println("execer", execer, "to", tx.To, "realTo", tx.GetRealToAddr())
	restore := types.SetBlockedAccountsForTest([]string{btc1})
	defer restore()
	for _, h := range []int64{4, 6} {
		b := &types.Block{Height: h, BlockTime: blk.BlockTime + 1, Txs: []*types.Transaction{tx}}
		rs, err := util.ExecTx(mock.GetClient(), blk.StateHash, b)
		if err != nil {
			fmt.Println("exec err", err)
			continue
		}
		r := rs.Receipts[0]
		fmt.Println("h", h, "ty", r.Ty, string(r.Logs[len(r.Logs)-1].Log))
	}
	_, err := mock.GetAPI().SendTx(tx)
	fmt.Println("sendtx", err)
	restore()
	_, err = mock.GetAPI().SendTx(tx)
	fmt.Println("sendtx no bl", err)
	fmt.Println(mock.WaitHeight(1), time.Since(t0))
}
