package c31

import (
	"fmt"
	"testing"

	"github.com/33cn/chain33/types"
	"github.com/33cn/chain33/util"
)

func TestDbgKinds(t *testing.T) {
	n := getNode(false, 1)
	for _, kind := range []string{kTransfer, kToExec, kNone, kNoneTo, kEvmCall, kEvmPara, kProxy} {
		sh := txShape{Kind: kind, S: who{K: 1, Eth: kind == kProxy}, R: &spelled{who: who{K: 2, Eth: true}, Sp: 2}}
		it := n.w.buildItem(itemSpec{Txs: []txShape{sh}}, nil)
		block := &types.Block{Height: 5, BlockTime: n.btime + 1, Txs: it.expanded}
		rs, err := util.ExecTx(n.mock.GetClient(), n.state, block)
		if err != nil {
			fmt.Println(kind, "err", err)
			continue
		}
		r := rs.Receipts[0]
		l := ""
		for _, lg := range r.Logs {
			if lg.Ty == types.TyLogErr {
				l = string(lg.Log)
			}
		}
		_, perr := n.mock.GetAPI().SendTx(it.pool)
		fmt.Println(kind, "ty", r.Ty, l, "pool:", perr)
	}
	// group of 2 evmCall
	it := n.w.buildItem(itemSpec{Txs: []txShape{{Kind: kEvmCall, S: who{K: 1}, R: &spelled{who: who{K: 2}}}, {Kind: kNone, S: who{K: 3}}}}, nil)
	block := &types.Block{Height: 5, BlockTime: n.btime + 1, Txs: it.expanded}
	rs, err := util.ExecTx(n.mock.GetClient(), n.state, block)
	fmt.Println("group", err)
	for _, r := range rs.GetReceipts() {
		l := ""
		for _, lg := range r.Logs {
			if lg.Ty == types.TyLogErr {
				l = string(lg.Log)
			}
		}
		fmt.Println("  ty", r.Ty, l)
	}
	_, perr := n.mock.GetAPI().SendTx(it.pool)
	fmt.Println("group pool:", perr)
}
