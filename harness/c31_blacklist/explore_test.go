package c31

import (
	"fmt"
	"strings"
	"testing"

	"github.com/33cn/chain33/common"
	"github.com/33cn/chain33/common/address"
	"github.com/33cn/chain33/common/crypto"
	"github.com/33cn/chain33/common/log/log15"
	_ "github.com/33cn/chain33/system"
	cty "github.com/33cn/chain33/system/dapp/coins/types"
	"github.com/33cn/chain33/types"
	"github.com/33cn/chain33/util"
	"github.com/33cn/chain33/util/testnode"
)

func key(seed byte) crypto.PrivKey {
	c, _ := crypto.Load("secp256k1", -1)
	b := make([]byte, 32)
	for i := range b {
		b[i] = seed
	}
	p, err := c.PrivKeyFromBytes(b)
	if err != nil {
		panic(err)
	}
	return p
}

func coinsTx(cfg *types.Chain33Config, to string, amount int64) *types.Transaction {
	v := &cty.CoinsAction_Transfer{Transfer: &types.AssetsTransfer{Amount: amount, To: to}}
	tx := &types.Transaction{Execer: []byte("coins"), Payload: types.Encode(&cty.CoinsAction{Value: v, Ty: cty.CoinsActionTransfer}), To: to, Fee: 1e6, Expire: 0, Nonce: 1, ChainID: cfg.GetChainID()}
	return tx
}

func TestExplore(t *testing.T) {
	log15.Root().SetHandler(log15.DiscardHandler())
	s := strings.Replace(types.GetDefaultCfgstring(), "eth=-2", "eth=0", 1)
	cfg := types.NewChain33Config(s)
	cfg.SetFork(types.ForkAccountBlacklist, 5)
	cfg.GetModuleConfig().Mempool.DisableExecCheck = true
	mock := testnode.NewWithConfig(cfg, nil)
	defer mock.Close()
	gen := mock.GetGenesisKey()
	blk := mock.GetLastBlock()
	ethTy := types.EncodeSignID(types.SECP256K1, 2)
	k1 := key(7)
	btc1 := address.PubKeyToAddr(0, k1.PubKey().Bytes())
	eth1 := address.PubKeyToAddr(2, k1.PubKey().Bytes())
	fmt.Println("btc1", btc1, "eth1", eth1)
	ce0, _ := crypto.Load("secp256k1eth", -1)
	k20, _ := ce0.PrivKeyFromBytes(key(9).Bytes())
	fund := coinsTx(cfg, address.PubKeyToAddr(2, k20.PubKey().Bytes()), 1e10)
	fund.Sign(types.SECP256K1, gen)
	_, ferr := mock.GetAPI().SendTx(fund)
	fmt.Println("fund", ferr, mock.WaitHeight(1))
	blk = mock.GetLastBlock()
	fmt.Println("height now", blk.Height)
	restore := types.SetBlockedAccountsForTest([]string{eth1})
	defer restore()
	exec := func(h int64, txs ...*types.Transaction) {
		b := &types.Block{Height: h, BlockTime: blk.BlockTime + 1, Txs: txs}
		rs, err := util.ExecTx(mock.GetClient(), blk.StateHash, b)
		if err != nil {
			fmt.Println("  exec err", err)
			return
		}
		for _, r := range rs.GetReceipts() {
			l := ""
			if len(r.Logs) > 0 {
				l = string(r.Logs[len(r.Logs)-1].Log)
				if r.Ty == 2 {
					l = ""
				}
			}
			fmt.Println("  h", h, "ty", r.Ty, l)
		}
	}
	for _, sp := range []string{eth1, strings.ToUpper(eth1[2:]), "0X" + strings.ToUpper(eth1[2:]), "0x" + strings.ToUpper(eth1[2:]), eth1[2:]} {
		tx := coinsTx(cfg, sp, 1000)
		tx.Sign(types.SECP256K1, gen)
		fmt.Println("to", sp, "checkaddr", address.CheckAddress(sp, 6), "blocked", types.IsBlockedAccount(sp))
		exec(6, tx)
		_, err := mock.GetAPI().SendTx(tx)
		fmt.Println("  sendtx:", err)
	}
	// from eth
	tx := coinsTx(cfg, btc1, 1)
	tx.Sign(ethTy, k1)
	fmt.Println("from", tx.From())
	exec(6, tx)
	// proxy tx
	inner := coinsTx(cfg, eth1, 1000)
	act := &types.EVMContractAction4Chain33{Para: types.Encode(inner), ContractAddr: cfg.GetModuleConfig().Exec.ProxyExecAddress}
	ptx := &types.Transaction{Execer: []byte("evm"), Payload: types.Encode(act), To: cfg.GetModuleConfig().Exec.ProxyExecAddress, Fee: 1e6, ChainID: cfg.GetChainID()}
	ce, _ := crypto.Load("secp256k1eth", -1)
	k2, _ := ce.PrivKeyFromBytes(key(9).Bytes())
	types.AllowUserExec = append(types.AllowUserExec, []byte("evm"))
	ptx.Nonce = 0
	ptx.Sign(types.EncodeSignID(types.SECP256K1ETH, 2), k2)
	fmt.Println("proxy from", ptx.From(), types.IsEthSignID(ptx.Signature.Ty), "sign ok", ptx.CheckSign(6))
	exec(6, ptx)
	exec(4, ptx)
	_, err := mock.GetAPI().SendTx(ptx)
	fmt.Println("  proxy sendtx:", err)
	restore()
	_, err = mock.GetAPI().SendTx(ptx)
	fmt.Println("  proxy sendtx no blacklist:", err)
	{
		// group delayed
		restore2 := types.SetBlockedAccountsForTest([]string{eth1})
		a := coinsTx(cfg, btc1, 5)
		b := coinsTx(cfg, eth1, 5)
		b.Nonce = 77
		g, gerr := types.CreateTxGroup([]*types.Transaction{a, b}, cfg.GetMinTxFeeRate())
		fmt.Println("group", gerr)
		g.SignN(0, types.SECP256K1, gen)
		g.SignN(1, types.SECP256K1, gen)
		head := g.Tx()
		rep, derr := mock.GetAPI().SendDelayTx(&types.DelayTx{Tx: head, EndDelayTime: 100}, true)
		fmt.Println("adddelay group nonhead blocked:", rep, derr)
		rep, derr = mock.GetAPI().SendDelayTx(&types.DelayTx{Tx: g.Txs[1], EndDelayTime: 100}, true)
		fmt.Println("adddelay member:", rep, derr)
		_, err = mock.GetAPI().SendTx(head)
		fmt.Println("send group:", err)
		restore2()
	}
	_ = common.ToHex
}
