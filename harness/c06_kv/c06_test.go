// C06: the key-value backends (memdb / goleveldb / gobadgerdb) against an ordered-map model.
//
// Oracle (from the property text): the database is a sorted map.  A point write / delete is visible to
// the next read; a batch changes nothing until Write and then applies its staged operations in order;
// an iterator over a prefix visits exactly the keys having that prefix, one over [start,end) exactly the
// keys start <= k < end (end exclusive: db_test.go "end需要填入bb0的下一个，才可以遍历到bb0"), in key
// order (reverse: descending); forward Seek(k) lands on the first in-range key >= k, reverse Seek(k) on the
// last in-range key <= k; Next moves one key in iteration direction.  The bool returned by
// Rewind/Seek/Next must equal Valid() (mergedIterator reads Key() right after a true result).
//
// Only call sequences that real callers perform are generated (see the comments in runWalk and genCase).
package c06

import (
	"bytes"
	"encoding/hex"
	"fmt"
	"os"
	"sort"
	"strings"
	"testing"

	dbm "github.com/33cn/chain33/common/db"
	clog "github.com/33cn/chain33/common/log"
	"github.com/33cn/chain33/types"
	"pgregory.net/rapid"
	"verifharness/lib"
)

const prop = "C06"

// Known-finding ids (strict unless listed as "known" in the findings file).
const (
	kfBadgerEnd   = "C06-badger-end-inclusive" // badger iterator visits a key equal to its exclusive upper bound
	kfBadgerFresh = "C06-badger-fresh-next"    // badger iterator is pre-positioned: Next() as first call skips the first key
)

func TestMain(m *testing.M) {
	clog.SetLogLevel("crit")
	lib.Main(m)
}

// ---------------------------------------------------------------------------------------------------
// case description (plain data; rendered as strings for the replay file)

type step struct {
	Op string // rewind | seek | next
	K  []byte
}

type op struct {
	Op   string // set setsync del delsync get bnew bset bdel bwrite breset iter
	K, V []byte // V == nil is a nil value
	Sync bool
	// iter
	Start, End []byte
	Mode       string // prefix | explicit | unbounded
	Rev        bool
	Walk       []step
}

func h(b []byte) string {
	if b == nil {
		return "nil"
	}
	return "x" + hex.EncodeToString(b)
}

func (o op) String() string {
	switch o.Op {
	case "set", "setsync", "bset":
		return fmt.Sprintf("%s %s=%s", o.Op, h(o.K), h(o.V))
	case "del", "delsync", "bdel", "get":
		return fmt.Sprintf("%s %s", o.Op, h(o.K))
	case "bnew":
		return fmt.Sprintf("bnew sync=%v", o.Sync)
	case "iter":
		var w []string
		for _, s := range o.Walk {
			if s.Op == "seek" {
				w = append(w, "seek "+h(s.K))
			} else {
				w = append(w, s.Op)
			}
		}
		return fmt.Sprintf("iter start=%s %s end=%s reverse=%v: %s", h(o.Start), o.Mode, h(o.End), o.Rev, strings.Join(w, ", "))
	}
	return o.Op
}

func render(backend string, ops []op) map[string]interface{} {
	s := make([]string, len(ops))
	for i, o := range ops {
		s[i] = o.String()
	}
	return map[string]interface{}{"backend": backend, "ops": s}
}

// ---------------------------------------------------------------------------------------------------
// model

type model map[string][]byte

func (m model) sorted(in func(k []byte) bool) [][]byte {
	var ks [][]byte
	for k := range m {
		if in([]byte(k)) {
			ks = append(ks, []byte(k))
		}
	}
	sort.Slice(ks, func(i, j int) bool { return bytes.Compare(ks[i], ks[j]) < 0 })
	return ks
}

// inRange is the property's range predicate, written without bytesPrefix: prefix mode = HasPrefix.
func (o op) inRange(k []byte) bool {
	switch o.Mode {
	case "prefix":
		return bytes.HasPrefix(k, o.Start)
	case "explicit":
		return bytes.Compare(k, o.Start) >= 0 && bytes.Compare(k, o.End) < 0
	}
	return bytes.Compare(k, o.Start) >= 0 // unbounded
}

// limit is the smallest byte string above every key of the range (nil: none); used only to recognise the
// known badger end-bound finding and for the non-triviality rule, never by the oracle.
func (o op) limit() []byte {
	switch o.Mode {
	case "explicit":
		return o.End
	case "prefix":
		for i := len(o.Start) - 1; i >= 0; i-- {
			if o.Start[i] != 0xff {
				l := append([]byte{}, o.Start[:i+1]...)
				l[i]++
				return l
			}
		}
	}
	return nil
}

func clone(b []byte) []byte {
	if b == nil {
		return nil
	}
	return append([]byte{}, b...)
}

// ---------------------------------------------------------------------------------------------------
// fixtures: one fresh database per case, on-disk ones under $VERIF_WORK, removed after the case

func workDir() string {
	if d := os.Getenv("VERIF_WORK"); d != "" {
		return d
	}
	return os.TempDir()
}

func openDB(backend string) (dbm.DB, func()) {
	if backend == "memdb" {
		d, _ := dbm.NewGoMemDB("c06", "", 0)
		return d, func() {}
	}
	dir, err := os.MkdirTemp(workDir(), "c06-"+backend+"-")
	if err != nil {
		lib.Inconclusive("cannot create scratch dir: %v", err)
	}
	var d dbm.DB
	if backend == "goleveldb" {
		d, err = dbm.NewGoLevelDB("c06", dir, 16)
	} else {
		d, err = dbm.NewGoBadgerDB("c06", dir, 16)
	}
	if err != nil {
		os.RemoveAll(dir)
		lib.Inconclusive("cannot open %s in %s: %v", backend, dir, err)
	}
	return d, func() { d.Close(); os.RemoveAll(dir) }
}

// ---------------------------------------------------------------------------------------------------
// execution of one case against one backend

type stats struct {
	mixedBatch           bool // a written batch held both a set and a delete of one key
	seekBetween, crossed bool // after mixedBatch: Seek landed strictly between two keys / Next left the range with keys beyond it
	nontrivial           bool
}

// runCase executes ops on a fresh database of the given backend next to the model.  report receives the
// executed prefix of the case and the mismatch and must not return.  tolerate: skip (and count) the exact
// input classes of findings listed as known; when a finding is not listed the oracle is strict.
func runCase(backend string, ops []op, tolerate bool, report func(c interface{}, msg string)) (st stats) {
	db, closeDB := openDB(backend)
	defer closeDB()
	known := func(id string) bool { return tolerate && backend == "gobadgerdb" && lib.Known(id) }
	m := model{}
	var cur int
	fail := func(format string, a ...interface{}) {
		report(render(backend, ops[:cur+1]), fmt.Sprintf("op %d (%s): %s", cur, ops[cur], fmt.Sprintf(format, a...)))
	}
	checkGet := func(k []byte) {
		got, err := db.Get(clone(k))
		want, ok := m[string(k)]
		switch {
		case ok && (err != nil || !bytes.Equal(got, want)):
			fail("Get(%s) = %s, %v; model has %s", h(k), h(got), err, h(want))
		case !ok && err != dbm.ErrNotFoundInDb:
			fail("Get(%s) = %s, %v; model: not found (ErrNotFoundInDb)", h(k), h(got), err)
		}
	}

	type bop struct {
		del  bool
		k, v []byte
	}
	var batch dbm.Batch
	var staged []bop

	for cur = range ops {
		o := ops[cur]
		switch o.Op {
		case "set", "setsync":
			var err error
			if o.Op == "set" {
				err = db.Set(clone(o.K), clone(o.V))
			} else {
				err = db.SetSync(clone(o.K), clone(o.V))
			}
			if err != nil {
				fail("returned %v", err)
			}
			m[string(o.K)] = append([]byte{}, o.V...)
			checkGet(o.K)
		case "del", "delsync":
			// the error of deleting a missing key is not part of the property (memdb reports one) - not compared
			if o.Op == "del" {
				_ = db.Delete(clone(o.K))
			} else {
				_ = db.DeleteSync(clone(o.K))
			}
			delete(m, string(o.K))
			checkGet(o.K)
		case "get":
			checkGet(o.K)
		case "bnew":
			batch, staged = db.NewBatch(o.Sync), nil
		case "bset":
			batch.Set(clone(o.K), clone(o.V))
			staged = append(staged, bop{false, o.K, o.V})
			checkGet(o.K) // staging must not be visible
		case "bdel":
			batch.Delete(clone(o.K))
			staged = append(staged, bop{true, o.K, nil})
			checkGet(o.K)
		case "breset":
			batch.Reset()
			staged = nil
		case "bwrite":
			// Write's error is compared only when the model has nothing to object to: memdb returns the
			// "not found" of a trailing delete of a missing key, which the property does not speak about.
			lastDelMissing := false
			seen := map[string]int{}
			for _, b := range staged {
				if b.del {
					_, had := m[string(b.k)]
					lastDelMissing = !had
					delete(m, string(b.k))
					seen[string(b.k)] |= 2
				} else {
					lastDelMissing = false
					m[string(b.k)] = append([]byte{}, b.v...)
					seen[string(b.k)] |= 1
				}
				if seen[string(b.k)] == 3 {
					st.mixedBatch = true
				}
			}
			if err := batch.Write(); err != nil && !lastDelMissing {
				fail("Write returned %v", err)
			}
			for _, b := range staged {
				checkGet(b.k)
			}
		case "iter":
			if known(kfBadgerEnd) {
				// known finding: the divergence needs a stored key equal to the exclusive upper bound
				if l := o.limit(); l != nil {
					if _, ok := m[string(l)]; ok {
						lib.ExcludedKnown(kfBadgerEnd)
						continue
					}
				}
			}
			runWalk(db, m, known(kfBadgerFresh), o, &st, fail)
		}
	}
	// final state: full scans in both directions and point reads of every key ever mentioned
	cur = len(ops) - 1
	for _, rev := range []bool{false, true} {
		full := op{Op: "iter", Mode: "unbounded", Rev: rev, Walk: []step{{Op: "rewind"}}}
		for i := 0; i <= len(m); i++ {
			full.Walk = append(full.Walk, step{Op: "next"})
		}
		runWalk(db, m, false, full, &stats{}, func(format string, a ...interface{}) {
			fail("final scan reverse=%v: %s", rev, fmt.Sprintf(format, a...))
		})
	}
	for _, o := range ops {
		if o.K != nil {
			checkGet(o.K)
		}
	}
	st.nontrivial = st.mixedBatch && (st.seekBetween || st.crossed)
	return st
}

// runWalk opens the iterator described by o, performs its walk and compares every observable with the model.
// skipFreshNext: the known badger finding about Next() as the first call is tolerated by not making that call.
func runWalk(db dbm.DB, m model, skipFreshNext bool, o op, st *stats, fail func(string, ...interface{})) {
	ks := m.sorted(o.inRange)
	all := m.sorted(func([]byte) bool { return true })
	end := o.End
	switch o.Mode {
	case "prefix":
		end = nil
	case "unbounded":
		end = types.EmptyValue
	}
	it := db.Iterator(clone(o.Start), clone(end), o.Rev)
	defer it.Close()
	pos, fresh := -1, true // model cursor: index into ks, -1 = not on a key
	valid := func() bool { return pos >= 0 && pos < len(ks) }
	for i, s := range o.Walk {
		var got bool
		was := valid()
		switch s.Op {
		case "rewind":
			got = it.Rewind()
			pos = 0
			if o.Rev {
				pos = len(ks) - 1
			}
		case "seek":
			got = it.Seek(clone(s.K))
			if o.Rev {
				pos = sort.Search(len(ks), func(i int) bool { return bytes.Compare(ks[i], s.K) > 0 }) - 1
			} else {
				pos = sort.Search(len(ks), func(i int) bool { return bytes.Compare(ks[i], s.K) >= 0 })
			}
			if _, exists := m[string(s.K)]; st.mixedBatch && !exists && len(ks) > 0 &&
				bytes.Compare(ks[0], s.K) < 0 && bytes.Compare(s.K, ks[len(ks)-1]) < 0 {
				st.seekBetween = true
			}
		case "next":
			switch {
			case fresh && !o.Rev:
				// p2pstore.deleteChunkBlock / LocalDB.Commit: "for it.Next(); it.Valid(); it.Next()" on a new forward iterator
				if skipFreshNext {
					lib.ExcludedKnown(kfBadgerFresh)
					continue
				}
				lib.Class("walk:fresh_next")
				got = it.Next()
				pos = 0
			case !was:
				continue // callers never advance an iterator that is not on a key
			default:
				got = it.Next()
				if o.Rev {
					pos--
				} else {
					pos++
				}
				if st.mixedBatch && !valid() && len(all) > 0 {
					// left the range although the database goes on beyond that bound
					if (o.Rev && !o.inRange(all[0])) || (!o.Rev && !o.inRange(all[len(all)-1])) {
						st.crossed = true
					}
				}
			}
		}
		fresh = false
		if !valid() {
			pos = -1
		}
		where := fmt.Sprintf("walk step %d (%s %s)", i, s.Op, h(s.K))
		if got != valid() {
			fail("%s returned %v, model valid=%v (in-range keys %s)", where, got, valid(), hs(ks))
		}
		if v := it.Valid(); v != valid() {
			var at string
			if v {
				at = " at key " + h(it.Key())
			}
			fail("%s: Valid()=%v%s, model valid=%v (in-range keys %s)", where, v, at, valid(), hs(ks))
		}
		if valid() {
			// Key/Value are read only while Valid(), as every caller does
			want := m[string(ks[pos])]
			if k := it.Key(); !bytes.Equal(k, ks[pos]) {
				fail("%s: Key()=%s, model %s (in-range keys %s)", where, h(k), h(ks[pos]), hs(ks))
			}
			if v := it.Value(); !bytes.Equal(v, want) {
				fail("%s: Value()=%s at key %s, model %s", where, h(v), h(ks[pos]), h(want))
			}
			if v := it.ValueCopy(); !bytes.Equal(v, want) {
				fail("%s: ValueCopy()=%s at key %s, model %s", where, h(v), h(ks[pos]), h(want))
			}
		}
	}
}

func hs(ks [][]byte) string {
	s := make([]string, len(ks))
	for i, k := range ks {
		s[i] = h(k)
	}
	return "[" + strings.Join(s, " ") + "]"
}

// ---------------------------------------------------------------------------------------------------
// generator

var (
	alphaFull = []byte{0x00, 0x01, 'a', 'b', 0xfe, 0xff}
	// badger: no 0xff in keys, and none in derived bounds either (0xfd+1 = 0xfe)
	alphaBadger = []byte{0x00, 0x01, 'a', 'b', 0xfd}
)

type gen struct {
	t     *rapid.T
	alpha []byte
	pool  [][]byte
}

func (g *gen) bytesN(min, max int, label string) []byte {
	return rapid.SliceOfN(rapid.SampledFrom(g.alpha), min, max).Draw(g.t, label)
}

// key: mostly from the case's pool (collisions, shared prefixes), sometimes a pool key extended or cut, or fresh.
func (g *gen) key(label string) []byte {
	k := clone(rapid.SampledFrom(g.pool).Draw(g.t, label))
	switch rapid.IntRange(0, 9).Draw(g.t, label+"-shape") {
	case 0:
		return g.bytesN(1, 4, label+"-fresh")
	case 1:
		if len(k) < 4 {
			return append(k, rapid.SampledFrom(g.alpha).Draw(g.t, label+"-ext"))
		}
	case 2:
		if len(k) > 1 {
			return k[:len(k)-1]
		}
	}
	return k
}

func (g *gen) value(i int) []byte {
	switch rapid.IntRange(0, 9).Draw(g.t, "vshape") {
	case 0:
		return nil
	case 1, 2:
		return []byte{}
	}
	return []byte{byte(i), rapid.Byte().Draw(g.t, "v")}
}

// pick draws an index with the given weights (rapid's own integer draws favour small values, so the
// distribution is flattened by drawing from a wide range first).
func (g *gen) pick(label string, weights ...int) int {
	total := 0
	for _, w := range weights {
		total += w
	}
	x := int(rapid.Uint32().Draw(g.t, label) % uint32(total))
	for i, w := range weights {
		if x < w {
			return i
		}
		x -= w
	}
	return 0
}

func (g *gen) iter(outside bool) op {
	o := op{Op: "iter", Rev: rapid.Bool().Draw(g.t, "reverse")}
	switch g.pick("startshape", 1, 1, 4, 4) {
	case 0:
		o.Start = nil
	case 1:
		o.Start = []byte{}
	case 2:
		k := g.key("start")
		o.Start = k[:rapid.IntRange(1, len(k)).Draw(g.t, "cut")]
	default:
		o.Start = g.key("start")
	}
	o.Mode = []string{"prefix", "explicit", "unbounded"}[g.pick("mode", 3, 2, 1)]
	if o.Mode == "explicit" {
		// callers pass start < end; build end above start
		o.End = g.key("end")
		if bytes.Compare(o.End, o.Start) <= 0 {
			o.End = append(clone(o.Start), g.bytesN(1, 2, "endext")...)
		}
	}
	target := func() []byte {
		var k []byte
		switch g.pick("tshape", 2, 3, 2) {
		case 0:
			k = append(clone(o.Start), g.bytesN(0, 3, "tsuffix")...)
		case 1: // just above a pool key: usually absent, between two stored keys
			k = append(clone(rapid.SampledFrom(g.pool).Draw(g.t, "tbase")), rapid.SampledFrom(g.alpha).Draw(g.t, "text"))
		default:
			k = g.key("target")
		}
		if outside && g.pick("toutside", 7, 1) == 1 {
			return k // anywhere (clamping semantics; memdb/goleveldb only)
		}
		if len(k) == 0 || !o.inRange(k) {
			// ListHelper seeks to prefix+suffix: keep targets inside the iterator's range
			k = append(clone(o.Start), g.bytesN(0, 2, "tfix")...)
			if len(k) == 0 || !o.inRange(k) {
				k = nil
			}
		}
		return k
	}
	add := func(kind string) {
		s := step{Op: kind}
		if kind == "seek" {
			if s.K = target(); s.K == nil {
				s.Op = "rewind"
			}
		}
		if s.Op == "next" && len(o.Walk) == 0 && o.Rev {
			s.Op = "rewind" // no caller starts a reverse walk with Next
		}
		o.Walk = append(o.Walk, s)
	}
	switch g.pick("walkshape", 3, 3, 1, 3) {
	case 0: // the callers' loop: for it.Rewind(); it.Valid(); it.Next()
		add("rewind")
		for i, n := 0, rapid.IntRange(1, 10).Draw(g.t, "nnext"); i < n; i++ {
			add("next")
		}
	case 1: // ListHelper.IteratorScan: Seek, then Next while valid
		add("seek")
		for i, n := 0, rapid.IntRange(0, 8).Draw(g.t, "nnext"); i < n; i++ {
			add("next")
		}
	case 2: // for it.Next(); it.Valid(); it.Next()
		for i, n := 0, rapid.IntRange(1, 8).Draw(g.t, "nnext"); i < n; i++ {
			add("next")
		}
	default:
		for i, n := 0, rapid.IntRange(1, 8).Draw(g.t, "nsteps"); i < n; i++ {
			add([]string{"next", "seek", "rewind"}[g.pick("step", 4, 3, 1)])
		}
	}
	return o
}

func genCase(t *rapid.T, backend string) []op {
	g := &gen{t: t, alpha: alphaFull}
	if backend == "gobadgerdb" {
		g.alpha = alphaBadger
	}
	for i, n := 0, rapid.IntRange(3, 8).Draw(t, "poolsize"); i < n; i++ {
		if i > 0 && rapid.Bool().Draw(t, "derive") {
			// neighbour of an earlier key: same bytes with the last one replaced (prefix successor shapes)
			k := clone(g.pool[rapid.IntRange(0, i-1).Draw(t, "from")])
			k[len(k)-1] = rapid.SampledFrom(g.alpha).Draw(t, "last")
			g.pool = append(g.pool, k)
			continue
		}
		g.pool = append(g.pool, g.bytesN(1, 3, "poolkey"))
	}
	var ops []op
	bstate := "none" // none | open | written  (callers Reset a written batch before reusing it, never Write twice)
	var stagedKeys [][]byte
	// usable makes the batch accept staging: create it, or Reset it after a Write
	usable := func() {
		switch bstate {
		case "none":
			ops = append(ops, op{Op: "bnew", Sync: rapid.Bool().Draw(t, "sync")})
		case "written":
			ops = append(ops, op{Op: "breset"})
			stagedKeys = nil
		}
		bstate = "open"
	}
	kinds := []string{"iter", "episode", "set", "setsync", "del", "delsync", "get", "bset", "bdel", "bwrite", "breset", "bnew"}
	n := rapid.IntRange(1, 30).Draw(t, "nops")
	for i := 0; i < n; i++ {
		switch kind := kinds[g.pick("kind", 24, 8, 16, 3, 7, 3, 7, 8, 6, 6, 2, 2)]; kind {
		case "set", "setsync":
			ops = append(ops, op{Op: kind, K: g.key("k"), V: g.value(i)})
		case "del", "delsync", "get":
			ops = append(ops, op{Op: kind, K: g.key("k")})
		case "bnew":
			ops = append(ops, op{Op: "bnew", Sync: rapid.Bool().Draw(t, "sync")})
			bstate, stagedKeys = "open", nil
		case "bset":
			usable()
			k := g.key("k")
			stagedKeys = append(stagedKeys, k)
			ops = append(ops, op{Op: "bset", K: k, V: g.value(i)})
		case "bdel":
			usable()
			k := g.key("k")
			if len(stagedKeys) > 0 && rapid.Bool().Draw(t, "delstaged") {
				k = clone(rapid.SampledFrom(stagedKeys).Draw(t, "stagedkey"))
			}
			stagedKeys = append(stagedKeys, k)
			ops = append(ops, op{Op: "bdel", K: k})
		case "bwrite":
			if bstate == "open" {
				ops = append(ops, op{Op: "bwrite"})
				bstate = "written"
			}
		case "breset":
			if bstate != "none" {
				ops = append(ops, op{Op: "breset"})
				bstate, stagedKeys = "open", nil
			}
		case "episode":
			// a whole batch as callers build it: stage several operations, usually touching one key twice, then Write
			usable()
			twice := g.key("k2")
			for j, m := 0, rapid.IntRange(2, 5).Draw(t, "nstaged"); j < m; j++ {
				k := g.key("k")
				if j < 2 && g.pick("twice", 2, 1) == 0 {
					k = clone(twice)
				}
				if g.pick("bkind", 3, 2) == 0 {
					ops = append(ops, op{Op: "bset", K: k, V: g.value(i + j)})
				} else {
					ops = append(ops, op{Op: "bdel", K: k})
				}
			}
			ops = append(ops, op{Op: "bwrite"})
			bstate = "written"
		case "iter":
			ops = append(ops, g.iter(backend != "gobadgerdb"))
		}
	}
	return ops
}

// ---------------------------------------------------------------------------------------------------

func classify(backend string, ops []op, st stats) {
	lib.Class("backend:" + backend)
	for _, o := range ops {
		if o.Op == "iter" {
			dir := "fwd"
			if o.Rev {
				dir = "rev"
			}
			lib.Class("iter:" + o.Mode + ":" + dir)
			for _, s := range o.Walk {
				lib.Class("walk:" + s.Op)
			}
		} else {
			lib.Class("op:" + o.Op)
		}
	}
	if st.mixedBatch {
		lib.Class("case:batch_set+del_same_key")
	}
	if st.seekBetween {
		lib.Class("case:seek_between_keys")
	}
	if st.crossed {
		lib.Class("case:next_crossed_bound")
	}
}

func propBackend(t *testing.T, test, backend string) {
	defer lib.Flush()
	rapid.Check(t, func(t *rapid.T) {
		ops := genCase(t, backend)
		lib.Eval()
		st := runCase(backend, ops, true, func(c interface{}, msg string) { lib.Violation(t, prop, test, c, "%s", msg) })
		classify(backend, ops, st)
		if st.nontrivial {
			lib.NonTrivialCase(render(backend, ops))
		}
	})
}

func TestPropMemDB(t *testing.T)   { propBackend(t, "TestPropMemDB", "memdb") }
func TestPropLevelDB(t *testing.T) { propBackend(t, "TestPropLevelDB", "goleveldb") }
func TestPropBadger(t *testing.T)  { propBackend(t, "TestPropBadger", "gobadgerdb") }

// ---------------------------------------------------------------------------------------------------
// pinned minimal cases of the genuine defects found by the search (plain tests, strict oracle)

type pinnedFail string

func pinned(t *testing.T, test, id, what string, ops []op) {
	defer lib.Flush()
	var c interface{}
	msg := func() (msg string) {
		defer func() {
			if r := recover(); r != nil {
				pf, ok := r.(pinnedFail)
				if !ok {
					panic(r)
				}
				msg = string(pf)
			}
		}()
		runCase("gobadgerdb", ops, false, func(cc interface{}, m string) { c = cc; panic(pinnedFail(m)) })
		return ""
	}()
	if msg != "" {
		lib.KnownOrViolation(t, prop, test, id, c, what+" ["+msg+"]")
	}
}

// Prefix "a" (0xff-free): the key "b" == bytesPrefix("a") does not have the prefix but is visited.
func TestKnown_BadgerEndInclusive(t *testing.T) {
	pinned(t, "TestKnown_BadgerEndInclusive", kfBadgerEnd,
		"gobadgerdb iterator treats its upper bound (bytesPrefix(prefix) or explicit end) as inclusive: a stored key equal to the bound is visited",
		[]op{
			{Op: "set", K: []byte("a1"), V: []byte("v")},
			{Op: "set", K: []byte("b"), V: []byte("w")},
			{Op: "iter", Start: []byte("a"), Mode: "prefix", Walk: []step{{Op: "rewind"}, {Op: "next"}}},
			{Op: "iter", Start: []byte("a"), Mode: "prefix", Rev: true, Walk: []step{{Op: "rewind"}}},
			{Op: "iter", Start: []byte("a"), End: []byte("b"), Mode: "explicit", Rev: true, Walk: []step{{Op: "rewind"}}},
		})
}

// "for it.Next(); it.Valid(); it.Next()" (p2pstore.deleteChunkBlock) skips the first key on badger.
func TestKnown_BadgerFreshNext(t *testing.T) {
	pinned(t, "TestKnown_BadgerFreshNext", kfBadgerFresh,
		"gobadgerdb iterator is created already positioned on the first key, so Next() as the first call (the loop used by p2pstore.deleteChunkBlock) skips it",
		[]op{
			{Op: "set", K: []byte("k1"), V: []byte("v")},
			{Op: "set", K: []byte("k2"), V: []byte("w")},
			{Op: "iter", Start: []byte("k"), Mode: "prefix", Walk: []step{{Op: "next"}, {Op: "next"}, {Op: "next"}}},
		})
}
