package c30

import (
	"fmt"
	"testing"

	"github.com/33cn/chain33/types"
	"pgregory.net/rapid"
)

func TestDbgTail(t *testing.T) {
	rapid.Check(t, func(t *rapid.T) {
		c := genBlockCase(t)
		if c.Regime != "size" {
			return
		}
		fx := newFixture(c.L)
		defer fx.close()
		sum := 0
		for _, it := range c.Items {
			it.build(fx.cfg, nil, false)
			sum += it.size
		}
		last := c.Items[len(c.Items)-1]
		fmt.Println("items", len(c.Items), "sum", sum, "want", types.MaxBlockSize-100000-sum, "last", len(last.Txs), last.size, "blocked", len(c.Blocked))
	})
}
