// C30: blocks assembled by consensus.BaseClient.AddTxsToBlock respect the per-height count limit, the block
// size bound, group atomicity, input order and the account blacklist; CheckTxExpire drops exactly the expired
// singles and the groups holding an expired member.
//
// Inputs are what the real callers hand over (system/consensus/solo/solo.go CreateBlock: the reply of the
// mempool's EventTxList after CheckTxDup): signed single transactions and *pool-form* groups (a clone of the
// head transaction whose Header carries the encoded types.Transactions), every transaction <= types.MaxTxSize,
// groups of 2..20 members; the block passed in has Height/ParentHash set and at most a few earlier
// transactions.  CheckTxExpire receives the *expanded* form (block.Txs: group members contiguous, each with
// GroupCount and Header = group hash), height > 0 and blocktime > 0.
package c30

import (
	"bytes"
	"fmt"
	"sort"
	"strings"
	"testing"

	"github.com/33cn/chain33/common"
	"github.com/33cn/chain33/common/address"
	"github.com/33cn/chain33/common/crypto"
	"github.com/33cn/chain33/common/log/log15"
	"github.com/33cn/chain33/queue"
	_ "github.com/33cn/chain33/system"
	"github.com/33cn/chain33/system/consensus"
	cty "github.com/33cn/chain33/system/dapp/coins/types"
	"github.com/33cn/chain33/types"
	"pgregory.net/rapid"
	"verifharness/lib"
)

const prop = "C30"

// Known-finding ids (see TestKnown_* below).
const (
	kfFraming = "C30-size-framing-unaccounted"
	kfExpire  = "C30-expire-decodable-group-header"
)

func TestMain(m *testing.M) {
	log15.Root().SetHandler(log15.DiscardHandler())
	lib.Main(m)
}

// ---------------------------------------------------------------------------------------------------------
// fixture: a BaseClient on a queue that holds nothing but a configuration with drawn fork heights and limits

type limits struct {
	A, B, C    int64 // maxTxNumber before F1, from F1, from F2
	F1, F2, HB int64 // ForkChainParamV1, ForkChainParamV2, ForkAccountBlacklist
}

// maxAt is the oracle's own reading of "the per-height transaction-count limit": the value configured under the
// latest of the two forks that is active at h, otherwise the base value.
func (l limits) maxAt(h int64) int64 {
	switch {
	case h >= l.F2:
		return l.C
	case h >= l.F1:
		return l.B
	}
	return l.A
}

var (
	forkNames     map[string]int64 // every fork the linked code registers (system and "dapp.fork")
	forkNamesOnce = false
)

func cfgText(l limits) string {
	if !forkNamesOnce {
		probe := types.NewChain33Config(types.GetDefaultCfgstring())
		f, err := probe.GetForks()
		if err != nil {
			lib.Inconclusive("cannot list forks: %v", err)
		}
		forkNames = map[string]int64{}
		for k, v := range f {
			forkNames[k] = v
		}
		forkNamesOnce = true
	}
	s := types.GetDefaultCfgstring()
	s = strings.Replace(s, `Title="local"`, `Title="verifc30"`, 1)
	// [mver.consensus] maxTxNumber by fork
	old := "maxTxNumber = 10000\n\n[mver.consensus.ForkChainParamV1]\nmaxTxNumber = 10000\n\n[mver.consensus.ForkChainParamV2]\n"
	if !strings.Contains(s, old) {
		lib.Inconclusive("default config text changed: mver.consensus block not found")
	}
	s = strings.Replace(s, old, fmt.Sprintf("maxTxNumber = %d\n\n[mver.consensus.ForkChainParamV1]\nmaxTxNumber = %d\n\n[mver.consensus.ForkChainParamV2]\nmaxTxNumber = %d\n", l.A, l.B, l.C), 1)
	var names []string
	for k := range forkNames {
		names = append(names, k)
	}
	sort.Strings(names)
	var sys strings.Builder
	sub := map[string][]string{}
	sys.WriteString("\n[fork.system]\n")
	for _, k := range names {
		h := int64(0)
		switch k {
		case "ForkChainParamV1":
			h = l.F1
		case "ForkChainParamV2":
			h = l.F2
		case types.ForkAccountBlacklist:
			h = l.HB
		case "ForkBlockHash", "ForkRootHash":
			h = 1
		}
		if i := strings.Index(k, "."); i >= 0 {
			sub[k[:i]] = append(sub[k[:i]], fmt.Sprintf("%s=%d\n", k[i+1:], h))
			continue
		}
		fmt.Fprintf(&sys, "%s=%d\n", k, h)
	}
	var dapps []string
	for d := range sub {
		dapps = append(dapps, d)
	}
	sort.Strings(dapps)
	for _, d := range dapps {
		fmt.Fprintf(&sys, "[fork.sub.%s]\n%s", d, strings.Join(sub[d], ""))
	}
	return s + sys.String()
}

type fixture struct {
	cfg *types.Chain33Config
	q   queue.Queue
	bc  *consensus.BaseClient
}

func newFixture(l limits) *fixture {
	cfg := types.NewChain33Config(cfgText(l))
	q := queue.New("channel")
	q.SetConfig(cfg)
	bc := consensus.NewBaseClient(&types.Consensus{Name: "solo"})
	bc.InitClient(q.Client(), func() {})
	return &fixture{cfg: cfg, q: q, bc: bc}
}

func (f *fixture) close() { f.q.Close() }

// ---------------------------------------------------------------------------------------------------------
// accounts and transactions

const nKeys = 6

type acct struct {
	priv crypto.PrivKey
	pub  []byte
	btc  string // address id 0
	eth  string // address id 2
}

var accts = func() []acct {
	c, err := crypto.Load("secp256k1", -1)
	if err != nil {
		panic(err)
	}
	out := make([]acct, nKeys)
	for i := range out {
		b := bytes.Repeat([]byte{byte(0x11 + i)}, 32)
		p, err := c.PrivKeyFromBytes(b)
		if err != nil {
			panic(err)
		}
		pub := p.PubKey().Bytes()
		out[i] = acct{priv: p, pub: pub, btc: address.PubKeyToAddr(0, pub), eth: address.PubKeyToAddr(2, pub)}
	}
	return out
}()

var ethSign = types.EncodeSignID(types.SECP256K1, 2)

// who names an account in one of its two address forms.
type who struct {
	K   int  `json:"k"`
	Eth bool `json:"eth,omitempty"`
}

func (w who) addr() string {
	if w.Eth {
		return accts[w.K].eth
	}
	return accts[w.K].btc
}

// txSpec is the plain-data description of one transaction.
type txSpec struct {
	From who  `json:"from"`
	To   *who `json:"to,omitempty"` // nil: a "none" notary transaction to the executor address
	Pay  int  `json:"pay"`          // payload / note bytes
	// Via says where the account in To is written: "" coins transfer (tx.To), "evmAddr" evm action ContractAddr,
	// "evmPara" 20-byte evm Para.  For the evm forms tx.To is the evm executor address, or the ordinary account ToAcct.
	Via    string `json:"via,omitempty"`
	ToAcct *who   `json:"to_acct,omitempty"`
	Expire int64  `json:"expire,omitempty"`
	Nonce  int64  `json:"nonce"`
}

var bigBuf = bytes.Repeat([]byte{0x5a}, types.MaxTxSize)

func (s txSpec) build(cfg *types.Chain33Config, sign bool) *types.Transaction {
	tx := &types.Transaction{Fee: 1e7, Expire: s.Expire, Nonce: s.Nonce, ChainID: cfg.GetChainID()}
	if s.To == nil {
		tx.Execer = []byte("none")
		tx.Payload = bigBuf[:s.Pay]
		tx.To = address.ExecAddress("none")
	} else if s.Via != "" {
		tx.Execer = []byte("evm")
		act := &types.EVMContractAction4Chain33{GasLimit: 100000, GasPrice: 1, Code: bigBuf[:s.Pay]}
		if s.Via == "evmAddr" {
			act.ContractAddr, act.Para = s.To.addr(), []byte("calldata-not-20-bytes-long")
		} else {
			act.ContractAddr, act.Para = address.ExecAddress("evm"), raw20(*s.To)
		}
		tx.Payload = types.Encode(act)
		tx.To = address.ExecAddress("evm")
		if s.ToAcct != nil {
			tx.To = s.ToAcct.addr()
		}
	} else {
		tx.Execer = []byte("coins")
		tr := &types.AssetsTransfer{Amount: 1, To: s.To.addr(), Note: bigBuf[:s.Pay]}
		tx.Payload = types.Encode(&cty.CoinsAction{Ty: cty.CoinsActionTransfer, Value: &cty.CoinsAction_Transfer{Transfer: tr}})
		tx.To = s.To.addr()
	}
	signTx(tx, s.From, sign)
	return tx
}

// raw20 is the 20-byte form of an account (eth: the address bytes, base58: its hash160).
func raw20(w who) []byte {
	if w.Eth {
		b, _ := common.FromHex(accts[w.K].eth)
		return b
	}
	a, err := address.NewBtcAddress(accts[w.K].btc)
	if err != nil {
		panic(err)
	}
	return a.Hash160[:]
}

var dummySig = bytes.Repeat([]byte{0x30}, 70)

func signTx(tx *types.Transaction, w who, real bool) {
	ty := int32(types.SECP256K1)
	if w.Eth {
		ty = ethSign
	}
	if real {
		tx.Sign(ty, accts[w.K].priv)
		return
	}
	tx.Signature = &types.Signature{Ty: ty, Pubkey: accts[w.K].pub, Signature: dummySig}
}

// item is one element of the list handed to AddTxsToBlock.
type item struct {
	Txs []txSpec `json:"txs"`
	// built
	pool     *types.Transaction   // what the pool hands over
	expanded []*types.Transaction // what must appear in the block if the item is taken
	touch    bool                 // some member's sender or To is a blocked account (by construction)
	size     int
}

func (it *item) build(cfg *types.Chain33Config, blocked map[who]bool, sign bool) {
	it.touch = false
	for _, s := range it.Txs {
		if blocked[s.From] || (s.To != nil && blocked[*s.To]) || (s.ToAcct != nil && blocked[*s.ToAcct]) {
			it.touch = true
		}
	}
	if len(it.Txs) == 1 {
		tx := it.Txs[0].build(cfg, sign)
		it.pool, it.expanded, it.size = tx, []*types.Transaction{tx}, tx.Size()
		return
	}
	txs := make([]*types.Transaction, len(it.Txs))
	for i, s := range it.Txs {
		txs[i] = s.build(cfg, false)
		txs[i].Signature = nil
	}
	g, err := types.CreateTxGroup(txs, cfg.GetMinTxFeeRate())
	if err != nil {
		panic(fmt.Sprintf("CreateTxGroup: %v", err))
	}
	it.size = 0
	for i := range g.Txs {
		signTx(g.Txs[i], it.Txs[i].From, sign)
		it.size += g.Txs[i].Size()
	}
	it.pool, it.expanded = g.Tx(), g.Txs
}

// sameTx compares every field of two transactions (cheaper than encoding 100 KB payloads).
func sameTx(a, b *types.Transaction) bool {
	sa, sb := a.GetSignature(), b.GetSignature()
	return bytes.Equal(a.Execer, b.Execer) && bytes.Equal(a.Payload, b.Payload) && a.Fee == b.Fee && a.Expire == b.Expire &&
		a.Nonce == b.Nonce && a.To == b.To && a.GroupCount == b.GroupCount && bytes.Equal(a.Header, b.Header) &&
		bytes.Equal(a.Next, b.Next) && a.ChainID == b.ChainID && sa.GetTy() == sb.GetTy() &&
		bytes.Equal(sa.GetPubkey(), sb.GetPubkey()) && bytes.Equal(sa.GetSignature(), sb.GetSignature())
}

// ---------------------------------------------------------------------------------------------------------
// generators

type blockCase struct {
	Regime  string  `json:"regime"`
	L       limits  `json:"limits"`
	Height  int64   `json:"height"`
	Blocked []who   `json:"blocked,omitempty"`
	Pre     int     `json:"pre"`
	Items   []*item `json:"items,omitempty"`
	// dense regime: N equal-shaped singles described parametrically (too many to list)
	DenseN   int `json:"dense_n,omitempty"`
	DensePay int `json:"dense_pay,omitempty"`
	// size regime: one more item is appended so that the running total lands TailDelta bytes from the bound
	// Prime: before the call under test, and under the same blacklist installation, AddTxsToBlock is given (on a scratch
	// block) the items that touch only through a sender, re-signed by an unblocked key: same bodies, same transaction
	// ids (the id does not cover the signature), different senders
	Prime     bool `json:"prime,omitempty"`
	Tune      bool `json:"tune,omitempty"`
	TailDelta int  `json:"tail_delta,omitempty"`
	TailGroup bool `json:"tail_group,omitempty"`
}

func genWho(t *rapid.T, label string) who {
	return who{K: rapid.IntRange(0, nKeys-1).Draw(t, label+"K"), Eth: rapid.Bool().Draw(t, label+"Eth")}
}

func genTxSpec(t *rapid.T, pay int, blocked []who, nonce *int64) txSpec {
	*nonce++
	s := txSpec{From: genWho(t, "from"), Pay: pay, Nonce: *nonce}
	kind := rapid.IntRange(0, 9).Draw(t, "txkind")
	if kind >= 6 {
		w := genWho(t, "to")
		s.To = &w
	}
	if len(blocked) > 0 && kind >= 8 { // aim at a blocked account
		b := rapid.SampledFrom(blocked).Draw(t, "hit")
		if rapid.Bool().Draw(t, "hitFrom") {
			s.From = b
		} else {
			s.To = &b
		}
	}
	// the account may sit in an evm payload instead of tx.To; tx.To is then free (executor address or an unblocked account)
	if s.To != nil {
		s.Via = rapid.SampledFrom([]string{"", "", "evmAddr", "evmPara"}).Draw(t, "via")
		if s.Via != "" && rapid.Bool().Draw(t, "freeTo") {
			a := genWho(t, "toAcct")
			for free := false; !free; {
				free = true
				for _, b := range blocked {
					free = free && b != a
				}
				if !free {
					if a.Eth = !a.Eth; !a.Eth {
						a.K = (a.K + 1) % nKeys
					}
				}
			}
			s.ToAcct = &a
		}
	}
	return s
}

func genItem(t *rapid.T, payLo, payHi int, maxGroup int, blocked []who, nonce *int64) *item {
	n := 1
	if maxGroup >= 2 && rapid.IntRange(0, 9).Draw(t, "isGroup") < 4 {
		n = rapid.IntRange(2, maxGroup).Draw(t, "groupN")
	}
	it := &item{}
	for i := 0; i < n; i++ {
		it.Txs = append(it.Txs, genTxSpec(t, rapid.IntRange(payLo, payHi).Draw(t, "pay"), blocked, nonce))
	}
	return it
}

func genLimits(t *rapid.T, regime string) limits {
	var l limits
	switch regime {
	case "size":
		vals := []int64{1500, 1600, 10000}
		l.A, l.B, l.C = rapid.SampledFrom(vals).Draw(t, "A"), rapid.SampledFrom(vals).Draw(t, "B"), rapid.SampledFrom(vals).Draw(t, "C")
	case "dense":
		vals := []int64{34000, 40000, 60000, 100000}
		l.A, l.B, l.C = rapid.SampledFrom(vals).Draw(t, "A"), rapid.SampledFrom(vals).Draw(t, "B"), rapid.SampledFrom(vals).Draw(t, "C")
	default:
		l.A, l.B, l.C = rapid.Int64Range(1, 40).Draw(t, "A"), rapid.Int64Range(1, 40).Draw(t, "B"), rapid.Int64Range(1, 40).Draw(t, "C")
	}
	l.F1 = rapid.Int64Range(2, 20).Draw(t, "F1")
	l.F2 = l.F1 + rapid.Int64Range(1, 20).Draw(t, "F2d")
	l.HB = rapid.Int64Range(2, 45).Draw(t, "HB")
	return l
}

func genHeight(t *rapid.T, l limits, blocked bool) int64 {
	bases := []int64{l.F1, l.F2, l.HB}
	if blocked { // the blacklist fork matters: look at it more often
		bases = []int64{l.F1, l.F2, l.HB, l.HB, l.HB + 1}
	}
	base := rapid.SampledFrom(bases).Draw(t, "hBase")
	h := base + rapid.Int64Range(-1, 1).Draw(t, "hOff")
	if h < 1 {
		h = 1
	}
	return h
}

func genBlocked(t *rapid.T) []who {
	if rapid.IntRange(0, 9).Draw(t, "hasBlocked") < 3 {
		return nil
	}
	n := rapid.IntRange(1, 2).Draw(t, "nBlocked")
	var out []who
	for i := 0; i < n; i++ {
		out = append(out, genWho(t, "blocked"))
	}
	return out
}

// tuneSize adjusts Pay (and, because the DER signature length varies with the message, Nonce) of a signed "none"
// transaction spec until its encoded size is exactly want; ok=false if that fails.
func tuneSize(cfg *types.Chain33Config, spec txSpec, want int) (txSpec, bool) {
	spec.Pay = 1000
	base := spec.build(cfg, true).Size() - 1000 // envelope around a 1000-byte payload
	for n := int64(0); n < 8; n++ {
		for d := 0; d <= 4; d++ {
			for _, guess := range []int{want - base - d, want - base + d} {
				if guess < 1 || guess > types.MaxTxSize-300 {
					continue
				}
				try := spec
				try.Pay, try.Nonce = guess, spec.Nonce+n*1000
				if try.build(cfg, true).Size() == want {
					return try, true
				}
			}
		}
	}
	return spec, false
}

func genBlockCase(t *rapid.T) *blockCase {
	regimes := []string{"count", "mixed", "size", "count", "mixed", "dense", "count", "mixed", "size", "count", "mixed", "count"}
	c := &blockCase{Regime: rapid.SampledFrom(regimes).Draw(t, "regime")}
	c.L = genLimits(t, c.Regime)
	switch c.Regime {
	case "count", "mixed":
		c.Blocked = genBlocked(t)
	case "size":
		if rapid.IntRange(0, 3).Draw(t, "sizeBlocked") == 0 {
			c.Blocked = genBlocked(t)
		}
	}
	c.Prime = len(c.Blocked) > 0 && rapid.Bool().Draw(t, "prime")
	c.Height = genHeight(t, c.L, len(c.Blocked) > 0)
	limit := c.L.maxAt(c.Height)
	// a caller's block may already hold a miner transaction or two, never more than the limit
	c.Pre = rapid.IntRange(0, 2).Draw(t, "pre")
	if int64(c.Pre) > limit {
		c.Pre = int(limit)
	}
	nonce := int64(1000)
	switch c.Regime {
	case "count":
		target := int(limit) - c.Pre + rapid.IntRange(-3, 6).Draw(t, "over")
		for n := 0; n < target; {
			it := genItem(t, 0, 300, 6, c.Blocked, &nonce)
			c.Items = append(c.Items, it)
			n += len(it.Txs)
		}
	case "mixed":
		n := rapid.IntRange(0, 30).Draw(t, "nItems")
		for i := 0; i < n; i++ {
			c.Items = append(c.Items, genItem(t, 0, 2000, 20, c.Blocked, &nonce))
		}
	case "size":
		// big items until the payloads alone exceed the accumulation bound; with Tune the list is cut and a tail
		// landing within 3 bytes of the bound is appended in runBlockCase
		room := types.MaxBlockSize - 100000
		for sum := 0; sum < room; {
			it := genItem(t, 60000, 99000, 20, c.Blocked, &nonce)
			c.Items = append(c.Items, it)
			for _, s := range it.Txs {
				sum += s.Pay
			}
		}
		c.Tune = rapid.IntRange(0, 2).Draw(t, "tune") > 0
		c.TailDelta = rapid.IntRange(-3, 3).Draw(t, "tailDelta")
		c.TailGroup = rapid.Bool().Draw(t, "tailGroup")
	case "dense":
		// about maxTx small transactions whose sizes add up to about the accumulation bound
		// (share of the bound per transaction) - (about 170 bytes of envelope) + jitter: either limit may bind first
		c.DenseN = int(limit) + rapid.IntRange(-2, 3).Draw(t, "denseOver")
		c.DensePay = (types.MaxBlockSize-100000)/int(limit) - 170 + rapid.IntRange(-30, 10).Draw(t, "densePay")
		if c.DensePay < 1 {
			c.DensePay = 1
		}
	}
	return c
}

// ---------------------------------------------------------------------------------------------------------
// oracle

type outcome struct {
	taken     []bool
	nTaken    int
	stopCount bool // the first untaken, unblocked item would have exceeded the count limit
	stopSize  bool // ... the size bound
	straddle  bool // that item is a group
	overBy    int  // bytes by which that item would have exceeded the size bound
}

func runBlockCase(t lib.TB, c *blockCase) {
	tailDelta, tailGroup := c.TailDelta, c.TailGroup
	lib.Eval()
	fx := newFixture(c.L)
	defer fx.close()
	cfg := fx.cfg
	bl := map[who]bool{}
	var blAddrs []string
	for _, w := range c.Blocked {
		if !bl[w] {
			bl[w] = true
			blAddrs = append(blAddrs, w.addr())
		}
	}
	restore := types.SetBlockedAccountsForTest(blAddrs) // process-global: set per case, restored below
	defer restore()

	height := c.Height
	limit := c.L.maxAt(height)
	active := height >= c.L.HB
	fail := func(format string, a ...interface{}) {
		lib.Violation(t, prop, "TestPropAddTxsToBlock", c, format, a...)
	}
	if got := cfg.GetP(height).MaxTxNumber; got != limit {
		fail("MaxTxNumber(%d) = %d, configured %d (A=%d<F1=%d<=B=%d<F2=%d<=C=%d)", height, got, limit, c.L.A, c.L.F1, c.L.B, c.L.F2, c.L.C)
	}

	items := c.Items
	if c.Regime == "dense" {
		items = make([]*item, c.DenseN)
		for i := range items {
			items[i] = &item{Txs: []txSpec{{From: who{K: i % nKeys}, Pay: c.DensePay, Nonce: int64(i + 1)}}}
		}
	}
	nTx := 0
	for _, it := range items {
		nTx += len(it.Txs)
	}
	sign := nTx <= 400
	for _, it := range items {
		it.build(cfg, bl, sign)
	}
	newBlock := func() *types.Block {
		b := &types.Block{Height: height, ParentHash: bytes.Repeat([]byte{7}, 32)}
		for i := 0; i < c.Pre; i++ {
			b.Txs = append(b.Txs, txSpec{From: who{K: 0}, Pay: 10, Nonce: int64(-1 - i)}.build(cfg, true))
		}
		return b
	}
	if c.Regime == "size" && c.Tune {
		// Boundary seeking: keep the longest prefix whose packable sum stays 120000 below the accumulation bound, pad
		// with 90 KB singles, then append one item (single, or group of two) that lands the running total exactly
		// TailDelta bytes from the bound, and a small filler after it.
		bound := types.MaxBlockSize - 100000
		sum, keep := newBlock().Size(), 0
		for i, it := range items {
			add := it.size
			if active && it.touch {
				add = 0
			}
			if sum+add > bound-120000 {
				break
			}
			sum, keep = sum+add, i+1
		}
		items = items[:keep:keep]
		nonce := int64(777000)
		next := func(k, pay int) txSpec { nonce++; return txSpec{From: who{K: k}, Pay: pay, Nonce: nonce} }
		reach := 95000 // what the tail item can span: one transaction, or two
		if tailGroup {
			reach = 190000
		}
		for bound+tailDelta-sum > reach {
			pay := bound + tailDelta - sum - 50000
			if pay > 90000 {
				pay = 90000
			}
			pad := &item{Txs: []txSpec{next(4, pay)}}
			pad.build(cfg, bl, true)
			items, sum = append(items, pad), sum+pad.size
		}
		want := bound + tailDelta - sum
		var tail *item
		if tailGroup && want > 1200 {
			a, ok := tuneSize(cfg, next(1, 0), want/2)
			if b := next(2, a.Pay); ok {
				tail = &item{Txs: []txSpec{a, b}}
				tail.build(cfg, bl, true)
				// members gain Header/Next/GroupCount/fee bytes inside a group: re-tune the second member
				for k := 0; k < 12 && tail.size != want; k++ {
					tail.Txs[1].Pay += want - tail.size
					tail.Txs[1].Nonce += int64(k%2) * 1000 // another signature length
					if tail.Txs[1].Pay < 1 || tail.Txs[1].Pay > 99000 {
						break
					}
					tail.build(cfg, bl, true)
				}
			}
		} else if want > 300 && want < 99500 {
			if a, ok := tuneSize(cfg, next(1, 0), want); ok {
				tail = &item{Txs: []txSpec{a}}
				tail.build(cfg, bl, true)
			}
		}
		if tail != nil {
			filler := &item{Txs: []txSpec{next(3, 5)}}
			filler.build(cfg, bl, true)
			items = append(items, tail, filler)
			lib.Class("size_tail_tuned")
		}
	}

	pool := make([]*types.Transaction, len(items))
	for i, it := range items {
		pool[i] = it.pool
	}
	if c.Prime && active {
		free := who{K: 0}
		for bl[free] {
			if free.Eth = !free.Eth; !free.Eth {
				free.K++
			}
		}
		var twins []*types.Transaction
		for _, it := range items {
			tw := &item{Txs: append([]txSpec(nil), it.Txs...)}
			resigned := false
			for k := range tw.Txs {
				if bl[tw.Txs[k].From] {
					tw.Txs[k].From, resigned = free, true
				}
			}
			if !resigned {
				continue
			}
			tw.build(cfg, bl, sign)
			if !tw.touch { // touched only through its senders
				twins = append(twins, tw.pool)
				lib.Class("primed_with_clean_signed_twin")
			}
		}
		scratch := newBlock()
		fx.bc.AddTxsToBlock(scratch, twins)
	}
	block := newBlock()
	fx.bc.AddTxsToBlock(block, pool)

	// (1) count limit at this height
	if int64(len(block.Txs)) > limit {
		fail("block at height %d holds %d transactions, limit %d", height, len(block.Txs), limit)
	}
	// (2) size bound; the framing finding is tolerated only by its exact signature
	size := types.Size(block)
	if size > types.MaxBlockSize {
		payload := newBlock().Size()
		for _, tx := range block.Txs[c.Pre:] {
			payload += tx.Size()
		}
		framingOnly := payload <= types.MaxBlockSize-100000 && len(block.Txs) > 100000/3
		if lib.Known(kfFraming) && framingOnly {
			lib.ExcludedKnown(kfFraming)
		} else {
			fail("block of %d transactions has encoded size %d > MaxBlockSize %d (sum of transaction sizes + empty block = %d)", len(block.Txs), size, types.MaxBlockSize, payload)
		}
	}
	// (3) order / atomicity: block.Txs = earlier txs ++ expansions of an increasing subsequence of the items
	out := outcome{taken: make([]bool, len(items))}
	pos := c.Pre
	for i, it := range items {
		exp := it.expanded
		m := 0
		for m < len(exp) && pos+m < len(block.Txs) && sameTx(block.Txs[pos+m], exp[m]) {
			m++
		}
		switch {
		case m == len(exp):
			out.taken[i] = true
			out.nTaken++
			pos += m
			// (4) blacklist rule active: nothing taken may touch a blocked account
			if active && it.touch {
				fail("height %d >= ForkAccountBlacklist %d: item %d touching a blocked account was packed", height, c.L.HB, i)
			}
		case m > 0:
			fail("item %d (group of %d) is partially included: %d members at block position %d", i, len(exp), m, pos)
		}
	}
	if pos != len(block.Txs) {
		fail("block.Txs[%d] is not the next transaction of any remaining item in the given order (len %d)", pos, len(block.Txs))
	}
	// (5) "skips": with the rule active the result equals the one for the list without the touching items
	hasTouch := false
	for _, it := range items {
		hasTouch = hasTouch || it.touch
	}
	if active && hasTouch {
		var clean []*types.Transaction
		for _, it := range items {
			if !it.touch {
				clean = append(clean, it.pool)
			}
		}
		b2 := newBlock()
		fx.bc.AddTxsToBlock(b2, clean)
		if len(b2.Txs) != len(block.Txs) {
			fail("skipping is not transparent: %d transactions packed, %d when the touching items are absent", len(block.Txs), len(b2.Txs))
		}
		for i := range b2.Txs {
			if !sameTx(b2.Txs[i], block.Txs[i]) {
				fail("skipping is not transparent: position %d differs when the touching items are absent", i)
			}
		}
	}

	// classification: why did packing stop (computed from the specification's quantities, for coverage only)
	cnt, sum := int64(c.Pre), newBlock().Size()
	for i, it := range items {
		if out.taken[i] {
			cnt += int64(len(it.expanded))
			sum += it.size
			continue
		}
		if active && it.touch {
			continue
		}
		if cnt+int64(len(it.expanded)) > limit {
			out.stopCount = true
		} else if sum+it.size > types.MaxBlockSize-100000 {
			out.stopSize = true
			out.overBy = sum + it.size - (types.MaxBlockSize - 100000)
		}
		out.straddle = len(it.expanded) > 1
		break
	}
	lib.Class("regime_" + c.Regime)
	if active {
		lib.Class("blacklist_active")
	}
	for _, it := range items {
		for _, sp := range it.Txs {
			if sp.Via != "" && sp.ToAcct != nil && bl[*sp.To] && !bl[sp.From] {
				lib.Class("touching_via_evm_payload_with_ordinary_to")
			}
		}
	}
	if hasTouch {
		lib.Class("has_touching_item")
		if active {
			lib.Class("touching_item_while_active")
		}
	}
	nearCount := limit-int64(len(block.Txs)) <= 1
	nearSize := types.MaxBlockSize-100000-sum <= 100000
	switch {
	case out.stopCount:
		lib.Class("stopped_by_count")
	case out.stopSize:
		lib.Class("stopped_by_size")
	default:
		lib.Class("took_everything_eligible")
	}
	if out.straddle {
		lib.Class("group_straddles_limit")
	}
	if int64(len(block.Txs)) == limit {
		lib.Class("count_exactly_at_limit")
	}
	if d := types.MaxBlockSize - 100000 - sum; d >= 0 && d <= 3 {
		lib.Class("size_packed_within_3_bytes_of_bound")
	}
	if out.overBy >= 1 && out.overBy <= 3 {
		lib.Class("size_item_rejected_for_1_to_3_bytes")
	}
	// non-trivial (DESIGN C30): the result is within one transaction of either limit and a group straddles it
	if (out.stopCount && nearCount || out.stopSize && nearSize) && out.straddle {
		lib.NonTrivialCase(summary(c, len(items), len(block.Txs), size))
	}
}

func summary(c *blockCase, nItems, packed, size int) map[string]interface{} {
	shape := make([]int, 0, 40)
	for i, it := range c.Items {
		if i == 40 {
			break
		}
		shape = append(shape, len(it.Txs))
	}
	return map[string]interface{}{"regime": c.Regime, "limits": c.L, "height": c.Height, "pre": c.Pre, "blocked": c.Blocked,
		"items": nItems, "first_item_sizes": shape, "packed": packed, "block_bytes": size}
}

func TestPropAddTxsToBlock(t *testing.T) {
	defer lib.Flush()
	rapid.Check(t, func(t *rapid.T) {
		runBlockCase(t, genBlockCase(t))
	})
}

// TestKnown_BlockSizeFraming pins the minimal shape of finding C30-size-framing-unaccounted: with
// maxTxNumber = 40000 (any value above 33333) and 40000 pooled transactions of about 497 bytes, AddTxsToBlock adds
// up Size(tx) only, keeps that sum under MaxBlockSize-100000, and the encoded block (3 framing bytes per
// transaction more) exceeds MaxBlockSize, which BaseClient.CheckBlock rejects with ErrBlockSize.
func TestKnown_BlockSizeFraming(t *testing.T) {
	defer lib.Flush()
	lib.Eval()
	c := &blockCase{Regime: "dense", L: limits{A: 40000, B: 40000, C: 40000, F1: 2, F2: 3, HB: 1000}, Height: 2, DenseN: 40000,
		DensePay: (types.MaxBlockSize-100000)/40000 - 170 + 4}
	fx := newFixture(c.L)
	defer fx.close()
	pool := make([]*types.Transaction, c.DenseN)
	sum := 0
	for i := range pool {
		pool[i] = txSpec{From: who{K: i % nKeys}, Pay: c.DensePay, Nonce: int64(i + 1)}.build(fx.cfg, false)
		sum += pool[i].Size()
	}
	block := &types.Block{Height: c.Height, ParentHash: bytes.Repeat([]byte{7}, 32)}
	fx.bc.AddTxsToBlock(block, pool)
	if size := types.Size(block); size > types.MaxBlockSize {
		lib.KnownOrViolation(t, prop, "TestKnown_BlockSizeFraming", kfFraming, c,
			fmt.Sprintf("AddTxsToBlock packed %d of %d transactions (sum of Size(tx) of the packed ones <= %d) into a block whose encoded size is %d > MaxBlockSize %d: the per-transaction protobuf framing (tag + length, 3 bytes each) is not accumulated and exceeds the 100000-byte reserve once a block holds more than 33333 transactions",
				len(block.Txs), len(pool), types.MaxBlockSize-100000, size, types.MaxBlockSize))
	}
}
