package c30

import (
	"fmt"
	"testing"

	"github.com/33cn/chain33/types"
	"pgregory.net/rapid"
	"verifharness/lib"
)

// CheckTxExpire (doc comment in system/consensus/base.go: "the groups are expanded here; filter out the expired
// transactions" / "when a group has an expired transaction the whole group must be deleted").
// Oracle: the result is the input list minus (expired singles) minus (every member of a group with >= 1 expired
// member), in the given order.  Expiry is decided by the harness from the way Expire was chosen:
//   0                      never expires
//   1 .. 1e9  (height)     expired iff Expire <= height
//   > 1e9     (block time) expired iff Expire <= blocktime       (TxHeight-style values are not generated)

type expItem struct {
	Expire []int64 `json:"expire"` // one per member; len 1 = single
	Mine   bool    `json:"mine"`   // search a head nonce making the group hash decode as a types.Transactions message
	txs    []*types.Transaction
}

type expCase struct {
	Height    int64      `json:"height"`
	BlockTime int64      `json:"blocktime"`
	Items     []*expItem `json:"items"`
}

func expired(e, height, blocktime int64) bool {
	switch {
	case e == 0:
		return false
	case e <= 1000000000:
		return e <= height
	}
	return e <= blocktime
}

func headerDecodes(h []byte) bool {
	var g types.Transactions
	return types.Decode(h, &g) == nil
}

func (it *expItem) build(cfg *types.Chain33Config, nonce *int64) {
	mk := func(i int, n int64) *types.Transaction {
		return txSpec{From: who{K: i % nKeys}, Pay: 8, Expire: it.Expire[i], Nonce: n}.build(cfg, false)
	}
	if len(it.Expire) == 1 {
		*nonce++
		tx := mk(0, *nonce)
		signTx(tx, who{K: 0}, true)
		it.txs = []*types.Transaction{tx}
		return
	}
	for try := 0; ; try++ {
		txs := make([]*types.Transaction, len(it.Expire))
		for i := range txs {
			*nonce++
			txs[i] = mk(i, *nonce)
			txs[i].Signature = nil
		}
		g, err := types.CreateTxGroup(txs, cfg.GetMinTxFeeRate())
		if err != nil {
			panic(err)
		}
		if it.Mine && !headerDecodes(g.Txs[0].Header) && try < 20000 {
			continue
		}
		for i := range g.Txs {
			signTx(g.Txs[i], who{K: i % nKeys}, false)
		}
		it.txs = g.Txs
		return
	}
}

func genExpCase(t *rapid.T) *expCase {
	c := &expCase{Height: rapid.Int64Range(1, 50).Draw(t, "height"), BlockTime: 1600000000 + rapid.Int64Range(0, 1000).Draw(t, "bt")}
	genExpire := func() int64 {
		switch rapid.IntRange(0, 5).Draw(t, "ek") {
		case 0, 1:
			return 0
		case 2, 3:
			if e := c.Height + rapid.Int64Range(-2, 2).Draw(t, "eh"); e >= 1 {
				return e
			}
			return 1
		}
		return c.BlockTime + rapid.Int64Range(-2, 2).Draw(t, "et")
	}
	n := rapid.IntRange(0, 12).Draw(t, "n")
	for i := 0; i < n; i++ {
		it := &expItem{}
		m := 1
		if rapid.Bool().Draw(t, "group") {
			m = rapid.IntRange(2, 6).Draw(t, "m")
			it.Mine = rapid.IntRange(0, 24).Draw(t, "mine") == 0
		}
		for j := 0; j < m; j++ {
			it.Expire = append(it.Expire, genExpire())
		}
		c.Items = append(c.Items, it)
	}
	return c
}

var expFx *fixture // CheckTxExpire reads only TxHeight settings from the configuration: one fixture per process

func runExpCase(t lib.TB, test string, c *expCase) {
	lib.Eval()
	if expFx == nil {
		expFx = newFixture(limits{A: 10, B: 10, C: 10, F1: 1, F2: 2, HB: 3})
	}
	nonce := int64(0)
	var in, strict, tolerant []*types.Transaction
	groupDropNonHead, decodable := false, false
	for _, it := range c.Items {
		it.build(expFx.cfg, &nonce)
		in = append(in, it.txs...)
		drop, first := false, -1
		for i, e := range it.Expire {
			if expired(e, c.Height, c.BlockTime) {
				drop = true
				if first < 0 {
					first = i
				}
			}
		}
		dec := len(it.txs) > 1 && headerDecodes(it.txs[0].Header)
		if !drop {
			strict = append(strict, it.txs...)
		}
		if !drop || dec {
			tolerant = append(tolerant, it.txs...)
		}
		if drop && len(it.txs) > 1 && first > 0 {
			groupDropNonHead = true
		}
		if drop && dec {
			decodable = true
		}
	}
	arg := append([]*types.Transaction(nil), in...) // the function nils entries of its argument
	got := expFx.bc.CheckTxExpire(arg, c.Height, c.BlockTime)
	same := func(a, b []*types.Transaction) bool {
		if len(a) != len(b) {
			return false
		}
		for i := range a {
			if a[i] != b[i] {
				return false
			}
		}
		return true
	}
	if !same(got, strict) {
		if lib.Known(kfExpire) && decodable && same(got, tolerant) {
			lib.ExcludedKnown(kfExpire) // only groups whose hash parses as a Transactions message were kept
		} else {
			lib.Violation(t, prop, test, c, "CheckTxExpire(height %d, blocktime %d) kept %s, expected %s (input %s)", c.Height, c.BlockTime, nonces(got), nonces(strict), nonces(in))
		}
	}
	if len(strict) < len(in) {
		lib.Class("expire_drops_something")
	}
	if decodable {
		lib.Class("expired_group_with_decodable_hash")
	}
	// non-trivial: a group is dropped because of a member other than its head
	if groupDropNonHead {
		lib.Class("expire_group_dropped_for_non_head")
		lib.NonTrivialCase(c)
	}
}

func nonces(txs []*types.Transaction) string {
	out := make([]int64, len(txs))
	for i, tx := range txs {
		out[i] = tx.GetNonce()
	}
	return fmt.Sprint(out)
}

func TestPropCheckTxExpire(t *testing.T) {
	defer lib.Flush()
	rapid.Check(t, func(t *rapid.T) { runExpCase(t, "TestPropCheckTxExpire", genExpCase(t)) })
}

// TestKnown_ExpiredGroupDecodableHeader pins the minimal case of finding C30-expire-decodable-group-header:
// a two-member group, both members expired by height, whose group hash happens to parse as a protobuf
// types.Transactions message (about 1 group hash in 500 does).
func TestKnown_ExpiredGroupDecodableHeader(t *testing.T) {
	defer lib.Flush()
	c := &expCase{Height: 10, BlockTime: 1600000000, Items: []*expItem{{Expire: []int64{5, 5}, Mine: true}}}
	lib.Eval()
	if expFx == nil {
		expFx = newFixture(limits{A: 10, B: 10, C: 10, F1: 1, F2: 2, HB: 3})
	}
	nonce := int64(0)
	c.Items[0].build(expFx.cfg, &nonce)
	txs := c.Items[0].txs
	if !headerDecodes(txs[0].Header) {
		lib.Inconclusive("no decodable group hash found in 20000 nonces")
	}
	got := expFx.bc.CheckTxExpire(append([]*types.Transaction(nil), txs...), c.Height, c.BlockTime)
	if len(got) != 0 {
		lib.KnownOrViolation(t, prop, "TestKnown_ExpiredGroupDecodableHeader", kfExpire,
			map[string]interface{}{"height": c.Height, "blocktime": c.BlockTime, "expire": []int64{5, 5}, "group_hash": fmt.Sprintf("%x", txs[0].Header), "head_nonce": txs[0].Nonce},
			fmt.Sprintf("CheckTxExpire keeps all %d members of a group whose members expired at height 5 (height 10) because the group hash %x decodes as a types.Transactions message, so Transaction.IsExpire consults the (empty) decoded group instead of tx.Expire", len(got), txs[0].Header))
	}
}
