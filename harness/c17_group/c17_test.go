// C17: transaction groups are tamper-evident.
//
// Honest flow (what rpc/client and wallet do): CreateTxGroup(txs, feeRate) -> optional SetExpire + RebuiltGroup ->
// every member signs its transaction (SignN) -> group.Tx() is encoded and shipped -> the receiver decodes it and
// runs Check / CheckSign (mempool: TransactionCache; executor: Transactions).
//
// Oracles, all from the property text:
//
//	O1 an honest group passes Check and CheckSign, on the direct path (Transactions.Check / CheckSign) and on the
//	   wire path (encode group.Tx(), decode, TransactionCache.Check / CheckSign via GetTxGroup);
//	O2 a group tampered with by a third party (who can re-chain headers with RebuiltGroup, fix counts and fees and
//	   sign with his own keys, but cannot produce the members' signatures) fails Check or CheckSign on both paths;
//	   every mutation is evaluated raw, re-chained (RebuiltGroup only), rebuilt (counts and last Next repaired too)
//	   and rebuilt with the fees repaired;
//	O3 whatever Check accepts is structurally a group and obeys the fee rule (independent model: size 2..20, every
//	   GroupCount = size, every Header = hash of the first member, Next chained to the following member's hash and
//	   empty on the last, members' fees zero, first member's fee >= sum of the members' required fees computed from
//	   their encoded size);
//	O4 groups that are honestly re-signed after a fee change are accepted exactly when the fee rule holds.
package c17

import (
	"bytes"
	"crypto/sha256"
	"encoding/binary"
	"encoding/hex"
	"fmt"
	"reflect"
	"strings"
	"testing"
	"time"

	"github.com/33cn/chain33/common/crypto"
	clog "github.com/33cn/chain33/common/log"
	_ "github.com/33cn/chain33/system"
	"github.com/33cn/chain33/types"
	"github.com/golang/protobuf/proto"
	"pgregory.net/rapid"
	"verifharness/lib"
)

const prop = "C17"

// kSigner: the header/next chain is built from hashes that exclude Signature, so a member can be re-signed by
// anybody (or have the address-format bits of Signature.Ty changed) without the group failing any check.
const kSigner = "C17-member-signer-not-bound"

var cfg *types.Chain33Config

func TestMain(m *testing.M) {
	clog.SetLogLevel("crit")
	cfg = types.NewChain33Config(types.GetDefaultCfgstring())
	lib.Main(m)
}

// ---------------------------------------------------------------------------------------------------------
// independent helpers (no CloneTx / Hash / GetRealFee of the code under test)

func txFields() []reflect.StructField {
	var fs []reflect.StructField
	rt := reflect.TypeOf((*types.Transaction)(nil)).Elem()
	for i := 0; i < rt.NumField(); i++ {
		if f := rt.Field(i); f.PkgPath == "" && f.Tag.Get("protobuf") != "" {
			fs = append(fs, f)
		}
	}
	return fs
}

func shallowCopy(tx *types.Transaction) *types.Transaction {
	c := &types.Transaction{}
	src, dst := reflect.ValueOf(tx).Elem(), reflect.ValueOf(c).Elem()
	for _, f := range txFields() {
		dst.FieldByName(f.Name).Set(src.FieldByName(f.Name))
	}
	return c
}

func marshal(m proto.Message) []byte {
	b, err := proto.Marshal(m)
	if err != nil {
		lib.Inconclusive("proto.Marshal: %v", err)
	}
	return b
}

// refHash: the transaction id as documented - sha256 of the encoding without signature and header.
func refHash(tx *types.Transaction) []byte {
	c := shallowCopy(tx)
	c.Signature, c.Header = nil, nil
	h := sha256.Sum256(marshal(c))
	return h[:]
}

// requiredFee: (encoded size / 1000 + 1) * rate; an unsigned transaction is charged 300 bytes for the signature to come.
func requiredFee(tx *types.Transaction, rate int64) int64 {
	size := len(marshal(tx))
	if tx.Signature == nil {
		size += 300
	}
	return int64(size/1000+1) * rate
}

func paraTitle(execer string) (string, bool) {
	if !strings.HasPrefix(execer, "user.p.") {
		return "", false
	}
	if i := strings.IndexByte(execer[len("user.p."):], '.'); i >= 0 {
		return execer[:len("user.p.")+i+1], true
	}
	return "", false
}

// wellFormed is the reference model of what Check may accept (O3). It returns "" or the first broken rule.
func wellFormed(txs []*types.Transaction, minFee, maxFee int64) string {
	n := len(txs)
	if n < 2 || n > 20 {
		return "size"
	}
	for _, tx := range txs {
		if tx == nil {
			return "nil member"
		}
	}
	head := refHash(txs[0])
	var sum int64
	titles := map[string]bool{}
	paras := 0
	for i, tx := range txs {
		if int(tx.GroupCount) != n {
			return fmt.Sprintf("groupCount[%d]", i)
		}
		if !bytes.Equal(tx.Header, head) {
			return fmt.Sprintf("header[%d]", i)
		}
		if i < n-1 && !bytes.Equal(tx.Next, refHash(txs[i+1])) {
			return fmt.Sprintf("next[%d]", i)
		}
		if i == n-1 && len(tx.Next) != 0 {
			return "next[last]"
		}
		if i > 0 && tx.Fee != 0 {
			return fmt.Sprintf("fee[%d]", i)
		}
		sum += requiredFee(tx, minFee)
		if strings.HasPrefix(string(tx.Execer), "user.p.") {
			paras++
		}
		if t, ok := paraTitle(string(tx.Execer)); ok {
			titles[t] = true
		}
	}
	if txs[0].Fee < sum {
		return "fee too low"
	}
	if maxFee > 0 && txs[0].Fee > maxFee {
		return "fee too high"
	}
	if len(titles) > 1 || (len(titles) > 0 && paras != n) {
		return "para mix"
	}
	return ""
}

// sameButSignatures: the exact signature of known finding kSigner - nothing but members' Signature fields differs.
func sameButSignatures(a, b *types.Transactions) bool {
	if len(a.Txs) != len(b.Txs) {
		return false
	}
	for i := range a.Txs {
		x, y := shallowCopy(a.Txs[i]), shallowCopy(b.Txs[i])
		x.Signature, y.Signature = nil, nil
		if !bytes.Equal(marshal(x), marshal(y)) {
			return false
		}
	}
	return true
}

func cloneGroup(g *types.Transactions) *types.Transactions {
	return proto.Clone(g).(*types.Transactions)
}

func groupHex(g *types.Transactions) string { return hex.EncodeToString(marshal(g)) }

// ---------------------------------------------------------------------------------------------------------
// keys

var keyTypes = []struct {
	Name string
	ID   int32
}{{"secp256k1", 1}, {"ed25519", 2}, {"sm2", 258}, {"secp256r1", 257}, {"secp256k1eth", 260}}

type signer struct {
	ty   int32
	priv crypto.PrivKey
}

func mkSigner(kt int, addrID int32, seed uint64) signer {
	var b [12]byte
	binary.LittleEndian.PutUint64(b[:], seed)
	copy(b[8:], "c17k")
	h := sha256.Sum256(b[:])
	h[0] &= 0x7f // non-zero and below every group order in use: always a valid private key
	c, err := crypto.Load(keyTypes[kt].Name, -1)
	if err != nil {
		lib.Inconclusive("driver %s: %v", keyTypes[kt].Name, err)
	}
	k, err := c.PrivKeyFromBytes(h[:])
	if err != nil || k == nil {
		lib.Inconclusive("PrivKeyFromBytes %s: %v", keyTypes[kt].Name, err)
	}
	return signer{ty: types.EncodeSignID(keyTypes[kt].ID, addrID), priv: k}
}

func genSigner(t *rapid.T, label string) signer {
	kt := rapid.SampledFrom([]int{0, 0, 0, 0, 1, 1, 2, 3, 4}).Draw(t, label+"keyType")
	return mkSigner(kt, rapid.Int32Range(0, 2).Draw(t, label+"addrID"), rapid.Uint64().Draw(t, label+"keySeed"))
}

// ---------------------------------------------------------------------------------------------------------
// honest groups

var mainExecers = []string{"coins", "none", "token", "manage", "user.write"}
var paraExecers = []string{"user.p.t.coins", "user.p.t.none", "user.p.t.token"}

func genMember(t *rapid.T, para bool, i int) *types.Transaction {
	ex := mainExecers
	if para {
		ex = paraExecers
	}
	// payload sizes cluster around the 1000-byte fee step as well as small values
	plen := rapid.OneOf(rapid.IntRange(0, 120), rapid.IntRange(0, 120), rapid.IntRange(500, 1100), rapid.IntRange(1900, 2100)).Draw(t, "payloadLen")
	payload := make([]byte, plen)
	fill := rapid.Byte().Draw(t, "payloadFill")
	for j := range payload {
		payload[j] = fill + byte(j)
	}
	return &types.Transaction{
		Execer:  []byte(rapid.SampledFrom(ex).Draw(t, "execer")),
		Payload: payload,
		Fee:     rapid.SampledFrom([]int64{0, 0, 100000, 200000, 1000000}).Draw(t, "fee"),
		// height-style and far-future time-style expiries only: nothing here depends on the wall clock
		Expire:  rapid.SampledFrom([]int64{0, 0, 100, 999999999, 4102444800, types.TxHeightFlag + 1000}).Draw(t, "expire"),
		Nonce:   rapid.Int64().Draw(t, "nonce")<<5 | int64(i), // distinct within a group
		To:      rapid.StringMatching(`1[1-9A-HJ-NP-Za-km-z]{25,33}`).Draw(t, "to"),
		ChainID: cfg.GetChainID(),
	}
}

type honest struct {
	g       *types.Transactions
	signers []signer
	para    bool
}

func signAll(g *types.Transactions, signers []signer) {
	for i := range g.Txs {
		if err := g.SignN(i, signers[i].ty, signers[i].priv); err != nil {
			lib.Inconclusive("SignN: %v", err)
		}
	}
}

func genHonest(t *rapid.T, label string) *honest {
	n := rapid.OneOf(rapid.IntRange(2, 4), rapid.IntRange(2, 8), rapid.IntRange(2, 20)).Draw(t, label+"n")
	para := rapid.IntRange(0, 3).Draw(t, label+"para") == 0
	txs := make([]*types.Transaction, n)
	hs := &honest{para: para}
	for i := range txs {
		txs[i] = genMember(t, para, i)
		hs.signers = append(hs.signers, genSigner(t, label))
	}
	rate := cfg.GetMinTxFeeRate() * rapid.SampledFrom([]int64{1, 1, 2}).Draw(t, label+"rateMul")
	g, err := types.CreateTxGroup(txs, rate)
	if err != nil {
		t.Fatalf("harness: CreateTxGroup refused a generated member list: %v", err)
	}
	// the wallet's "set expire then rebuild" step, with height-style durations (<= ExpireBound: stored verbatim)
	if rapid.Bool().Draw(t, label+"setExpire") {
		g.SetExpire(cfg, rapid.IntRange(0, n-1).Draw(t, label+"expireIdx"), time.Duration(rapid.Int64Range(0, 999999999).Draw(t, label+"expireDur")))
		g.RebuiltGroup()
	}
	signAll(g, hs.signers)
	hs.g = g
	return hs
}

// ---------------------------------------------------------------------------------------------------------
// evaluation

type verdict struct {
	check  error
	sign   bool
	wcheck error // wire path
	wsign  bool
	wire   bool // wire path evaluated (group.Tx() exists)
	panic  interface{}
}

func (v verdict) accepted() bool {
	return v.check == nil && v.sign || v.wire && v.wcheck == nil && v.wsign
}

func evaluate(g *types.Transactions, h int64) (v verdict) {
	defer func() { v.panic = recover() }()
	minFee, maxFee := cfg.GetMinTxFeeRate(), cfg.GetMaxTxFee(h)
	v.check = g.Check(cfg, h, minFee, maxFee)
	v.sign = g.CheckSign(h)
	if wtx := g.Tx(); wtx != nil {
		var back types.Transaction
		if err := types.Decode(types.Encode(wtx), &back); err != nil {
			lib.Inconclusive("group.Tx() does not round-trip: %v", err)
		}
		v.wire = true
		c := types.NewTransactionCache(&back) // what the mempool does with a received transaction
		if v.wcheck = c.Check(cfg, h, minFee, maxFee); v.wcheck == nil {
			v.wsign = c.CheckSign(h)
		}
	}
	return v
}

// ---------------------------------------------------------------------------------------------------------
// mutations

type mutation struct {
	label string
	g     *types.Transactions
	known string // id of the known finding whose exact signature this mutation class is, if any
}

func flipBit(b []byte, bit int) []byte {
	c := append([]byte(nil), b...)
	c[(bit/8)%len(c)] ^= 1 << (bit % 8)
	return c
}

// mutateField changes exactly one proto field of tx (in place) to a different proto value.
func mutateField(t *rapid.T, tx *types.Transaction, f reflect.StructField, label string) string {
	v := reflect.ValueOf(tx).Elem().FieldByName(f.Name)
	switch {
	case v.Kind() == reflect.String:
		s := v.String()
		if len(s) > 0 && rapid.Bool().Draw(t, label+"strDrop") {
			v.SetString(s[:len(s)-1]) // generated strings are ASCII
			return "droplast"
		}
		v.SetString(s + rapid.SampledFrom([]string{"a", "Z", "1"}).Draw(t, label+"strAdd"))
		return "append"
	case v.Kind() == reflect.Slice && v.Type().Elem().Kind() == reflect.Uint8:
		old := v.Bytes()
		if len(old) == 0 {
			v.SetBytes([]byte{rapid.Byte().Draw(t, label+"byte")})
			return "set"
		}
		switch rapid.SampledFrom([]string{"flip", "flip", "append", "droplast"}).Draw(t, label+"how") {
		case "flip":
			v.SetBytes(flipBit(old, rapid.IntRange(0, len(old)*8-1).Draw(t, label+"bit")))
			return "flip"
		case "append":
			v.SetBytes(append(append([]byte(nil), old...), rapid.Byte().Draw(t, label+"byte")))
			return "append"
		default:
			v.SetBytes(append([]byte(nil), old[:len(old)-1]...))
			return "droplast"
		}
	case v.CanInt():
		old := v.Int()
		d := rapid.SampledFrom([]int64{1, -1, 2, 100000, -100000}).Draw(t, label+"delta")
		nw := old + d
		if v.Type().Bits() == 32 {
			nw = int64(int32(nw))
		}
		v.SetInt(nw)
		return fmt.Sprintf("add%d", d)
	case v.Type() == reflect.TypeOf((*types.Signature)(nil)):
		s := tx.Signature
		how := rapid.SampledFrom([]string{"sigflip", "pubflip", "nil", "sigzero"}).Draw(t, label+"how")
		if how == "pubflip" && types.ExtractCryptoID(s.Ty) == 258 {
			how = "sigflip" // sm2 public-key edits are C16's subject (they can panic there: C16-sm2-pubkey-panic)
		}
		switch how {
		case "sigflip":
			tx.Signature = &types.Signature{Ty: s.Ty, Pubkey: s.Pubkey, Signature: flipBit(s.Signature, rapid.IntRange(0, len(s.Signature)*8-1).Draw(t, label+"bit"))}
			return "sigflip"
		case "pubflip":
			// bits of the X coordinate / key body only: the format byte has known, separately reported quirks (C16)
			tx.Signature = &types.Signature{Ty: s.Ty, Pubkey: flipBit(s.Pubkey, rapid.IntRange(8, len(s.Pubkey)*8-1).Draw(t, label+"bit")), Signature: s.Signature}
			return "pubflip"
		case "nil":
			tx.Signature = nil
			return "nil"
		default:
			tx.Signature = &types.Signature{Ty: s.Ty, Pubkey: s.Pubkey, Signature: make([]byte, len(s.Signature))}
			return "sigzero"
		}
	}
	lib.Inconclusive("types.Transaction has a field of a kind this harness cannot mutate: %s %s", f.Name, f.Type)
	return ""
}

// attackerRebuild: everything a third party can repair without the members' keys.
func attackerRebuild(g *types.Transactions, fixFee bool) {
	n := len(g.Txs)
	if n < 1 {
		return
	}
	for _, tx := range g.Txs {
		tx.GroupCount = int32(n)
	}
	g.Txs[n-1].Next = nil
	if fixFee {
		var sum int64
		for i, tx := range g.Txs {
			if i > 0 {
				tx.Fee = 0
			}
			sum += requiredFee(tx, cfg.GetMinTxFeeRate())
		}
		if g.Txs[0].Fee < sum+cfg.GetMinTxFeeRate() {
			g.Txs[0].Fee = sum + cfg.GetMinTxFeeRate() // one step of slack: the fee's own varint may grow the head
		}
	}
	g.RebuiltGroup()
}

func strangerTx(t *rapid.T, para bool, label string) *types.Transaction {
	tx := genMember(t, para, 31)
	tx.Fee = 0
	s := genSigner(t, label)
	tx.Sign(s.ty, s.priv)
	return tx
}

func genMutations(t *rapid.T, hs, other *honest) []mutation {
	n := len(hs.g.Txs)
	var ms []mutation
	add := func(label string, f func(g *types.Transactions) bool, known ...string) {
		g := cloneGroup(hs.g)
		if !f(g) {
			return
		}
		k := ""
		if len(known) > 0 {
			k = known[0]
		}
		ms = append(ms, mutation{label: label, g: g, known: k})
	}
	idx := func(label string, lo int) int { return rapid.IntRange(lo, n-1).Draw(t, label) }

	// structural
	add("swap", func(g *types.Transactions) bool {
		i, j := idx("swapI", 0), idx("swapJ", 0)
		if i == j {
			j = (i + 1) % n
		}
		g.Txs[i], g.Txs[j] = g.Txs[j], g.Txs[i]
		return true
	})
	add("drop", func(g *types.Transactions) bool {
		i := idx("dropI", 0)
		g.Txs = append(g.Txs[:i], g.Txs[i+1:]...)
		return true
	})
	add("truncate", func(g *types.Transactions) bool {
		if n < 3 {
			return false
		}
		g.Txs = g.Txs[:rapid.IntRange(2, n-1).Draw(t, "truncK")]
		return true
	})
	add("suffix", func(g *types.Transactions) bool {
		if n < 3 {
			return false
		}
		g.Txs = g.Txs[rapid.IntRange(1, n-2).Draw(t, "suffixK"):]
		return true
	})
	add("append_stranger", func(g *types.Transactions) bool {
		if n >= 20 {
			return false
		}
		g.Txs = append(g.Txs, strangerTx(t, hs.para, "appendS/"))
		return true
	})
	add("insert_stranger", func(g *types.Transactions) bool {
		if n >= 20 {
			return false
		}
		i := idx("insI", 0)
		g.Txs = append(g.Txs[:i], append([]*types.Transaction{strangerTx(t, hs.para, "insertS/")}, g.Txs[i:]...)...)
		return true
	})
	add("substitute_stranger", func(g *types.Transactions) bool {
		g.Txs[idx("subI", 0)] = strangerTx(t, hs.para, "subS/")
		return true
	})
	add("substitute_foreign_member", func(g *types.Transactions) bool { // a member validly signed inside another honest group
		g.Txs[idx("forI", 0)] = cloneGroup(other.g).Txs[rapid.IntRange(0, len(other.g.Txs)-1).Draw(t, "forJ")]
		return true
	})
	add("duplicate", func(g *types.Transactions) bool {
		i, j := idx("dupI", 0), idx("dupJ", 0)
		if i == j {
			j = (i + 1) % n
		}
		g.Txs[j] = proto.Clone(g.Txs[i]).(*types.Transaction)
		return true
	})
	add("append_duplicate", func(g *types.Transactions) bool {
		if n >= 20 {
			return false
		}
		g.Txs = append(g.Txs, proto.Clone(g.Txs[idx("adupI", 0)]).(*types.Transaction))
		return true
	})
	add("groupcount_one", func(g *types.Transactions) bool {
		g.Txs[idx("gcI", 0)].GroupCount += rapid.SampledFrom([]int32{1, -1, 20}).Draw(t, "gcD")
		return true
	})
	add("groupcount_all", func(g *types.Transactions) bool {
		d := rapid.SampledFrom([]int32{1, -1, 20}).Draw(t, "gcaD")
		for _, tx := range g.Txs {
			tx.GroupCount += d
		}
		return true
	})
	add("next_nil", func(g *types.Transactions) bool {
		g.Txs[rapid.IntRange(0, n-2).Draw(t, "nnI")].Next = nil
		return true
	})
	add("next_last_set", func(g *types.Transactions) bool {
		g.Txs[n-1].Next = rapid.SampledFrom([][]byte{refHash(g.Txs[0]), refHash(g.Txs[n-1]), bytes.Repeat([]byte{7}, 32), {1}}).Draw(t, "nlV")
		return true
	})
	add("header_one", func(g *types.Transactions) bool {
		i := idx("hoI", 0)
		g.Txs[i].Header = rapid.SampledFrom([][]byte{nil, refHash(g.Txs[n-1]), bytes.Repeat([]byte{9}, 32), flipBit(g.Txs[i].Header, 3)}).Draw(t, "hoV")
		return true
	})
	add("header_all", func(g *types.Transactions) bool {
		v := rapid.SampledFrom([][]byte{refHash(g.Txs[n-1]), bytes.Repeat([]byte{9}, 32)}).Draw(t, "haV")
		for _, tx := range g.Txs {
			tx.Header = v
		}
		return true
	})
	// fee rule, by a third party
	add("head_fee_minus", func(g *types.Transactions) bool {
		g.Txs[0].Fee -= rapid.SampledFrom([]int64{1, 100000}).Draw(t, "hfD")
		return true
	})
	add("member_fee_set", func(g *types.Transactions) bool {
		g.Txs[idx("mfI", 1)].Fee = rapid.SampledFrom([]int64{1, 100000}).Draw(t, "mfV")
		return true
	})
	// every proto field, on a drawn member; the head and the last member get an extra round
	for _, f := range txFields() {
		f := f
		for _, who := range []string{"any", "edge"} {
			who := who
			add("field_"+f.Name, func(g *types.Transactions) bool {
				i := idx("fm"+f.Name+who, 0)
				if who == "edge" {
					i = rapid.SampledFrom([]int{0, n - 1}).Draw(t, "fe"+f.Name)
				}
				mutateField(t, g.Txs[i], f, f.Name+who+"/")
				return true
			})
		}
	}
	// the signer of a member is replaced, content untouched (signature of known finding kSigner)
	add("resign_by_stranger", func(g *types.Transactions) bool {
		s := genSigner(t, "resign/")
		i := idx("rsI", 0)
		if bytes.Equal(s.priv.PubKey().Bytes(), g.Txs[i].Signature.Pubkey) {
			return false
		}
		g.Txs[i].Sign(s.ty, s.priv)
		return true
	}, kSigner)
	add("sigty_addrid", func(g *types.Transactions) bool {
		i := idx("saI", 0)
		old := g.Txs[i].Signature
		nid := (types.ExtractAddressID(old.Ty) + rapid.Int32Range(1, 2).Draw(t, "saD")) % 3
		g.Txs[i].Signature = &types.Signature{Ty: old.Ty&^int32(types.AddressIDMask) | nid<<types.AddressIDOffset, Pubkey: old.Pubkey, Signature: old.Signature}
		return g.Txs[i].Signature.Ty != old.Ty
	}, kSigner)
	return ms
}

// ---------------------------------------------------------------------------------------------------------
// the property

func rendering(hs *honest, label, form string, g *types.Transactions, h int64) map[string]interface{} {
	r := map[string]interface{}{"height": h, "members": len(hs.g.Txs), "mutation": label, "form": form, "honestGroup": groupHex(hs.g)}
	if g != nil {
		r["mutatedGroup"] = groupHex(g)
	}
	return r
}

func checkAcceptSet(t *rapid.T, hs *honest, label, form string, g *types.Transactions, v verdict, h int64) {
	if v.panic != nil {
		lib.Violation(t, prop, "TestPropGroupTamper", rendering(hs, label, form, g, h), "Check/CheckSign panicked: %v", v.panic)
	}
	if v.check == nil {
		if why := wellFormed(g.Txs, cfg.GetMinTxFeeRate(), cfg.GetMaxTxFee(h)); why != "" {
			lib.Violation(t, prop, "TestPropGroupTamper", rendering(hs, label, form, g, h), "Check accepted a group that is not well-formed: %s", why)
		}
	}
}

var heights = []int64{0, 1, 100, 1 << 30}

func TestPropGroupTamper(t *testing.T) {
	defer lib.Flush()
	rapid.Check(t, func(t *rapid.T) {
		hs := genHonest(t, "g/")
		other := genHonest(t, "o/")
		h := rapid.SampledFrom(heights).Draw(t, "height")
		n := len(hs.g.Txs)
		lib.Eval()
		switch {
		case n <= 4:
			lib.Class("members:2-4")
		case n <= 10:
			lib.Class("members:5-10")
		default:
			lib.Class("members:11-20")
		}
		lib.Class(fmt.Sprintf("para:%v", hs.para))

		// O1
		v := evaluate(hs.g, h)
		checkAcceptSet(t, hs, "honest", "raw", hs.g, v, h)
		if v.check != nil || !v.sign || !v.wire || v.wcheck != nil || !v.wsign {
			lib.Violation(t, prop, "TestPropGroupTamper", rendering(hs, "honest", "raw", nil, h),
				"honest group rejected: Check=%v CheckSign=%v wire Check=%v wire CheckSign=%v", v.check, v.sign, v.wcheck, v.wsign)
		}

		// O2 + O3
		for _, m := range genMutations(t, hs, other) {
			for _, form := range []string{"raw", "rechained", "rebuilt", "rebuilt+fee"} {
				g := cloneGroup(m.g)
				switch form {
				case "rechained": // the library's RebuiltGroup only: headers and next links recomputed, nothing else repaired
					if len(g.Txs) == 0 {
						continue
					}
					g.RebuiltGroup()
				case "rebuilt":
					attackerRebuild(g, false)
				case "rebuilt+fee":
					attackerRebuild(g, true)
				}
				if bytes.Equal(marshal(g), marshal(hs.g)) {
					lib.Class("noop:" + m.label)
					continue
				}
				lib.Eval()
				v := evaluate(g, h)
				checkAcceptSet(t, hs, m.label, form, g, v, h)
				switch {
				case v.check == nil && !v.sign:
					lib.Class("caught_by:signature")
					lib.NonTrivial(lib.Fingerprint(marshal(hs.g), m.label, form, marshal(g)))
				case v.check != nil && v.sign:
					lib.Class("caught_by:check")
					lib.NonTrivial(lib.Fingerprint(marshal(hs.g), m.label, form, marshal(g)))
				case v.check != nil:
					lib.Class("caught_by:both")
				}
				lib.Class("mut:" + m.label)
				if v.accepted() {
					if m.known != "" && sameButSignatures(g, hs.g) && lib.Known(m.known) {
						lib.ExcludedKnown(m.known)
						continue
					}
					lib.Violation(t, prop, "TestPropGroupTamper", rendering(hs, m.label, form, g, h),
						"tampered group (%s, %s) passes: Check=%v CheckSign=%v wire Check=%v wire CheckSign=%v", m.label, form, v.check, v.sign, v.wcheck, v.wsign)
				}
				if lib.SampleCount() < 3 && v.check == nil {
					lib.Sample(rendering(hs, m.label, form, g, h))
				}
			}
		}

		// O4: fee changes made by the members themselves (re-signed): accepted iff the rule holds
		sumReq := func(g *types.Transactions) (s int64) {
			for _, tx := range g.Txs {
				s += requiredFee(tx, cfg.GetMinTxFeeRate())
			}
			return
		}
		for _, kind := range []string{"head_fee", "member_fee"} {
			g := cloneGroup(hs.g)
			switch kind {
			case "head_fee":
				g.Txs[0].Fee = sumReq(g) + rapid.SampledFrom([]int64{-1, -1, 0, 1, -100000, 100000}).Draw(t, "o4d")
				if rapid.IntRange(0, 5).Draw(t, "o4zero") == 0 {
					g.Txs[0].Fee = 0
				}
			case "member_fee":
				g.Txs[rapid.IntRange(1, n-1).Draw(t, "o4i")].Fee = rapid.SampledFrom([]int64{1, 100000, -1}).Draw(t, "o4v")
			}
			g.RebuiltGroup()
			signAll(g, hs.signers)
			lib.Eval()
			v := evaluate(g, h)
			checkAcceptSet(t, hs, "resigned_"+kind, "honest-resign", g, v, h)
			feeOK := wellFormed(g.Txs, cfg.GetMinTxFeeRate(), cfg.GetMaxTxFee(h)) == ""
			lib.Class(fmt.Sprintf("o4:%s:feeOK=%v", kind, feeOK))
			if !v.sign {
				lib.Violation(t, prop, "TestPropGroupTamper", rendering(hs, "resigned_"+kind, "honest-resign", g, h), "members' own signatures do not verify after rebuild and re-sign")
			}
			if (v.check == nil) != feeOK || v.wire && (v.wcheck == nil) != feeOK {
				lib.Violation(t, prop, "TestPropGroupTamper", rendering(hs, "resigned_"+kind, "honest-resign", g, h),
					"fee rule: head fee %d, members' required fees sum %d, model says acceptable=%v, Check=%v wire Check=%v", g.Txs[0].Fee, sumReq(g), feeOK, v.check, v.wcheck)
			}
			lib.NonTrivial(lib.Fingerprint(marshal(g), kind))
		}
	})
}

// ---------------------------------------------------------------------------------------------------------
// pinned known finding

func TestKnown_MemberSignerNotBound(t *testing.T) {
	defer lib.Flush()
	mk := func(i int) *types.Transaction {
		return &types.Transaction{Execer: []byte("coins"), Payload: []byte{byte(i)}, Nonce: int64(i + 1), To: "1Q4NhureJxKNBf71d26B9J3fBQoQcfmez2", ChainID: cfg.GetChainID()}
	}
	g, err := types.CreateTxGroup([]*types.Transaction{mk(0), mk(1)}, cfg.GetMinTxFeeRate())
	if err != nil {
		t.Fatalf("fixture: %v", err)
	}
	alice, bob, mallory := mkSigner(0, 0, 1), mkSigner(0, 0, 2), mkSigner(0, 0, 3)
	signAll(g, []signer{alice, bob})
	if v := evaluate(g, 1); !v.accepted() {
		t.Fatalf("fixture: honest group rejected: %+v", v)
	}
	bobAddr := g.Txs[1].From()
	g.Txs[1].Sign(mallory.ty, mallory.priv) // Mallory replaces Bob as the sender of member 1; Alice's signature is untouched
	if v := evaluate(g, 1); v.accepted() {
		lib.KnownOrViolation(t, prop, "TestKnown_MemberSignerNotBound", kSigner,
			map[string]interface{}{"group": groupHex(g), "member1SenderBefore": bobAddr, "member1SenderAfter": g.Txs[1].From()},
			"a two-member group in which member 1 was re-signed by a stranger (different sender, same content) passes Check and CheckSign: the header/next chain does not bind the members' signers")
	}
}
