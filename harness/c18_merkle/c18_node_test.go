package c18

import (
	"bytes"
	"fmt"
	"math/rand"
	"testing"

	"github.com/33cn/chain33/common/address"
	_ "github.com/33cn/chain33/system"
	"github.com/33cn/chain33/types"
	"github.com/33cn/chain33/util"
	"github.com/33cn/chain33/util/testnode"
	"pgregory.net/rapid"
	"verifharness/lib"
)

// nodeExecers are executor names a main-chain node packs without needing a meaningful payload.
var nodeMain = []string{"none", "user.write"}

func nodeTxList(r *rand.Rand) []Tx {
	titles := []string{"a", "b", "para", "hyb"}
	r.Shuffle(len(titles), func(i, j int) { titles[i], titles[j] = titles[j], titles[i] })
	var list []Tx
	nonce := r.Int63n(1 << 40)
	add := func(execers []string, k int) {
		for i := 0; i < k; i++ {
			nonce++
			list = append(list, Tx{Execer: execers[r.Intn(len(execers))], Nonce: nonce, Signed: true})
		}
	}
	nPara := r.Intn(5)
	if nPara == 0 || r.Intn(4) > 0 {
		add(nodeMain, 1+r.Intn(6))
	}
	for _, t := range titles[:nPara] {
		add([]string{"user.p." + t + ".none", "user.p." + t + ".token", "user.p." + t + ".user.write"}, 1+r.Intn(7))
	}
	r.Shuffle(len(list), func(i, j int) { list[i], list[j] = list[j], list[i] }) // arrival order; the producer sorts
	return list
}

// TestPropNodeProofs adds generated mixed main/parachain blocks to a real in-process node and checks, for every
// transaction, that the proof served by the node (ProcQueryTxMsg -> getMultiLayerProofs) folds with the independent
// verifier to the child root and then to the TxHash of the stored block, and that this TxHash is the reference
// two-level root of the sorted list.  One fresh node per case (nothing shared between cases).
func TestPropNodeProofs(t *testing.T) {
	defer lib.Flush()
	rapid.Check(t, func(t *rapid.T) {
		seed := rapid.Int64().Draw(t, "seed")
		nblocks := rapid.IntRange(1, 3).Draw(t, "blocks")
		r := rand.New(rand.NewSource(seed))
		mock := testnode.New("--free--", nil)
		defer mock.Close()
		ncfg := mock.GetClient().GetConfig()
		chain := mock.GetBlockChain()
		priv := mock.GetGenesisKey()
		for b := 0; b < nblocks; b++ {
			list := nodeTxList(r)
			c := map[string]interface{}{"seed": seed, "block": b + 1, "txs": list}
			var txs []*types.Transaction
			for _, x := range list {
				tx := &types.Transaction{Execer: []byte(x.Execer), Payload: []byte("none"), Nonce: x.Nonce, To: address.ExecAddress(x.Execer), ChainID: ncfg.GetChainID()}
				tx.Sign(types.SECP256K1, priv)
				txs = append(txs, tx)
			}
			parent := mock.GetLastBlock()
			block := util.CreateNewBlock(ncfg, parent, txs)
			if _, err := chain.ProcAddBlockMsg(false, &types.BlockDetail{Block: block}, "self"); err != nil {
				lib.Inconclusive("fixture: generated block %d rejected: %v", b+1, err)
			}
			stored, err := chain.GetBlock(parent.Height + 1)
			if err != nil || len(stored.Block.Txs) != len(txs) {
				lib.Inconclusive("fixture: block %d not stored completely: %v", b+1, err)
			}
			lib.Eval()
			// the stored root is the reference two-level root of the stored (sorted) list
			var full [][]byte
			var childRoots [][]byte
			start := 0
			for i, tx := range stored.Block.Txs {
				full = append(full, tx.FullHash())
				if i+1 == len(stored.Block.Txs) || TitleOf(string(stored.Block.Txs[i+1].Execer)) != TitleOf(string(tx.Execer)) {
					childRoots = append(childRoots, RefRoot(full[start:i+1]))
					start = i + 1
				}
			}
			want := RefRoot(childRoots)
			if !bytes.Equal(stored.Block.TxHash, want) {
				lib.Violation(t, prop, "TestPropNodeProofs", c, "stored block TxHash %s, reference two-level root %s (%d chains)", hx(stored.Block.TxHash), hx(want), len(childRoots))
			}
			for i, tx := range stored.Block.Txs {
				d, err := chain.ProcQueryTxMsg(tx.Hash())
				if err != nil {
					lib.Inconclusive("fixture: ProcQueryTxMsg failed: %v", err)
				}
				ps := d.GetTxProofs()
				c["index"] = i
				switch {
				case len(childRoots) == 1 && len(ps) == 1:
					if got := RefVerify(ps[0].Proofs, full[i], ps[0].Index); !bytes.Equal(got, want) || int(ps[0].Index) != i {
						lib.Violation(t, prop, "TestPropNodeProofs", c, "tx %d (%s): single-level proof (index %d) folds to %s, block root %s", i, tx.Execer, ps[0].Index, hx(got), hx(want))
					}
				case len(childRoots) > 1 && len(ps) == 2:
					child := RefVerify(ps[0].Proofs, full[i], ps[0].Index)
					if !bytes.Equal(child, ps[0].RootHash) {
						lib.Violation(t, prop, "TestPropNodeProofs", c, "tx %d (%s): branch folds to %s, served child root %s", i, tx.Execer, hx(child), hx(ps[0].RootHash))
					}
					if got := RefVerify(ps[1].Proofs, child, ps[1].Index); !bytes.Equal(got, want) {
						lib.Violation(t, prop, "TestPropNodeProofs", c, "tx %d (%s): child root proof (index %d) folds to %s, block root %s", i, tx.Execer, ps[1].Index, hx(got), hx(want))
					}
				default:
					lib.Violation(t, prop, "TestPropNodeProofs", c, "tx %d (%s): node served %d proof levels for a block with %d chains", i, tx.Execer, len(ps), len(childRoots))
				}
			}
			lib.Class(fmt.Sprintf("node/chains=%d", len(childRoots)))
			if len(childRoots) >= 2 {
				lib.NonTrivial(lib.Fingerprint("node", seed, b))
				if len(list) <= 8 {
					lib.Sample(map[string]interface{}{"node_block_txs": list, "chains": len(childRoots)})
				}
			}
		}
	})
}
