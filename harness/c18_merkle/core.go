// Package c18 holds the C18 oracle (transaction merkle root: consistent, provable, binding).
//
// core.go is shared by the test package and by the helper binary cmd/c18_child, which runs the
// worker-count-sensitive part under `taskset` (runtime.NumCPU follows the affinity mask, and
// merkle.GetMerkleRoot derives its chunk size from NumCPU).
//
// The reference is written from the property text only: a root over n leaves is obtained by pairing
// neighbours level by level, the last node of an odd level being paired with itself; a node is
// sha256(sha256(left||right)).  It shares no code with common/merkle.
package c18

import (
	"bytes"
	"crypto/sha256"
	"encoding/binary"
	"encoding/hex"
	"fmt"
	"math/rand"
	"sort"
	"strings"

	"github.com/33cn/chain33/common/merkle"
	"github.com/33cn/chain33/types"
)

func node(l, r []byte) []byte {
	var b [64]byte
	copy(b[:32], l)
	copy(b[32:], r)
	a := sha256.Sum256(b[:])
	a = sha256.Sum256(a[:])
	return a[:]
}

// RefRoot is the recursive reference root (n >= 1).
func RefRoot(leaves [][]byte) []byte {
	if len(leaves) == 1 {
		return leaves[0]
	}
	next := make([][]byte, 0, (len(leaves)+1)/2)
	for i := 0; i < len(leaves); i += 2 {
		j := i + 1
		if j == len(leaves) {
			j = i
		}
		next = append(next, node(leaves[i], leaves[j]))
	}
	return RefRoot(next)
}

// RefVerify folds an inclusion branch from the leaf at position idx up to a root.
func RefVerify(branch [][]byte, leaf []byte, idx uint32) []byte {
	h := leaf
	for _, s := range branch {
		if idx&1 == 1 {
			h = node(s, h)
		} else {
			h = node(h, s)
		}
		idx >>= 1
	}
	return h
}

// Leaves derives n pseudo-random 32-byte leaves from (seed, n); the same list in parent and child.
func Leaves(seed int64, n int) [][]byte {
	out := make([][]byte, n)
	var b [24]byte
	binary.LittleEndian.PutUint64(b[:8], uint64(seed))
	binary.LittleEndian.PutUint64(b[8:16], uint64(n))
	for i := range out {
		binary.LittleEndian.PutUint64(b[16:], uint64(i))
		h := sha256.Sum256(b[:])
		out[i] = h[:]
	}
	return out
}

func outerCopy(l [][]byte) [][]byte { return append(make([][]byte, 0, len(l)), l...) }

func hx(b []byte) string {
	if len(b) > 6 {
		return hex.EncodeToString(b[:6])
	}
	return hex.EncodeToString(b)
}

// Step is the chunk size GetMerkleRoot is documented to use for n leaves on k workers (0 = sequential
// path). It is used only to label cases (non-triviality, class counters), never as an oracle.
func Step(n, k int) int {
	if n <= 80 || k <= 1 {
		return 0
	}
	s := 2
	for s*2 <= n/k && s < 256 {
		s *= 2
	}
	return s
}

// CheckRoot: parallel root == constant-space root == reference, for one leaf list.
// GetMerkleRoot reuses its argument as scratch space, so it gets a copy of the outer slice.
func CheckRoot(leaves [][]byte) string {
	want := RefRoot(leaves)
	if got := merkle.GetMerkleRoot(outerCopy(leaves)); !bytes.Equal(got, want) {
		return fmt.Sprintf("GetMerkleRoot(%d leaves)=%s, reference root %s", len(leaves), hx(got), hx(want))
	}
	for _, flag := range []int{1, 3} {
		if got, _, _ := merkle.Computation(leaves, flag, 0); !bytes.Equal(got, want) {
			return fmt.Sprintf("Computation(%d leaves, flag %d) root=%s, reference root %s", len(leaves), flag, hx(got), hx(want))
		}
	}
	return ""
}

// CheckBranches: for every listed position the branch produced by the code folds to the reference root,
// both with the reference fold and with GetMerkleRootFromBranch; GetMerkleRootAndBranch agrees.
func CheckBranches(leaves [][]byte, idxs []int) string {
	want := RefRoot(leaves)
	for _, i := range idxs {
		br := merkle.GetMerkleBranch(leaves, uint32(i))
		if got := RefVerify(br, leaves[i], uint32(i)); !bytes.Equal(got, want) {
			return fmt.Sprintf("n=%d index %d: branch (len %d) folds to %s, root is %s", len(leaves), i, len(br), hx(got), hx(want))
		}
		if got := merkle.GetMerkleRootFromBranch(br, leaves[i], uint32(i)); !bytes.Equal(got, want) {
			return fmt.Sprintf("n=%d index %d: GetMerkleRootFromBranch=%s, root is %s", len(leaves), i, hx(got), hx(want))
		}
		r2, br2 := merkle.GetMerkleRootAndBranch(leaves, uint32(i))
		if !bytes.Equal(r2, want) || !bytes.Equal(RefVerify(br2, leaves[i], uint32(i)), want) {
			return fmt.Sprintf("n=%d index %d: GetMerkleRootAndBranch root=%s / branch does not fold to root %s", len(leaves), i, hx(r2), hx(want))
		}
	}
	return ""
}

// DupTail returns the list extended by its duplicated tail: for n = 2^j * odd (odd > 1) the last 2^j
// leaves are appended once more.  By the pairing rule both lists have the same root (the odd node at
// level j is paired with itself in the short list and with its copy in the long one). ok=false when n is a
// power of two (no such pattern exists).
func DupTail(leaves [][]byte) (longer [][]byte, tail int, ok bool) {
	n := len(leaves)
	if n&(n-1) == 0 {
		return nil, 0, false
	}
	tail = n & -n
	return append(outerCopy(leaves), leaves[n-tail:]...), tail, true
}

// CheckDupTail: the duplicated-tail extension collides with the original (reference and code agree on that),
// and the constant-space computation must flag the longer list as mutated.
func CheckDupTail(leaves [][]byte) (msg string, applied int) {
	cur := leaves
	for {
		longer, tail, ok := DupTail(cur)
		if !ok {
			return "", applied
		}
		applied++
		if !bytes.Equal(RefRoot(longer), RefRoot(leaves)) {
			return fmt.Sprintf("harness error: duplicated tail (%d of %d) does not collide in the reference", tail, len(cur)), applied
		}
		if m := CheckRoot(longer); m != "" {
			return m, applied
		}
		if _, mutated, _ := merkle.Computation(longer, 1, 0); !mutated {
			return fmt.Sprintf("list of %d leaves = list of %d leaves + its last %d leaves has the same root %s but Computation reports mutated=false",
				len(longer), len(cur), tail, hx(RefRoot(longer))), applied
		}
		cur = longer
	}
}

// ---- transaction lists -------------------------------------------------------------------------------------------

// Tx is the rendering of one generated transaction (enough to rebuild it).
type Tx struct {
	Execer string `json:"execer"`
	Nonce  int64  `json:"nonce"`
	Signed bool   `json:"signed,omitempty"`
}

// Build turns renderings into transactions. Signatures are arbitrary bytes: only Hash/FullHash matter here.
func Build(in []Tx) []*types.Transaction {
	out := make([]*types.Transaction, len(in))
	for i, t := range in {
		tx := &types.Transaction{Execer: []byte(t.Execer), Payload: []byte(fmt.Sprintf("payload-%d", t.Nonce)), Nonce: t.Nonce, Fee: 100000, To: "1" + t.Execer}
		if t.Signed {
			tx.Signature = &types.Signature{Ty: 1, Pubkey: []byte(fmt.Sprintf("pub-%d", t.Nonce)), Signature: []byte(fmt.Sprintf("sig-%d", t.Nonce))}
		}
		out[i] = tx
	}
	return out
}

// TitleOf is the chain a transaction belongs to, from the documented naming rule: executors named
// "user.p.<name>.<exec>" belong to parachain title "user.p.<name>.", everything else to the main chain.
func TitleOf(execer string) string {
	if strings.HasPrefix(execer, "user.p.") {
		if i := strings.IndexByte(execer[len("user.p."):], '.'); i >= 0 {
			return execer[:len("user.p.")+i+1]
		}
	}
	return types.MainChainName
}

// SortByTitle orders a list the way block producers do before computing the root (stable, main chain first,
// parachain titles in lexical order). Independent re-implementation of the documented order.
func SortByTitle(in []Tx) []Tx {
	out := append([]Tx(nil), in...)
	sort.SliceStable(out, func(i, j int) bool { return TitleOf(out[i].Execer) < TitleOf(out[j].Execer) })
	return out
}

// grouped reports whether the list is one a block can contain: every chain's transactions contiguous.
func grouped(in []Tx) bool {
	seen := map[string]bool{}
	prev := ""
	for i, t := range in {
		ti := TitleOf(t.Execer)
		if i > 0 && ti != prev && seen[ti] {
			return false
		}
		if ti == types.MainChainName && i > 0 && prev != ti {
			return false // main-chain transactions come first
		}
		seen[ti] = true
		prev = ti
	}
	return true
}

// CheckTxList checks the block-level roots of one transaction list at a height before and after ForkRootHash.
//   - before the fork the root is the reference root over tx.Hash();
//   - after it, the returned child chains partition the list into consecutive segments, every child root is the
//     reference root over the FullHash of its segment, the block root is the reference root over the child roots
//     (a single chain's root is the block root itself), CalcMerkleRoot returns the same block root, and every
//     transaction's two-level proof (branch inside the child, child branch inside the block) folds to the block root;
//   - for grouped lists (what blocks contain) the segments are exactly the chains, with their titles.
func CheckTxList(cfg *types.Chain33Config, preH, postH int64, in []Tx) (msg string, chains int) {
	txs := Build(in)
	n := len(txs)
	hashes := make([][]byte, n)
	full := make([][]byte, n)
	for i, tx := range txs {
		hashes[i], full[i] = tx.Hash(), tx.FullHash()
	}
	if got, want := merkle.CalcMerkleRoot(cfg, preH, txs), RefRoot(hashes); !bytes.Equal(got, want) {
		return fmt.Sprintf("pre-fork CalcMerkleRoot(%d txs)=%s, reference %s", n, hx(got), hx(want)), 0
	}
	root, cc := merkle.CalcMultiLayerMerkleInfo(cfg, postH, txs)
	if got := merkle.CalcMerkleRoot(cfg, postH, txs); !bytes.Equal(got, root) {
		return fmt.Sprintf("post-fork CalcMerkleRoot=%s but CalcMultiLayerMerkleInfo root=%s", hx(got), hx(root)), 0
	}
	if len(cc) == 0 {
		return "no child chains returned for a non-empty list", 0
	}
	next := 0
	var childRoots [][]byte
	for i, c := range cc {
		if int(c.StartIndex) != next || c.TxCount <= 0 || next+int(c.TxCount) > n {
			return fmt.Sprintf("child %d covers [%d,+%d), expected to start at %d (n=%d)", i, c.StartIndex, c.TxCount, next, n), 0
		}
		seg := full[next : next+int(c.TxCount)]
		if want := RefRoot(seg); !bytes.Equal(c.ChildHash, want) {
			return fmt.Sprintf("child %d (%s, %d txs from %d) root=%s, reference %s", i, c.Title, c.TxCount, c.StartIndex, hx(c.ChildHash), hx(want)), 0
		}
		childRoots = append(childRoots, c.ChildHash)
		next += int(c.TxCount)
	}
	if next != n {
		return fmt.Sprintf("child chains cover %d of %d transactions", next, n), 0
	}
	if want := RefRoot(childRoots); !bytes.Equal(root, want) {
		return fmt.Sprintf("block root=%s, reference over %d child roots %s", hx(root), len(cc), hx(want)), 0
	}
	// two-level proofs, built the way blockchain/query_tx.go builds them (exported merkle API only)
	for ci, c := range cc {
		seg := full[c.StartIndex : c.StartIndex+c.TxCount]
		for _, pos := range samplePositions(len(seg)) {
			inChild := merkle.GetMerkleBranch(seg, uint32(pos))
			top := RefVerify(inChild, seg[pos], uint32(pos))
			if len(cc) > 1 {
				if !bytes.Equal(top, c.ChildHash) {
					return fmt.Sprintf("tx %d of child %d: branch folds to %s, child root %s", pos, ci, hx(top), hx(c.ChildHash)), 0
				}
				top = RefVerify(merkle.GetMerkleBranch(childRoots, uint32(ci)), c.ChildHash, uint32(ci))
			}
			if !bytes.Equal(top, root) {
				return fmt.Sprintf("tx %d of child %d: proof folds to %s, block root %s", pos, ci, hx(top), hx(root)), 0
			}
		}
	}
	if grouped(in) {
		var want []string
		for _, t := range in {
			if ti := TitleOf(t.Execer); len(want) == 0 || want[len(want)-1] != ti {
				want = append(want, ti)
			}
		}
		var got []string
		for _, c := range cc {
			got = append(got, c.Title)
		}
		if fmt.Sprint(got) != fmt.Sprint(want) {
			return fmt.Sprintf("child chain titles %v, transactions belong to %v", got, want), 0
		}
	}
	return "", len(cc)
}

// MaxSegment is the largest number of consecutive transactions of one chain (labels cases only).
func MaxSegment(in []Tx) int {
	best, run := 0, 0
	for i, t := range in {
		if i > 0 && TitleOf(t.Execer) == TitleOf(in[i-1].Execer) {
			run++
		} else {
			run = 1
		}
		if run > best {
			best = run
		}
	}
	return best
}

func samplePositions(n int) []int {
	if n <= 40 {
		out := make([]int, n)
		for i := range out {
			out[i] = i
		}
		return out
	}
	return []int{0, 1, n / 2, n - 2, n - 1}
}

// GenTxList draws a transaction list from r: 0..4 parachain titles, chain sizes up to maxChain (sizes above 80
// make the per-chain root take the chunked path), optionally left unsorted (interleaved).
func GenTxList(r *rand.Rand, maxChain int, allowInterleaved bool) (list []Tx, interleaved bool) {
	titles := []string{"a", "b", "para", "hyb", "zz"}
	r.Shuffle(len(titles), func(i, j int) { titles[i], titles[j] = titles[j], titles[i] })
	nPara := r.Intn(5)
	size := func() int {
		switch r.Intn(4) {
		case 0:
			return 1 + r.Intn(3)
		case 1:
			return 1 + r.Intn(20)
		default:
			return 1 + r.Intn(maxChain)
		}
	}
	nonce := int64(0)
	add := func(execers []string, k int) {
		for i := 0; i < k; i++ {
			nonce++
			list = append(list, Tx{Execer: execers[r.Intn(len(execers))], Nonce: nonce, Signed: r.Intn(3) > 0})
		}
	}
	if nPara == 0 || r.Intn(4) > 0 {
		add([]string{"coins", "none", "user.write", "ticket", "user.evm.0x12"}, size())
	}
	for _, t := range titles[:nPara] {
		add([]string{"user.p." + t + ".none", "user.p." + t + ".coins", "user.p." + t + ".user.wasm.x"}, size())
	}
	if allowInterleaved && r.Intn(4) == 0 && len(list) > 1 {
		r.Shuffle(len(list), func(i, j int) { list[i], list[j] = list[j], list[i] })
		return list, !grouped(list)
	}
	return SortByTitle(list), false
}

// RefTwoLevel is the reference two-level root of a block's (sorted) transaction list: consecutive transactions of one
// chain form a child tree over FullHash, the block root is the reference root over the child roots in list order.
func RefTwoLevel(txs []*types.Transaction) (titles []string, childRoots [][]byte, root []byte) {
	var full [][]byte
	start := 0
	for i, tx := range txs {
		full = append(full, tx.FullHash())
		if i+1 == len(txs) || TitleOf(string(txs[i+1].Execer)) != TitleOf(string(tx.Execer)) {
			titles = append(titles, TitleOf(string(tx.Execer)))
			childRoots = append(childRoots, RefRoot(full[start:i+1]))
			start = i + 1
		}
	}
	if len(childRoots) > 0 {
		root = RefRoot(childRoots)
	}
	return
}
