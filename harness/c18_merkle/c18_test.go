// C18: the block transaction root is the same sequentially and in parallel for every leaf count and worker count,
// every position's branch verifies, multi-chain roots and proofs verify, and equal roots arise only from the
// duplicated-tail pattern, which Computation flags as mutated.  Oracles live in core.go.
package c18

import (
	"bufio"
	"bytes"
	"encoding/json"
	"fmt"
	"math/rand"
	"os"
	"os/exec"
	"path/filepath"
	"sort"
	"strconv"
	"strings"
	"testing"
	"time"

	clog "github.com/33cn/chain33/common/log"
	"github.com/33cn/chain33/common/merkle"
	"github.com/33cn/chain33/types"
	"pgregory.net/rapid"
	"verifharness/lib"
)

const prop = "C18"

var cfg *types.Chain33Config

func TestMain(m *testing.M) {
	clog.SetLogLevel("crit")
	cfg = types.NewChain33Config(types.GetDefaultCfgstring()) // title "local": ForkRootHash at height 1
	lib.Main(m)
}

// ---- worker counts: children under taskset ---------------------------------------------------------------------

// allowedCPUs parses Cpus_allowed_list of this process (the CPUs a child may be pinned to).
func allowedCPUs() []int {
	b, _ := os.ReadFile("/proc/self/status")
	for _, l := range strings.Split(string(b), "\n") {
		if strings.HasPrefix(l, "Cpus_allowed_list:") {
			var out []int
			for _, part := range strings.Split(strings.TrimSpace(strings.TrimPrefix(l, "Cpus_allowed_list:")), ",") {
				lo, hi := part, part
				if i := strings.IndexByte(part, '-'); i > 0 {
					lo, hi = part[:i], part[i+1:]
				}
				a, _ := strconv.Atoi(lo)
				z, _ := strconv.Atoi(hi)
				for c := a; c <= z; c++ {
					out = append(out, c)
				}
			}
			return out
		}
	}
	return nil
}

func envInt(name string, def int) int {
	if v, err := strconv.Atoi(os.Getenv(name)); err == nil {
		return v
	}
	return def
}

// leafCounts: quick = every n <= 300, every n around a multiple of 256 and 200 seeded samples up to maxN;
// thorough (C18_ALL_N=1) = every n <= maxN.
func leafCounts(r *rand.Rand, maxN int) []int {
	set := map[int]bool{}
	if envInt("C18_ALL_N", 0) == 1 {
		for n := 1; n <= maxN; n++ {
			set[n] = true
		}
	} else {
		for n := 1; n <= 300 && n <= maxN; n++ {
			set[n] = true
		}
		for m := 256; m <= maxN; m += 256 {
			for _, d := range []int{-1, 0, 1} {
				set[m+d] = true
			}
		}
		for i := 0; i < envInt("C18_SAMPLED_N", 200); i++ {
			set[301+r.Intn(maxN-300)] = true
		}
	}
	var out []int
	for n := range set {
		if n <= maxN {
			out = append(out, n)
		}
	}
	sort.Ints(out)
	return out
}

func compress(ns []int) string {
	var parts []string
	for i := 0; i < len(ns); {
		j := i
		for j+1 < len(ns) && ns[j+1] == ns[j]+1 {
			j++
		}
		if j > i {
			parts = append(parts, fmt.Sprintf("%d-%d", ns[i], ns[j]))
		} else {
			parts = append(parts, strconv.Itoa(ns[i]))
		}
		i = j + 1
	}
	return strings.Join(parts, ",")
}

type childLine struct {
	Kind   string `json:"kind"`
	K      int    `json:"k"`
	N      int    `json:"n"`
	Case   int    `json:"case"`
	Chains int    `json:"chains"`
	MaxSeg int    `json:"maxseg"`
	Inter  bool   `json:"interleaved"`
	Fail   string `json:"fail"`
	Txs    []Tx   `json:"txs"`
}

// TestGenWorkers runs c18_child once per worker count k of this shard, pinned to k CPUs, and aggregates.
// Non-trivial case (the property's quantifier): (n, k) with the chunked path taken (n > 80, k > 1) and a padded
// last chunk (n not a multiple of the chunk size); for transaction lists: a chain segment > 80 on k > 1.
func TestGenWorkers(t *testing.T) {
	defer lib.Flush()
	bin := filepath.Join(os.Getenv("VERIF_BIN"), "c18_child")
	if _, err := os.Stat(bin); err != nil {
		lib.Inconclusive("helper binary %s missing: %v", bin, err)
	}
	taskset, err := exec.LookPath("taskset")
	if err != nil {
		lib.Inconclusive("taskset not available: %v", err)
	}
	cpus := allowedCPUs()
	maxK := envInt("C18_MAX_K", 16)
	if len(cpus) < maxK {
		maxK = len(cpus)
	}
	if maxK < 2 {
		lib.Inconclusive("only %d CPU(s) allowed: worker counts cannot be varied", len(cpus))
	}
	seed := int64(envInt("VERIF_SHARD_SEED", 1))
	shard, shards := envInt("VERIF_SHARD", 0), envInt("VERIF_SHARDS", 1)
	baseSeed := int64(envInt("VERIF_SEED", 1)) // leaves are the same in all shards; the sampled n differ per shard
	ns := leafCounts(rand.New(rand.NewSource(seed)), envInt("C18_MAX_N", 4100))
	multi := envInt("C18_TXLISTS", 12)
	for k := 1; k <= maxK; k++ {
		if (k-1)%shards != shard {
			continue
		}
		// k CPUs starting at a k-dependent offset, so that concurrent children do not all sit on CPU 0
		var list []string
		for i := 0; i < k; i++ {
			list = append(list, strconv.Itoa(cpus[(k*5+i)%len(cpus)]))
		}
		args := []string{"-c", strings.Join(list, ","), bin, "-seed", strconv.FormatInt(baseSeed, 10), "-ns", compress(ns),
			"-multi", strconv.Itoa(multi), "-maxchain", strconv.Itoa(envInt("C18_MAXCHAIN", 400))}
		cmd := exec.Command(taskset, args...)
		var out, errb bytes.Buffer
		cmd.Stdout, cmd.Stderr = &out, &errb
		if err := cmd.Start(); err != nil {
			lib.Inconclusive("cannot start %s %v: %v", taskset, args, err)
		}
		done := make(chan error, 1)
		go func() { done <- cmd.Wait() }()
		select {
		case err = <-done:
		case <-time.After(time.Duration(envInt("C18_CHILD_TIMEOUT_S", 1500)) * time.Second):
			_ = cmd.Process.Kill()
			lib.Inconclusive("child k=%d did not finish in time", k)
		}
		if err != nil {
			if strings.Contains(errb.String(), "panic:") {
				lib.Violation(t, prop, "TestGenWorkers", map[string]interface{}{"cmd": args}, "child k=%d panicked: %s", k, tail(errb.String(), 1500))
			}
			lib.Inconclusive("child k=%d failed: %v: %s", k, err, tail(errb.String(), 800))
		}
		sawDone := false
		sc := bufio.NewScanner(&out)
		sc.Buffer(make([]byte, 1<<20), 1<<26)
		for sc.Scan() {
			if !bytes.HasPrefix(sc.Bytes(), []byte("{")) {
				continue
			}
			var l childLine
			if json.Unmarshal(sc.Bytes(), &l) != nil {
				continue
			}
			switch l.Kind {
			case "hello":
				if l.K != k {
					lib.Inconclusive("child pinned to %d CPUs reports NumCPU=%d", k, l.K)
				}
			case "root":
				lib.Eval()
				step := Step(l.N, k)
				lib.Class(fmt.Sprintf("root/chunk=%d", step))
				if l.Fail != "" {
					lib.Violation(t, prop, "TestGenWorkers", map[string]interface{}{"kind": "root", "n": l.N, "k": k, "seed": baseSeed, "chunk": step, "cmd": args},
						"n=%d leaves on k=%d workers (chunk %d): %s", l.N, k, step, l.Fail)
				}
				if step > 0 && l.N%step != 0 {
					lib.Class("root/padded_last_chunk")
					c := map[string]interface{}{"n": l.N, "k": k, "chunk": step}
					if l.N%97 == 0 {
						lib.NonTrivialCase(c)
					} else {
						lib.NonTrivial(lib.Fingerprint("root", l.N, k))
					}
				}
			case "txlist":
				lib.Eval()
				lib.Class(fmt.Sprintf("txlist/chains=%d", l.Chains))
				if l.Inter {
					lib.Class("txlist/interleaved")
				}
				if l.Fail != "" {
					lib.Violation(t, prop, "TestGenWorkers", map[string]interface{}{"kind": "txlist", "k": k, "seed": baseSeed, "case": l.Case, "txs": l.Txs, "cmd": args},
						"tx list %d (%d txs) on k=%d workers: %s", l.Case, l.N, k, l.Fail)
				}
				if k > 1 && l.MaxSeg > 80 {
					lib.Class("txlist/chunked_chain")
					lib.NonTrivial(lib.Fingerprint("txlist", baseSeed, l.Case, k))
				}
			case "done":
				sawDone = true
			}
		}
		if !sawDone {
			lib.Inconclusive("child k=%d output truncated: %s", k, tail(errb.String(), 800))
		}
	}
}

func tail(s string, n int) string {
	if len(s) > n {
		return s[len(s)-n:]
	}
	return s
}

// ---- branches ---------------------------------------------------------------------------------------------------

func genN(t *rapid.T, max int) int {
	return rapid.OneOf(rapid.IntRange(1, 40), rapid.IntRange(1, 300), rapid.IntRange(1, max),
		rapid.Map(rapid.IntRange(1, 11), func(e int) int { return 1<<e + []int{-1, 0, 1}[e%3] })).Draw(t, "n")
}

// TestPropBranches: every position for n <= 300, 64 sampled positions above; non-trivial = a tree with at least
// one odd-sized level (where the last node is paired with itself), i.e. n is not a power of two.
func TestPropBranches(t *testing.T) {
	defer lib.Flush()
	rapid.Check(t, func(t *rapid.T) {
		n := genN(t, 4100)
		seed := rapid.Int64().Draw(t, "seed")
		leaves := Leaves(seed, n)
		var idxs []int
		if n <= 300 {
			for i := 0; i < n; i++ {
				idxs = append(idxs, i)
			}
		} else {
			idxs = append(rapid.SliceOfN(rapid.IntRange(0, n-1), 62, 62).Draw(t, "idx"), 0, n-1)
		}
		lib.Eval()
		if msg := CheckBranches(leaves, idxs); msg != "" {
			lib.Violation(t, prop, "TestPropBranches", map[string]interface{}{"n": n, "seed": seed, "idxs": idxs}, "%s", msg)
		}
		if n&(n-1) != 0 {
			lib.Class("branch/odd_level")
			lib.NonTrivialCase(map[string]interface{}{"n": n, "seed": seed, "positions": len(idxs)})
		} else {
			lib.Class("branch/power_of_two")
		}
	})
}

// ---- binding ----------------------------------------------------------------------------------------------------

// related: b is obtained from a by one or more duplicated-tail extensions.
func related(a, b [][]byte) bool {
	for len(a) < len(b) {
		l, _, ok := DupTail(a)
		if !ok {
			return false
		}
		a = l
	}
	if len(a) != len(b) {
		return false
	}
	for i := range a {
		if !bytes.Equal(a[i], b[i]) {
			return false
		}
	}
	return true
}

// TestPropBinding: (a) duplicated-tail extensions collide and must be flagged mutated; (b) for edited lists (one leaf
// changed, two swapped, last dropped, last repeated, inner block repeated, arbitrary tail repeated) an equal root is
// allowed only when the pair is related by the duplicated-tail pattern, and then the longer must be flagged.
// Non-trivial = a case with at least one duplicated-tail extension and at least one edit that collides or is rejected.
func TestPropBinding(t *testing.T) {
	defer lib.Flush()
	rapid.Check(t, func(t *rapid.T) {
		n := genN(t, 700)
		seed := rapid.Int64().Draw(t, "seed")
		leaves := Leaves(seed, n)
		lib.Eval()
		c := map[string]interface{}{"n": n, "seed": seed}
		msg, applied := CheckDupTail(leaves)
		if msg != "" {
			lib.Violation(t, prop, "TestPropBinding", c, "%s", msg)
		}
		root := merkle.GetMerkleRoot(outerCopy(leaves))
		edits := rapid.SliceOfN(rapid.SampledFrom([]string{"flip", "swap", "drop", "repeat_last", "repeat_tail", "repeat_inner"}), 1, 6).Draw(t, "edits")
		for _, e := range edits {
			ed := outerCopy(leaves)
			i := rapid.IntRange(0, n-1).Draw(t, "i")
			switch e {
			case "flip":
				ed[i] = node(ed[i], ed[i])
			case "swap":
				j := rapid.IntRange(0, n-1).Draw(t, "j")
				ed[i], ed[j] = ed[j], ed[i]
			case "drop":
				if n == 1 {
					continue
				}
				ed = ed[:n-1]
			case "repeat_last":
				ed = append(ed, ed[n-1])
			case "repeat_tail":
				ed = append(ed, ed[i:]...)
			case "repeat_inner":
				j := rapid.IntRange(i, n-1).Draw(t, "j")
				ed = append(append(outerCopy(ed[:j+1]), ed[i:j+1]...), ed[j+1:]...)
			}
			c["edit"], c["i"] = e, i
			if m := CheckRoot(ed); m != "" {
				lib.Violation(t, prop, "TestPropBinding", c, "edited list: %s", m)
			}
			same := len(ed) == len(leaves) && related(ed, leaves)
			if bytes.Equal(merkle.GetMerkleRoot(outerCopy(ed)), root) && !same {
				short, long := leaves, ed
				if len(long) < len(short) {
					short, long = long, short
				}
				if !related(short, long) {
					lib.Violation(t, prop, "TestPropBinding", c, "lists of %d and %d leaves differ, are not related by the duplicated-tail pattern, and have the same root %s", len(leaves), len(ed), hx(root))
				}
				if _, mutated, _ := merkle.Computation(long, 1, 0); !mutated {
					lib.Violation(t, prop, "TestPropBinding", c, "colliding longer list (%d leaves) is not flagged as mutated", len(long))
				}
				lib.Class("binding/edit_collides_by_pattern")
			} else if !same {
				lib.Class("binding/edit_changes_root")
			}
		}
		lib.Class(fmt.Sprintf("binding/dup_tail_steps=%d", applied))
		if applied > 0 {
			lib.NonTrivialCase(map[string]interface{}{"n": n, "seed": seed, "dup_tail_steps": applied, "edits": edits})
		}
	})
}

// ---- transaction lists (this process's worker count; other counts in TestGenWorkers) -------------------------

// TestPropTxList: non-trivial = a list with >= 2 chains (a real two-level tree).
func TestPropTxList(t *testing.T) {
	defer lib.Flush()
	rapid.Check(t, func(t *rapid.T) {
		seed := rapid.Int64().Draw(t, "seed")
		maxChain := rapid.SampledFrom([]int{3, 12, 90, 200}).Draw(t, "maxChain")
		list, inter := GenTxList(rand.New(rand.NewSource(seed)), maxChain, true)
		postH := rapid.Int64Range(1, 5000).Draw(t, "height")
		lib.Eval()
		msg, chains := CheckTxList(cfg, 0, postH, list)
		if msg != "" {
			lib.Violation(t, prop, "TestPropTxList", map[string]interface{}{"seed": seed, "maxChain": maxChain, "height": postH, "txs": list}, "%s", msg)
		}
		lib.Class(fmt.Sprintf("txlist/chains=%d", chains))
		if inter {
			lib.Class("txlist/interleaved")
		}
		if chains >= 2 {
			lib.NonTrivial(lib.Fingerprint("txlist", seed, maxChain))
			if len(list) <= 12 {
				lib.Sample(map[string]interface{}{"txs": list, "chains": chains})
			}
		}
	})
}
