package c18

import (
	"bytes"
	"fmt"
	"math/rand"
	"testing"

	"github.com/33cn/chain33/common/address"
	"github.com/33cn/chain33/types"
	"pgregory.net/rapid"
	"verifharness/chainfix"
	"verifharness/lib"
)

var (
	reorgBuilder *chainfix.Builder
	reorgTrunk   []*types.Block // genesis + trunkLen blocks, built once per process and shared by all cases
)

// The node only reorganises to a tip at height >= last finalized (0 here) + 12, so every case starts from a common
// trunk that brings the fork's tip to that height.
const trunkLen = 10

// queryTitles: the parachain titles the generator uses plus one no block contains.
var queryTitles = []string{"user.p.a.", "user.p.b.", "user.p.para.", "user.p.hyb.", "user.p.absent."}

// TestPropChildProofsAcrossReorg: child-chain roots and proofs served for EVERY block of the node's sequence log,
// including blocks that were replaced by a reorganisation (the rows of the para-tx table at their height then belong
// to another block), and for every best-chain block by height.
//
// Fixture: a builder node produces a main branch M1..Mn and a longer fork F(f+1)..F(n+1) from height f, every block
// holding a generated mix of main/parachain transactions (0-4 titles), on top of a fixed 10-block trunk (f counts from the
// trunk tip); a fresh follower receives the trunk, the main branch, then
// the fork (ProcessBlock as from a peer), so its sequence log reads add M.., del M.., add F... Requests, in the shapes
// the callers use (parachain consensus: GetParaTxByTitle with IsSeq=true over a sequence range; also IsSeq=false over
// heights, and GetParaTxByHeight):
// Oracle (property clause "every child-chain root and its proof verify"): for each served block that contains the title
// (after ForkRootHash), ChildHash is the reference root over FullHash of that title's transactions in THAT block, and
// the independent fold of (Proofs, ChildHash, Index) is that block's TxHash = reference two-level root. Blocks are
// identified by the hash in the sequence record / the served header and compared with the builder's own copy.
// Non-trivial: a case in which a replaced block is served for a title it contains (>= 1 such answer).
func TestPropChildProofsAcrossReorg(t *testing.T) {
	defer lib.Flush()
	if reorgBuilder == nil {
		reorgBuilder = chainfix.NewBuilder()
	}
	b := reorgBuilder
	bcfg := b.N.Cfg
	genesis := b.N.Genesis()
	priv := chainfix.Keys()[1]
	rapid.Check(t, func(t *rapid.T) {
		seed := rapid.Int64().Draw(t, "seed")
		n := rapid.IntRange(1, 3).Draw(t, "mainLen")
		f := rapid.IntRange(0, n-1).Draw(t, "forkAfter")
		r := rand.New(rand.NewSource(seed))
		c := map[string]interface{}{"seed": seed, "mainLen": n, "forkAfter": f}
		byHash := map[string]*types.Block{}
		mk := func(parent *types.Block, tag int) *types.Block {
			var txs []*types.Transaction
			for _, x := range nodeTxList(r) {
				tx := &types.Transaction{Execer: []byte(x.Execer), Payload: []byte("none"), Nonce: x.Nonce, Fee: 1e6, To: address.ExecAddress(x.Execer), ChainID: bcfg.GetChainID()}
				tx.Sign(types.SECP256K1, priv)
				txs = append(txs, tx)
			}
			blk, err := b.Child(parent, txs, 0x1f00ffff, genesis.BlockTime+(parent.Height+1)*10+int64(tag))
			if err != nil {
				lib.Inconclusive("fixture: builder cannot produce block at height %d: %v", parent.Height+1, err)
			}
			byHash[string(blk.Hash(bcfg))] = blk
			return blk
		}
		if reorgTrunk == nil {
			tr := rand.New(rand.NewSource(18))
			keep := r
			r = tr
			reorgTrunk = []*types.Block{genesis}
			for i := 0; i < trunkLen; i++ {
				reorgTrunk = append(reorgTrunk, mk(reorgTrunk[i], 0))
			}
			r = keep
		}
		for _, blk := range reorgTrunk {
			byHash[string(blk.Hash(bcfg))] = blk
		}
		mainBr := []*types.Block{reorgTrunk[trunkLen]}
		for i := 0; i < n; i++ {
			mainBr = append(mainBr, mk(mainBr[i], 0))
		}
		fork := []*types.Block{mainBr[f]}
		for i := 0; i < n-f+1; i++ {
			fork = append(fork, mk(fork[i], 1))
		}
		node := chainfix.NewNode()
		defer node.Close()
		chain := node.GetBlockChain()
		for _, blk := range append(append(append([]*types.Block{}, reorgTrunk[1:]...), mainBr[1:]...), fork[1:]...) {
			if _, _, err := node.Deliver(blk, "peer1", false); err != nil {
				lib.Inconclusive("fixture: valid block at height %d rejected: %v", blk.Height, err)
			}
		}
		tipH, tipHash := node.Tip()
		if want := fork[len(fork)-1]; tipH != want.Height || !bytes.Equal(tipHash, want.Hash(bcfg)) {
			lib.Inconclusive("fixture: follower did not reorganise to the longer fork (tip height %d)", tipH)
		}
		recs, last, err := node.SequenceLog()
		if err != nil {
			lib.Inconclusive("fixture: sequence log: %v", err)
		}
		best := map[string]bool{}
		for _, blk := range fork[1:] {
			best[string(blk.Hash(bcfg))] = true
		}
		for _, blk := range append(append([]*types.Block{}, reorgTrunk...), mainBr[1:f+1]...) {
			best[string(blk.Hash(bcfg))] = true
		}
		lib.Eval()
		replacedServed := 0
		// check one served item against the builder's copy of the block it claims to describe
		check := func(api string, title string, item *types.ParaTxDetail, hash []byte) {
			if item == nil || item.Header == nil {
				return
			}
			if hash == nil {
				hash = item.Header.Hash
			}
			blk := byHash[string(hash)]
			if blk == nil || !node.Cfg.IsFork(blk.Height, "ForkRootHash") {
				return // genesis / before the two-level root
			}
			titles, roots, root := RefTwoLevel(blk.Txs)
			if !bytes.Equal(root, blk.TxHash) {
				lib.Violation(t, prop, "TestPropChildProofsAcrossReorg", c, "block at height %d: TxHash %s, reference two-level root %s", blk.Height, hx(blk.TxHash), hx(root))
			}
			pos := -1
			for i, ti := range titles {
				if ti == title {
					pos = i
				}
			}
			if pos < 0 {
				lib.Class("reorg/title_absent_from_block")
				return // nothing to verify: the property speaks about child chains the block has
			}
			kind := "best_chain_block"
			if !best[string(hash)] {
				kind = "replaced_block"
				replacedServed++
			}
			lib.Class("reorg/" + api + "/" + kind)
			cc := map[string]interface{}{"case": c, "api": api, "title": title, "height": blk.Height, "block": kind, "chains_in_block": titles}
			if !bytes.Equal(item.ChildHash, roots[pos]) {
				lib.Violation(t, prop, "TestPropChildProofsAcrossReorg", cc, "%s(%s): %s at height %d: served child root %s, reference root of the title's transactions %s",
					api, title, kind, blk.Height, hx(item.ChildHash), hx(roots[pos]))
			}
			if got := RefVerify(item.Proofs, item.ChildHash, item.Index); !bytes.Equal(got, blk.TxHash) {
				lib.Violation(t, prop, "TestPropChildProofsAcrossReorg", cc, "%s(%s): %s at height %d (%d chains): child root proof (index %d, %d siblings) folds to %s, block TxHash %s",
					api, title, kind, blk.Height, len(titles), item.Index, len(item.Proofs), hx(got), hx(blk.TxHash))
			}
		}
		for _, title := range queryTitles {
			// by sequence, the whole log in one request (what a parachain node syncing main-chain sequences sends)
			res, err := chain.GetParaTxByTitle(&types.ReqParaTxByTitle{Start: 0, End: last, Title: title, IsSeq: true})
			if err != nil || len(res.Items) != len(recs) {
				lib.Inconclusive("fixture: GetParaTxByTitle(seq 0..%d) failed: %v", last, err)
			}
			for i, item := range res.Items {
				check("GetParaTxByTitle/seq", title, item, recs[i].Hash)
			}
			// one sequence at a time, from the end (a different request shape over the same log)
			for s := last; s >= 1; s-- {
				res, err := chain.GetParaTxByTitle(&types.ReqParaTxByTitle{Start: s, End: s, Title: title, IsSeq: true})
				if err != nil || len(res.Items) != 1 {
					lib.Inconclusive("fixture: GetParaTxByTitle(seq %d) failed: %v", s, err)
				}
				check("GetParaTxByTitle/seq", title, res.Items[0], recs[s].Hash)
			}
			// by height over the best chain
			res, err = chain.GetParaTxByTitle(&types.ReqParaTxByTitle{Start: 0, End: tipH, Title: title, IsSeq: false})
			if err != nil {
				lib.Inconclusive("fixture: GetParaTxByTitle(heights 0..%d) failed: %v", tipH, err)
			}
			for _, item := range res.Items {
				check("GetParaTxByTitle/height", title, item, nil)
			}
			var hs []int64
			for h := int64(0); h <= tipH; h++ {
				hs = append(hs, h)
			}
			res, err = chain.GetParaTxByHeight(&types.ReqParaTxByHeight{Items: hs, Title: title})
			if err != nil {
				lib.Inconclusive("fixture: GetParaTxByHeight failed: %v", err)
			}
			for _, item := range res.Items {
				check("GetParaTxByHeight", title, item, nil)
			}
		}
		lib.Class(fmt.Sprintf("reorg/depth=%d", n-f))
		if replacedServed > 0 {
			lib.NonTrivial(lib.Fingerprint("reorg", seed, n, f))
			if lib.SampleCount() < 3 {
				lib.Sample(map[string]interface{}{"reorg_case": c, "sequence_records": len(recs), "replaced_block_answers_checked": replacedServed})
			}
		}
	})
}
