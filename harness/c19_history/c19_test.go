// C19: validity answers (address validity, pubkey -> address, signature validity at height h) depend only on the input, h
// and the node configuration - not on earlier queries, cache contents or map iteration order, including the exact error.
//
// Oracle (from the property text, no model of the code): the answer a node gives to (fn, input, h) in the middle of a long
// query history must equal the answer given by a FRESH process with the same configuration that has never seen the
// input (helper cmd/c19_query; a fresh batch never contains two queries sharing a cache key), and R independent fresh
// processes must agree with each other (map iteration order differs from process to process and from call to call).
//
// Three genuine defects of the pinned tree are handled by the known-finding protocol (ids below). Their signatures are
// evaluated only on a mismatch and only when the id is listed as known; they use the per-driver verdicts of the
// input (pure ValidateAddr calls) together with the documented enable rule and pre-fork compatibility rule.
package c19

import (
	"bytes"
	"crypto/sha256"
	"encoding/hex"
	"encoding/json"
	"fmt"
	"math/big"
	"math/rand"
	"os"
	"os/exec"
	"path/filepath"
	"sort"
	"strconv"
	"strings"
	"testing"
	"time"

	"github.com/33cn/chain33/common/address"
	"github.com/33cn/chain33/common/crypto"
	_ "github.com/33cn/chain33/system"
	"github.com/33cn/chain33/types"
	"verifharness/lib"
)

const (
	prop     = "C19"
	idCache  = "C19-addr-cache-ignores-height"
	idOrder  = "C19-addr-error-map-order"
	idEthFmt = "C19-eth-pubkey-cache-fork-format"
)

func TestMain(m *testing.M) { lib.Main(m) }

// ---- helper process ----------------------------------------------------------------------------------------------

// Cfg is the generated part of the node configuration (see cmd/c19_query).
type Cfg struct {
	AddrEnable   map[string]int64 `json:"addrEnable"`
	CryptoEnable map[string]int64 `json:"cryptoEnable"`
	Forks        map[string]int64 `json:"forks"`
	DelayTxs     map[string]Delay `json:"delayTxs"` // chain state read by btcscript: delayed tx hash -> commit record
}

// Delay is the commit record of a delayed transaction (none executor): begin height, or begin block time when > 0.
type Delay struct {
	Height int64 `json:"h"`
	Time   int64 `json:"t"`
}

// Query is one validity question. Subj is the cache key the input may occupy (address string or public key).
type Query struct {
	Fn   string `json:"fn"`
	In   string `json:"in"`
	H    int64  `json:"h"`
	Subj string `json:"-"`
}

func (q Query) key() string { return q.Fn + "|" + q.In + "|" + strconv.FormatInt(q.H, 10) }

var procs int

// ask runs the queries, in order, in one new helper process and returns its answers.
func ask(cfg Cfg, qs []Query) []string {
	bin := filepath.Join(os.Getenv("VERIF_BIN"), "c19_query")
	if _, err := os.Stat(bin); err != nil {
		lib.Inconclusive("helper binary %s missing: %v", bin, err)
	}
	in, _ := json.Marshal(map[string]interface{}{"cfg": cfg, "queries": qs})
	cmd := exec.Command(bin)
	cmd.Stdin = bytes.NewReader(in)
	var out, errb bytes.Buffer
	cmd.Stdout, cmd.Stderr = &out, &errb
	if err := cmd.Start(); err != nil {
		lib.Inconclusive("cannot start %s: %v", bin, err)
	}
	procs++
	done := make(chan error, 1)
	go func() { done <- cmd.Wait() }()
	select {
	case err := <-done:
		if err != nil {
			lib.Inconclusive("c19_query failed: %v: %s", err, tail(errb.String(), 600))
		}
	case <-time.After(300 * time.Second):
		_ = cmd.Process.Kill()
		lib.Inconclusive("c19_query did not answer %d queries in time", len(qs))
	}
	var res struct {
		Answers []string `json:"answers"`
	}
	for _, l := range bytes.Split(out.Bytes(), []byte("\n")) {
		if bytes.HasPrefix(l, []byte(`{"answers"`)) {
			_ = json.Unmarshal(l, &res)
		}
	}
	if len(res.Answers) != len(qs) {
		lib.Inconclusive("c19_query returned %d answers for %d queries: %s", len(res.Answers), len(qs), tail(errb.String(), 600))
	}
	return res.Answers
}

func tail(s string, n int) string {
	if len(s) > n {
		return s[len(s)-n:]
	}
	return s
}

// ---- generators ------------------------------------------------------------------------------------------------------

const b58 = "123456789ABCDEFGHJKLMNPQRSTUVWXYZabcdefghijkmnopqrstuvwxyz"

func base58(b []byte) string {
	x := new(big.Int).SetBytes(b)
	var out []byte
	m, zero, radix := new(big.Int), big.NewInt(0), big.NewInt(58)
	for x.Cmp(zero) > 0 {
		x.DivMod(x, radix, m)
		out = append(out, b58[m.Int64()])
	}
	for _, c := range b {
		if c != 0 {
			break
		}
		out = append(out, '1')
	}
	for i, j := 0, len(out)-1; i < j; i, j = i+1, j-1 {
		out[i], out[j] = out[j], out[i]
	}
	return string(out)
}

func dsha(b []byte) []byte {
	a := sha256.Sum256(b)
	a = sha256.Sum256(a[:])
	return a[:]
}

func randBytes(r *rand.Rand, n int) []byte {
	b := make([]byte, n)
	r.Read(b)
	return b
}

// b58addr builds version||payload||checksum (checksum = first 4 bytes of double sha256, optionally corrupted).
func b58addr(ver byte, payload []byte, goodSum bool) string {
	raw := append([]byte{ver}, payload...)
	sum := dsha(raw)[:4]
	if !goodSum {
		sum = []byte{sum[0] ^ 0x55, sum[1], sum[2], sum[3] ^ 1}
	}
	return base58(append(raw, sum...))
}

type subject struct {
	Class string
	In    string   // address, "<id>:<pubkey hex>" or transaction hex
	Subj  string   // cache key
	Fns   []string // functions applicable
	Ins   []string // optional: variants of the input sharing the cache key (one is drawn per query)
	Rel   []string // configuration entries whose height can change the answer for this input
	// SigSubj, when set, is the cache key of checkSign queries (signature checks do not touch the pubkey->address
	// caches, so transactions of one owner need not be kept apart in fresh batches)
	SigSubj string
}

func genAddress(r *rand.Rand) subject {
	mk := func(class, in string) subject {
		return subject{Class: "addr/" + class, In: in, Subj: "addr:" + in, Fns: []string{"addrCheck", "dappCheck"},
			Rel: []string{"addr:eth", "addr:btcMultiSign", "addr:utxo", "fork:ForkMultiSignAddress", "fork:ForkBase58AddressCheck"}}
	}
	hexAddr := func() string { return hex.EncodeToString(randBytes(r, 20)) }
	switch r.Intn(16) {
	case 0:
		return mk("btc_valid", b58addr(0, randBytes(r, 20), true))
	case 1:
		return mk("multisig_valid", b58addr(5, randBytes(r, 20), true))
	case 2, 3:
		return mk("wrong_version", b58addr([]byte{7, 111, 1, 48}[r.Intn(4)], randBytes(r, 20), true))
	case 4:
		return mk("bad_checksum25", b58addr([]byte{0, 5}[r.Intn(2)], randBytes(r, 20), false))
	case 5:
		return mk("long_good_checksum", b58addr([]byte{0, 5}[r.Intn(2)], randBytes(r, 21+r.Intn(8)), true))
	case 6:
		return mk("long_bad_checksum", b58addr([]byte{0, 5}[r.Intn(2)], randBytes(r, 21+r.Intn(8)), false))
	case 7:
		return mk("short", b58addr(0, randBytes(r, 4+r.Intn(12)), true))
	case 8:
		return mk("not_base58", "1"+strings.Repeat("0OIl", 3)+base58(randBytes(r, 12)))
	case 9, 10:
		return mk("eth_lower", "0x"+hexAddr())
	case 11: // mixed case: flip some letters to upper case
		s := []byte(hexAddr())
		for i := range s {
			if s[i] >= 'a' && r.Intn(2) == 0 {
				s[i] -= 32
			}
		}
		return mk("eth_mixed", "0x"+string(s))
	case 12:
		return mk("eth_noprefix", hexAddr())
	case 13:
		return mk("eth_malformed", []string{"0x" + hexAddr()[:39], "0x" + hexAddr() + "0", "0xg" + hexAddr()[1:]}[r.Intn(3)])
	case 14:
		if r.Intn(2) == 0 {
			return mk("utxo_outpoint", hex.EncodeToString(randBytes(r, 32))+":"+strconv.Itoa(r.Intn(50)))
		}
		return mk("utxo_malformed", hex.EncodeToString(randBytes(r, 5))+":x")
	default:
		return mk("exec_address", address.ExecAddress([]string{"coins", "none", "manage", "user.p.x.token"}[r.Intn(4)]))
	}
}

func mustPriv(name string, seed []byte) crypto.PrivKey {
	c, err := crypto.Load(name, -1)
	if err != nil {
		lib.Inconclusive("crypto driver %s missing: %v", name, err)
	}
	p, err := c.PrivKeyFromBytes(seed)
	if err != nil {
		lib.Inconclusive("%s key from seed: %v", name, err)
	}
	return p
}

func genPubkey(r *rand.Rand) subject {
	seed := randBytes(r, 32)
	var pub []byte
	class := ""
	switch r.Intn(5) {
	case 0, 1:
		pub, class = mustPriv("secp256k1", seed).PubKey().Bytes(), "secp256k1_compressed"
	case 2:
		pub, class = mustPriv("secp256k1eth", seed).PubKey().Bytes(), "secp256k1_uncompressed"
	case 3:
		pub, class = mustPriv("ed25519", seed).PubKey().Bytes(), "ed25519"
	default:
		pub, class = append([]byte{2}, seed...), "not_on_curve_or_random"
	}
	// the same key is converted by different address drivers within one history (the caches are per driver)
	h := hex.EncodeToString(pub)
	return subject{Class: "pub/" + class, In: "2:" + h, Ins: []string{"0:" + h, "1:" + h, "2:" + h, "2:" + h}, Subj: "pub:" + h, Fns: []string{"pub2addr"},
		Rel: []string{"fork:ForkFormatAddressKey"}}
}

var signTypes = map[string]int32{"secp256k1": 1, "ed25519": 2, "secp256k1eth": 260, "secp256r1": 257, "sm2": 258}

func genTx(r *rand.Rand) subject {
	// secp256r1 and sm2 sign with crypto/rand: their transaction bytes are not reproducible from the seed (the replay
	// file records them); the verdicts are
	name := []string{"secp256k1", "secp256k1", "ed25519", "secp256k1eth", "secp256k1eth", "secp256r1", "sm2"}[r.Intn(7)]
	priv := mustPriv(name, randBytes(r, 32))
	addrID := int32([]int{0, 2, 2}[r.Intn(3)])
	tx := &types.Transaction{Execer: []byte([]string{"none", "coins", "user.write"}[r.Intn(3)]), Payload: randBytes(r, 1+r.Intn(30)),
		Fee: 100000, Nonce: r.Int63(), To: b58addr(0, randBytes(r, 20), true), ChainID: 0}
	tx.Sign(types.EncodeSignID(signTypes[name], addrID), priv)
	class := "valid"
	switch r.Intn(5) {
	case 0:
		tx.Payload = append(tx.Payload, 1)
		class = "payload_tampered"
	case 1:
		tx.Signature.Signature[len(tx.Signature.Signature)/2] ^= 0x10
		class = "signature_tampered"
	}
	enc := hex.EncodeToString(types.Encode(tx))
	return subject{Class: fmt.Sprintf("tx/%s/%s/addr%d", name, class, addrID), In: enc,
		Subj: "pub:" + hex.EncodeToString(tx.Signature.Pubkey), Fns: []string{"checkSign", "checkSign", "txFrom"},
		Rel: []string{"crypto:" + name, "fork:ForkFormatAddressKey"}}
}

func pick(r *rand.Rand, zero, neg int, lo, hi int64) int64 {
	switch x := r.Intn(10); {
	case x < zero:
		return 0
	case x < zero+neg:
		return -1
	}
	return lo + r.Int63n(hi-lo)
}

func genCfg(r *rand.Rand) Cfg {
	c := Cfg{AddrEnable: map[string]int64{}, CryptoEnable: map[string]int64{}, Forks: map[string]int64{}, DelayTxs: map[string]Delay{}}
	c.AddrEnable["eth"] = pick(r, 1, 1, 20, 900)
	if r.Intn(3) == 0 {
		c.AddrEnable["btcMultiSign"] = pick(r, 3, 0, 20, 900)
	}
	if r.Intn(3) == 0 {
		c.AddrEnable["utxo"] = pick(r, 2, 2, 20, 900)
	}
	c.CryptoEnable["secp256k1eth"] = pick(r, 2, 1, 20, 900)
	c.CryptoEnable["ed25519"] = pick(r, 3, 1, 20, 900)
	for _, name := range []string{"btcscript", "sm2", "secp256r1"} {
		if r.Intn(3) == 0 {
			c.CryptoEnable[name] = pick(r, 2, 1, 20, 900)
		}
	}
	c.Forks["ForkMultiSignAddress"] = pick(r, 2, 0, 20, 900)
	c.Forks["ForkBase58AddressCheck"] = pick(r, 2, 0, 20, 900)
	c.Forks["ForkFormatAddressKey"] = pick(r, 2, 0, 20, 900)
	return c
}

// boundaries lists every positive enable/fork height of the configuration.
func (c Cfg) boundaries() []int64 {
	var out []int64
	for _, m := range []map[string]int64{c.AddrEnable, c.CryptoEnable, c.Forks} {
		for _, v := range m {
			if v > 0 {
				out = append(out, v)
			}
		}
	}
	sort.Slice(out, func(i, j int) bool { return out[i] < out[j] })
	return out
}

// heights: candidate heights for a query - "no height context" (-1, address.CheckAddress only), 0, 1, far future, and
// b-1, b, b+7 around every positive boundary b; rel restricts the boundaries to the listed configuration entries.
func (c Cfg) heights(fn string, rel []string) []int64 {
	hs := []int64{0, 1, 2000000}
	if fn == "addrCheck" {
		hs = append(hs, -1) // "pass -1 if there is no block height context" (rpc, wallet)
	}
	bs := c.boundaries()
	if rel != nil {
		bs = nil
		for _, k := range rel {
			if strings.HasPrefix(k, "abs:") { // a boundary of the input itself (e.g. commit height + declared delay)
				v, _ := strconv.ParseInt(k[4:], 10, 64)
				bs = append(bs, v)
				continue
			}
			m := map[string]map[string]int64{"addr": c.AddrEnable, "crypto": c.CryptoEnable, "fork": c.Forks}[k[:strings.IndexByte(k, ':')]]
			if v := m[k[strings.IndexByte(k, ':')+1:]]; v > 0 {
				bs = append(bs, v)
			}
		}
	}
	for _, b := range bs {
		hs = append(hs, b-1, b, b+7)
	}
	return hs
}

// straddles: h1 and h2 lie on opposite sides of some enable/fork height (or one of them is "no height context").
func (c Cfg) straddles(h1, h2 int64) bool {
	if (h1 < 0) != (h2 < 0) {
		return true
	}
	for _, b := range c.boundaries() {
		if (h1 < b) != (h2 < b) {
			return true
		}
	}
	return false
}

// genHistory: nSubj inputs, each asked 2..5 times (function and height vary), interleaved in random order.
func genHistory(r *rand.Rand, cfg Cfg, nQueries int) (qs []Query, classes []string) {
	for len(qs) < nQueries {
		var subs []subject
		switch x := r.Intn(20); {
		case x < 9:
			subs = []subject{genAddress(r)}
		case x < 14:
			subs = []subject{genPubkey(r)}
		case x < 17:
			subs = []subject{genTx(r)}
		default:
			subs = genBtcFamily(r, cfg)
		}
		for _, s := range subs {
			classes = append(classes, s.Class)
			seen := map[string]bool{}
			for i, n := 0, 2+r.Intn(4); i < n; i++ {
				fn := s.Fns[r.Intn(len(s.Fns))]
				rel := s.Rel // mostly heights around the boundaries that matter for this input, sometimes any boundary
				if r.Intn(4) == 0 {
					rel = nil
				}
				hs := cfg.heights(fn, rel)
				in := s.In
				if len(s.Ins) > 0 {
					in = s.Ins[r.Intn(len(s.Ins))]
				}
				q := Query{Fn: fn, In: in, H: hs[r.Intn(len(hs))], Subj: s.Subj}
				if fn == "checkSign" && s.SigSubj != "" {
					q.Subj = s.SigSubj
				}
				if !seen[q.key()] {
					seen[q.key()] = true
					qs = append(qs, q)
				}
			}
		}
	}
	r.Shuffle(len(qs), func(i, j int) { qs[i], qs[j] = qs[j], qs[i] })
	return qs, classes
}

// withRepeats returns the history with up to four of its address-validity queries asked a second time, right after
// the first time or at the end.
func withRepeats(r *rand.Rand, hist []Query) []Query {
	out := make([]Query, 0, len(hist)+4)
	var tail []Query
	n := 0
	for _, q := range hist {
		out = append(out, q)
		if isAddrFn(q.Fn) && n < 4 && r.Intn(2) == 0 {
			n++
			if r.Intn(2) == 0 {
				out = append(out, q)
			} else {
				tail = append(tail, q)
			}
		}
	}
	return append(out, tail...)
}

// ---- fresh-process oracle ------------------------------------------------------------------------------------------

// freshAnswers evaluates every distinct query in `reps` independent rounds of fresh processes. In each round the queries
// are shuffled and split into batches such that no batch contains two queries with the same cache key.
func freshAnswers(r *rand.Rand, cfg Cfg, qs []Query, reps int) map[string][]string {
	uniq := map[string]Query{}
	for _, q := range qs {
		uniq[q.key()] = q
	}
	keys := make([]string, 0, len(uniq))
	for k := range uniq {
		keys = append(keys, k)
	}
	sort.Strings(keys)
	out := map[string][]string{}
	for rep := 0; rep < reps; rep++ {
		r.Shuffle(len(keys), func(i, j int) { keys[i], keys[j] = keys[j], keys[i] })
		var batches [][]Query
		var used []map[string]bool
		for _, k := range keys {
			q := uniq[k]
			placed := false
			for b := range batches {
				if !used[b][q.Subj] {
					batches[b], used[b][q.Subj], placed = append(batches[b], q), true, true
					break
				}
			}
			if !placed {
				batches = append(batches, []Query{q})
				used = append(used, map[string]bool{q.Subj: true})
			}
		}
		for _, b := range batches {
			for i, a := range ask(cfg, b) {
				out[b[i].key()] = append(out[b[i].key()], a)
			}
		}
	}
	return out
}

// ---- known-finding signatures (evaluated on mismatches only) ---------------------------------------------------

var driverDefault = map[string]int64{"btc": 0, "btcMultiSign": 0, "eth": 0, "utxo": 0} // RegisterDriver defaults

// verdictSet: the verdicts address.CheckAddress may return for an input at height h if it reports "valid as soon as one
// enabled driver accepts, otherwise the error of SOME enabled driver" (documented enable rule: every driver when h < 0,
// else 0 <= enableHeight <= h). drv is "name=verdict|..." from the helper's pure per-driver query.
func verdictSet(cfg Cfg, drv string, h int64) map[string]bool {
	set := map[string]bool{}
	for _, part := range strings.Split(drv, "|") {
		i := strings.IndexByte(part, '=')
		name, v := part[:i], part[i+1:]
		en, ok := cfg.AddrEnable[name]
		if !ok {
			en = driverDefault[name]
		}
		if h >= 0 && (en < 0 || en > h) {
			continue
		}
		if v == "ok" {
			return map[string]bool{"ok": true}
		}
		set[v] = true
	}
	return set
}

// compat applies the documented pre-fork compatibility of dapp.CheckAddress to an underlying verdict.
func compat(cfg Cfg, fn string, h int64, v string) string {
	if fn != "dappCheck" {
		return v
	}
	if v == "err:"+address.ErrCheckVersion.Error() && h < cfg.Forks["ForkMultiSignAddress"] {
		return "ok"
	}
	if v == "err:"+address.ErrAddressChecksum.Error() && h < cfg.Forks["ForkBase58AddressCheck"] {
		return "ok"
	}
	return v
}

func compatSet(cfg Cfg, fn string, h int64, under map[string]bool) map[string]bool {
	out := map[string]bool{}
	for v := range under {
		out[compat(cfg, fn, h, v)] = true
	}
	return out
}

// isStructuredSig: the transaction is signed with a driver whose signature is a structured message (btcscript).
func isStructuredSig(txHex string) bool {
	b, _ := hex.DecodeString(txHex)
	var tx types.Transaction
	return types.Decode(b, &tx) == nil && types.ExtractCryptoID(tx.GetSignature().GetTy()) == 11
}

func isAddrFn(fn string) bool { return fn == "addrCheck" || fn == "dappCheck" }

func isEthFormat(q Query) bool {
	if q.Fn == "pub2addr" {
		return strings.HasPrefix(q.In, "2:")
	}
	if q.Fn == "txFrom" {
		b, _ := hex.DecodeString(q.In)
		var tx types.Transaction
		return types.Decode(b, &tx) == nil && types.ExtractAddressID(tx.GetSignature().GetTy()) == 2
	}
	return false
}

type group struct {
	cfg   Cfg
	fresh map[string][]string
	drv   map[string]string // address -> per-driver verdicts
}

// orderTolerated: listed finding idOrder - every enabled driver rejects the input with differing errors and the answers
// seen are each the (compat-mapped) error of one of them.
func (g *group) orderTolerated(q Query, answers []string) bool {
	if !lib.Known(idOrder) || !isAddrFn(q.Fn) {
		return false
	}
	under := verdictSet(g.cfg, g.drv[q.In], q.H)
	if len(under) < 2 {
		return false
	}
	allowed := compatSet(g.cfg, q.Fn, q.H, under)
	for _, a := range answers {
		if !allowed[a] {
			return false
		}
	}
	return true
}

// checkFresh: R fresh processes must give one answer per query.
func (g *group) checkFresh(t *testing.T, qs []Query) {
	seen := map[string]bool{}
	for _, q := range qs {
		if seen[q.key()] {
			continue
		}
		seen[q.key()] = true
		as := g.fresh[q.key()]
		same := true
		for _, a := range as {
			same = same && a == as[0]
		}
		if same {
			continue
		}
		if g.orderTolerated(q, as) {
			lib.ExcludedKnown(idOrder)
			continue
		}
		// diagnosis: what do processes say that answer this query and nothing else?
		alone := []string{ask(g.cfg, []Query{q})[0], ask(g.cfg, []Query{q})[0], ask(g.cfg, []Query{q})[0]}
		why := "single-query processes disagree as well: the answer is not a function of input, height and configuration"
		if alone[0] == alone[1] && alone[1] == alone[2] {
			why = fmt.Sprintf("a process that answers only this query always says %q: the answer depends on unrelated queries answered earlier in the process", alone[0])
		}
		lib.Violation(t, prop, "TestGenHistories", map[string]interface{}{"cfg": g.cfg, "query": q, "fresh_answers": as, "single_query_processes": alone, "driver_verdicts": g.drv[q.In]},
			"%s(%s, h=%d): %d fresh processes with the same configuration disagree: %v; %s", q.Fn, short(q.In), q.H, len(as), as, why)
	}
}

// checkHistory compares the answers of one long-running process with the fresh answers. Returns the index of the first
// untolerated mismatch (or -1) and its description.
func (g *group) checkHistory(hist []Query, answers []string) (int, string) {
	firstAddr := map[string]int{} // address -> index of the first validity query on it in this process
	firstEth := map[string]int{}  // pubkey  -> index of the first eth-format conversion in this process
	for i, q := range hist {
		if isAddrFn(q.Fn) {
			if _, ok := firstAddr[q.In]; !ok {
				firstAddr[q.In] = i
			}
		}
		if isEthFormat(q) {
			if _, ok := firstEth[q.Subj]; !ok {
				firstEth[q.Subj] = i
			}
		}
		a, fresh := answers[i], g.fresh[q.key()]
		match := false
		for _, f := range fresh {
			match = match || f == a
		}
		if match {
			continue
		}
		// mismatch: is it exactly one of the listed findings?
		if isAddrFn(q.Fn) {
			if g.orderTolerated(q, append([]string{a}, fresh...)) {
				lib.ExcludedKnown(idOrder)
				continue
			}
			// idCache: the process answers from what it computed for the FIRST query on this address, at that query's height
			if j := firstAddr[q.In]; lib.Known(idCache) && j < i {
				under := verdictSet(g.cfg, g.drv[q.In], hist[j].H) // what the first query may have computed ...
				for v := range under {
					if compat(g.cfg, hist[j].Fn, hist[j].H, v) != answers[j] {
						delete(under, v) // ... and consistent with what it answered
					}
				}
				if compatSet(g.cfg, q.Fn, q.H, under)[a] {
					lib.ExcludedKnown(idCache)
					continue
				}
			}
		}
		// idEthFmt: same address up to letter case, identical to what the first conversion of this key returned
		if j, ok := firstEth[q.Subj]; ok && lib.Known(idEthFmt) && isEthFormat(q) && j < i && len(fresh) > 0 &&
			strings.EqualFold(a, fresh[0]) && a == answers[j] {
			lib.ExcludedKnown(idEthFmt)
			continue
		}
		return i, fmt.Sprintf("query %d %s(%s, h=%d) answered %q inside the history, fresh processes answer %q", i, q.Fn, short(q.In), q.H, a, fresh)
	}
	return -1, ""
}

func short(s string) string {
	if len(s) > 70 {
		return s[:32] + "…" + s[len(s)-16:]
	}
	return s
}

// minimise looks for a two-query history (an earlier query with the same cache key, then the failing one) that still fails.
func (g *group) minimise(hist []Query, idx int) []Query {
	for j := 0; j < idx; j++ {
		if hist[j].Subj != hist[idx].Subj {
			continue
		}
		two := []Query{hist[j], hist[idx]}
		for try := 0; try < 3; try++ { // the culprit may itself depend on map order: a few attempts
			if k, _ := g.checkHistory(two, ask(g.cfg, two)); k == 1 {
				return two
			}
		}
	}
	return hist[:idx+1]
}

func envInt(name string, def int) int {
	if v, err := strconv.Atoi(os.Getenv(name)); err == nil {
		return v
	}
	return def
}

// TestGenHistories: per group one generated configuration; C19_HISTORIES histories of ~C19_QUERIES queries each are run in
// their own process, once as generated and once permuted.
// Non-trivial history: it asks about one input at two heights on opposite sides of an enable/fork height of the
// configuration, or about an address that >= 2 enabled drivers reject with different errors.
func TestGenHistories(t *testing.T) {
	defer lib.Flush()
	r := rand.New(rand.NewSource(int64(envInt("VERIF_SHARD_SEED", 1))))
	for gi := 0; gi < envInt("C19_GROUPS", 1); gi++ {
		g := &group{cfg: genCfg(r), drv: map[string]string{}}
		var hists [][]Query
		var all []Query
		for h := 0; h < envInt("C19_HISTORIES", 10); h++ {
			qs, classes := genHistory(r, g.cfg, envInt("C19_QUERIES", 30))
			hists = append(hists, qs)
			all = append(all, qs...)
			for _, c := range classes {
				lib.Class(c)
			}
		}
		g.fresh = freshAnswers(r, g.cfg, all, envInt("C19_R", 4))
		// Fresh batches hold many unrelated queries. For drivers with structured signatures (hidden state would not be
		// keyed by anything visible) a sample of queries is additionally answered by processes that answer nothing else.
		var structured []Query
		dup := map[string]bool{}
		for _, q := range all {
			if q.Fn == "checkSign" && !dup[q.key()] && isStructuredSig(q.In) {
				dup[q.key()] = true
				structured = append(structured, q)
			}
		}
		r.Shuffle(len(structured), func(i, j int) { structured[i], structured[j] = structured[j], structured[i] })
		for i := 0; i < len(structured) && i < envInt("C19_SINGLETONS", 6); i++ {
			q := structured[i]
			g.fresh[q.key()] = append(g.fresh[q.key()], ask(g.cfg, []Query{q})[0])
			lib.Class("fresh/single_query_process")
		}
		// per-driver verdicts of every address (pure calls, one extra process)
		var dq []Query
		seen := map[string]bool{}
		for _, q := range all {
			if isAddrFn(q.Fn) && !seen[q.In] {
				seen[q.In] = true
				dq = append(dq, Query{Fn: "drvErrs", In: q.In})
			}
		}
		for i, a := range ask(g.cfg, dq) {
			g.drv[dq[i].In] = a
		}
		g.checkFresh(t, all)
		for _, hist := range hists {
			perm := append([]Query(nil), hist...)
			r.Shuffle(len(perm), func(i, j int) { perm[i], perm[j] = perm[j], perm[i] })
			for vi, run := range [][]Query{withRepeats(r, hist), withRepeats(r, perm)} {
				lib.Eval()
				answers := ask(g.cfg, run)
				// repeat consistency: the same validity question asked again in the same process (10240-entry verdict cache, so
				// no eviction in between) must get the same answer, exact error included - also where the listed map-order
				// finding makes processes disagree with each other
				firstAns := map[string]int{}
				for i, q := range run {
					if !isAddrFn(q.Fn) {
						continue
					}
					if j, ok := firstAns[q.key()]; ok {
						lib.Class("repeat/same_address_query_asked_again")
						if answers[i] != answers[j] {
							lib.Violation(t, prop, "TestGenHistories", map[string]interface{}{"cfg": g.cfg, "history": run[:i+1], "first_index": j, "repeat_index": i},
								"%s(%s, h=%d) answered %q at query %d and %q when asked again at query %d of the same process: the answer depends on whether the question was asked before",
								q.Fn, short(q.In), q.H, answers[j], j, answers[i], i)
						}
					} else {
						firstAns[q.key()] = i
					}
				}
				if idx, msg := g.checkHistory(run, answers); idx >= 0 {
					min := g.minimise(run, idx)
					lib.Violation(t, prop, "TestGenHistories", map[string]interface{}{"cfg": g.cfg, "history": min, "fresh": g.fresh[run[idx].key()]},
						"%s (minimal history: %d queries)", msg, len(min))
				}
				// classification
				straddle, ambiguous := false, false
				byIn := map[string][]int64{}
				for _, q := range run {
					lib.Class("fn/" + q.Fn)
					for _, h := range byIn[q.Subj] {
						straddle = straddle || g.cfg.straddles(h, q.H)
					}
					byIn[q.Subj] = append(byIn[q.Subj], q.H)
					if isAddrFn(q.Fn) && len(verdictSet(g.cfg, g.drv[q.In], q.H)) >= 2 {
						ambiguous = true
					}
				}
				// measured sensitivity: the history asks one (function, input) at two heights whose fresh answers differ,
				// i.e. a height-ignoring memo on that function would be visible in this history
				first := map[string]string{}
				changes := map[string]bool{}
				for _, q := range run {
					if f := g.fresh[q.key()]; len(f) > 0 {
						k := q.Fn + "|" + q.In
						if prev, ok := first[k]; ok && prev != f[0] {
							changes[q.Fn] = true
						}
						first[k] = f[0]
					}
				}
				// structured signatures: verdict distribution, and how often a check that declares a sequence / lock time
				// directly precedes (among the checks of that driver) one that declares none, and vice versa
				prevDeclares := -1
				for _, q := range run {
					if q.Fn != "checkSign" || !isStructuredSig(q.In) {
						continue
					}
					lib.Class("btcscript/checkSign=" + g.fresh[q.key()][0])
					d := declaresDelay(q.In)
					if prevDeclares == 1 && d == 0 {
						lib.Class("btcscript/delay_declared_then_none")
					} else if prevDeclares == 0 && d == 1 {
						lib.Class("btcscript/none_then_delay_declared")
					}
					prevDeclares = d
				}
				for fn := range changes {
					lib.Class("history/answer_changes_with_height/" + fn)
				}
				if straddle {
					lib.Class("history/same_input_across_boundary")
				}
				if ambiguous {
					lib.Class("history/rejected_by_drivers_with_different_errors")
				}
				if straddle || ambiguous {
					c := map[string]interface{}{"cfg": g.cfg, "variant": vi, "queries": run}
					if lib.SampleCount() < 2 {
						lib.NonTrivialCase(c)
					} else {
						b, _ := json.Marshal(c)
						lib.NonTrivial(lib.Fingerprint(b))
					}
				}
			}
		}
	}
	lib.Note("helper_processes", procs)
}
