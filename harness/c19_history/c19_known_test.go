package c19

import (
	"fmt"
	"math/rand"
	"sort"
	"testing"

	"verifharness/lib"
)

// Pinned minimal cases of the three genuine defects found on the pinned tree. Each rebuilds its case without the
// generator, evaluates the same oracle (history answer == fresh answer; fresh answers agree) and passes silently when
// the defect is gone.

var pinnedCfg = Cfg{AddrEnable: map[string]int64{"eth": 100}, CryptoEnable: map[string]int64{},
	Forks: map[string]int64{"ForkMultiSignAddress": 1000, "ForkBase58AddressCheck": 2000, "ForkFormatAddressKey": 500}}

// eth driver enabled at height 100: an eth address is invalid at 50 and valid at 150. A process that was asked at 50
// first keeps answering "invalid" at 150 (and one asked with h=-1 first answers "valid" at 50).
func TestKnown_AddrCacheIgnoresHeight(t *testing.T) {
	defer lib.Flush()
	const eth = "0xde0b295669a9fd93d5f28d9ec85e40f4cb697bae"
	fresh := ask(pinnedCfg, []Query{{Fn: "addrCheck", In: eth, H: 150}})[0]
	hist := []Query{{Fn: "addrCheck", In: eth, H: 50}, {Fn: "addrCheck", In: eth, H: 150}}
	got := ask(pinnedCfg, hist)
	if got[1] != fresh {
		lib.KnownOrViolation(t, prop, "TestKnown_AddrCacheIgnoresHeight", idCache, map[string]interface{}{"cfg": pinnedCfg, "history": hist, "answers": got, "fresh": fresh},
			fmt.Sprintf("address.CheckAddress(eth address, 150) answers %q after the same address was checked at height 50 (eth driver enabled at 100); a fresh process answers %q: checkAddressCache is keyed by the address only", got[1], fresh))
	}
}

// An address every driver rejects gets the error of whichever driver the map iteration visits last, so processes with
// the same configuration disagree on the error - and before ForkMultiSignAddress dapp.CheckAddress turns one of those
// errors (ErrCheckVersion) into "valid", so they disagree on validity too.
func TestKnown_AddrErrorMapOrder(t *testing.T) {
	defer lib.Flush()
	r := rand.New(rand.NewSource(19))
	var qs []Query
	for i := 0; i < 12; i++ { // distinct well-formed base58 addresses with an unknown version byte, one query each
		qs = append(qs, Query{Fn: []string{"addrCheck", "dappCheck"}[i%2], In: b58addr(7, randBytes(r, 20), true), H: 150})
	}
	var runs [][]string
	for p := 0; p < 6; p++ {
		runs = append(runs, ask(pinnedCfg, qs))
	}
	for i, q := range qs {
		set := map[string]bool{}
		for _, run := range runs {
			set[run[i]] = true
		}
		if len(set) > 1 {
			var as []string
			for a := range set {
				as = append(as, a)
			}
			sort.Strings(as)
			lib.KnownOrViolation(t, prop, "TestKnown_AddrErrorMapOrder", idOrder, map[string]interface{}{"cfg": pinnedCfg, "query": q, "answers_of_6_fresh_processes": as},
				"fresh processes with one configuration return different errors for the same invalid address (e.g. ErrInvalidEthAddr / ErrAddressType / check version error for a base58 address with an unknown version byte): address.CheckAddress returns the error of the driver visited last in map order")
			return
		}
	}
}

// ForkFormatAddressKey at 500: a fresh node at height 600 formats the eth address of a public key in lower case, a node
// that converted the same key at height 400 keeps serving the cached mixed-case form.
func TestKnown_EthPubkeyCacheForkFormat(t *testing.T) {
	defer lib.Flush()
	const pub = "2:0279be667ef9dcbbac55a06295ce870b07029bfcdb2dce28d959f2815b16f81798"
	fresh := ask(pinnedCfg, []Query{{Fn: "pub2addr", In: pub, H: 600}})[0]
	hist := []Query{{Fn: "pub2addr", In: pub, H: 400}, {Fn: "pub2addr", In: pub, H: 600}}
	got := ask(pinnedCfg, hist)
	if got[1] != fresh {
		lib.KnownOrViolation(t, prop, "TestKnown_EthPubkeyCacheForkFormat", idEthFmt, map[string]interface{}{"cfg": pinnedCfg, "history": hist, "answers": got, "fresh": fresh},
			fmt.Sprintf("eth PubKeyToAddr at block height 600 answers %q after the key was converted at height 400 (ForkFormatAddressKey=500); a fresh process answers %q: the pubkey->address cache stores a fork-dependent format", got[1], fresh))
	}
}
