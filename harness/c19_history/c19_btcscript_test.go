package c19

import (
	"encoding/hex"
	"fmt"
	"math/rand"

	"github.com/33cn/chain33/system/crypto/btcscript"
	"github.com/33cn/chain33/system/crypto/btcscript/script"
	"github.com/33cn/chain33/types"
	"verifharness/lib"
)

// btcscript (crypto type 11) signatures are structured: lock script, unlock script, declared LockTime and UtxoSequence.
// Their validity depends on the node's current block height/time and, for a declared UtxoSequence, on the delayed
// transaction's commit record in the chain state (Cfg.DelayTxs). One "family" = one wallet (control key, recover
// keys, delay) or one pay-to-pubkey(-hash)/multi-sig owner, signing several distinct transactions in the valid and
// invalid variants below; the family's queries end up interleaved in the history, so checks that declare a non-zero
// sequence / lock time are followed by checks that declare none and vice versa, all on the helper's single goroutine.
// Signatures are built with the repository's own exported helpers (the way wallets build them); they are inputs only.

type btcKey struct {
	seed []byte
	addr string // address the key db is indexed by
	pub  []byte
}

func newBtcKey(r *rand.Rand) btcKey {
	seed := randBytes(r, 32)
	_, pub := script.NewBtcKeyFromBytes(seed)
	a, _, err := script.GetBtcLockScript(script.TyPay2PubKey, pub.SerializeCompressed())
	if err != nil {
		lib.Inconclusive("btcscript fixture: %v", err)
	}
	return btcKey{seed: seed, addr: a.EncodeAddress(), pub: pub.SerializeCompressed()}
}

func keyDB(ks ...btcKey) []*script.BtcAddr2Key {
	var out []*script.BtcAddr2Key
	for _, k := range ks {
		priv, _ := script.NewBtcKeyFromBytes(k.seed)
		out = append(out, &script.BtcAddr2Key{Addr: k.addr, Key: priv})
	}
	return out
}

func must(b []byte, err error) []byte {
	if err != nil {
		lib.Inconclusive("btcscript fixture: %v", err)
	}
	return b
}

// genBtcFamily returns 3-5 transactions of one owner. cfg.DelayTxs receives the commit records of the delayed ones.
func genBtcFamily(r *rand.Rand, cfg Cfg) []subject {
	newTx := func() (*types.Transaction, []byte) {
		tx := &types.Transaction{Execer: []byte([]string{"none", "coins"}[r.Intn(2)]), Payload: randBytes(r, 1+r.Intn(20)),
			Fee: 100000, Nonce: r.Int63(), To: b58addr(0, randBytes(r, 20), true)}
		return tx, types.Encode(tx)
	}
	finish := func(class string, tx *types.Transaction, lock, sig []byte, bound int64) subject {
		tx.Signature = &types.Signature{Ty: btcscript.ID, Pubkey: script.Script2PubKey(lock), Signature: sig}
		rel := []string{"crypto:btcscript"}
		if bound > 0 {
			rel = append(rel, fmt.Sprintf("abs:%d", bound))
		}
		return subject{Class: "tx/btcscript/" + class, In: hex.EncodeToString(types.Encode(tx)),
			Subj: "pub:" + hex.EncodeToString(tx.Signature.Pubkey), Fns: []string{"checkSign", "checkSign", "checkSign", "txFrom"}, Rel: rel,
			SigSubj: "tx:" + hex.EncodeToString(tx.Hash())}
	}
	reSig := func(sig []byte, f func(*script.Signature)) []byte {
		var s script.Signature
		if err := types.Decode(sig, &s); err != nil {
			lib.Inconclusive("btcscript fixture: %v", err)
		}
		f(&s)
		return types.Encode(&s)
	}
	var out []subject
	if r.Intn(3) > 0 {
		// wallet recovery: IF <control> CHECKSIG ELSE <delay> CHECKSEQUENCEVERIFY DROP 1 <recover...> n CHECKMULTISIG ENDIF
		control, other := newBtcKey(r), newBtcKey(r)
		recov := []btcKey{newBtcKey(r)}
		if r.Intn(2) == 0 {
			recov = append(recov, newBtcKey(r))
		}
		var rpubs [][]byte
		for _, k := range recov {
			rpubs = append(rpubs, k.pub)
		}
		delay := int64(2 + r.Intn(60))
		wr := must(script.NewWalletRecoveryScript(control.pub, rpubs, delay))
		begin := int64(5 + r.Intn(300))
		// first height at which a transaction with this delay, committed at `begin`, may be packed: the node's current
		// block is then begin+delay (by height) resp. the first block whose time (10 s per block) is begin*10+delay
		commit := func(tx *types.Transaction) int64 {
			if r.Intn(3) == 0 {
				cfg.DelayTxs[hex.EncodeToString(tx.Hash())] = Delay{Time: begin * 10}
				return begin + (delay+9)/10 + 1
			}
			cfg.DelayTxs[hex.EncodeToString(tx.Hash())] = Delay{Height: begin}
			return begin + delay + 1
		}
		variants := []string{"wr_retrieve_valid", "wr_control_valid", "wr_retrieve_sequence_stripped"}
		extra := []string{"wr_retrieve_sequence_altered", "wr_retrieve_not_committed", "wr_control_locktime_altered", "wr_control_wrong_key", "wr_retrieve_valid", "wr_control_valid"}
		r.Shuffle(len(extra), func(i, j int) { extra[i], extra[j] = extra[j], extra[i] })
		variants = append(variants, extra[:r.Intn(3)]...)
		for _, v := range variants {
			tx, msg := newTx()
			rk := recov[r.Intn(len(recov))]
			switch v {
			case "wr_control_valid":
				sig, _, err := script.GetWalletRecoverySignature(false, msg, control.seed, wr, 0)
				out = append(out, finish(v, tx, wr, must(sig, err), 0))
			case "wr_control_wrong_key":
				sig, _, err := script.GetWalletRecoverySignature(false, msg, other.seed, wr, 0)
				out = append(out, finish(v, tx, wr, must(sig, err), 0))
			case "wr_control_locktime_altered":
				sig, _, err := script.GetWalletRecoverySignature(false, msg, control.seed, wr, 0)
				lt := int64(1 + r.Intn(2000))
				out = append(out, finish(v, tx, wr, reSig(must(sig, err), func(s *script.Signature) { s.LockTime = lt }), lt/10+2))
			default:
				sig, _, err := script.GetWalletRecoverySignature(true, msg, rk.seed, wr, delay)
				bound := int64(0)
				if v != "wr_retrieve_not_committed" {
					bound = commit(tx)
				}
				switch v {
				case "wr_retrieve_sequence_stripped":
					sig = reSig(must(sig, err), func(s *script.Signature) { s.UtxoSequence = 0 })
				case "wr_retrieve_sequence_altered":
					sig = reSig(must(sig, err), func(s *script.Signature) { s.UtxoSequence += int64(1 + r.Intn(3)) })
				}
				out = append(out, finish(v, tx, wr, must(sig, err), bound))
			}
		}
		return out
	}
	// ordinary owners: pay to pubkey, pay to pubkey hash, 2-of-3 multi-sig behind a script hash
	k := []btcKey{newBtcKey(r), newBtcKey(r), newBtcKey(r)}
	variants := []string{"p2pkh_valid", "p2pk_valid", "p2sh_multisig_valid", "p2sh_multisig_one_signature", "p2pkh_payload_tampered", "p2pkh_locktime_altered", "p2pk_sequence_altered"}
	r.Shuffle(len(variants), func(i, j int) { variants[i], variants[j] = variants[j], variants[i] })
	for _, v := range variants[:3+r.Intn(3)] {
		tx, msg := newTx()
		var lock, unlock []byte
		bound := int64(0)
		switch v {
		case "p2pk_valid", "p2pk_sequence_altered":
			_, l, err := script.GetBtcLockScript(script.TyPay2PubKey, k[0].pub)
			lock = must(l, err)
			unlock = must(script.GetBtcUnlockScript(msg, lock, nil, script.MakeKeyDB(keyDB(k[0])...), script.MakeScriptDB()))
		case "p2sh_multisig_valid", "p2sh_multisig_one_signature":
			pk := must(script.NewMultiSigScript([][]byte{k[0].pub, k[1].pub, k[2].pub}, 2))
			sa, l, err := script.GetBtcLockScript(script.TyPay2ScriptHash, pk)
			lock = must(l, err)
			signers := keyDB(k[0], k[2])
			if v == "p2sh_multisig_one_signature" {
				signers = keyDB(k[1])
			}
			unlock = must(script.GetBtcUnlockScript(msg, lock, nil, script.MakeKeyDB(signers...), script.MakeScriptDB(&script.BtcAddr2Script{Addr: sa.EncodeAddress(), Script: pk})))
		default:
			a, l, err := script.GetBtcLockScript(script.TyPay2PubKeyHash, k[0].pub)
			lock = must(l, err)
			unlock = must(script.GetBtcUnlockScript(msg, lock, nil, script.MakeKeyDB(&script.BtcAddr2Key{Addr: a.EncodeAddress(), Key: keyDB(k[0])[0].Key}), script.MakeScriptDB()))
		}
		sig := must(script.NewBtcScriptSig(lock, unlock))
		switch v {
		case "p2pkh_payload_tampered":
			tx.Payload = append(tx.Payload, 7)
		case "p2pkh_locktime_altered":
			lt := int64(1 + r.Intn(2000))
			sig, bound = must(script.NewBtcScriptSigWithDelay(lock, unlock, lt, 0)), lt/10+2
		case "p2pk_sequence_altered": // declares a sequence the signature does not cover; with a commit record it reaches the script engine
			seq := int64(1 + r.Intn(40))
			sig = must(script.NewBtcScriptSigWithDelay(lock, unlock, 0, seq))
			begin := int64(5 + r.Intn(300))
			cfg.DelayTxs[hex.EncodeToString(tx.Hash())] = Delay{Height: begin}
			bound = begin + seq + 1
		}
		out = append(out, finish(v, tx, lock, sig, bound))
	}
	return out
}

// declaresDelay: 1 when the btcscript signature of the transaction declares a UtxoSequence or LockTime, else 0.
func declaresDelay(txHex string) int {
	b, _ := hex.DecodeString(txHex)
	var tx types.Transaction
	var sig script.Signature
	if types.Decode(b, &tx) != nil || types.Decode(tx.GetSignature().GetSignature(), &sig) != nil {
		return 0
	}
	if sig.UtxoSequence > 0 || sig.LockTime > 0 {
		return 1
	}
	return 0
}
