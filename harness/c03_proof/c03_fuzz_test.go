package c03

// Byte-level robustness and ground-truth soundness of VerifyKVPairProof on arbitrary proof bytes:
// a rapid generator (quick tier), the native fuzz target FuzzVerifyProof (thorough tier) and a replay of the
// saved seed corpus (both tiers). All three share checkArbitrary.

import (
	"bytes"
	"encoding/binary"
	"fmt"
	"os"
	"path/filepath"
	"strconv"
	"strings"
	"sync"
	"testing"

	mavl "github.com/33cn/chain33/system/store/mavl/db"
	"github.com/33cn/chain33/types"
	"pgregory.net/rapid"
	"verifharness/lib"
)

var (
	fixedOnce sync.Once
	fixed     *fixture
	fixedFake = kvT{[]byte("absent"), []byte("x")}
)

// fixedFixture is a small read-only two-version tree (default config, in-memory db) built once per process from
// constants; VerifyKVPairProof never touches the db, so sharing it between cases shares no mutable state.
func fixedFixture() *fixture {
	fixedOnce.Do(func() {
		b0 := batchT{Parent: -1}
		for i := 0; i < 11; i++ {
			b0.KV = append(b0.KV, kvT{[]byte(fmt.Sprintf("key-%02d", i)), []byte(fmt.Sprintf("value-%d", i))})
		}
		b0.KV = append(b0.KV, kvT{[]byte{}, []byte("empty key")}, kvT{[]byte("empty value"), nil}, kvT{[]byte("holder"), leafHash(fixedFake.K, fixedFake.V)})
		b1 := batchT{Parent: 0, KV: []kvT{{[]byte("key-03"), []byte("changed")}, {[]byte("key-zz"), []byte("new")}}}
		fx, err := build(cfgT{}, []batchT{b0, b1})
		if err != nil {
			lib.Inconclusive("C03 fixed fixture: %v", err)
		}
		fixed = fx
	})
	return fixed
}

// checkArbitrary: no panic; and acceptance at one of the fixture's roots implies the statement is true there.
// Acceptance at a root the fixture does not know cannot be judged (any self-consistent (root, proof) pair is a
// legitimate proof about some other tree) and is only counted.
func checkArbitrary(t lib.TB, test string, tp tupleT) string {
	fx := fixedFixture()
	ok, p := safeVerify(fx, tp)
	if p != nil {
		lib.Violation(t, prop, test, tp.render(), "VerifyKVPairProof panicked on arbitrary bytes: %v", p)
	}
	if !ok {
		return "reject"
	}
	known := false
	for _, r := range fx.roots {
		known = known || bytes.Equal(r, tp.Root)
	}
	switch {
	case !known:
		return "accept_unknown_root"
	case fx.holds(tp.Root, tp.Key, tp.Value):
		return "accept_true_statement"
	case lib.Known(knownConfusion) && fx.matchesKnownConfusion(tp.Root, tp.Key, tp.Value, tp.Proof):
		lib.ExcludedKnown(knownConfusion)
		return "known_confusion_accept"
	}
	lib.Violation(t, prop, test, tp.render(), "soundness: arbitrary proof bytes verify for a key/value that is not in the content committed at that root")
	return ""
}

// protoGarbage draws bytes that look like protobuf: valid and invalid tags, all wire types, lengths that lie.
func protoGarbage(t *rapid.T, depth int) []byte {
	var out []byte
	for i, n := 0, rapid.IntRange(0, 5).Draw(t, "fields"); i < n; i++ {
		field := rapid.SampledFrom([]uint64{0, 1, 2, 3, 4, 5, 15, 16, 1 << 28, 1<<29 - 1}).Draw(t, "field")
		wire := rapid.Uint64Range(0, 7).Draw(t, "wire")
		out = binary.AppendUvarint(out, field<<3|wire)
		switch wire {
		case 0:
			out = binary.AppendUvarint(out, rapid.SampledFrom([]uint64{0, 1, 127, 128, 1<<31 - 1, 1 << 31, 1<<32 - 1, 1<<63 - 1, 1<<64 - 1}).Draw(t, "varint"))
			if rapid.IntRange(0, 9).Draw(t, "overlong") == 0 {
				out = append(out, bytes.Repeat([]byte{0x80}, 10)...)
			}
		case 1:
			out = append(out, rapid.SliceOfN(rapid.Byte(), 0, 8).Draw(t, "fixed64")...)
		case 2:
			var payload []byte
			if depth < 3 && rapid.Bool().Draw(t, "nested") {
				payload = protoGarbage(t, depth+1)
			} else {
				payload = rapid.SliceOfN(rapid.Byte(), 0, 40).Draw(t, "payload")
			}
			claimed := uint64(len(payload))
			switch rapid.IntRange(0, 7).Draw(t, "lie") {
			case 0:
				claimed++
			case 1:
				claimed = 1<<64 - 1
			case 2:
				claimed = 1 << 31
			}
			out = append(binary.AppendUvarint(out, claimed), payload...)
		case 5:
			out = append(out, rapid.SliceOfN(rapid.Byte(), 0, 4).Draw(t, "fixed32")...)
		}
	}
	return out
}

func TestPropVerifyArbitraryBytes(t *testing.T) {
	defer lib.Flush()
	fx := fixedFixture()
	rapid.Check(t, func(t *rapid.T) {
		ver := rapid.IntRange(0, len(fx.roots)-1).Draw(t, "version")
		keys := fx.keys(ver)
		k := rapid.SampledFrom(keys).Draw(t, "key")
		honest, _ := mavl.GetKVPairProof(fx.db, fx.roots[ver], k, fx.cfg)
		tp := tupleT{Key: k, Value: fx.model[ver][string(k)], Root: fx.roots[ver]}
		// a false statement in most cases, so that acceptance is judged: wrong value, absent key, other version
		switch rapid.IntRange(0, 5).Draw(t, "statement") {
		case 0:
			tp.Value = rapid.SliceOfN(rapid.Byte(), 0, 12).Draw(t, "otherValue")
		case 1:
			tp.Key = rapid.SliceOfN(rapid.Byte(), 0, 12).Draw(t, "otherKey")
		case 2:
			tp.Root = fx.roots[len(fx.roots)-1-ver]
		case 3:
			tp.Key, tp.Value = fixedFake.K, fixedFake.V
		case 4:
			tp.Root = rapid.SliceOfN(rapid.Byte(), 0, 40).Draw(t, "otherRoot")
		}
		kind := rapid.SampledFrom([]string{"structured", "honest_fields", "honest_mutated", "honest_prefix+garbage", "wrapped_garbage", "proto_garbage", "random"}).Draw(t, "proofKind")
		switch kind {
		case "structured": // a well-formed MAVLProof made of drawn steps
			var mp types.MAVLProof
			hashGen := rapid.OneOf(rapid.Just([]byte(nil)), rapid.SliceOfN(rapid.Byte(), 32, 32), rapid.SliceOfN(rapid.Byte(), 0, 48), rapid.SampledFrom(fx.roots))
			for i, n := 0, rapid.IntRange(0, 6).Draw(t, "steps"); i < n; i++ {
				mp.InnerNodes = append(mp.InnerNodes, &types.InnerNode{LeftHash: hashGen.Draw(t, "left"), RightHash: hashGen.Draw(t, "right"),
					Height: rapid.Int32Range(-1, 6).Draw(t, "height"), Size: rapid.Int32Range(-1, 16).Draw(t, "size")})
			}
			tp.Proof = types.Encode(&mp)
		case "honest_fields":
			tp.Proof = honest
			for i, n := 0, rapid.IntRange(1, 3).Draw(t, "nmut"); i < n; i++ {
				tp.Proof, _ = mutProofField(t, tp.Proof)
			}
		case "random":
			tp.Proof = rapid.SliceOfN(rapid.Byte(), 0, 200).Draw(t, "proof")
		case "proto_garbage":
			tp.Proof = protoGarbage(t, 0)
		case "honest_mutated":
			tp.Proof = honest
			for i, n := 0, rapid.IntRange(1, 4).Draw(t, "nmut"); i < n; i++ {
				tp.Proof, _ = mutBytes(t, tp.Proof, nil)
			}
		case "honest_prefix+garbage":
			tp.Proof = append(append([]byte{}, honest[:rapid.IntRange(0, len(honest)).Draw(t, "cut")]...), protoGarbage(t, 0)...)
		case "wrapped_garbage": // garbage where an InnerNode is expected (field 2 of MAVLProof)
			g := protoGarbage(t, 1)
			tp.Proof = append(binary.AppendUvarint([]byte{0x12}, uint64(len(g))), g...)
		}
		lib.Eval()
		cl := checkArbitrary(t, "TestPropVerifyArbitraryBytes", tp)
		lib.Class("bytes_" + kind)
		lib.Class("bytes_" + cl)
		var mp types.MAVLProof
		if types.Decode(tp.Proof, &mp) != nil {
			lib.Class("bytes_undecodable")
		} else if len(mp.InnerNodes) > 0 {
			lib.Class("bytes_decodes_with_inner_nodes")
		}
	})
}

// FuzzVerifyProof: native fuzzing over (root, key, value, proof). Seeds: testdata/fuzz/FuzzVerifyProof, copied
// by the driver from /verif/corpus/C03/FuzzVerifyProof.
func FuzzVerifyProof(f *testing.F) {
	f.Fuzz(func(t *testing.T, root, key, value, proof []byte) {
		checkArbitrary(t, "FuzzVerifyProof", tupleT{Key: key, Value: value, Root: root, Proof: proof})
	})
}

func corpusDir() string {
	dir := os.Getenv("VERIF_DIR")
	if dir == "" {
		dir = "/verif"
	}
	return filepath.Join(dir, "corpus", prop, "FuzzVerifyProof")
}

// TestCorpusReplay runs every saved seed (and any crasher the coordinator adds to the directory) through the
// same oracle as the fuzz target, so the quick tier covers the corpus without fuzzing.
func TestCorpusReplay(t *testing.T) {
	defer lib.Flush()
	files, _ := filepath.Glob(filepath.Join(corpusDir(), "*"))
	if len(files) == 0 {
		lib.Inconclusive("C03 seed corpus %s is empty", corpusDir())
	}
	for _, f := range files {
		raw, err := os.ReadFile(f)
		lines := strings.Split(strings.TrimSpace(string(raw)), "\n")
		if err != nil || len(lines) != 5 || lines[0] != "go test fuzz v1" {
			lib.Inconclusive("C03 corpus file %s is not a 4-argument go fuzz v1 file", f)
		}
		var args [4][]byte
		for i, l := range lines[1:] {
			s, err := strconv.Unquote(strings.TrimSuffix(strings.TrimPrefix(l, "[]byte("), ")"))
			if err != nil {
				lib.Inconclusive("C03 corpus file %s line %d: %v", f, i+2, err)
			}
			args[i] = []byte(s)
		}
		lib.Eval()
		cl := checkArbitrary(t, "TestCorpusReplay", tupleT{Root: args[0], Key: args[1], Value: args[2], Proof: args[3]})
		lib.Class("corpus_" + cl)
	}
}

// TestWriteCorpus regenerates the seed corpus (only when VERIF_WRITE_CORPUS=1): honest tuples of the fixed
// fixture, the same with a wrong value, the near-miss of the known confusion, and protobuf edge encodings.
func TestWriteCorpus(t *testing.T) {
	if os.Getenv("VERIF_WRITE_CORPUS") != "1" {
		t.Skip("set VERIF_WRITE_CORPUS=1 to rewrite the corpus")
	}
	fx := fixedFixture()
	dir := corpusDir()
	if err := os.MkdirAll(dir, 0o755); err != nil {
		t.Fatal(err)
	}
	write := func(name string, tp tupleT) {
		body := fmt.Sprintf("go test fuzz v1\n[]byte(%+q)\n[]byte(%+q)\n[]byte(%+q)\n[]byte(%+q)\n", tp.Root, tp.Key, tp.Value, tp.Proof)
		if err := os.WriteFile(filepath.Join(dir, name), []byte(body), 0o644); err != nil {
			t.Fatal(err)
		}
	}
	for ver := range fx.roots {
		for i, k := range fx.keys(ver) {
			p, _ := mavl.GetKVPairProof(fx.db, fx.roots[ver], k, fx.cfg)
			h := tupleT{Key: k, Value: fx.model[ver][string(k)], Root: fx.roots[ver], Proof: p}
			write(fmt.Sprintf("honest-v%d-%02d", ver, i), h)
			if i%4 == 0 {
				h.Value = []byte("not the stored value")
				write(fmt.Sprintf("wrongvalue-v%d-%02d", ver, i), h)
			}
		}
	}
	// near miss of the known finding: same shape, Size 2 instead of 1 (must be rejected)
	if g, ok := graft(fx, 0, fixedFake); ok {
		var mp types.MAVLProof
		_ = types.Decode(g.Proof, &mp)
		mp.InnerNodes[0].Size = 2
		g.Proof = types.Encode(&mp)
		write("graft-nearmiss", g)
	}
	root := fx.roots[0]
	edge := map[string][]byte{
		"empty":                nil,
		"only-leafhash":        append([]byte{0x0a, 32}, root...),
		"roothash-field":       append([]byte{0x1a, 32}, root...),
		"truncated-tag":        {0x12},
		"truncated-len":        {0x12, 0x05, 0x0a},
		"len-overflow":         {0x12, 0xff, 0xff, 0xff, 0xff, 0xff, 0xff, 0xff, 0xff, 0xff, 0x01},
		"len-2g":               {0x12, 0x80, 0x80, 0x80, 0x80, 0x08},
		"empty-inner":          {0x12, 0x00},
		"many-empty-inner":     bytes.Repeat([]byte{0x12, 0x00}, 64),
		"negative-height":      {0x12, 0x0b, 0x18, 0xff, 0xff, 0xff, 0xff, 0xff, 0xff, 0xff, 0xff, 0xff, 0x01},
		"overlong-varint":      {0x12, 0x0c, 0x18, 0x80, 0x80, 0x80, 0x80, 0x80, 0x80, 0x80, 0x80, 0x80, 0x80, 0x00},
		"field-zero":           {0x00, 0x00},
		"group-start":          {0x13, 0x14},
		"group-end-only":       {0x14},
		"wiretype-6":           {0x16, 0x00},
		"inner-wrong-wiretype": {0x10, 0x01},
		"unknown-field":        {0x7a, 0x01, 0x00},
		"inner-both-hashes":    append(append([]byte{0x12, 68, 0x0a, 32}, root...), append([]byte{0x12, 32}, root...)...),
		"inner-height0-size1":  {0x12, 0x04, 0x0a, 0x00, 0x20, 0x01},
		"invalid-utf8-free":    {0xff, 0xfe, 0xfd},
	}
	for name, p := range edge {
		write("edge-"+name, tupleT{Root: root, Key: []byte("key-00"), Value: []byte("value-0"), Proof: p})
	}
	write("edge-empty-everything", tupleT{})
	write("edge-selfconsistent-single-leaf", tupleT{Root: leafHash([]byte("k"), []byte("v")), Key: []byte("k"), Value: []byte("v")})
}
