// C03: state proofs of the mavl store (system/store/mavl/db) are complete, sound and crash-free.
//
// Oracle, derived from the property text and independent of proof.go:
//   - completeness: for every key of a committed root the tuple (key, stored value, root, GetKVPairProof bytes)
//     verifies;
//   - soundness S1 (ground truth): whatever the proof bytes are, VerifyKVPairProof(root', key', value', proof')
//     may only return true if the reference model says key' -> value' is in the content committed at root';
//   - soundness S2 (statement, literally): the store's own proof for (key, value, root), unchanged, must be
//     rejected for any other value, any other key and any other root, even one that is true at that root;
//   - robustness: no byte string makes VerifyKVPairProof panic.
//
// A tuple where only the proof was altered and (key, value, root) are still true is not judged (the property does
// not forbid malleable proofs); it is only counted.
package c03

import (
	"bytes"
	"encoding/hex"
	"fmt"
	"math"
	"sort"
	"testing"

	dbm "github.com/33cn/chain33/common/db"
	"github.com/33cn/chain33/common/log/log15"
	mavl "github.com/33cn/chain33/system/store/mavl/db"
	"github.com/33cn/chain33/types"
	"pgregory.net/rapid"
	"verifharness/lib"
)

const (
	prop = "C03"
	// known-finding id: a leaf and an inner node have the same hash pre-image encoding, so a proof step with
	// Height 0 / Size 1 can stand for a stored leaf (see TestKnown_LeafInnerConfusion).
	knownConfusion = "C03-leaf-inner-confusion"
)

func TestMain(m *testing.M) {
	log15.Root().SetHandler(log15.DiscardHandler())
	lib.Main(m)
}

var emptyRoot = make([]byte, 32)

// ---------------------------------------------------------------------------------------------------------
// fixture: a few committed versions of one tree plus the reference model (one Go map per root)

type cfgT struct {
	Prefix, Prune, MemTree, MemVal, DBCache bool
}

type kvT struct{ K, V []byte }

type batchT struct {
	Parent int // index of an earlier version, -1 = empty tree
	KV     []kvT
}

type fixture struct {
	cfg   *mavl.TreeConfig
	db    dbm.DB
	roots [][]byte
	model []map[string][]byte
}

func (c cfgT) tree() *mavl.TreeConfig {
	// prune implies prefix exactly as mavl.New forces it; PruneHeight is so large that no pruning pass ever starts
	return &mavl.TreeConfig{EnableMavlPrefix: c.Prefix || c.Prune, EnableMavlPrune: c.Prune, PruneHeight: math.MaxInt32,
		EnableMemTree: c.MemTree, EnableMemVal: c.MemTree && c.MemVal}
}

// build commits the batches; process-global mavl caches are dropped and re-created first, so no case sees
// nodes cached by an earlier one.
func build(c cfgT, batches []batchT) (*fixture, error) {
	mavl.ReleaseGlobalMem()
	fx := &fixture{cfg: c.tree()}
	mavl.InitGlobalMem(fx.cfg)
	db, err := dbm.NewGoMemDB("c03", "", 0)
	if err != nil {
		return nil, err
	}
	if c.DBCache {
		db.SetCacheSize(256)
	}
	fx.db = db
	for i, b := range batches {
		parent, content := emptyRoot, map[string][]byte{}
		if b.Parent >= 0 {
			parent = fx.roots[b.Parent]
			for k, v := range fx.model[b.Parent] {
				content[k] = v
			}
		}
		set := &types.StoreSet{StateHash: parent, Height: int64(i + 1)}
		for _, kv := range b.KV {
			set.KV = append(set.KV, &types.KeyValue{Key: kv.K, Value: kv.V})
			content[string(kv.K)] = kv.V
		}
		root, err := mavl.SetKVPair(db, set, true, fx.cfg)
		if err != nil || len(root) == 0 {
			return nil, fmt.Errorf("SetKVPair batch %d: root %x err %v", i, root, err)
		}
		fx.roots = append(fx.roots, root)
		fx.model = append(fx.model, content)
	}
	return fx, nil
}

func (fx *fixture) keys(ver int) [][]byte {
	var ks []string
	for k := range fx.model[ver] {
		ks = append(ks, k)
	}
	sort.Strings(ks)
	out := make([][]byte, len(ks))
	for i, k := range ks {
		out[i] = []byte(k)
	}
	return out
}

// holds reports the ground truth "key -> value is in the content committed at root".
func (fx *fixture) holds(root, key, value []byte) bool {
	for i, r := range fx.roots {
		if bytes.Equal(r, root) {
			if v, ok := fx.model[i][string(key)]; ok && bytes.Equal(v, value) {
				return true
			}
		}
	}
	return false
}

func leafHash(k, v []byte) []byte {
	return (&types.LeafNode{Key: k, Value: v, Height: 0, Size: 1}).Hash()
}

// matchesKnownConfusion is the signature of the listed finding, evaluated on an accepted tuple: some proof step
// has Height 0 and Size 1 (what a leaf is hashed with) and the hash reached after it is the hash of a leaf that
// really is stored at that root. Nothing else is tolerated.
func (fx *fixture) matchesKnownConfusion(root, key, value, proof []byte) bool {
	var mp types.MAVLProof
	if types.Decode(proof, &mp) != nil {
		return false
	}
	stored := map[string]bool{}
	for i, r := range fx.roots {
		if bytes.Equal(r, root) {
			for k, v := range fx.model[i] {
				stored[string(leafHash([]byte(k), v))] = true
			}
		}
	}
	h := leafHash(key, value)
	for _, in := range mp.InnerNodes {
		h = mavl.InnerNodeProofHash(h, in)
		if in.Height == 0 && in.Size == 1 && stored[string(h)] {
			return true
		}
	}
	return false
}

type tupleT struct{ Key, Value, Root, Proof []byte }

func (tp tupleT) render() map[string]string {
	return map[string]string{"key": hex.EncodeToString(tp.Key), "value": hex.EncodeToString(tp.Value),
		"root": hex.EncodeToString(tp.Root), "proof": hex.EncodeToString(tp.Proof)}
}

func safeVerify(fx *fixture, tp tupleT) (ok bool, panicked interface{}) {
	defer func() { panicked = recover() }()
	ok = mavl.VerifyKVPairProof(fx.db, tp.Root, &types.KeyValue{Key: tp.Key, Value: tp.Value}, tp.Proof)
	return
}

func sameDecodedProof(a, b []byte) bool {
	if bytes.Equal(a, b) {
		return true
	}
	var pa, pb types.MAVLProof
	if types.Decode(a, &pa) != nil || types.Decode(b, &pb) != nil {
		return false
	}
	return bytes.Equal(types.Encode(&pa), types.Encode(&pb))
}

// judge applies the oracle to one tuple derived from the honest tuple h. It returns a class label, or a
// non-empty violation message.
func judge(fx *fixture, h, tp tupleT) (class, violation string) {
	ok, p := safeVerify(fx, tp)
	if p != nil {
		return "", fmt.Sprintf("VerifyKVPairProof panicked: %v", p)
	}
	sameKVR := bytes.Equal(h.Key, tp.Key) && bytes.Equal(h.Value, tp.Value) && bytes.Equal(h.Root, tp.Root)
	sameProof := sameDecodedProof(h.Proof, tp.Proof)
	switch {
	case sameKVR && sameProof:
		if !ok {
			return "", "completeness: the store's proof for a stored key does not verify with the stored value at its root"
		}
		return "honest_accept", ""
	case !sameKVR && sameProof && ok:
		return "", "soundness: the store's unchanged proof verifies for a different key, value or root"
	case ok && !fx.holds(tp.Root, tp.Key, tp.Value):
		if lib.Known(knownConfusion) && fx.matchesKnownConfusion(tp.Root, tp.Key, tp.Value, tp.Proof) {
			lib.ExcludedKnown(knownConfusion)
			return "known_confusion_accept", ""
		}
		return "", "soundness: verification succeeds for a key/value that is not in the content committed at that root"
	case ok:
		return "altered_proof_true_statement_accept", ""
	case sameKVR:
		return "altered_proof_true_statement_reject", ""
	}
	return "reject", ""
}

// ---------------------------------------------------------------------------------------------------------
// generators

var alphabet = [][]byte{{}, []byte("a"), []byte("ab"), {'a', 'b', 0}, {0xff}, {0}, []byte("mavl-coins-bty-addr"), bytes.Repeat([]byte{0xff}, 33)}

func genKey(t *rapid.T) []byte {
	switch rapid.IntRange(0, 9).Draw(t, "keyKind") {
	case 0, 1:
		return rapid.SampledFrom(alphabet).Draw(t, "alphaKey")
	case 2, 3:
		return rapid.SliceOfN(rapid.Byte(), 1, 12).Draw(t, "randKey")
	}
	return []byte(fmt.Sprintf("key-%03d", rapid.IntRange(0, 60).Draw(t, "keyNo")))
}

func genValue(t *rapid.T) []byte {
	if rapid.IntRange(0, 9).Draw(t, "valKind") == 0 {
		return rapid.SliceOfN(rapid.Byte(), 32, 32).Draw(t, "hashLikeValue")
	}
	return rapid.SliceOfN(rapid.Byte(), 0, 40).Draw(t, "value")
}

// genBatches draws 1..3 batches. Large batches use numbered keys with derived values so that trees of several
// hundred leaves cost few draws; every batch also gets individually drawn "special" pairs.
func genBatches(t *rapid.T) (batches []batchT, fakes []kvT) {
	n := rapid.IntRange(1, 3).Draw(t, "versions")
	for i := 0; i < n; i++ {
		b := batchT{Parent: rapid.IntRange(-1, i-1).Draw(t, "parent")}
		if i > 0 && rapid.IntRange(0, 3).Draw(t, "tipParent") > 0 {
			b.Parent = i - 1
		}
		bulk := rapid.OneOf(rapid.IntRange(0, 6), rapid.IntRange(0, 40), rapid.IntRange(100, 400)).Draw(t, "bulk")
		salt := rapid.IntRange(0, 3).Draw(t, "salt")
		start := rapid.IntRange(0, 200).Draw(t, "bulkStart")
		for j := 0; j < bulk; j++ {
			id := (start + j*7) % 997
			b.KV = append(b.KV, kvT{[]byte(fmt.Sprintf("bulk-%03d", id)), []byte(fmt.Sprintf("v%d-%d", salt, id%(13+salt)))})
		}
		for j, ns := 0, rapid.IntRange(1, 8).Draw(t, "specials"); j < ns; j++ {
			b.KV = append(b.KV, kvT{genKey(t), genValue(t)})
		}
		// adversarial but perfectly legal content: a pair whose key or value is the leaf hash of a pair that is
		// NOT stored (an application that stores caller-chosen 32-byte values does this every day)
		if rapid.IntRange(0, 2).Draw(t, "holder") == 0 {
			fake := kvT{[]byte(fmt.Sprintf("absent-%d", rapid.IntRange(0, 9).Draw(t, "fakeNo"))), genValue(t)}
			fakes = append(fakes, fake)
			if rapid.Bool().Draw(t, "holderInValue") {
				b.KV = append(b.KV, kvT{[]byte(fmt.Sprintf("holder-%d", len(fakes))), leafHash(fake.K, fake.V)})
			} else {
				b.KV = append(b.KV, kvT{leafHash(fake.K, fake.V), genValue(t)})
			}
		}
		// the block executor removes duplicate keys before it hands a batch to the store (util.DelDupKey): keep the last
		seen := map[string]int{}
		var kvs []kvT
		for _, kv := range b.KV {
			if at, ok := seen[string(kv.K)]; ok {
				kvs[at] = kv
				continue
			}
			seen[string(kv.K)] = len(kvs)
			kvs = append(kvs, kv)
		}
		b.KV = kvs
		batches = append(batches, b)
	}
	return
}

// mutBytes applies one byte-level operator; pool holds same-kind values taken from elsewhere in the fixture.
func mutBytes(t *rapid.T, b []byte, pool [][]byte) ([]byte, string) {
	ops := []string{"insert", "append0", "empty", "random"}
	if len(b) > 0 {
		ops = append(ops, "flip", "flip", "delete", "truncate")
	}
	if len(pool) > 0 {
		ops = append(ops, "swap", "swap", "swap")
	}
	out := append([]byte{}, b...)
	op := rapid.SampledFrom(ops).Draw(t, "byteOp")
	switch op {
	case "flip":
		i := rapid.IntRange(0, len(b)-1).Draw(t, "at")
		out[i] ^= 1 << rapid.IntRange(0, 7).Draw(t, "bit")
	case "insert":
		i := rapid.IntRange(0, len(b)).Draw(t, "at")
		out = append(out[:i], append([]byte{rapid.Byte().Draw(t, "byte")}, out[i:]...)...)
	case "delete":
		i := rapid.IntRange(0, len(b)-1).Draw(t, "at")
		out = append(out[:i], out[i+1:]...)
	case "truncate":
		out = out[:rapid.IntRange(0, len(b)-1).Draw(t, "len")]
	case "append0":
		out = append(out, 0)
	case "empty":
		out = nil
	case "random":
		out = rapid.SliceOfN(rapid.Byte(), 0, 40).Draw(t, "bytes")
	case "swap":
		out = append([]byte{}, rapid.SampledFrom(pool).Draw(t, "other")...)
	}
	return out, op
}

// mutProofField re-encodes the proof with exactly one decoded field of one inner node changed.
func mutProofField(t *rapid.T, proof []byte) ([]byte, string) {
	var mp types.MAVLProof
	if types.Decode(proof, &mp) != nil || len(mp.InnerNodes) == 0 {
		return mutBytes(t, proof, nil)
	}
	i := rapid.IntRange(0, len(mp.InnerNodes)-1).Draw(t, "node")
	in := mp.InnerNodes[i]
	op := rapid.SampledFrom([]string{"height", "size", "sibling_flip", "swap_lr", "drop_node", "dup_node", "pad_sibling", "both_sides"}).Draw(t, "fieldOp")
	sib := &in.LeftHash
	if len(in.LeftHash) == 0 {
		sib = &in.RightHash
	}
	switch op {
	case "height":
		in.Height += rapid.SampledFrom([]int32{-1, 1, 2, -in.Height, math.MaxInt32}).Draw(t, "dh")
	case "size":
		in.Size += rapid.SampledFrom([]int32{-1, 1, 2, -in.Size, math.MaxInt32}).Draw(t, "ds")
	case "sibling_flip":
		if len(*sib) > 0 {
			(*sib)[rapid.IntRange(0, len(*sib)-1).Draw(t, "at")] ^= 1 << rapid.IntRange(0, 7).Draw(t, "bit")
		}
	case "swap_lr":
		in.LeftHash, in.RightHash = in.RightHash, in.LeftHash
	case "drop_node":
		mp.InnerNodes = append(mp.InnerNodes[:i], mp.InnerNodes[i+1:]...)
	case "dup_node":
		mp.InnerNodes = append(mp.InnerNodes[:i+1], mp.InnerNodes[i:]...)
	case "pad_sibling": // InnerNode.Hash only looks at the last 32 bytes of a sibling hash
		*sib = append([]byte("_mh_-0000000001-"), *sib...)
	case "both_sides":
		in.LeftHash, in.RightHash = append([]byte{}, *sib...), append([]byte{}, *sib...)
	}
	return types.Encode(&mp), op
}

// graft builds the type-confusion tuple for a stored "holder" pair: the unstored pair fake is presented as a
// child of the holder leaf, the holder leaf being passed off as an inner node with Height 0 and Size 1.
func graft(fx *fixture, ver int, fake kvT) (tupleT, bool) {
	fh := leafHash(fake.K, fake.V)
	for k, v := range fx.model[ver] {
		var step *types.InnerNode
		switch {
		case bytes.Equal(v, fh) && len(k) > 0 && len(k) <= 32:
			step = &types.InnerNode{LeftHash: []byte(k), Height: 0, Size: 1} // fake leaf hash sits where the value is
		case k == string(fh) && len(v) <= 32:
			step = &types.InnerNode{RightHash: v, Height: 0, Size: 1} // fake leaf hash sits where the key is
		default:
			continue
		}
		pb, err := mavl.GetKVPairProof(fx.db, fx.roots[ver], []byte(k), fx.cfg)
		var mp types.MAVLProof
		if err != nil || types.Decode(pb, &mp) != nil {
			return tupleT{}, false
		}
		mp.InnerNodes = append([]*types.InnerNode{step}, mp.InnerNodes...)
		return tupleT{Key: fake.K, Value: fake.V, Root: fx.roots[ver], Proof: types.Encode(&mp)}, true
	}
	return tupleT{}, false
}

func renderCase(c cfgT, batches []batchT, ver int, ops []string, tp tupleT) map[string]interface{} {
	var bs []map[string]interface{}
	for _, b := range batches {
		var kvs []string
		for _, kv := range b.KV {
			kvs = append(kvs, hex.EncodeToString(kv.K)+"="+hex.EncodeToString(kv.V))
		}
		bs = append(bs, map[string]interface{}{"parent": b.Parent, "kv": kvs})
	}
	return map[string]interface{}{"cfg": c, "batches": bs, "version": ver, "mutation": ops, "tuple": tp.render()}
}

// ---------------------------------------------------------------------------------------------------------
// the generated search

func TestPropProofSoundComplete(t *testing.T) {
	defer lib.Flush()
	rapid.Check(t, func(t *rapid.T) {
		c := cfgT{Prefix: rapid.Bool().Draw(t, "prefix"), Prune: rapid.IntRange(0, 3).Draw(t, "prune") == 0,
			MemTree: rapid.IntRange(0, 3).Draw(t, "memTree") == 0, MemVal: rapid.Bool().Draw(t, "memVal"), DBCache: rapid.Bool().Draw(t, "dbCache")}
		batches, fakes := genBatches(t)
		fx, err := build(c, batches)
		if err != nil {
			lib.Violation(t, prop, "TestPropProofSoundComplete", renderCase(c, batches, 0, nil, tupleT{}), "cannot commit generated batches: %v", err)
		}
		for _, cl := range []struct {
			on   bool
			name string
		}{{fx.cfg.EnableMavlPrefix, "cfg_prefix"}, {c.Prune, "cfg_prune"}, {c.MemTree, "cfg_memtree"}, {len(fx.roots) > 1, "multi_version"}} {
			if cl.on {
				lib.Class(cl.name)
			}
		}
		perKey := rapid.IntRange(2, 8).Draw(t, "mutationsPerKey")
		for ver := range fx.roots {
			keys := fx.keys(ver)
			if len(keys) >= 100 {
				lib.Class("tree>=100_leaves")
			}
			var values, otherRoots [][]byte
			for _, k := range keys {
				values = append(values, fx.model[ver][string(k)])
			}
			for i, r := range fx.roots {
				if i != ver {
					otherRoots = append(otherRoots, r)
				}
			}
			otherRoots = append(otherRoots, emptyRoot)
			picked := keys
			if len(keys) > 64 { // every key of small trees, 64 drawn keys of large ones
				picked = nil
				for _, i := range rapid.SliceOfNDistinct(rapid.IntRange(0, len(keys)-1), 64, 64, rapid.ID[int]).Draw(t, "sampledKeys") {
					picked = append(picked, keys[i])
				}
			}
			fail := func(ops []string, tp tupleT, msg string) {
				lib.Violation(t, prop, "TestPropProofSoundComplete", renderCase(c, batches, ver, ops, tp), "%s (mutation %v, tree of %d leaves)", msg, ops, len(keys))
			}
			for _, k := range picked {
				pb, err := mavl.GetKVPairProof(fx.db, fx.roots[ver], k, fx.cfg)
				h := tupleT{Key: k, Value: fx.model[ver][string(k)], Root: fx.roots[ver], Proof: pb}
				lib.Eval()
				if err != nil || pb == nil {
					fail([]string{"none"}, h, fmt.Sprintf("completeness: no proof produced for a stored key (err %v)", err))
				}
				if cl, v := judge(fx, h, h); v != "" {
					fail([]string{"none"}, h, v)
				} else {
					lib.Class(cl)
				}
				var mp types.MAVLProof
				_ = types.Decode(pb, &mp)
				deep := len(mp.InnerNodes) >= 2
				if deep {
					lib.Class("honest_proof>=2_inner_nodes")
				}
				for m := 0; m < perKey; m++ {
					tp, ops, single := h, []string(nil), true
					sibling := keys[rapid.IntRange(0, len(keys)-1).Draw(t, "sibling")]
					what := rapid.SampledFrom([]string{"key", "value", "root", "proof_bytes", "proof_field", "proof_of_sibling", "sibling_kv",
						"key+proof", "value+proof", "root+proof", "value+empty_proof"}).Draw(t, "what")
					var op string
					switch what {
					case "key":
						tp.Key, op = mutBytes(t, h.Key, keys)
					case "value":
						tp.Value, op = mutBytes(t, h.Value, values)
					case "root":
						tp.Root, op = mutBytes(t, h.Root, otherRoots)
					case "proof_bytes":
						tp.Proof, op = mutBytes(t, h.Proof, nil)
					case "proof_field":
						tp.Proof, op = mutProofField(t, h.Proof)
					case "proof_of_sibling":
						tp.Proof, _ = mavl.GetKVPairProof(fx.db, fx.roots[ver], sibling, fx.cfg)
					case "sibling_kv": // a true statement about another key, with this key's proof
						tp.Key, tp.Value = sibling, fx.model[ver][string(sibling)]
					case "key+proof":
						tp.Key, op = mutBytes(t, h.Key, keys)
						tp.Proof, _ = mutProofField(t, h.Proof)
						single = false
					case "value+proof":
						tp.Value, op = mutBytes(t, h.Value, values)
						tp.Proof, _ = mutProofField(t, h.Proof)
						single = false
					case "root+proof":
						tp.Root, op = mutBytes(t, h.Root, otherRoots)
						tp.Proof, _ = mutBytes(t, h.Proof, nil)
						single = false
					case "value+empty_proof":
						tp.Value, op = mutBytes(t, h.Value, values)
						tp.Proof = nil
						single = false
					}
					ops = []string{what, op}
					lib.Eval()
					cl, v := judge(fx, h, tp)
					if v != "" {
						fail(ops, tp, v)
					}
					lib.Class("mut_" + what)
					lib.Class(cl)
					// non-trivial: honest proof has >= 2 inner nodes and exactly one decoded field of
					// (key, value, root, proof) was effectively changed
					if deep && single && cl != "honest_accept" && what != "proof_bytes" && what != "proof_of_sibling" && what != "sibling_kv" {
						lib.NonTrivial(lib.Fingerprint(tp.Key, tp.Value, tp.Root, tp.Proof))
						if lib.SampleCount() < lib.MaxSamples {
							lib.Sample(map[string]interface{}{"cfg": c, "leaves": len(keys), "inner_nodes": len(mp.InnerNodes), "mutation": ops, "verdict": cl, "tuple": tp.render()})
						}
					}
				}
			}
			for _, fake := range fakes {
				if tp, ok := graft(fx, ver, fake); ok {
					lib.Eval()
					lib.Class("mut_graft")
					// the honest tuple it is compared with is irrelevant: fake is stored nowhere
					if cl, v := judge(fx, tupleT{Root: fx.roots[ver]}, tp); v != "" {
						fail([]string{"graft"}, tp, v)
					} else {
						lib.Class(cl)
					}
				}
			}
		}
	})
}

// TestKnown_LeafInnerConfusion is the minimal form of finding C03-leaf-inner-confusion, without rapid.
// Stored: a=1, b=2 and h -> leafHash("absent","x"). Claimed: absent -> x. The proof is the honest proof of key h
// with one step {LeftHash:"h", Height:0, Size:1} put in front of it.
func TestKnown_LeafInnerConfusion(t *testing.T) {
	defer lib.Flush()
	fake := kvT{[]byte("absent"), []byte("x")}
	batches := []batchT{{Parent: -1, KV: []kvT{{[]byte("a"), []byte("1")}, {[]byte("b"), []byte("2")}, {[]byte("h"), leafHash(fake.K, fake.V)}}}}
	fx, err := build(cfgT{}, batches)
	if err != nil {
		lib.Inconclusive("C03 pinned fixture: %v", err)
	}
	tp, ok := graft(fx, 0, fake)
	if !ok {
		lib.Inconclusive("C03 pinned fixture: no proof for the holder key")
	}
	if accepted, p := safeVerify(fx, tp); p == nil && accepted {
		lib.KnownOrViolation(t, prop, "TestKnown_LeafInnerConfusion", knownConfusion, renderCase(cfgT{}, batches, 0, []string{"graft"}, tp),
			"VerifyKVPairProof accepts (absent -> x) at a root whose content is {a,b,h}: a proof step with Height 0/Size 1 hashes like the stored leaf h -> leafHash(absent,x)")
	}
}
