package c28

import (
	"bytes"
	"os"
	"path/filepath"
	"strconv"
	"testing"

	"github.com/33cn/chain33/types"
	"pgregory.net/rapid"
	"verifharness/chainfix"
	"verifharness/lib"
)

// restartCase: a height-bounded (TxHeight) transaction sits on a long chain; the node is restarted (its duplicate
// window for such transactions is rebuilt from the database) or not; then a peer block offers the same transaction
// again inside its validity window. The chain must still hold it once.
type restartCase struct {
	Len      int   `json:"chainLen"`    // blocks before the replay
	At       int   `json:"firstAt"`     // height at which the transaction is first included
	TxHeight int64 `json:"txHeight"`    // the transaction's TxHeight (valid for [TxHeight-200, TxHeight+600])
	Restart  bool  `json:"restart"`     // close and re-open the node before the replay
	Extra    int   `json:"extraBlocks"` // honest blocks delivered after the restart and before the replay
}

func genRestartCase(t *rapid.T) restartCase {
	var c restartCase
	if rapid.IntRange(0, 9).Draw(t, "deep") < 6 {
		// the class that needs most to manifest: included long ago (beyond the block cache), node restarted since
		c.Len = rapid.IntRange(131, 170).Draw(t, "lenLong")
		c.At = rapid.IntRange(1, c.Len-129).Draw(t, "atOld")
		c.Restart = true
	} else {
		c.Restart = rapid.Bool().Draw(t, "restart")
		c.Len = rapid.IntRange(20, 170).Draw(t, "len")
		c.At = rapid.IntRange(1, c.Len).Draw(t, "at")
	}
	c.TxHeight = int64(c.At) + int64(rapid.IntRange(-3, 150).Draw(t, "dh"))
	if c.TxHeight < 1 {
		c.TxHeight = 1
	}
	c.Extra = rapid.IntRange(0, 2).Draw(t, "extra")
	return c
}

func runRestartCase(t lib.TB, c restartCase, dir string) {
	setup() // builder
	cfg := builder.N.Cfg
	keys := chainfix.Keys()
	parent := builder.N.Genesis()
	var blocks []*types.Block
	var bounded *types.Transaction
	mk := func(txs []*types.Transaction) *types.Block {
		b, err := builder.Child(parent, txs, 0x1f00ffff, parent.BlockTime+10)
		if err != nil {
			lib.Inconclusive("builder: %v", err)
		}
		parent = b
		return b
	}
	fresh := func() *types.Transaction {
		nonce++
		return chainfix.TransferTx(cfg, keys[1], chainfix.Addr(keys[int(nonce)%len(keys)]), 1e8, nonce)
	}
	for h := 1; h <= c.Len; h++ {
		txs := []*types.Transaction{fresh()}
		if h == c.At {
			bounded = fresh()
			bounded.Expire = 1<<62 + c.TxHeight
			bounded.Sign(types.SECP256K1, keys[1])
			txs = append(txs, bounded)
		}
		blocks = append(blocks, mk(txs))
	}
	n := chainfix.OpenPersistent(dir)
	closed := false
	defer func() {
		if !closed {
			n.Close()
		}
	}()
	for i, b := range blocks {
		if err := n.Deliver(b, "good"); err != nil {
			lib.Inconclusive("follower rejected honest block %d: %v", i+1, err)
		}
	}
	if c.Restart {
		n.Close()
		n = chainfix.OpenPersistent(dir)
	}
	for i := 0; i < c.Extra; i++ {
		b := mk([]*types.Transaction{fresh()})
		if err := n.Deliver(b, "good"); err != nil {
			lib.Inconclusive("follower rejected honest block after restart: %v", err)
		}
	}
	// the replay: a producer (whose own chain does not know the transaction) packs it again
	replayH := parent.Height + 1
	inWindow := c.TxHeight-200 <= replayH && replayH <= c.TxHeight+600
	rb, err := builder.Child(parent, []*types.Transaction{fresh(), types.Clone(bounded).(*types.Transaction)}, 0x1f00ffff, parent.BlockTime+10)
	if err != nil {
		lib.Inconclusive("builder: %v", err)
	}
	carries := false
	for _, tx := range rb.Txs {
		if bytes.Equal(tx.Hash(), bounded.Hash()) {
			carries = true
		}
	}
	derr := n.Deliver(rb, "producer")
	// oracle: scan the best chain
	h := n.Chain.GetBlockHeight()
	count := 0
	var where []int64
	for x := int64(1); x <= h; x++ {
		d, err := n.Chain.GetBlock(x)
		if err != nil {
			lib.Violation(t, prop, "TestPropRestartReplay", c, "best chain block %d unreadable: %v", x, err)
		}
		for _, tx := range d.Block.Txs {
			if bytes.Equal(tx.Hash(), bounded.Hash()) {
				count++
				where = append(where, x)
			}
			if expiredRef(tx.Expire, x, d.Block.BlockTime) {
				lib.Violation(t, prop, "TestPropRestartReplay", c, "block %d carries a transaction (expire %d) that is expired there", x, tx.Expire)
			}
		}
	}
	if count > 1 {
		lib.Violation(t, prop, "TestPropRestartReplay", c, "the height-bounded transaction is on the best chain %d times (heights %v; replay delivered at %d, err=%v, restart=%v)", count, where, replayH, derr, c.Restart)
	}
	lib.Eval()
	if carries && inWindow {
		lib.Class("replay_inside_window")
		if c.Restart && int(replayH)-c.At > 128 {
			lib.Class("replay_after_restart_older_than_128_blocks")
		}
		lib.NonTrivialCase(c)
	}
	if c.Restart {
		lib.Class("restart")
	}
	n.Close()
	closed = true
}

// TestPropRestartReplay: generated (chain length, inclusion height, TxHeight, restart) cases on a LevelDB node.
func TestPropRestartReplay(t *testing.T) {
	defer lib.Flush()
	work := os.Getenv("VERIF_WORK")
	if work == "" {
		work = t.TempDir()
	}
	i := 0
	rapid.Check(t, func(rt *rapid.T) {
		c := genRestartCase(rt)
		i++
		dir := filepath.Join(work, "rr"+strconv.Itoa(i))
		defer os.RemoveAll(dir)
		runRestartCase(rt, c, dir)
	})
}
