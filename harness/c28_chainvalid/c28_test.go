// C28: the best chain never holds a replayed, expired or mis-signed transaction, however a block arrived.
// Generated histories against a follower node: transactions offered to its pool, honest blocks, and blocks of an
// *adversarial producer* who computes a state root over exactly the transactions a careless verifier would execute
// (so that only the transaction-level checks can reject the block), reorganisations that return transactions to the
// pool. After every step the follower's whole best chain is scanned with an oracle written from the property text.
package c28

import (
	"bytes"
	"fmt"
	"testing"

	"github.com/33cn/chain33/common/merkle"
	"github.com/33cn/chain33/types"
	"pgregory.net/rapid"
	"verifharness/chainfix"
	"verifharness/lib"
)

const prop = "C28"
const knownPoolSig = "C28-pool-hash-hit-skips-signature-check"

func TestMain(m *testing.M) { lib.Main(m) }

// txSpec describes one transaction of a block by construction recipe.
type txSpec struct {
	Kind string `json:"kind"`
	Ref  int    `json:"ref"` // index into the pool / chain / earlier tx list, modulo its length
	To   int    `json:"to"`
}

type step struct {
	Op   string   `json:"op"`             // "pool", "block", "reorg"
	Txs  []txSpec `json:"txs,omitempty"`  // for block / reorg tip block
	N    int      `json:"n,omitempty"`    // pool: how many txs
	Deep int      `json:"deep,omitempty"` // reorg: how many tip blocks to replace (1..2)
}

type caseSpec struct {
	Steps []step `json:"steps"`
}

// kinds the builder executes as part of the state (a careless verifier would execute them too) ...
var execKinds = []string{"fresh", "fresh", "fromPool", "dupChain", "badSig", "poolBadSig", "poolSwapPubkey", "txHeightIn", "group", "rejSwapPubkey", "rejBadSig", "rejAgain"}

// ... and kinds the executor itself refuses (inserted into the body after the state root was computed)
var insertKinds = []string{"dupSame", "expiredHeight", "expiredTime", "wrongChain", "lowFee", "txHeightOut", "groupExpiredMember"}

const trunkLen = 11

var craftedHeads int

var (
	builder *chainfix.Builder
	trunk   []*types.Block
	nonce   int64 = 5000000
)

func setup() {
	if builder != nil {
		return
	}
	builder = chainfix.NewBuilder()
	cfg := builder.N.Cfg
	parent := builder.N.Genesis()
	keys := chainfix.Keys()
	for i := 0; i < trunkLen; i++ {
		nonce++
		// fund every key on the trunk so that any of them can pay fees later
		tx := chainfix.TransferTx(cfg, keys[1], chainfix.Addr(keys[i%len(keys)]), 1000e8, nonce)
		b, err := builder.Child(parent, []*types.Transaction{tx}, 0x1f00ffff, parent.BlockTime+10)
		if err != nil {
			lib.Inconclusive("builder trunk: %v", err)
		}
		trunk = append(trunk, b)
		parent = b
	}
}

// independent re-statement of the expiry rule (types/tx.go documents: 0 never expires; <= 1e9 is a height and the tx
// is valid while expire > height; > 2^62 is a TxHeight valid for [txHeight-200, txHeight+600]; otherwise a unix time
// valid while expire > blocktime).
// refLow/refHigh: the configured TxHeight window (blockchain.lowAllowPackHeight / highAllowPackHeight; defaults 200/600).
var refLow, refHigh int64 = 200, 600

func expiredRef(expire, height, blocktime int64) bool {
	switch {
	case expire == 0:
		return false
	case expire <= 1e9:
		return expire <= height
	case expire > 1<<62:
		th := expire - 1<<62
		return !(th-refLow <= height && height <= th+refHigh)
	default:
		return expire <= blocktime
	}
}

type world struct {
	f     *chainfix.Node
	b     *chainfix.Builder // producer; nil = the shared default-configuration builder
	cfg   *types.Chain33Config
	chain []*types.Block // follower's best chain as the harness believes it (index = height-1)
	pool  []*types.Transaction
	// validly signed transactions that travelled in blocks the follower refused (so its verifier has seen them) and that
	// are neither on the chain nor in the pool
	rejected []*types.Transaction
}

func (w *world) tip() *types.Block { return w.chain[len(w.chain)-1] }

// sender: a funded key -- the trunk funds every key; a world without trunk (own producer) has only the genesis key
func (w *world) sender() int {
	if w.b != nil {
		return 1
	}
	return 1 + int(nonce)%2*2
}

func (w *world) freshTx(to int) *types.Transaction {
	nonce++
	keys := chainfix.Keys()
	return chainfix.TransferTx(w.cfg, keys[w.sender()], chainfix.Addr(keys[to%len(keys)]), 1e8, nonce)
}

// group builds a 2..3 member transaction group the way wallets do (types.CreateTxGroup, every member signed).
func (w *world) group(n int, to int) []*types.Transaction { return w.groupWith(n, to, -1, 0, false) }

// groupWith: member `expired` (if >= 0) carries the given already-passed Expire; with craft the head's nonce is searched
// (bounded) until the group's head id -- the 32 bytes every member carries in its Header field -- happens to be a
// well-formed protobuf encoding, a class of ids that code decoding Header bytes may treat specially.
func (w *world) groupWith(n int, to int, expired int, expire int64, craft bool) []*types.Transaction {
	keys := chainfix.Keys()
	var txs []*types.Transaction
	var signers []int
	for i := 0; i < n; i++ {
		nonce++
		k := w.sender()
		tx := chainfix.TransferTx(w.cfg, keys[k], chainfix.Addr(keys[(to+i)%len(keys)]), 1e8, nonce)
		tx.Signature = nil
		if i == expired {
			tx.Expire = expire
		}
		txs = append(txs, tx)
		signers = append(signers, k)
	}
	g, err := types.CreateTxGroup(txs, w.cfg.GetMinTxFeeRate())
	for try := 0; craft && err == nil && try < 6000; try++ {
		var probe types.Transactions
		if types.Decode(g.Txs[0].Hash(), &probe) == nil {
			craftedHeads++
			break
		}
		nonce++
		txs[0].Nonce = nonce
		for _, tx := range txs {
			tx.Header, tx.Next, tx.GroupCount = nil, nil, 0
		}
		g, err = types.CreateTxGroup(txs, w.cfg.GetMinTxFeeRate())
	}
	if err != nil {
		lib.Inconclusive("CreateTxGroup: %v", err)
	}
	for i := range txs {
		if err := g.SignN(i, types.SECP256K1, keys[signers[i]]); err != nil {
			lib.Inconclusive("SignN: %v", err)
		}
	}
	return g.Txs
}

// resign replaces signature material without touching the signed content.
func cloneTx(tx *types.Transaction) *types.Transaction { return types.Clone(tx).(*types.Transaction) }

// makeBlock builds a block on parent following the adversarial-producer recipe. Returns the block and whether the
// recipe contains a transaction that must not be on a valid chain (so the follower must reject the block).
func (w *world) makeBlock(parent *types.Block, specs []txSpec, bits uint32) (*types.Block, bool, []string) {
	cfg := w.cfg
	keys := chainfix.Keys()
	// a block body is a list of units: single transactions and whole groups (groups are stored expanded, contiguous)
	type unit struct {
		txs     []*types.Transaction
		illegal bool // the executor itself refuses it (so the producer's own executor will drop it)
	}
	var units []unit
	type dupReq struct{ src, pos int }
	var dups []dupReq
	var kinds []string
	invalid := false
	height := parent.Height + 1
	single := func(tx *types.Transaction, illegal bool) { units = append(units, unit{[]*types.Transaction{tx}, illegal}) }
	onChain := func() []*types.Transaction {
		var all []*types.Transaction
		for _, b := range w.chain {
			if b.Height <= parent.Height {
				all = append(all, b.Txs...)
			}
		}
		return all
	}
	for _, s := range specs {
		switch s.Kind {
		case "fresh":
			single(w.freshTx(s.To), false)
		case "group":
			units = append(units, unit{w.group(2+s.Ref%2, s.To), false})
		case "fromPool":
			if len(w.pool) == 0 {
				continue
			}
			single(cloneTx(w.pool[s.Ref%len(w.pool)]), false)
		case "dupChain":
			// a unit (single transaction or whole group) that is already on this branch
			var us [][]*types.Transaction
			for _, b := range w.chain {
				if b.Height > parent.Height {
					continue
				}
				for i := 0; i < len(b.Txs); i++ {
					n := int(b.Txs[i].GroupCount)
					if n < 2 || i+n > len(b.Txs) {
						n = 1
					}
					us = append(us, b.Txs[i:i+n])
					i += n - 1
				}
			}
			if len(us) == 0 {
				continue
			}
			u := unit{}
			for _, tx := range us[s.Ref%len(us)] {
				u.txs = append(u.txs, cloneTx(tx))
				u.illegal = u.illegal || expiredRef(tx.Expire, height, parent.BlockTime+10)
			}
			units = append(units, u)
			invalid = true
		case "badSig":
			tx := w.freshTx(s.To)
			tx.Signature.Signature[len(tx.Signature.Signature)-2] ^= 0x10
			single(tx, false)
			invalid = true
		case "poolBadSig":
			if len(w.pool) == 0 {
				continue
			}
			tx := cloneTx(w.pool[s.Ref%len(w.pool)])
			tx.Signature.Signature[len(tx.Signature.Signature)-2] ^= 0x10
			single(tx, false)
			invalid = true
		case "poolSwapPubkey":
			if len(w.pool) == 0 {
				continue
			}
			// same signed content as a pooled transaction (so the same transaction id), but presented as coming from
			// another account: that account never signed it
			tx := cloneTx(w.pool[s.Ref%len(w.pool)])
			victim := keys[0].PubKey().Bytes()
			if bytes.Equal(tx.Signature.Pubkey, victim) {
				victim = keys[3].PubKey().Bytes()
			}
			tx.Signature.Pubkey = victim
			single(tx, false)
			invalid = true
		case "rejSwapPubkey", "rejBadSig", "rejAgain":
			// the body of a transaction the follower has already seen (and verified) inside a refused block, offered again:
			// unchanged (legitimate), under another account's public key, or with corrupted signature bytes
			if w.b != nil && s.Kind == "rejSwapPubkey" {
				continue // a world with its own producer funds the genesis key only: no second account that could pay
			}
			var cands []*types.Transaction
			on := map[string]bool{}
			for _, tx := range onChain() {
				on[string(tx.Hash())] = true
			}
			for _, tx := range w.rejected {
				if !on[string(tx.Hash())] && tx.Expire == 0 {
					cands = append(cands, tx)
				}
			}
			if len(cands) == 0 {
				continue
			}
			tx := cloneTx(cands[s.Ref%len(cands)])
			switch s.Kind {
			case "rejSwapPubkey":
				victim := keys[0].PubKey().Bytes()
				if bytes.Equal(tx.Signature.Pubkey, victim) {
					victim = keys[3].PubKey().Bytes()
				}
				tx.Signature.Pubkey = victim
				invalid = true
			case "rejBadSig":
				tx.Signature.Signature[len(tx.Signature.Signature)-2] ^= 0x10
				invalid = true
			}
			single(tx, false)
		case "txHeightIn":
			tx := w.freshTx(s.To)
			// valid while txHeight-low <= height <= txHeight+high
			lo := height - refHigh
			if lo < 1 {
				lo = 1
			}
			tx.Expire = 1<<62 + lo + int64(s.Ref)%(height+refLow-lo+1)
			tx.Sign(types.SECP256K1, keys[1])
			single(tx, false)
		case "replayTxHeight":
			// a transaction with a TxHeight expiry that is already on this branch: a replay while its window is open, and
			// expired afterwards -- never acceptable
			var cands []*types.Transaction
			for _, tx := range onChain() {
				if tx.Expire > 1<<62 {
					cands = append(cands, tx)
				}
			}
			if len(cands) == 0 {
				continue
			}
			tx := cloneTx(pickReplay(cands, s))
			units = append(units, unit{[]*types.Transaction{tx}, expiredRef(tx.Expire, height, parent.BlockTime+10)})
			invalid = true
		case "dupSame":
			// resolved below: a copy of an earlier unit's transaction, placed at a drawn unit boundary
			dups = append(dups, dupReq{s.Ref, s.To})
			invalid = true
		case "expiredHeight":
			tx := w.freshTx(s.To)
			tx.Expire = height - int64(s.Ref%3) // expire <= height
			if tx.Expire <= 0 {
				tx.Expire = 1
			}
			tx.Sign(types.SECP256K1, keys[1])
			single(tx, true)
			invalid = true
		case "expiredTime":
			tx := w.freshTx(s.To)
			tx.Expire = parent.BlockTime - int64(s.Ref%100) // unix time not after the block time
			tx.Sign(types.SECP256K1, keys[1])
			single(tx, true)
			invalid = true
		case "wrongChain":
			tx := w.freshTx(s.To)
			tx.ChainID = cfg.GetChainID() + 1
			tx.Sign(types.SECP256K1, keys[1])
			single(tx, true)
			invalid = true
		case "lowFee":
			tx := w.freshTx(s.To)
			tx.Fee = int64(s.Ref % 1000)
			tx.Sign(types.SECP256K1, keys[1])
			single(tx, true)
			invalid = true
		case "groupExpiredMember":
			// a well-formed, fully signed group one of whose later members is already expired at this height
			n := 2 + s.Ref%2
			exp := height - int64(s.Ref%2) // height-type expiry, expire <= height
			if exp <= 0 {
				exp = 1
			}
			units = append(units, unit{w.groupWith(n, s.To, 1+s.Ref%(n-1), exp, s.Ref%3 != 0), true})
			invalid = true
		case "txHeightOut":
			tx := w.freshTx(s.To)
			if s.Ref%2 == 0 || height-refHigh-1 <= 0 {
				tx.Expire = 1<<62 + height + refLow + 1 + int64(s.Ref%5) // window starts above this height
			} else {
				tx.Expire = 1<<62 + height - refHigh - 1 // window ended just below this height
			}
			tx.Sign(types.SECP256K1, keys[1])
			single(tx, true)
			invalid = true
		}
		kinds = append(kinds, s.Kind)
	}
	keepable := 0
	for _, u := range units {
		if !u.illegal {
			keepable++
		}
	}
	if keepable == 0 {
		// at least one transaction the executor will keep, otherwise the producer cannot build a block at all
		single(w.freshTx(0), false)
		kinds = append(kinds, "fresh")
	}
	for _, d := range dups {
		// source: a transaction the executor would keep (a single, or one member of a group -- then the whole group is
		// copied so that the copy is well formed); position: any unit boundary, in particular directly behind a group
		var legal []int
		for i, u := range units {
			if !u.illegal {
				legal = append(legal, i)
			}
		}
		src := units[legal[d.src%len(legal)]]
		cp := unit{}
		for _, tx := range src.txs {
			cp.txs = append(cp.txs, cloneTx(tx))
		}
		pos := d.pos % (len(units) + 1)
		units = append(units[:pos], append([]unit{cp}, units[pos:]...)...)
	}
	var want []*types.Transaction
	for _, u := range units {
		want = append(want, u.txs...)
	}
	// in-block duplicates by accident (same pool tx picked twice), and pooled transactions that are already on this
	// branch (the harness keeps them in its pool list after inclusion), make the block invalid too
	seen := map[string]bool{}
	for _, tx := range onChain() {
		seen[string(tx.Hash())] = true
	}
	for _, tx := range want {
		if seen[string(tx.Hash())] {
			invalid = true
		}
		seen[string(tx.Hash())] = true
	}
	// The producer offers the whole intended body to its own executor: a verifier whose checks are broken would execute
	// all of it, and then the state root must account for that. Whatever the producer's executor dropped (duplicates,
	// transactions it refuses) is put back afterwards in the intended order, so that an intact verifier meets it and
	// must reject the block.
	bl := builder
	if w.b != nil {
		bl = w.b
	}
	blk, err := bl.Child(parent, want, bits, parent.BlockTime+10)
	if err != nil {
		lib.Inconclusive("builder: %v (height %d, units %v, window %d/%d)", err, height, kinds, refLow, refHigh)
	}
	if len(blk.Txs) != len(want) {
		blk.Txs = nil
		for _, tx := range want {
			blk.Txs = append(blk.Txs, cloneTx(tx))
		}
		blk.Txs = types.TransactionSort(blk.Txs)
		blk.TxHash = merkle.CalcMerkleRoot(cfg, blk.Height, blk.Txs)
	}
	return blk, invalid, kinds
}

func hasKind(kinds []string, k string) bool {
	for _, x := range kinds {
		if x == k {
			return true
		}
	}
	return false
}

// noteRefused remembers the validly signed single transactions of a block the follower refused.
func (w *world) noteRefused(b *types.Block) {
	for _, tx := range b.Txs {
		// only transactions that are legal by themselves (the recipes' illegal ones -- wrong chain id, low fee, expiry -- are
		// validly signed too)
		if tx.GroupCount == 0 && tx.Signature != nil && tx.Expire == 0 && tx.ChainID == w.cfg.GetChainID() && tx.Fee >= 1e6 &&
			tx.CheckSign(b.Height) && !everPooled[string(tx.Hash())] {
			w.rejected = append(w.rejected, cloneTx(tx))
		}
	}
}

// scan is the oracle: every transaction of every block of the follower's best chain.
func (w *world) scan(t lib.TB, test string, c interface{}, upto int) (toleratedKnown bool) {
	h, _ := w.f.Tip()
	seen := map[string]int64{}
	minFee := w.cfg.GetMinTxFeeRate()
	for x := int64(1); x <= h; x++ {
		d, err := w.f.GetBlockChain().GetBlock(x)
		if err != nil {
			lib.Violation(t, prop, test, c, "best chain block %d unreadable: %v", x, err)
		}
		for i, tx := range d.Block.Txs {
			id := string(tx.Hash())
			if prev, ok := seen[id]; ok {
				lib.Violation(t, prop, test, c, "after step %d: transaction %x is on the best chain twice (heights %d and %d)", upto, tx.Hash(), prev, x)
			}
			seen[id] = x
			if expiredRef(tx.Expire, x, d.Block.BlockTime) {
				lib.Violation(t, prop, test, c, "after step %d: block %d tx %d (expire %d) is expired at height %d time %d", upto, x, i, tx.Expire, x, d.Block.BlockTime)
			}
			if !tx.CheckSign(x) {
				if lib.Known(knownPoolSig) && w.inPoolHistory(tx) {
					toleratedKnown = true
					continue
				}
				lib.Violation(t, prop, test, c, "after step %d: block %d tx %d (%x) does not carry a valid signature", upto, x, i, tx.Hash())
			}
			if tx.ChainID != w.cfg.GetChainID() {
				lib.Violation(t, prop, test, c, "after step %d: block %d tx %d has chain id %d", upto, x, i, tx.ChainID)
			}
			// fee rule (types/tx.go): a single transaction pays at least the size-based minimum; in a group the head pays
			// at least the sum of the members' minimums and the other members carry fee 0
			if minFee > 0 {
				need := int64(types.Size(tx)/1000+1) * minFee
				if n := int(tx.GroupCount); n >= 2 {
					need = 0
					if bytes.Equal(tx.Header, tx.Hash()) && i+n <= len(d.Block.Txs) {
						for _, m := range d.Block.Txs[i : i+n] {
							need += int64(types.Size(m)/1000+1) * minFee
						}
					}
				}
				if tx.Fee < need {
					lib.Violation(t, prop, test, c, "after step %d: block %d tx %d pays fee %d below the minimum %d", upto, x, i, tx.Fee, need)
				}
			}
		}
	}
	return
}

var everPooled = map[string]bool{}

func (w *world) inPoolHistory(tx *types.Transaction) bool { return everPooled[string(tx.Hash())] }

func genSpecs(t *rapid.T, allowInvalid bool) []txSpec {
	n := rapid.IntRange(1, 4).Draw(t, "ntx")
	var out []txSpec
	for i := 0; i < n; i++ {
		var kind string
		if allowInvalid && rapid.IntRange(0, 2).Draw(t, "adversarial") == 0 {
			kind = rapid.SampledFrom(append(append([]string{}, insertKinds...), execKinds...)).Draw(t, "kind")
		} else {
			kind = rapid.SampledFrom([]string{"fresh", "fresh", "fromPool", "txHeightIn"}).Draw(t, "kind")
		}
		out = append(out, txSpec{Kind: kind, Ref: rapid.IntRange(0, 999).Draw(t, "ref"), To: rapid.IntRange(0, 5).Draw(t, "to")})
	}
	return out
}

func genCase(t *rapid.T) caseSpec {
	var c caseSpec
	n := rapid.IntRange(2, 7).Draw(t, "steps")
	for i := 0; i < n; i++ {
		switch rapid.SampledFrom([]string{"pool", "block", "block", "block", "reorg"}).Draw(t, "op") {
		case "pool":
			c.Steps = append(c.Steps, step{Op: "pool", N: rapid.IntRange(1, 3).Draw(t, "n")})
		case "block":
			c.Steps = append(c.Steps, step{Op: "block", Txs: genSpecs(t, true)})
		case "reorg":
			c.Steps = append(c.Steps, step{Op: "reorg", Deep: rapid.IntRange(1, 2).Draw(t, "deep"), Txs: genSpecs(t, true)})
		}
	}
	return c
}

type outcome struct {
	adversarial, rejectedOK, reorgs, repooled int
	tolerated                                 bool
}

func runCase(t lib.TB, test string, c caseSpec) outcome {
	setup()
	var o outcome
	w := &world{f: chainfix.NewNode()}
	defer w.f.Close()
	w.cfg = w.f.Cfg
	for _, b := range trunk {
		if _, _, err := w.f.Deliver(b, "good", false); err != nil {
			lib.Inconclusive("follower rejected trunk: %v", err)
		}
		w.chain = append(w.chain, b)
	}
	deliver := func(b *types.Block, invalid bool, si int, kinds []string) bool {
		_, err := w.f.GetBlockChain().ProcAddBlockMsg(si%2 == 0, &types.BlockDetail{Block: types.Clone(b).(*types.Block)}, fmt.Sprintf("peer%d", si))
		_, tip := w.f.Tip()
		accepted := bytes.Equal(tip, b.Hash(w.cfg))
		if invalid {
			o.adversarial++
			if !accepted {
				o.rejectedOK++
				w.noteRefused(b)
			}
		} else if !accepted && !hasKind(kinds, "rejAgain") {
			// (a block re-offering a transaction of an earlier refused block is not asserted to be accepted: whether that
			// transaction is still executable is not the harness's to predict; the chain scan judges what was accepted)
			lib.Violation(t, prop, test, c, "step %d: an honest valid block %v was not accepted as the new tip (err=%v)", si, kinds, err)
		}
		return accepted
	}
	for si, s := range c.Steps {
		switch s.Op {
		case "pool":
			for i := 0; i < s.N; i++ {
				tx := w.freshTx(i)
				if _, err := w.f.GetAPI().SendTx(tx); err != nil {
					lib.Inconclusive("follower pool refused a valid transaction: %v", err)
				}
				w.pool = append(w.pool, tx)
				everPooled[string(tx.Hash())] = true
			}
		case "block":
			b, invalid, kinds := w.makeBlock(w.tip(), s.Txs, 0x1f00ffff)
			if deliver(b, invalid, si, kinds) {
				w.chain = append(w.chain, b)
			}
		case "reorg":
			// replace the last Deep blocks (never the shared trunk) by a heavier branch; its last block follows the recipe
			deep := s.Deep
			if deep > len(w.chain)-trunkLen {
				deep = len(w.chain) - trunkLen
			}
			if deep <= 0 {
				continue
			}
			base := len(w.chain) - deep
			parent := w.chain[base-1]
			old := w.chain[base:]
			w.chain = w.chain[:base]
			var nb []*types.Block
			ok := true
			for d := 0; d < deep+1 && ok; d++ {
				specs := []txSpec{{Kind: "fresh", To: d}}
				if d == deep {
					specs = s.Txs
				}
				b, invalid, kinds := w.makeBlock(parent, specs, 0x1e00ffff)
				_, _ = w.f.GetBlockChain().ProcAddBlockMsg(false, &types.BlockDetail{Block: types.Clone(b).(*types.Block)}, "fork")
				if invalid {
					o.adversarial++
					_, tip := w.f.Tip()
					if !bytes.Equal(tip, b.Hash(w.cfg)) {
						o.rejectedOK++
						ok = false
						break
					}
				}
				_ = kinds
				nb = append(nb, b)
				w.chain = append(w.chain, b)
				parent = b
			}
			// what does the follower consider its chain now? (the heavier branch as far as it was valid)
			h, tip := w.f.Tip()
			if int(h) == len(w.chain) && bytes.Equal(tip, w.tip().Hash(w.cfg)) {
				o.reorgs++
				// transactions of the replaced blocks went back to the pool
				for _, ob := range old {
					for _, tx := range ob.Txs {
						w.pool = append(w.pool, tx)
						everPooled[string(tx.Hash())] = true
						o.repooled++
					}
				}
			} else {
				// resynchronise the harness view with the node
				w.chain = w.chain[:base]
				w.chain = append(w.chain, old...)
				for len(w.chain) > 0 && !bytes.Equal(w.mustHash(int64(len(w.chain))), w.tip().Hash(w.cfg)) {
					w.chain = w.chain[:len(w.chain)-1]
				}
				for _, b := range nb {
					if int64(len(w.chain)) < h && bytes.Equal(w.mustHash(b.Height), b.Hash(w.cfg)) {
						w.chain = append(w.chain, b)
					}
				}
			}
		}
		if w.scan(t, test, c, si) {
			o.tolerated = true
		}
	}
	return o
}

func (w *world) mustHash(h int64) []byte {
	hash, err := w.f.GetBlockChain().GetStore().GetBlockHashByHeight(h)
	if err != nil {
		return nil
	}
	return hash
}

func TestPropChainValidity(t *testing.T) {
	defer lib.Flush()
	rapid.Check(t, func(t *rapid.T) {
		c := genCase(t)
		lib.Eval()
		o := runCase(t, "TestPropChainValidity", c)
		lib.ClassN("group_head_id_decodes_as_protobuf", craftedHeads)
		craftedHeads = 0
		if o.adversarial > 0 {
			lib.Class("adversarial_block")
		}
		if o.reorgs > 0 {
			lib.Class("reorg")
		}
		if o.repooled > 0 {
			lib.Class("tx_returned_to_pool")
		}
		if o.tolerated {
			lib.Class("tolerated_known")
			lib.ExcludedKnown(knownPoolSig)
		}
		if o.adversarial > 0 || o.repooled > 0 {
			lib.NonTrivialCase(c)
		}
	})
}

// ---- TxHeight window under generated node configuration ----

// pickReplay: two times out of three one of the two oldest candidates (so that replays reach the end of a window), else any
func pickReplay(cands []*types.Transaction, s txSpec) *types.Transaction {
	if s.To%3 != 0 && len(cands) > 2 {
		return cands[s.Ref%2]
	}
	return cands[s.Ref%len(cands)]
}

type winCase struct {
	NoneRollback bool       `json:"noneRollback"` // consensus.noneRollback (chains whose consensus never reorganises)
	High         int64      `json:"high"`         // blockchain.highAllowPackHeight
	Low          int64      `json:"low"`          // blockchain.lowAllowPackHeight
	Blocks       [][]txSpec `json:"blocks"`
}

func genWinCase(t *rapid.T) winCase {
	c := winCase{NoneRollback: rapid.Bool().Draw(t, "noneRollback"), High: int64(rapid.IntRange(3, 6).Draw(t, "high")), Low: int64(rapid.IntRange(2, 4).Draw(t, "low"))}
	n := int(c.High+c.Low) + rapid.IntRange(2, 6).Draw(t, "extra")
	for i := 0; i < n; i++ {
		var specs []txSpec
		k := rapid.IntRange(1, 3).Draw(t, "ntx")
		for j := 0; j < k; j++ {
			kind := rapid.SampledFrom([]string{"fresh", "txHeightIn", "txHeightIn", "replayTxHeight", "replayTxHeight", "txHeightOut", "dupChain", "group", "dupSame", "groupExpiredMember", "rejSwapPubkey", "rejBadSig"}).Draw(t, "kind")
			specs = append(specs, txSpec{Kind: kind, Ref: rapid.IntRange(0, 999).Draw(t, "ref"), To: rapid.IntRange(0, 5).Draw(t, "to")})
		}
		c.Blocks = append(c.Blocks, specs)
	}
	return c
}

func runWinCase(t lib.TB, test string, c winCase) (replayInWindow, replayAtEdge, replayAfter, adversarial, rejected int) {
	oldLow, oldHigh := refLow, refHigh
	gLow, gHigh := types.LowAllowPackHeight, types.HighAllowPackHeight
	defer func() {
		refLow, refHigh = oldLow, oldHigh
		types.LowAllowPackHeight, types.HighAllowPackHeight = gLow, gHigh
	}()
	refLow, refHigh = c.Low, c.High
	opt := func(cfg *types.Chain33Config) {
		m := cfg.GetModuleConfig()
		m.BlockChain.HighAllowPackHeight, m.BlockChain.LowAllowPackHeight = c.High, c.Low
		m.Consensus.NoneRollback = c.NoneRollback
	}
	w := &world{b: chainfix.NewBuilder(opt)}
	defer w.b.N.Close()
	w.f = chainfix.NewNode(opt)
	defer w.f.Close()
	w.cfg = w.f.Cfg
	if types.HighAllowPackHeight != c.High || types.LowAllowPackHeight != c.Low {
		lib.Inconclusive("node did not take the configured TxHeight window (%d/%d)", types.LowAllowPackHeight, types.HighAllowPackHeight)
	}
	parent := w.f.Genesis()
	for bi, specs := range c.Blocks {
		// classification: where in its window does a replayed transaction stand at this height?
		height := parent.Height + 1
		for _, s := range specs {
			if s.Kind != "replayTxHeight" {
				continue
			}
			var cands []*types.Transaction
			for _, b := range w.chain {
				for _, tx := range b.Txs {
					if tx.Expire > 1<<62 {
						cands = append(cands, tx)
					}
				}
			}
			if len(cands) == 0 {
				continue
			}
			th := pickReplay(cands, s).Expire - 1<<62
			switch {
			case height == th+c.High:
				replayAtEdge++
			case height > th+c.High:
				replayAfter++
			default:
				replayInWindow++
			}
		}
		b, invalid, kinds := w.makeBlock(parent, specs, 0x1f00ffff)
		_, err := w.f.GetBlockChain().ProcAddBlockMsg(bi%2 == 0, &types.BlockDetail{Block: types.Clone(b).(*types.Block)}, fmt.Sprintf("peer%d", bi))
		_, tip := w.f.Tip()
		accepted := bytes.Equal(tip, b.Hash(w.cfg))
		if invalid {
			adversarial++
			if !accepted {
				rejected++
				w.noteRefused(b)
			}
		} else if !accepted {
			lib.Violation(t, prop, test, c, "block %d: an honest valid block %v was not accepted as the new tip (err=%v)", bi, kinds, err)
		}
		if accepted {
			w.chain = append(w.chain, b)
			parent = b
		}
		w.scan(t, test, map[string]interface{}{"case": c}, bi)
	}
	return
}

// TestPropTxHeightWindow: the replay / expiry clauses under generated node configuration -- the TxHeight window
// (blockchain.lowAllowPackHeight / highAllowPackHeight, set small so that a short chain crosses both ends of a
// transaction's window) and consensus.noneRollback. Transactions with a TxHeight expiry are de-duplicated through the
// in-memory window cache only, so replays of them are offered at every height up to and beyond the end of the window.
func TestPropTxHeightWindow(t *testing.T) {
	defer lib.Flush()
	rapid.Check(t, func(t *rapid.T) {
		c := genWinCase(t)
		lib.Eval()
		in, edge, after, adv, rej := runWinCase(t, "TestPropTxHeightWindow", c)
		lib.ClassN("group_head_id_decodes_as_protobuf", craftedHeads)
		craftedHeads = 0
		lib.ClassN("replay_inside_window", in)
		lib.ClassN("replay_at_last_height_of_window", edge)
		lib.ClassN("replay_after_window", after)
		lib.ClassN("adversarial_block", adv)
		lib.ClassN("adversarial_block_rejected", rej)
		if c.NoneRollback {
			lib.Class("noneRollback")
		}
		if in+edge+after > 0 {
			lib.NonTrivialCase(c)
		}
	})
}

// TestKnown_PoolHashHitSkipsSignature: a transaction is in the follower's pool; a peer block carries the same signed
// content under another account's public key (never signed by that account).
func TestKnown_PoolHashHitSkipsSignature(t *testing.T) {
	defer lib.Flush()
	c := caseSpec{Steps: []step{{Op: "pool", N: 1}, {Op: "block", Txs: []txSpec{{Kind: "poolSwapPubkey"}}}}}
	setup()
	w := &world{f: chainfix.NewNode()}
	defer w.f.Close()
	w.cfg = w.f.Cfg
	for _, b := range trunk {
		if _, _, err := w.f.Deliver(b, "good", false); err != nil {
			lib.Inconclusive("follower rejected trunk: %v", err)
		}
		w.chain = append(w.chain, b)
	}
	tx := w.freshTx(2)
	if _, err := w.f.GetAPI().SendTx(tx); err != nil {
		lib.Inconclusive("pool refused: %v", err)
	}
	w.pool = append(w.pool, tx)
	b, _, _ := w.makeBlock(w.tip(), c.Steps[1].Txs, 0x1f00ffff)
	_, err := w.f.GetBlockChain().ProcAddBlockMsg(true, &types.BlockDetail{Block: types.Clone(b).(*types.Block)}, "producer")
	_, tip := w.f.Tip()
	if bytes.Equal(tip, b.Hash(w.cfg)) {
		bad := 0
		for _, x := range b.Txs {
			if !x.CheckSign(b.Height) {
				bad++
			}
		}
		if bad > 0 {
			lib.KnownOrViolation(t, prop, "TestKnown_PoolHashHitSkipsSignature", knownPoolSig, c,
				fmt.Sprintf("a peer block containing a transaction whose id equals a pooled transaction but whose public key was replaced by another account's (signature does not verify) was accepted as the tip (err=%v): signature verification is skipped for transactions whose id is found in the pool", err))
		}
	}
}
