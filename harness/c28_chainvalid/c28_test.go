// C28: the best chain never holds a replayed, expired or mis-signed transaction, however a block arrived.
// Generated histories against a follower node: transactions offered to its pool, honest blocks, and blocks of an
// *adversarial producer* who computes a state root over exactly the transactions a careless verifier would execute
// (so that only the transaction-level checks can reject the block), reorganisations that return transactions to the
// pool. After every step the follower's whole best chain is scanned with an oracle written from the property text.
package c28

import (
	"bytes"
	"fmt"
	"testing"

	"github.com/33cn/chain33/common/merkle"
	"github.com/33cn/chain33/types"
	"pgregory.net/rapid"
	"verifharness/chainfix"
	"verifharness/lib"
)

const prop = "C28"
const knownPoolSig = "C28-pool-hash-hit-skips-signature-check"

func TestMain(m *testing.M) { lib.Main(m) }

// txSpec describes one transaction of a block by construction recipe.
type txSpec struct {
	Kind string `json:"kind"`
	Ref  int    `json:"ref"` // index into the pool / chain / earlier tx list, modulo its length
	To   int    `json:"to"`
}

type step struct {
	Op   string   `json:"op"`             // "pool", "block", "reorg"
	Txs  []txSpec `json:"txs,omitempty"`  // for block / reorg tip block
	N    int      `json:"n,omitempty"`    // pool: how many txs
	Deep int      `json:"deep,omitempty"` // reorg: how many tip blocks to replace (1..2)
}

type caseSpec struct {
	Steps []step `json:"steps"`
}

// kinds the builder executes as part of the state (a careless verifier would execute them too) ...
var execKinds = []string{"fresh", "fresh", "fromPool", "dupChain", "badSig", "poolBadSig", "poolSwapPubkey", "txHeightIn"}

// ... and kinds the executor itself refuses (inserted into the body after the state root was computed)
var insertKinds = []string{"dupSame", "expiredHeight", "expiredTime", "wrongChain", "lowFee", "txHeightOut"}

const trunkLen = 11

var (
	builder *chainfix.Builder
	trunk   []*types.Block
	nonce   int64 = 5000000
)

func setup() {
	if builder != nil {
		return
	}
	builder = chainfix.NewBuilder()
	cfg := builder.N.Cfg
	parent := builder.N.Genesis()
	keys := chainfix.Keys()
	for i := 0; i < trunkLen; i++ {
		nonce++
		// fund every key on the trunk so that any of them can pay fees later
		tx := chainfix.TransferTx(cfg, keys[1], chainfix.Addr(keys[i%len(keys)]), 1000e8, nonce)
		b, err := builder.Child(parent, []*types.Transaction{tx}, 0x1f00ffff, parent.BlockTime+10)
		if err != nil {
			lib.Inconclusive("builder trunk: %v", err)
		}
		trunk = append(trunk, b)
		parent = b
	}
}

// independent re-statement of the expiry rule (types/tx.go documents: 0 never expires; <= 1e9 is a height and the tx
// is valid while expire > height; > 2^62 is a TxHeight valid for [txHeight-200, txHeight+600]; otherwise a unix time
// valid while expire > blocktime).
func expiredRef(expire, height, blocktime int64) bool {
	switch {
	case expire == 0:
		return false
	case expire <= 1e9:
		return expire <= height
	case expire > 1<<62:
		th := expire - 1<<62
		return !(th-200 <= height && height <= th+600)
	default:
		return expire <= blocktime
	}
}

type world struct {
	f     *chainfix.Node
	cfg   *types.Chain33Config
	chain []*types.Block // follower's best chain as the harness believes it (index = height-1)
	pool  []*types.Transaction
}

func (w *world) tip() *types.Block { return w.chain[len(w.chain)-1] }

func (w *world) freshTx(to int) *types.Transaction {
	nonce++
	keys := chainfix.Keys()
	return chainfix.TransferTx(w.cfg, keys[1+int(nonce)%2*2], chainfix.Addr(keys[to%len(keys)]), 1e8, nonce)
}

// resign replaces signature material without touching the signed content.
func cloneTx(tx *types.Transaction) *types.Transaction { return types.Clone(tx).(*types.Transaction) }

// makeBlock builds a block on parent following the adversarial-producer recipe. Returns the block and whether the
// recipe contains a transaction that must not be on a valid chain (so the follower must reject the block).
func (w *world) makeBlock(parent *types.Block, specs []txSpec, bits uint32) (*types.Block, bool, []string) {
	cfg := w.cfg
	keys := chainfix.Keys()
	var exec, insert []*types.Transaction
	var kinds []string
	invalid := false
	height := parent.Height + 1
	onChain := func() []*types.Transaction {
		var all []*types.Transaction
		for _, b := range w.chain {
			if b.Height <= parent.Height {
				all = append(all, b.Txs...)
			}
		}
		return all
	}
	for _, s := range specs {
		switch s.Kind {
		case "fresh":
			exec = append(exec, w.freshTx(s.To))
		case "fromPool":
			if len(w.pool) == 0 {
				continue
			}
			exec = append(exec, cloneTx(w.pool[s.Ref%len(w.pool)]))
		case "dupChain":
			all := onChain()
			exec = append(exec, cloneTx(all[s.Ref%len(all)]))
			invalid = true
		case "badSig":
			tx := w.freshTx(s.To)
			tx.Signature.Signature[len(tx.Signature.Signature)-2] ^= 0x10
			exec = append(exec, tx)
			invalid = true
		case "poolBadSig":
			if len(w.pool) == 0 {
				continue
			}
			tx := cloneTx(w.pool[s.Ref%len(w.pool)])
			tx.Signature.Signature[len(tx.Signature.Signature)-2] ^= 0x10
			exec = append(exec, tx)
			invalid = true
		case "poolSwapPubkey":
			if len(w.pool) == 0 {
				continue
			}
			// same signed content as a pooled transaction (so the same transaction id), but presented as coming from
			// another account: that account never signed it
			tx := cloneTx(w.pool[s.Ref%len(w.pool)])
			victim := keys[0].PubKey().Bytes()
			if bytes.Equal(tx.Signature.Pubkey, victim) {
				victim = keys[3].PubKey().Bytes()
			}
			tx.Signature.Pubkey = victim
			exec = append(exec, tx)
			invalid = true
		case "txHeightIn":
			tx := w.freshTx(s.To)
			tx.Expire = 1<<62 + height + int64(s.Ref%150)
			tx.Sign(types.SECP256K1, keys[1])
			exec = append(exec, tx)
		case "dupSame":
			insert = append(insert, nil) // resolved below: duplicate of the first executed tx
			invalid = true
		case "expiredHeight":
			tx := w.freshTx(s.To)
			tx.Expire = height - int64(s.Ref%3) // expire <= height
			if tx.Expire <= 0 {
				tx.Expire = 1
			}
			tx.Sign(types.SECP256K1, keys[1])
			insert = append(insert, tx)
			exec = append(exec, tx)
			invalid = true
		case "expiredTime":
			tx := w.freshTx(s.To)
			tx.Expire = parent.BlockTime - int64(s.Ref%100) // unix time not after the block time
			tx.Sign(types.SECP256K1, keys[1])
			insert = append(insert, tx)
			exec = append(exec, tx)
			invalid = true
		case "wrongChain":
			tx := w.freshTx(s.To)
			tx.ChainID = cfg.GetChainID() + 1
			tx.Sign(types.SECP256K1, keys[1])
			insert = append(insert, tx)
			exec = append(exec, tx)
			invalid = true
		case "lowFee":
			tx := w.freshTx(s.To)
			tx.Fee = int64(s.Ref % 1000)
			tx.Sign(types.SECP256K1, keys[1])
			insert = append(insert, tx)
			exec = append(exec, tx)
			invalid = true
		case "txHeightOut":
			tx := w.freshTx(s.To)
			tx.Expire = 1<<62 + height + 201 + int64(s.Ref%500) // window starts above this height
			tx.Sign(types.SECP256K1, keys[1])
			insert = append(insert, tx)
			exec = append(exec, tx)
			invalid = true
		}
		kinds = append(kinds, s.Kind)
	}
	keepable := 0
	for _, tx := range exec {
		own := false
		for _, ins := range insert {
			if ins == tx {
				own = true
			}
		}
		if !own {
			keepable++
		}
	}
	if keepable == 0 {
		// at least one transaction the executor will keep, otherwise the producer cannot build a block at all
		exec = append(exec, w.freshTx(0))
		kinds = append(kinds, "fresh")
	}
	// in-block duplicates by accident (same pool tx picked twice), and pooled transactions that are already on this
	// branch (the harness keeps them in its pool list after inclusion), make the block invalid too
	seen := map[string]bool{}
	for _, tx := range onChain() {
		seen[string(tx.Hash())] = true
	}
	for _, tx := range exec {
		if seen[string(tx.Hash())] {
			invalid = true
		}
		seen[string(tx.Hash())] = true
	}
	blk, err := builder.Child(parent, exec, bits, parent.BlockTime+10)
	if err != nil {
		lib.Inconclusive("builder: %v", err)
	}
	if len(insert) > 0 {
		// The producer first offers these transactions to its own executor (above): a verifier whose checks are
		// broken would execute them, and then the state root must account for them. Whatever the executor dropped
		// is put back into the body afterwards, so that an intact verifier meets it and must reject the block.
		kept := map[string]bool{}
		for _, tx := range blk.Txs {
			kept[string(tx.FullHash())] = true
		}
		changed := false
		for _, tx := range insert {
			if tx == nil {
				tx = cloneTx(blk.Txs[0])
			} else if kept[string(tx.FullHash())] {
				continue
			}
			blk.Txs = append(blk.Txs, tx)
			changed = true
		}
		if changed {
			blk.Txs = types.TransactionSort(blk.Txs)
			blk.TxHash = merkle.CalcMerkleRoot(cfg, blk.Height, blk.Txs)
		}
	}
	return blk, invalid, kinds
}

// scan is the oracle: every transaction of every block of the follower's best chain.
func (w *world) scan(t lib.TB, test string, c caseSpec, upto int) (toleratedKnown bool) {
	h, _ := w.f.Tip()
	seen := map[string]int64{}
	minFee := w.cfg.GetMinTxFeeRate()
	for x := int64(1); x <= h; x++ {
		d, err := w.f.GetBlockChain().GetBlock(x)
		if err != nil {
			lib.Violation(t, prop, test, c, "best chain block %d unreadable: %v", x, err)
		}
		for i, tx := range d.Block.Txs {
			id := string(tx.Hash())
			if prev, ok := seen[id]; ok {
				lib.Violation(t, prop, test, c, "after step %d: transaction %x is on the best chain twice (heights %d and %d)", upto, tx.Hash(), prev, x)
			}
			seen[id] = x
			if expiredRef(tx.Expire, x, d.Block.BlockTime) {
				lib.Violation(t, prop, test, c, "after step %d: block %d tx %d (expire %d) is expired at height %d time %d", upto, x, i, tx.Expire, x, d.Block.BlockTime)
			}
			if !tx.CheckSign(x) {
				if lib.Known(knownPoolSig) && w.inPoolHistory(tx) {
					toleratedKnown = true
					continue
				}
				lib.Violation(t, prop, test, c, "after step %d: block %d tx %d (%x) does not carry a valid signature", upto, x, i, tx.Hash())
			}
			if tx.ChainID != w.cfg.GetChainID() {
				lib.Violation(t, prop, test, c, "after step %d: block %d tx %d has chain id %d", upto, x, i, tx.ChainID)
			}
			if minFee > 0 && tx.Fee < int64(types.Size(tx)/1000+1)*minFee {
				lib.Violation(t, prop, test, c, "after step %d: block %d tx %d pays fee %d below the minimum", upto, x, i, tx.Fee)
			}
		}
	}
	return
}

var everPooled = map[string]bool{}

func (w *world) inPoolHistory(tx *types.Transaction) bool { return everPooled[string(tx.Hash())] }

func genSpecs(t *rapid.T, allowInvalid bool) []txSpec {
	n := rapid.IntRange(1, 4).Draw(t, "ntx")
	var out []txSpec
	for i := 0; i < n; i++ {
		var kind string
		if allowInvalid && rapid.IntRange(0, 2).Draw(t, "adversarial") == 0 {
			kind = rapid.SampledFrom(append(append([]string{}, insertKinds...), execKinds...)).Draw(t, "kind")
		} else {
			kind = rapid.SampledFrom([]string{"fresh", "fresh", "fromPool", "txHeightIn"}).Draw(t, "kind")
		}
		out = append(out, txSpec{Kind: kind, Ref: rapid.IntRange(0, 999).Draw(t, "ref"), To: rapid.IntRange(0, 5).Draw(t, "to")})
	}
	return out
}

func genCase(t *rapid.T) caseSpec {
	var c caseSpec
	n := rapid.IntRange(2, 7).Draw(t, "steps")
	for i := 0; i < n; i++ {
		switch rapid.SampledFrom([]string{"pool", "block", "block", "block", "reorg"}).Draw(t, "op") {
		case "pool":
			c.Steps = append(c.Steps, step{Op: "pool", N: rapid.IntRange(1, 3).Draw(t, "n")})
		case "block":
			c.Steps = append(c.Steps, step{Op: "block", Txs: genSpecs(t, true)})
		case "reorg":
			c.Steps = append(c.Steps, step{Op: "reorg", Deep: rapid.IntRange(1, 2).Draw(t, "deep"), Txs: genSpecs(t, true)})
		}
	}
	return c
}

type outcome struct {
	adversarial, rejectedOK, reorgs, repooled int
	tolerated                                 bool
}

func runCase(t lib.TB, test string, c caseSpec) outcome {
	setup()
	var o outcome
	w := &world{f: chainfix.NewNode()}
	defer w.f.Close()
	w.cfg = w.f.Cfg
	for _, b := range trunk {
		if _, _, err := w.f.Deliver(b, "good", false); err != nil {
			lib.Inconclusive("follower rejected trunk: %v", err)
		}
		w.chain = append(w.chain, b)
	}
	deliver := func(b *types.Block, invalid bool, si int, kinds []string) bool {
		_, err := w.f.GetBlockChain().ProcAddBlockMsg(si%2 == 0, &types.BlockDetail{Block: types.Clone(b).(*types.Block)}, fmt.Sprintf("peer%d", si))
		_, tip := w.f.Tip()
		accepted := bytes.Equal(tip, b.Hash(w.cfg))
		if invalid {
			o.adversarial++
			if !accepted {
				o.rejectedOK++
			}
		} else if !accepted {
			lib.Violation(t, prop, test, c, "step %d: an honest valid block %v was not accepted as the new tip (err=%v)", si, kinds, err)
		}
		return accepted
	}
	for si, s := range c.Steps {
		switch s.Op {
		case "pool":
			for i := 0; i < s.N; i++ {
				tx := w.freshTx(i)
				if _, err := w.f.GetAPI().SendTx(tx); err != nil {
					lib.Inconclusive("follower pool refused a valid transaction: %v", err)
				}
				w.pool = append(w.pool, tx)
				everPooled[string(tx.Hash())] = true
			}
		case "block":
			b, invalid, kinds := w.makeBlock(w.tip(), s.Txs, 0x1f00ffff)
			if deliver(b, invalid, si, kinds) {
				w.chain = append(w.chain, b)
			}
		case "reorg":
			// replace the last Deep blocks (never the shared trunk) by a heavier branch; its last block follows the recipe
			deep := s.Deep
			if deep > len(w.chain)-trunkLen {
				deep = len(w.chain) - trunkLen
			}
			if deep <= 0 {
				continue
			}
			base := len(w.chain) - deep
			parent := w.chain[base-1]
			old := w.chain[base:]
			w.chain = w.chain[:base]
			var nb []*types.Block
			ok := true
			for d := 0; d < deep+1 && ok; d++ {
				specs := []txSpec{{Kind: "fresh", To: d}}
				if d == deep {
					specs = s.Txs
				}
				b, invalid, kinds := w.makeBlock(parent, specs, 0x1e00ffff)
				_, _ = w.f.GetBlockChain().ProcAddBlockMsg(false, &types.BlockDetail{Block: types.Clone(b).(*types.Block)}, "fork")
				if invalid {
					o.adversarial++
					_, tip := w.f.Tip()
					if !bytes.Equal(tip, b.Hash(w.cfg)) {
						o.rejectedOK++
						ok = false
						break
					}
				}
				_ = kinds
				nb = append(nb, b)
				w.chain = append(w.chain, b)
				parent = b
			}
			// what does the follower consider its chain now? (the heavier branch as far as it was valid)
			h, tip := w.f.Tip()
			if int(h) == len(w.chain) && bytes.Equal(tip, w.tip().Hash(w.cfg)) {
				o.reorgs++
				// transactions of the replaced blocks went back to the pool
				for _, ob := range old {
					for _, tx := range ob.Txs {
						w.pool = append(w.pool, tx)
						everPooled[string(tx.Hash())] = true
						o.repooled++
					}
				}
			} else {
				// resynchronise the harness view with the node
				w.chain = w.chain[:base]
				w.chain = append(w.chain, old...)
				for len(w.chain) > 0 && !bytes.Equal(w.mustHash(int64(len(w.chain))), w.tip().Hash(w.cfg)) {
					w.chain = w.chain[:len(w.chain)-1]
				}
				for _, b := range nb {
					if int64(len(w.chain)) < h && bytes.Equal(w.mustHash(b.Height), b.Hash(w.cfg)) {
						w.chain = append(w.chain, b)
					}
				}
			}
		}
		if w.scan(t, test, c, si) {
			o.tolerated = true
		}
	}
	return o
}

func (w *world) mustHash(h int64) []byte {
	hash, err := w.f.GetBlockChain().GetStore().GetBlockHashByHeight(h)
	if err != nil {
		return nil
	}
	return hash
}

func TestPropChainValidity(t *testing.T) {
	defer lib.Flush()
	rapid.Check(t, func(t *rapid.T) {
		c := genCase(t)
		lib.Eval()
		o := runCase(t, "TestPropChainValidity", c)
		if o.adversarial > 0 {
			lib.Class("adversarial_block")
		}
		if o.reorgs > 0 {
			lib.Class("reorg")
		}
		if o.repooled > 0 {
			lib.Class("tx_returned_to_pool")
		}
		if o.tolerated {
			lib.Class("tolerated_known")
			lib.ExcludedKnown(knownPoolSig)
		}
		if o.adversarial > 0 || o.repooled > 0 {
			lib.NonTrivialCase(c)
		}
	})
}

// TestKnown_PoolHashHitSkipsSignature: a transaction is in the follower's pool; a peer block carries the same signed
// content under another account's public key (never signed by that account).
func TestKnown_PoolHashHitSkipsSignature(t *testing.T) {
	defer lib.Flush()
	c := caseSpec{Steps: []step{{Op: "pool", N: 1}, {Op: "block", Txs: []txSpec{{Kind: "poolSwapPubkey"}}}}}
	setup()
	w := &world{f: chainfix.NewNode()}
	defer w.f.Close()
	w.cfg = w.f.Cfg
	for _, b := range trunk {
		if _, _, err := w.f.Deliver(b, "good", false); err != nil {
			lib.Inconclusive("follower rejected trunk: %v", err)
		}
		w.chain = append(w.chain, b)
	}
	tx := w.freshTx(2)
	if _, err := w.f.GetAPI().SendTx(tx); err != nil {
		lib.Inconclusive("pool refused: %v", err)
	}
	w.pool = append(w.pool, tx)
	b, _, _ := w.makeBlock(w.tip(), c.Steps[1].Txs, 0x1f00ffff)
	_, err := w.f.GetBlockChain().ProcAddBlockMsg(true, &types.BlockDetail{Block: types.Clone(b).(*types.Block)}, "producer")
	_, tip := w.f.Tip()
	if bytes.Equal(tip, b.Hash(w.cfg)) {
		bad := 0
		for _, x := range b.Txs {
			if !x.CheckSign(b.Height) {
				bad++
			}
		}
		if bad > 0 {
			lib.KnownOrViolation(t, prop, "TestKnown_PoolHashHitSkipsSignature", knownPoolSig, c,
				fmt.Sprintf("a peer block containing a transaction whose id equals a pooled transaction but whose public key was replaced by another account's (signature does not verify) was accepted as the tip (err=%v): signature verification is skipped for transactions whose id is found in the pool", err))
		}
	}
}
