// C08: the layered local database (common/db LocalDB, and the same object driven through the blockchain's
// EventLocal* handlers) against a three-layer map model: open-transaction overlay, committed overlay, base.
//
// Oracle, derived from the property text:
//   - a read returns the newest write visible from the open transaction, then the committed overlay, then the base;
//   - writing an empty value hides older values (the key reads as not-found and disappears from List / PrefixCount);
//   - Rollback discards exactly the open transaction's writes, Commit keeps them (moves them to the committed overlay);
//   - List and PrefixCount agree with point reads at every step: List(prefix,from,count,dir) is the sequence of
//     visible entries with that prefix in key order (ascending / descending), strictly after `from`, cut at count;
//     PrefixCount is their number;
//   - Begin while a transaction is open discards the open transaction's writes (what the code documents and what
//     executor.LocalDB.Begin relies on);
//   - the base database is never written (localdb_test.go: "localdb 不会往 maindb 写数据").
package c08

import (
	"bytes"
	"fmt"
	"os"
	"sort"
	"strings"
	"sync"
	"sync/atomic"
	"testing"

	"github.com/33cn/chain33/client"
	dbm "github.com/33cn/chain33/common/db"
	clog "github.com/33cn/chain33/common/log"
	_ "github.com/33cn/chain33/system"
	"github.com/33cn/chain33/types"
	"github.com/33cn/chain33/util/testnode"
	"pgregory.net/rapid"
	"verifharness/lib"
)

const prop = "C08"

func TestMain(m *testing.M) {
	clog.SetLogLevel("crit")
	lib.Main(m)
}

// ---- generated case ---------------------------------------------------------------------------------------------

type op struct {
	Op   string `json:"op"` // begin commit rollback set del get getall list seek count
	K    string `json:"k,omitempty"`
	V    string `json:"v,omitempty"`
	Nil  bool   `json:"nil,omitempty"` // del: write nil instead of []byte{}
	P    string `json:"p,omitempty"`
	From string `json:"from,omitempty"`
	N    int32  `json:"n,omitempty"`
	Dir  int32  `json:"dir,omitempty"`
}

type kase struct {
	Backend string            `json:"backend"` // memdb | leveldb | handlers
	Base    map[string]string `json:"base"`
	Ops     []op              `json:"ops"`
}

// keys share a handful of prefixes; "a0" is the exclusive upper bound of prefix "a/" (boundary of the range scan).
var keySpace = []string{"a/1", "a/2", "a/21", "a/3", "a0", "ab/1", "ab/2", "b/1", "b/2", "b/21"}
var prefixes = []string{"a/", "a/2", "a", "ab/", "b/", "c/"}

func startKeys(p string) []string {
	out := []string{p + "15", p + "9"} // absent keys inside the prefix: between entries / after the last
	for _, k := range keySpace {
		if strings.HasPrefix(k, p) {
			out = append(out, k)
		}
	}
	return out
}

func genCase(t *rapid.T, backends []string) kase {
	c := kase{Backend: rapid.SampledFrom(backends).Draw(t, "backend"), Base: map[string]string{}}
	for _, k := range keySpace {
		if rapid.IntRange(0, 9).Draw(t, "inbase") < 6 {
			c.Base[k] = "base:" + k
		}
	}
	n := rapid.IntRange(6, 40).Draw(t, "nops")
	kinds := []string{"begin", "begin", "begin", "commit", "commit", "rollback", "rollback",
		"set", "set", "set", "set", "set", "del", "del", "del", "get", "get", "getall", "list", "list", "seek", "count"}
	intx := false
	for i := 0; i < n; i++ {
		kind := rapid.SampledFrom(kinds).Draw(t, "kind")
		if kind == "begin" && intx && rapid.IntRange(0, 9).Draw(t, "rebegin") > 0 {
			kind = "set" // Begin inside an open transaction only with low weight
		}
		o := op{Op: kind}
		switch kind {
		case "begin":
			intx = true
		case "commit", "rollback":
			intx = false
		case "set":
			o.K = rapid.SampledFrom(keySpace).Draw(t, "k")
			o.V = fmt.Sprintf("w%d:%s", i, o.K)
		case "del":
			o.K = rapid.SampledFrom(keySpace).Draw(t, "k")
			o.Nil = rapid.Bool().Draw(t, "nil")
		case "get":
			o.K = rapid.SampledFrom(keySpace).Draw(t, "k")
		case "list":
			o.P = rapid.SampledFrom(prefixes).Draw(t, "p")
			if rapid.Bool().Draw(t, "hasfrom") {
				o.From = rapid.SampledFrom(startKeys(o.P)).Draw(t, "from")
			}
			o.N = int32(rapid.SampledFrom([]int{0, 0, 1, 2, 3}).Draw(t, "n"))
			o.Dir = rapid.SampledFrom([]int32{dbm.ListDESC, dbm.ListASC, dbm.ListDESC | dbm.ListWithKey, dbm.ListASC | dbm.ListWithKey,
				dbm.ListDESC | dbm.ListKeyOnly, dbm.ListASC | dbm.ListKeyOnly}).Draw(t, "dir")
		case "seek":
			o.P = rapid.SampledFrom(prefixes).Draw(t, "p")
			o.From = rapid.SampledFrom(startKeys(o.P)).Draw(t, "from")
		case "count":
			o.P = rapid.SampledFrom(prefixes).Draw(t, "p")
		}
		c.Ops = append(c.Ops, o)
	}
	return c
}

// ---- reference model --------------------------------------------------------------------------------------------

type model struct {
	base, committed, tx map[string][]byte // a present empty value is a tombstone
	intx                bool
}

func (m *model) get(k string) ([]byte, bool) {
	if m.intx {
		if v, ok := m.tx[k]; ok {
			return v, len(v) > 0
		}
	}
	if v, ok := m.committed[k]; ok {
		return v, len(v) > 0
	}
	v, ok := m.base[k]
	return v, ok
}

// visible returns the visible keys with the prefix, ascending.
func (m *model) visible(prefix string) []string {
	var ks []string
	for _, k := range keySpace {
		if _, ok := m.get(k); ok && strings.HasPrefix(k, prefix) {
			ks = append(ks, k)
		}
	}
	sort.Strings(ks)
	return ks
}

func (m *model) list(prefix, from string, n, dir int32) [][]byte {
	ks := m.visible(prefix)
	asc := dir&dbm.ListASC != 0
	if !asc {
		sort.Sort(sort.Reverse(sort.StringSlice(ks)))
	}
	var out [][]byte
	for _, k := range ks {
		if from != "" && ((asc && k <= from) || (!asc && k >= from)) {
			continue
		}
		v, _ := m.get(k)
		switch {
		case dir&dbm.ListKeyOnly != 0:
			out = append(out, []byte(k))
		case dir&dbm.ListWithKey != 0:
			out = append(out, types.Encode(&types.KeyValue{Key: []byte(k), Value: v}))
		default:
			out = append(out, v)
		}
		if n > 0 && int32(len(out)) == n {
			break
		}
	}
	return out
}

// seek is List(prefix, from, 1, ListSeek): the greatest visible entry <= from inside the prefix, as [key, value].
func (m *model) seek(prefix, from string) [][]byte {
	ks := m.visible(prefix)
	for i := len(ks) - 1; i >= 0; i-- {
		if ks[i] <= from {
			v, _ := m.get(ks[i])
			return [][]byte{[]byte(ks[i]), v}
		}
	}
	return nil
}

// ---- systems under test -----------------------------------------------------------------------------------------

type sut interface {
	Begin()
	Commit()
	Rollback()
	Set(k, v []byte)
	Get(k []byte) ([]byte, bool)
	List(prefix, from []byte, n, dir int32) [][]byte
	Count(prefix []byte) (int64, bool) // ok=false: not offered by this interface
	BaseDump() map[string]string       // raw content of the base under the case's namespace
	Close()
}

// direct: db.NewLocalDB over a memdb / leveldb base.
type direct struct {
	base dbm.DB
	l    dbm.KVDB
	dir  string
}

func newDirect(backend string, base map[string]string) *direct {
	d := &direct{}
	if backend == "leveldb" {
		dir, err := os.MkdirTemp("", "c08-ldb")
		if err != nil {
			lib.Inconclusive("mkdir temp: %v", err)
		}
		ldb, err := dbm.NewGoLevelDB("c08", dir, 4)
		if err != nil {
			lib.Inconclusive("open leveldb: %v", err)
		}
		d.base, d.dir = ldb, dir
	} else {
		m, _ := dbm.NewGoMemDB("c08", "", 0)
		d.base = m
	}
	for k, v := range base {
		if err := d.base.Set([]byte(k), []byte(v)); err != nil {
			lib.Inconclusive("populate base: %v", err)
		}
	}
	d.l = dbm.NewLocalDB(d.base, false)
	return d
}
func (d *direct) Begin()          { d.l.Begin() }
func (d *direct) Commit()         { _ = d.l.Commit() }
func (d *direct) Rollback()       { d.l.Rollback() }
func (d *direct) Set(k, v []byte) { _ = d.l.Set(k, v) }
func (d *direct) Get(k []byte) ([]byte, bool) {
	v, err := d.l.Get(k)
	return v, err == nil
}
func (d *direct) List(p, from []byte, n, dir int32) [][]byte {
	vs, _ := d.l.List(p, from, n, dir)
	return vs
}
func (d *direct) Count(p []byte) (int64, bool) { return d.l.PrefixCount(p), true }
func (d *direct) BaseDump() map[string]string  { return dump(d.base, nil) }
func (d *direct) Close() {
	d.base.Close()
	if d.dir != "" {
		os.RemoveAll(d.dir)
	}
}

func dump(base dbm.DB, prefix []byte) map[string]string {
	out := map[string]string{}
	var it dbm.Iterator
	if len(prefix) == 0 {
		it = base.Iterator(nil, types.EmptyValue, false) // whole database
	} else {
		it = base.Iterator(prefix, nil, false)
	}
	defer it.Close()
	for it.Rewind(); it.Valid(); it.Next() {
		out[string(it.Key()[len(prefix):])] = string(it.Value())
	}
	return out
}

// handlers: the same LocalDB created, driven and closed through the blockchain module's EventLocal* messages
// (blockchain/localdb.go), as the executor's LocalDB client does. One node per process; every case works in its own
// key namespace of the node's database and its own LocalNew handle, so cases share no state.
var (
	nodeOnce sync.Once
	node     *testnode.Chain33Mock
	nsSeq    int64
)

type handlers struct {
	api  client.QueueProtocolAPI
	base dbm.DB
	ns   string
	txid *types.Int64
}

func newHandlers(base map[string]string) *handlers {
	nodeOnce.Do(func() { node = testnode.New("--free--", nil) })
	h := &handlers{api: node.GetAPI(), base: node.GetBlockChain().GetDB(), ns: fmt.Sprintf("verif-c08/%d/", atomic.AddInt64(&nsSeq, 1))}
	for k, v := range base {
		if err := h.base.Set([]byte(h.ns+k), []byte(v)); err != nil {
			lib.Inconclusive("populate node db: %v", err)
		}
	}
	id, err := h.api.LocalNew(false)
	if err != nil {
		lib.Inconclusive("LocalNew: %v", err)
	}
	h.txid = id
	return h
}
func (h *handlers) must(what string, err error) {
	if err != nil {
		lib.Inconclusive("%s through the queue failed: %v", what, err)
	}
}
func (h *handlers) Begin()    { h.must("LocalBegin", h.api.LocalBegin(h.txid)) }
func (h *handlers) Commit()   { h.must("LocalCommit", h.api.LocalCommit(h.txid)) }
func (h *handlers) Rollback() { h.must("LocalRollback", h.api.LocalRollback(h.txid)) }
func (h *handlers) Set(k, v []byte) {
	h.must("LocalSet", h.api.LocalSet(&types.LocalDBSet{Txid: h.txid.Data, KV: []*types.KeyValue{{Key: append([]byte(h.ns), k...), Value: v}}}))
}
func (h *handlers) Get(k []byte) ([]byte, bool) {
	r, err := h.api.LocalGet(&types.LocalDBGet{Txid: h.txid.Data, Keys: [][]byte{append([]byte(h.ns), k...)}})
	h.must("LocalGet", err)
	if len(r.Values) != 1 || r.Values[0] == nil {
		return nil, false
	}
	return r.Values[0], true
}
func (h *handlers) List(p, from []byte, n, dir int32) [][]byte {
	q := &types.LocalDBList{Txid: h.txid.Data, Prefix: append([]byte(h.ns), p...), Count: n, Direction: dir}
	if len(from) > 0 {
		q.Key = append([]byte(h.ns), from...)
	}
	r, err := h.api.LocalList(q)
	h.must("LocalList", err)
	return r.Values
}
func (h *handlers) Count(p []byte) (int64, bool) { return 0, false } // EventLocalPrefixCount carries no handle
func (h *handlers) BaseDump() map[string]string  { return dump(h.base, []byte(h.ns)) }
func (h *handlers) Close()                       { h.must("LocalClose", h.api.LocalClose(h.txid)) }

// ---- running one case -------------------------------------------------------------------------------------------

type stats struct{ commitW, rollbackW, tombBase, listInTx, rebegin, delNil, readThenWrite bool }

func eqList(a, b [][]byte) bool {
	if len(a) != len(b) {
		return false
	}
	for i := range a {
		if !bytes.Equal(a[i], b[i]) {
			return false
		}
	}
	return true
}

func show(vs [][]byte) string {
	var s []string
	for _, v := range vs {
		s = append(s, fmt.Sprintf("%q", v))
	}
	return "[" + strings.Join(s, " ") + "]"
}

func runCase(t lib.TB, test string, c kase) (st stats) {
	var s sut
	if c.Backend == "handlers" {
		s = newHandlers(c.Base)
	} else {
		s = newDirect(c.Backend, c.Base)
	}
	defer s.Close()
	m := &model{base: map[string][]byte{}, committed: map[string][]byte{}, tx: map[string][]byte{}}
	for k, v := range c.Base {
		m.base[k] = []byte(v)
	}
	ns := ""
	if h, ok := s.(*handlers); ok {
		ns = h.ns
	}
	step := 0
	fail := func(format string, a ...interface{}) {
		cc := c
		cc.Ops = c.Ops[:step+1]
		lib.Violation(t, prop, test, cc, "step %d (%+v): %s", step, c.Ops[step], fmt.Sprintf(format, a...))
	}
	// strip the handlers' namespace from keys embedded in List results so both interfaces compare with one model
	norm := func(vs [][]byte, dir int32, seek bool) [][]byte {
		if ns == "" {
			return vs
		}
		out := make([][]byte, len(vs))
		for i, v := range vs {
			out[i] = v
			switch {
			case seek && i == 0, !seek && dir&dbm.ListKeyOnly != 0:
				out[i] = bytes.TrimPrefix(v, []byte(ns))
			case !seek && dir&dbm.ListWithKey != 0:
				var kv types.KeyValue
				if types.Decode(v, &kv) == nil {
					kv.Key = bytes.TrimPrefix(kv.Key, []byte(ns))
					out[i] = types.Encode(&kv)
				}
			}
		}
		return out
	}
	checkGet := func(k string) {
		got, ok := s.Get([]byte(k))
		want, wok := m.get(k)
		if ok != wok || (ok && !bytes.Equal(got, want)) {
			fail("Get(%q) = %q found=%v, model %q found=%v", k, got, ok, want, wok)
		}
	}
	pendingW, wroteAfterRead := 0, map[string]bool{}
	for step = 0; step < len(c.Ops); step++ {
		o := c.Ops[step]
		switch o.Op {
		case "begin":
			if m.intx && pendingW > 0 {
				st.rebegin = true
			}
			s.Begin()
			m.intx, m.tx, pendingW = true, map[string][]byte{}, 0
		case "commit":
			s.Commit()
			if m.intx {
				for k, v := range m.tx {
					m.committed[k] = v
				}
				st.commitW = st.commitW || pendingW > 0
			}
			m.intx, m.tx, pendingW = false, map[string][]byte{}, 0
		case "rollback":
			s.Rollback()
			st.rollbackW = st.rollbackW || (m.intx && pendingW > 0)
			m.intx, m.tx, pendingW = false, map[string][]byte{}, 0
		case "set", "del":
			var v []byte
			if o.Op == "set" {
				v = []byte(o.V)
			} else if !o.Nil {
				v = []byte{}
			}
			if o.Op == "del" {
				if _, inBase := m.base[o.K]; inBase {
					if _, vis := m.get(o.K); vis {
						st.tombBase = true
					}
				}
				st.delNil = st.delNil || o.Nil
			}
			if wroteAfterRead[o.K] {
				st.readThenWrite = true
			}
			s.Set([]byte(o.K), v)
			if m.intx {
				m.tx[o.K] = v
				pendingW++
			} else {
				m.committed[o.K] = v
			}
		case "get":
			checkGet(o.K)
			wroteAfterRead[o.K] = true
		case "getall":
			for _, k := range keySpace {
				checkGet(k)
				wroteAfterRead[k] = true
			}
		case "list":
			got := norm(s.List([]byte(o.P), []byte(o.From), o.N, o.Dir), o.Dir, false)
			if want := m.list(o.P, o.From, o.N, o.Dir); !eqList(got, want) {
				fail("List(%q,%q,%d,%d) = %s, model %s", o.P, o.From, o.N, o.Dir, show(got), show(want))
			}
		case "seek":
			got := norm(s.List([]byte(o.P), []byte(o.From), 1, dbm.ListSeek), 0, true)
			if want := m.seek(o.P, o.From); !eqList(got, want) {
				fail("List(%q,%q,1,ListSeek) = %s, model %s", o.P, o.From, show(got), show(want))
			}
		case "count":
			if got, ok := s.Count([]byte(o.P)); ok && got != int64(len(m.visible(o.P))) {
				fail("PrefixCount(%q) = %d, model %d", o.P, got, len(m.visible(o.P)))
			}
		}
		// After every step the side-effect-free observations (List in both directions and PrefixCount for every prefix)
		// must agree with the model, i.e. with what point reads would return. Point reads themselves fill the
		// read-through cache, so they are issued only where the generated history says so (get/getall) and at the end.
		for _, p := range prefixes {
			for _, dir := range []int32{dbm.ListASC | dbm.ListKeyOnly, dbm.ListDESC} {
				got := norm(s.List([]byte(p), nil, 0, dir), dir, false)
				if want := m.list(p, "", 0, dir); !eqList(got, want) {
					fail("after step: List(%q,nil,0,%d) = %s, model %s", p, dir, show(got), show(want))
				}
			}
			if got, ok := s.Count([]byte(p)); ok && got != int64(len(m.visible(p))) {
				fail("after step: PrefixCount(%q) = %d, model %d", p, got, len(m.visible(p)))
			}
		}
		if m.intx && pendingW > 0 {
			st.listInTx = true
		}
	}
	step = len(c.Ops) - 1
	for _, k := range keySpace {
		checkGet(k)
	}
	if got := s.BaseDump(); fmt.Sprint(got) != fmt.Sprint(c.Base) {
		fail("base database was modified: %v, initially %v", got, c.Base)
	}
	return st
}

func account(c kase, st stats) {
	lib.Eval()
	lib.Class("backend=" + c.Backend)
	for label, on := range map[string]bool{"commit_with_writes": st.commitW, "rollback_with_writes": st.rollbackW,
		"tombstone_over_visible_base_key": st.tombBase, "list_while_tx_has_writes": st.listInTx,
		"begin_inside_open_tx_with_writes": st.rebegin, "delete_with_nil_value": st.delNil, "write_after_read_of_same_key": st.readThenWrite} {
		if on {
			lib.Class(label)
		}
	}
	// non-triviality rule of the property: commit and rollback (each of a transaction holding writes), a tombstone over
	// a visible base key, and a List evaluated while a transaction holding writes is open
	if st.commitW && st.rollbackW && st.tombBase && st.listInTx {
		lib.NonTrivialCase(c)
	}
}

// TestPropLocalDBModel drives db.NewLocalDB directly (memdb and leveldb base).
func TestPropLocalDBModel(t *testing.T) {
	defer lib.Flush()
	rapid.Check(t, func(t *rapid.T) {
		c := genCase(t, []string{"memdb", "memdb", "leveldb"})
		account(c, runCase(t, "TestPropLocalDBModel", c))
	})
}

// TestPropLocalHandlers drives the same histories through the blockchain module's EventLocal* handlers on a node.
func TestPropLocalHandlers(t *testing.T) {
	defer lib.Flush()
	rapid.Check(t, func(t *rapid.T) {
		c := genCase(t, []string{"handlers"})
		account(c, runCase(t, "TestPropLocalHandlers", c))
	})
}
