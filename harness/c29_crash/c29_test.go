// C29: block connection is crash-consistent. Fault enumeration over durable-write boundaries:
// a child process (cmd/c29_child, built with the verif hook) replays a generated workload of block deliveries
// (linear growth plus reorganisations) on a LevelDB data directory and is terminated immediately before its N-th
// durable write; a second child re-opens the directory, dumps the persisted chain, re-delivers the whole workload
// and dumps again. Oracle (parent): after restart the tip is a block the uninterrupted run had as tip, or an
// ancestor of one; everything persisted about that chain equals a reference node fed exactly that chain (height
// index, headers, bodies, receipts, tx index incl. absence of off-chain txs, total difficulties, balances read from
// the tip state); after re-delivery the chain equals the uninterrupted run's final chain.
package c29

import (
	"bytes"
	"encoding/binary"
	"encoding/hex"
	"encoding/json"
	"fmt"
	"math/big"
	"os"
	"os/exec"
	"path/filepath"
	"sort"
	"strconv"
	"strings"
	"sync"
	"testing"
	"time"

	"github.com/33cn/chain33/types"
	"pgregory.net/rapid"
	"verifharness/chainfix"
	"verifharness/lib"
)

const prop = "C29"
const trunkLen = 11

func TestMain(m *testing.M) { lib.Main(m) }

type blockSpec struct {
	ID     int    `json:"id"`
	Parent int    `json:"parent"`
	Height int64  `json:"height"`
	Bits   uint32 `json:"bits"`
	NTx    int    `json:"ntx"`
}

type workload struct {
	Seed   int         `json:"seed"`
	Blocks []blockSpec `json:"blocks"` // ids 0..trunkLen-1 are the pre-state trunk
	Order  []int       `json:"order"`  // delivery order of fork block ids (duplicates allowed)
}

var bitsChoices = []uint32{0x1f00ffff, 0x1f00ffff, 0x1f007fff, 0x1e00ffff}

func genWorkload(t *rapid.T) workload {
	var w workload
	for i := 0; i < trunkLen; i++ {
		w.Blocks = append(w.Blocks, blockSpec{ID: i, Parent: i - 1, Height: int64(i + 1), Bits: bitsChoices[0], NTx: 1 + i%2})
	}
	nb := rapid.IntRange(2, 3).Draw(t, "branches")
	for b := 0; b < nb; b++ {
		parent := trunkLen - 1
		if b > 0 {
			var cands []int
			for _, bl := range w.Blocks {
				if bl.Height >= trunkLen-1 {
					cands = append(cands, bl.ID)
				}
			}
			parent = rapid.SampledFrom(cands).Draw(t, "forkParent")
		}
		ph := w.Blocks[parent].Height
		minDepth := 1
		if int(12-ph) > minDepth {
			minDepth = int(12 - ph)
		}
		depth := rapid.IntRange(minDepth, 3).Draw(t, "depth")
		for d := 0; d < depth; d++ {
			id := len(w.Blocks)
			bits := rapid.SampledFrom(bitsChoices).Draw(t, "bits")
			if b > 0 && d == depth-1 && rapid.Bool().Draw(t, "heavyTip") {
				bits = 0x1d00ffff // makes the later branch win: forces a reorganisation when delivered after the first
			}
			w.Blocks = append(w.Blocks, blockSpec{ID: id, Parent: parent, Height: ph + int64(d) + 1, Bits: bits, NTx: rapid.IntRange(1, 3).Draw(t, "ntx")})
			parent = id
		}
	}
	var fork []int
	for _, b := range w.Blocks[trunkLen:] {
		fork = append(fork, b.ID)
	}
	if rapid.IntRange(0, 2).Draw(t, "shuffle") == 0 {
		w.Order = rapid.Permutation(fork).Draw(t, "order")
	} else {
		w.Order = fork // branch by branch: first branch connects, later heavier branches reorganise
	}
	if rapid.IntRange(0, 3).Draw(t, "dup") == 0 {
		w.Order = append(w.Order, rapid.SampledFrom(fork).Draw(t, "dupID"))
	}
	return w
}

type built struct {
	w      workload
	blocks []*types.Block
	td     []*big.Int
	txs    [][]byte
	addrs  []string
}

var builder *chainfix.Builder

func build(w workload) *built {
	if builder == nil {
		builder = chainfix.NewBuilder()
	}
	b := builder
	bt := &built{w: w}
	keys := chainfix.Keys()
	for _, k := range keys {
		bt.addrs = append(bt.addrs, chainfix.Addr(k))
	}
	gen := b.N.Genesis()
	for _, bs := range w.Blocks {
		parent, ptd := gen, chainfix.Work(gen.Difficulty)
		if bs.Parent >= 0 {
			parent, ptd = bt.blocks[bs.Parent], bt.td[bs.Parent]
		}
		var txs []*types.Transaction
		for i := 0; i < bs.NTx; i++ {
			txs = append(txs, chainfix.TransferTx(b.N.Cfg, keys[1], chainfix.Addr(keys[(bs.ID+i)%len(keys)]), int64(1+i)*1e8, int64(w.Seed*100000+bs.ID*100+i+1)))
		}
		blk, err := b.Child(parent, txs, bs.Bits, gen.BlockTime+bs.Height*10+int64(bs.ID%5))
		if err != nil {
			lib.Inconclusive("builder: %v", err)
		}
		bt.blocks = append(bt.blocks, blk)
		bt.td = append(bt.td, new(big.Int).Add(ptd, chainfix.Work(bs.Bits)))
		for _, tx := range blk.Txs {
			bt.txs = append(bt.txs, tx.Hash())
		}
	}
	return bt
}

func (bt *built) path(id int) []int {
	var p []int
	for x := id; x >= 0; x = bt.w.Blocks[x].Parent {
		p = append([]int{x}, p...)
	}
	return p
}

func (bt *built) idOf(hash string) int {
	cfg := builder.N.Cfg
	for i, b := range bt.blocks {
		if hex.EncodeToString(b.Hash(cfg)) == hash {
			return i
		}
	}
	return -1
}

var (
	refMu    sync.Mutex
	refViews = map[string][]string{}
)

// reference renders the persisted view of a fresh in-process node that received exactly path(tip) in order.
func (bt *built) reference(tip int) []string {
	key := fmt.Sprintf("%d-%d", bt.w.Seed, tip)
	refMu.Lock()
	defer refMu.Unlock()
	if v, ok := refViews[key]; ok {
		return v
	}
	n := chainfix.NewNode()
	defer n.Close()
	for _, id := range bt.path(tip) {
		if _, _, err := n.Deliver(bt.blocks[id], "ref", false); err != nil {
			lib.Inconclusive("reference node rejected block %d: %v", id, err)
		}
	}
	v := n.Snapshot(bt.txs, bt.addrs).Lines
	refViews[key] = v
	return v
}

func diffLines(got, want []string) string {
	var out []string
	n := len(got)
	if len(want) > n {
		n = len(want)
	}
	for i := 0; i < n && len(out) < 6; i++ {
		var x, y string
		if i < len(got) {
			x = got[i]
		}
		if i < len(want) {
			y = want[i]
		}
		if x != y {
			out = append(out, "  got:  "+x+"\n  want: "+y)
		}
	}
	return strings.Join(out, "\n")
}

type childResult struct {
	code int
	out  string
}

func runChild(env []string, args ...string) childResult {
	bin := filepath.Join(os.Getenv("VERIF_BIN"), "c29_child")
	cmd := exec.Command(bin, args...)
	cmd.Env = append(os.Environ(), env...)
	var buf bytes.Buffer
	cmd.Stdout, cmd.Stderr = &buf, &buf
	done := make(chan error, 1)
	if err := cmd.Start(); err != nil {
		lib.Inconclusive("cannot start child: %v", err)
	}
	go func() { done <- cmd.Wait() }()
	select {
	case <-done:
	case <-time.After(10 * time.Minute):
		_ = cmd.Process.Kill()
		lib.Inconclusive("child watchdog expired: %v", args)
	}
	out := buf.String()
	if strings.Contains(out, "VERIF-INCONCLUSIVE") {
		lib.Inconclusive("child: %s", out)
	}
	return childResult{code: cmd.ProcessState.ExitCode(), out: out}
}

func copyDir(src, dst string) {
	if out, err := exec.Command("cp", "-r", src, dst).CombinedOutput(); err != nil {
		lib.Inconclusive("cp: %v %s", err, out)
	}
}

type writeRec struct {
	ord      int
	kind     string
	delivery int // index into blocks.bin of the delivery in progress
	first    bool
}

type dumpT struct {
	Tip1  string   `json:"tip1"`
	Snap1 []string `json:"snap1"`
	Errs  []string `json:"errs"`
	Tip2  string   `json:"tip2"`
	Snap2 []string `json:"snap2"`
}

type crashCase struct {
	Workload workload `json:"workload"`
	Ordinal  int      `json:"crash_before_write"`
	Kind     string   `json:"write_kind"`
	Delivery int      `json:"during_delivery"`
}

func parseDump(out string) (*dumpT, bool) {
	for _, l := range strings.Split(out, "\n") {
		if strings.HasPrefix(l, "DUMP ") {
			var d dumpT
			if json.Unmarshal([]byte(l[5:]), &d) == nil {
				return &d, true
			}
		}
	}
	return nil, false
}

func tail(s string, n int) string {
	l := strings.Split(strings.TrimSpace(s), "\n")
	if len(l) > n {
		l = l[len(l)-n:]
	}
	return strings.Join(l, "\n")
}

// runWorkload enumerates crash points of one workload. maxPoints <= 0 means every durable write.
func runWorkload(t *testing.T, w workload, maxPoints, par int) {
	work := os.Getenv("VERIF_WORK")
	if work == "" {
		work = t.TempDir()
	}
	base := filepath.Join(work, fmt.Sprintf("w%d", w.Seed))
	_ = os.MkdirAll(base, 0o755)
	defer os.RemoveAll(base)
	bt := build(w)
	// blocks.bin: trunk then deliveries
	var buf bytes.Buffer
	put := func(b *types.Block) {
		e := types.Encode(b)
		var l [4]byte
		binary.LittleEndian.PutUint32(l[:], uint32(len(e)))
		buf.Write(l[:])
		buf.Write(e)
	}
	for i := 0; i < trunkLen; i++ {
		put(bt.blocks[i])
	}
	for _, id := range w.Order {
		put(bt.blocks[id])
	}
	blocksFile := filepath.Join(base, "blocks.bin")
	_ = os.WriteFile(blocksFile, buf.Bytes(), 0o644)
	var pr struct {
		Txs   []string `json:"txs"`
		Addrs []string `json:"addrs"`
	}
	for _, h := range bt.txs {
		pr.Txs = append(pr.Txs, hex.EncodeToString(h))
	}
	pr.Addrs = bt.addrs
	pb, _ := json.Marshal(pr)
	probesFile := filepath.Join(base, "probes.json")
	_ = os.WriteFile(probesFile, pb, 0o644)
	from, to := strconv.Itoa(trunkLen), strconv.Itoa(trunkLen+len(w.Order))

	// pre-state
	pre := filepath.Join(base, "pre")
	if r := runChild(nil, "run", pre, blocksFile, "0", strconv.Itoa(trunkLen)); r.code != 0 {
		lib.Inconclusive("pre-state child failed: %s", tail(r.out, 15))
	}
	// uninterrupted run: tips after each delivery and the write log
	d0 := filepath.Join(base, "d0")
	copyDir(pre, d0)
	log0 := filepath.Join(base, "log0")
	r0 := runChild([]string{"VERIF_CRASH_LOG=" + log0}, "run", d0, blocksFile, from, to)
	if r0.code != 0 {
		lib.Inconclusive("uninterrupted child failed: %s", tail(r0.out, 15))
	}
	acceptable := map[int]bool{} // ancestor-or-self of any tip the uninterrupted run had (the trunk tip included)
	for _, id := range bt.path(trunkLen - 1) {
		acceptable[id] = true
	}
	finalTip := -1
	for _, l := range strings.Split(r0.out, "\n") {
		f := strings.Fields(l)
		if len(f) >= 3 && f[0] == "TIP" {
			id := bt.idOf(f[2])
			if id < 0 {
				lib.Inconclusive("uninterrupted run reports a tip outside the tree: %s", l)
			}
			for _, a := range bt.path(id) {
				acceptable[a] = true
			}
			finalTip = id
		}
	}
	// independent check of the final tip: heaviest leaf (ties: first delivered wins, so only assert when unique)
	logb, _ := os.ReadFile(log0)
	var writes []writeRec
	cur := -1
	firstOfDelivery := false
	for _, l := range strings.Split(string(logb), "\n") {
		f := strings.Fields(l)
		if len(f) >= 3 && f[0] == "#" && f[1] == "deliver" {
			cur, _ = strconv.Atoi(f[2])
			firstOfDelivery = true
			continue
		}
		if len(f) == 3 && cur >= 0 && f[0] != "#" {
			o, _ := strconv.Atoi(f[0])
			writes = append(writes, writeRec{ord: o, kind: f[1], delivery: cur, first: firstOfDelivery})
			firstOfDelivery = false
		}
	}
	if len(writes) == 0 {
		lib.Inconclusive("the hook logged no durable writes (is the binary built with -tags verif?)")
	}
	lib.Note("durable_writes_in_workloads", len(writes))
	// choose crash points
	points := writes
	if maxPoints > 0 && len(writes) > maxPoints {
		// stratified: every write of the delivery with most writes (a reorganisation), then evenly spaced others
		count := map[int]int{}
		for _, wr := range writes {
			count[wr.delivery]++
		}
		big := -1
		for d, c := range count {
			if big < 0 || c > count[big] || (c == count[big] && d < big) {
				big = d
			}
		}
		sel := map[int]bool{}
		for i, wr := range writes {
			if wr.delivery == big && len(sel) < maxPoints*2/3 {
				sel[i] = true
			}
		}
		step := len(writes) / (maxPoints - len(sel) + 1)
		if step < 1 {
			step = 1
		}
		for i := 0; i < len(writes) && len(sel) < maxPoints; i += step {
			sel[i] = true
		}
		points = nil
		var idx []int
		for i := range sel {
			idx = append(idx, i)
		}
		sort.Ints(idx)
		for _, i := range idx {
			points = append(points, writes[i])
		}
	} else {
		lib.Class("workload_all_writes_enumerated")
	}
	finalRef := bt.reference(finalTip)

	var wg sync.WaitGroup
	sem := make(chan struct{}, par)
	var vmu sync.Mutex
	var firstViolation string
	var firstCase crashCase
	report := func(c crashCase, format string, a ...interface{}) {
		vmu.Lock()
		if firstViolation == "" {
			firstViolation, firstCase = fmt.Sprintf(format, a...), c
		}
		vmu.Unlock()
	}
	for _, p := range points {
		wg.Add(1)
		sem <- struct{}{}
		go func(p writeRec) {
			defer wg.Done()
			defer func() { <-sem }()
			c := crashCase{Workload: w, Ordinal: p.ord, Kind: p.kind, Delivery: p.delivery}
			dn := filepath.Join(base, fmt.Sprintf("d%d", p.ord))
			copyDir(pre, dn)
			defer os.RemoveAll(dn)
			r := runChild([]string{"VERIF_CRASH_AT=" + strconv.Itoa(p.ord)}, "run", dn, blocksFile, from, to)
			lib.Eval()
			if r.code != 77 {
				// the write sequence of this run was shorter than the logged one (non-deterministic background write):
				// no crash happened; still a legitimate (uninterrupted) execution to check below
				lib.Class("crash_point_not_reached")
			}
			rr := runChild(nil, "recover", dn, blocksFile, from, to, probesFile)
			d, ok := parseDump(rr.out)
			if rr.code != 0 || !ok {
				report(c, "after a crash before durable write #%d (%s, during delivery %d) the node cannot be restarted and queried (exit %d):\n%s", p.ord, p.kind, p.delivery, rr.code, tail(rr.out, 25))
				return
			}
			tip := bt.idOf(d.Tip1)
			if tip < 0 || !acceptable[tip] {
				report(c, "after restart the tip is %s (tree id %d), which is neither a tip the uninterrupted run had nor an ancestor of one", d.Tip1, tip)
				return
			}
			if df := diffLines(d.Snap1, bt.reference(tip)); df != "" {
				report(c, "after restart (tip id %d) the persisted chain is inconsistent with a node fed exactly that chain:\n%s", tip, df)
				return
			}
			if len(d.Errs) > 0 {
				report(c, "continued processing after restart failed: %v", d.Errs)
				return
			}
			if bt.idOf(d.Tip2) != finalTip {
				report(c, "after restart and re-delivery the tip is tree id %d, the uninterrupted run ended at %d", bt.idOf(d.Tip2), finalTip)
				return
			}
			if df := diffLines(d.Snap2, finalRef); df != "" {
				report(c, "after restart and re-delivery the final chain differs from the uninterrupted run's:\n%s", df)
				return
			}
			if r.code == 77 && !p.first {
				lib.NonTrivialCase(c)
				lib.Class("crash_inside_connection")
			}
			if tip != finalTip && tip >= trunkLen {
				lib.Class("restart_on_intermediate_tip")
			}
			if tip == trunkLen-1 {
				lib.Class("restart_on_pre_state_tip")
			}
		}(p)
	}
	wg.Wait()
	if firstViolation != "" {
		lib.Violation(t, prop, t.Name(), firstCase, "%s", firstViolation)
	}
}

// TestGenCrashPoints: VERIF_SHARD_SEED selects the workloads; WORKLOADS how many; POINTS crash points per workload
// (0 = every durable write).
func TestGenCrashPoints(t *testing.T) {
	defer lib.Flush()
	seed, _ := strconv.ParseUint(os.Getenv("VERIF_SHARD_SEED"), 10, 64)
	nw, _ := strconv.Atoi(os.Getenv("WORKLOADS"))
	if nw == 0 {
		nw = 1
	}
	points, _ := strconv.Atoi(os.Getenv("POINTS"))
	par, _ := strconv.Atoi(os.Getenv("PAR"))
	if par == 0 {
		par = 8
	}
	g := rapid.Custom(genWorkload)
	for i := 0; i < nw; i++ {
		w := g.Example(int(seed%1000003) + i)
		w.Seed = int(seed%1000003) + i
		runWorkload(t, w, points, par)
	}
}
