// C20: difficulty compact encoding round-trips and orders work (common/difficulty).
//
// Oracle, written from the format definition only (sign bit 23, 23-bit mantissa, base-256 exponent,
// N = (-1)^sign * floor(mantissa * 256^(exponent-3))) and never calling the code under test:
//   - value(c): the integer a compact denotes, as (sign, m, k) with |N| = m * 256^k, m < 2^23;
//   - canon(c): 0 if N == 0, otherwise the encoding with the SMALLEST exponent e for which
//     floor(|N| / 256^(e-3)) still fits the 23-bit mantissa (this is "the" normalised form: any smaller
//     exponent would need more than 23 mantissa bits), with the sign bit of N.
//
// Checked: CompactToBig(c) == value(c); BigToCompact(CompactToBig(c)) == canon(c) (hence idempotent and
// value preserving, both also checked directly); for integers n >= 0, CompactToBig(BigToCompact(n)) equals n
// with everything below the 23-bit mantissa window cleared; along positive canonical compacts in increasing
// order targets strictly increase and CalcWork never increases; CalcWork of a non-canonical compact equals
// that of its canonical form; CalcWork(target <= 0) == 0; CalcWork matches its documented definition
// floor(2^256 / (target+1)).
package c20

import (
	"fmt"
	"math/big"
	"math/rand"
	"os"
	"sort"
	"strconv"
	"testing"

	"github.com/33cn/chain33/common/difficulty"
	"verifharness/lib"
)

const prop = "C20"

// ran is set by every test that evaluates cases: a process that evaluated nothing (the driver's pinned
// phase finds no TestKnown_* here) writes no stats file, so it cannot veto the merged "exhaustive" flag.
var ran bool

func TestMain(m *testing.M) {
	code := m.Run()
	if ran {
		lib.Flush()
	}
	os.Exit(code)
}

var (
	pow256  [256]*big.Int
	one     = big.NewInt(1)
	two256  = new(big.Int).Lsh(one, 256)
	b256    = big.NewInt(256)
	maxMant = uint32(0x7fffff)
)

func init() {
	pow256[0] = big.NewInt(1)
	for i := 1; i < len(pow256); i++ {
		pow256[i] = new(big.Int).Mul(pow256[i-1], b256)
	}
}

// decode returns the integer denoted by c as sign * m * 256^k (m < 2^23, k >= 0; m == 0 means zero).
func decode(c uint32) (neg bool, m uint32, k int) {
	m, neg = c&maxMant, c&0x00800000 != 0
	k = int(c>>24) - 3
	if k < 0 { // exponent < 3: the low (3-exponent) mantissa bytes are below the units position and are dropped
		if k == -3 {
			m = 0
		} else {
			m >>= 8 * uint(-k)
		}
		k = 0
	}
	return
}

// canon is the canonical compact of the value denoted by c (see the package comment).
func canon(c uint32) uint32 {
	neg, m, k := decode(c)
	if m == 0 {
		return 0
	}
	e := k + 3 // |N| = m * 256^(e-3) with m < 2^23 fits; try smaller exponents while the mantissa still fits
	for m<<8 <= maxMant {
		m <<= 8
		e--
	}
	r := uint32(e)<<24 | m
	if neg {
		r |= 0x00800000
	}
	return r
}

// value builds the integer denoted by c with multiplication only (the code under test shifts).
func value(c uint32) *big.Int { return valueInto(new(big.Int), new(big.Int), c) }

// valueInto is value with caller-supplied scratch space (the exhaustive loop allocates nothing for the oracle).
func valueInto(z, scratch *big.Int, c uint32) *big.Int {
	neg, m, k := decode(c)
	z.Mul(scratch.SetUint64(uint64(m)), pow256[k])
	if neg {
		z.Neg(z)
	}
	return z
}

var scratchA, scratchB big.Int

type chain struct { // last positive canonical compact seen, for the ordering check
	c      uint32
	target *big.Int
	work   *big.Int
}

type counters struct{ n, noncanon, negative, zero, expLE3, workZero, workChecked, defChecked int }

// checkCompact evaluates every per-value claim for one compact. full=false skips the checks that the
// exhaustive enumeration makes redundant (every canonical form is itself enumerated).
func checkCompact(t *testing.T, c uint32, full bool, ch *chain, cnt *counters) {
	fail := func(format string, a ...interface{}) {
		lib.Violation(t, prop, t.Name(), map[string]interface{}{"compact": fmt.Sprintf("0x%08x", c)}, "compact 0x%08x: %s", c, fmt.Sprintf(format, a...))
	}
	cnt.n++
	want := canon(c)
	v := difficulty.CompactToBig(c)
	if exp := valueInto(&scratchA, &scratchB, c); v.Cmp(exp) != 0 {
		fail("CompactToBig = %s, the format denotes %s", v.Text(16), exp.Text(16))
	}
	got := difficulty.BigToCompact(v)
	if got != want {
		fail("BigToCompact(CompactToBig(c)) = 0x%08x, canonical form is 0x%08x", got, want)
	}
	if got != c {
		cnt.noncanon++
		if back := difficulty.CompactToBig(got); back.Cmp(v) != 0 { // value preserving
			fail("re-encoding changed the value: %s -> %s", v.Text(16), back.Text(16))
		}
	}
	if full { // idempotence of the canonical form
		if again := difficulty.BigToCompact(difficulty.CompactToBig(got)); again != got {
			fail("canonical form 0x%08x re-encodes to 0x%08x", got, again)
		}
	}
	if c>>24 <= 3 {
		cnt.expLE3++
	}
	w := difficulty.CalcWork(c)
	switch {
	case v.Sign() <= 0:
		if v.Sign() == 0 {
			cnt.zero++
		} else {
			cnt.negative++
		}
		if w.Sign() != 0 {
			fail("CalcWork of non-positive target %s = %s, want 0", v.Text(16), w.Text(16))
		}
	case got != c: // same target as its canonical form, so the same work
		if wc := difficulty.CalcWork(got); wc.Cmp(w) != 0 {
			fail("CalcWork = %s but CalcWork(canonical 0x%08x) = %s", w.Text(16), got, wc.Text(16))
		}
	default: // positive canonical: ordered chain
		cnt.workChecked++
		if w.Sign() == 0 {
			cnt.workZero++
		}
		if w.Sign() < 0 {
			fail("negative work %s", w.Text(16))
		}
		if ch.target != nil {
			if c <= ch.c {
				panic("harness: canonical compacts must be visited in increasing order")
			}
			if v.Cmp(ch.target) <= 0 {
				fail("target does not increase from canonical 0x%08x (%s) to %s", ch.c, ch.target.Text(16), v.Text(16))
			}
			if w.Cmp(ch.work) > 0 {
				fail("work increases with the target: 0x%08x -> %s, 0x%08x -> %s", ch.c, ch.work.Text(16), c, w.Text(16))
			}
		}
		ch.c, ch.target, ch.work = c, v, w
		if full || c&0xff == 0 { // documented definition: w = floor(2^256/(target+1))
			cnt.defChecked++
			d := new(big.Int).Add(v, one)
			lo := new(big.Int).Mul(w, d)
			hi := new(big.Int).Add(lo, d)
			if lo.Cmp(two256) > 0 || hi.Cmp(two256) <= 0 {
				fail("CalcWork = %s is not floor(2^256/(target+1)) for target %s", w.Text(16), v.Text(16))
			}
		}
	}
}

func (cnt *counters) publish() {
	lib.EvalN(cnt.n)
	lib.ClassN("compact_noncanonical", cnt.noncanon)
	lib.ClassN("compact_canonical", cnt.n-cnt.noncanon)
	lib.ClassN("compact_negative_value", cnt.negative)
	lib.ClassN("compact_zero_value", cnt.zero)
	lib.ClassN("compact_exponent<=3", cnt.expLE3)
	lib.ClassN("work_ordered_chain_links", cnt.workChecked)
	lib.ClassN("work_zero_on_chain", cnt.workZero)
	lib.ClassN("work_definition_checked", cnt.defChecked)
}

func envInt(name string, def int) int {
	if v, err := strconv.Atoi(os.Getenv(name)); err == nil {
		return v
	}
	return def
}

func shardRand() *rand.Rand {
	seed, err := strconv.ParseInt(os.Getenv("VERIF_SHARD_SEED"), 10, 64)
	if err != nil {
		seed = 1
	}
	return rand.New(rand.NewSource(seed))
}

// nonTrivial: the compact is not its own canonical form (normalisation, sign handling or truncation at
// exponent < 3 had to do something).
func noteCompact(c uint32) {
	if canon(c) != c {
		lib.NonTrivial(lib.Fingerprint("compact", c))
		if lib.SampleCount() < 2 && c>>24 > 3 {
			lib.Sample(map[string]string{"compact": fmt.Sprintf("0x%08x", c), "canonical": fmt.Sprintf("0x%08x", canon(c)), "value": value(c).Text(16)})
		}
	}
}

// TestGenCompacts: quick = stratified sample over every exponent; thorough = this shard's exponent rows of
// all 2^32 compacts (VERIF_SHARD of VERIF_SHARDS), exhaustive=true only once all of them are finished.
func TestGenCompacts(t *testing.T) {
	ran = true
	var cnt counters
	defer cnt.publish()
	if lib.Thorough() {
		shard, shards := envInt("VERIF_SHARD", 0), envInt("VERIF_SHARDS", 1)
		if shards < 1 || shard < 0 || shard >= shards {
			lib.Inconclusive("bad shard %d/%d", shard, shards)
		}
		// The 2^32 compacts are split by exponent row: this process owns the rows e with e % shards == shard
		// (interleaved, because the cost per value grows with the exponent). Every row is visited in
		// increasing order; its ordering chain starts from the last positive canonical compact below the row.
		rows := 0
		for e := shard; e < 256; e += shards {
			lo := uint64(e) << 24
			var ch chain
			for p := lo; p > 0; {
				p--
				if c := uint32(p); canon(c) == c && c&0x00800000 == 0 && c != 0 {
					ch = chain{c: c, target: difficulty.CompactToBig(c), work: difficulty.CalcWork(c)}
					break
				}
			}
			for p := lo; p < lo+1<<24; p++ {
				c := uint32(p)
				checkCompact(t, c, false, &ch, &cnt)
				if c&0xffff == 0x8001 { // 1-in-65536 systematic subsample carries the distinct fingerprints (memory bound)
					noteCompact(c)
				}
			}
			rows++
		}
		if cnt.n != rows<<24 {
			t.Fatalf("harness: visited %d values in %d rows", cnt.n, rows)
		}
		lib.Note("compacts_enumerated", cnt.n)
		lib.Note("exponent_rows_enumerated", rows)
		lib.SetExhaustive(true) // the driver ANDs this over all shard processes; a missing shard is reported inconclusive
		return
	}
	rnd := shardRand()
	fixed := []uint32{0, 1, 0x7f, 0x80, 0xff, 0x7fff, 0x8000, 0x7fffff}
	var sample []uint32
	for e := uint32(0); e < 256; e++ {
		for _, m := range fixed {
			sample = append(sample, e<<24|m, e<<24|0x00800000|m)
		}
		extra := 64
		if e <= 34 { // targets below 2^264: the range where work is non-zero and fork choice is decided
			extra = 1024
		}
		for i := 0; i < extra; i++ {
			sample = append(sample, e<<24|uint32(rnd.Intn(1<<24)))
		}
	}
	// add the canonical forms so that the ordered chain has neighbours, then visit in increasing order
	seen := map[uint32]bool{}
	for _, c := range sample {
		seen[c], seen[canon(c)] = true, true
	}
	all := make([]uint32, 0, len(seen))
	for c := range seen {
		all = append(all, c)
	}
	sort.Slice(all, func(i, j int) bool { return all[i] < all[j] })
	var ch chain
	for _, c := range all {
		checkCompact(t, c, true, &ch, &cnt)
		noteCompact(c)
	}
}

// TestGenIntegers: non-negative integers of every byte length 0..64 with boundary and random leading
// mantissa bytes and zero / 0xff / random tails. Decoding the encoding must return n with only the bits
// below the mantissa window cleared: the window is the top 3 bytes of n, or the top 2 bytes when the top
// byte has its high bit set (that bit would collide with the sign bit, so the encoder moves up one byte).
func TestGenIntegers(t *testing.T) {
	ran = true
	rnd := shardRand()
	heads := [][]byte{{0x01}, {0x7f}, {0x80}, {0xff}, {0x7f, 0xff}, {0x80, 0x00}, {0x7f, 0xff, 0xff}, {0x80, 0x00, 0x00}, {0xff, 0xff, 0xff}, {0x00, 0x80, 0x01}, nil, nil}
	rounds := lib.Pick(6, 200)
	lossy, carry, n := 0, 0, 0
	for L := 0; L <= 64; L++ {
		for hi, head := range heads {
			for r := 0; r < rounds; r++ {
				buf := make([]byte, L)
				switch r % 3 {
				case 0:
					rnd.Read(buf)
				case 1:
					for i := range buf {
						buf[i] = 0xff
					}
				}
				if head == nil {
					rnd.Read(buf[:min(L, 4)])
				} else {
					copy(buf, head)
				}
				x := new(big.Int).SetBytes(buf)
				keep := new(big.Int).Set(x)
				fail := func(format string, a ...interface{}) {
					lib.Violation(t, prop, "TestGenIntegers", map[string]interface{}{"n": x.Text(16)}, "n=0x%s: %s", x.Text(16), fmt.Sprintf(format, a...))
				}
				c := difficulty.BigToCompact(x)
				back := difficulty.CompactToBig(c)
				if x.Cmp(keep) != 0 {
					fail("BigToCompact modified its argument")
				}
				nb := x.Bytes() // minimal big-endian bytes
				e := len(nb)
				if e > 0 && nb[0] >= 0x80 {
					e++
					carry++
				}
				s := 0
				if e > 3 {
					s = 8 * (e - 3)
				}
				want := new(big.Int).Div(x, pow256[s/8])
				want.Mul(want, pow256[s/8])
				if back.Cmp(want) != 0 {
					fail("decodes to 0x%s, want 0x%s (lowest %d bits cleared)", back.Text(16), want.Text(16), s)
				}
				if x.Sign() > 0 && int(c>>24) != e {
					fail("exponent %d, want %d", c>>24, e)
				}
				if canon(c) != c {
					fail("BigToCompact returned non-canonical 0x%08x (canonical 0x%08x)", c, canon(c))
				}
				// representation-free reading of "loses only the precision beyond the mantissa": 0 <= n-back < n/2^15
				diff := new(big.Int).Sub(x, back)
				if diff.Sign() < 0 || new(big.Int).Lsh(diff, 15).Cmp(x) > 0 {
					fail("loss %s out of bounds", diff.Text(16))
				}
				n++
				if diff.Sign() > 0 {
					lossy++
					lib.NonTrivial(lib.Fingerprint("int", buf, hi))
					if lossy <= 2 {
						lib.Sample(map[string]string{"n": x.Text(16), "compact": fmt.Sprintf("0x%08x", c), "decoded": back.Text(16)})
					}
				}
			}
		}
	}
	lib.EvalN(n)
	lib.ClassN("int_precision_lost", lossy)
	lib.ClassN("int_exact", n-lossy)
	lib.ClassN("int_sign_bit_carry", carry)
}
