// C27: invalid blocks are rejected without side effects or poisoning.
// A valid child B of the tip is built by the builder node; a generated mutant of B (header-field or body edit) is
// delivered to a fresh follower by broadcast or sync; then the genuine B (and optionally its child C) arrive from
// another peer. Oracle, straight from the property text:
//
//	(1) a rejected block leaves best chain, state and indexes unchanged (observational snapshot before/after);
//	(2) the node never serves the rejected body under B's hash;
//	(3) the genuine B is accepted when it arrives later and the persisted chain then equals that of a reference
//	    node that never saw the mutant.
package c27

import (
	"bytes"
	"fmt"
	"testing"

	"github.com/33cn/chain33/common/merkle"
	"github.com/33cn/chain33/types"
	"pgregory.net/rapid"
	"verifharness/chainfix"
	"verifharness/lib"
)

const prop = "C27"
const knownPoison = "C27-tampered-body-poisons-block-hash"

func TestMain(m *testing.M) { lib.Main(m) }

type caseSpec struct {
	Trunk      int    `json:"trunk"`      // valid blocks delivered first
	NTx        int    `json:"ntx"`        // txs in B
	Mut        string `json:"mut"`        // mutation operator
	I          int    `json:"i"`          // operand index
	J          int    `json:"j"`          // second operand
	Broadcast  bool   `json:"broadcast"`  // delivery path of the mutant
	ChildFirst bool   `json:"childFirst"` // deliver B's child C before the genuine B
	Twice      bool   `json:"twice"`      // deliver the mutant twice
	BeforeParent bool `json:"beforeParent"` // the mutant arrives before B's parent (it waits in the orphan pool until the parent is connected)
	Pool       int    `json:"pool"`       // B's transactions already in the follower's pool when the mutant arrives: 0 none, 1 all, 2 all but the last
}

var bodyMuts = []string{"dropTx", "dupTx", "swapTx", "alterAmount", "alterSig", "alterSigRoot", "addTx", "dupTail", "alterPubkey", "emptyBody", "blockSig", "blockSig"}

const knownPoolSig = "C28-pool-hash-hit-skips-signature-check"

var headerMuts = []string{"heightPlus", "heightMinus", "heightForged", "heightForged", "txRoot", "stateRoot", "recomputedRootWrongState", "unknownParent"}

var builder *chainfix.Builder

type fixture struct {
	trunk []*types.Block
	B, C  *types.Block
	txs   [][]byte
	addrs []string
}

var fixtures = map[string]*fixture{}

func getFixture(trunk, ntx int) *fixture {
	key := fmt.Sprintf("%d-%d", trunk, ntx)
	if f, ok := fixtures[key]; ok {
		return f
	}
	if builder == nil {
		builder = chainfix.NewBuilder()
	}
	b := builder
	cfg := b.N.Cfg
	keys := chainfix.Keys()
	f := &fixture{}
	for _, k := range keys {
		f.addrs = append(f.addrs, chainfix.Addr(k))
	}
	parent := b.N.Genesis()
	gt := parent.BlockTime
	nonce := int64(trunk*1000 + ntx*100000)
	mk := func(n int) *types.Block {
		var txs []*types.Transaction
		for i := 0; i < n; i++ {
			nonce++
			txs = append(txs, chainfix.TransferTx(cfg, keys[1], chainfix.Addr(keys[(i+2)%len(keys)]), int64(i+1)*1e8, nonce))
		}
		blk, err := b.Child(parent, txs, 0x1f00ffff, gt+parent.Height*10+10)
		if err != nil {
			lib.Inconclusive("builder: %v", err)
		}
		parent = blk
		return blk
	}
	for i := 0; i < trunk; i++ {
		f.trunk = append(f.trunk, mk(1+i%2))
	}
	f.B = mk(ntx)
	f.C = mk(2)
	for _, blk := range []*types.Block{f.B, f.C} {
		for _, tx := range blk.Txs {
			f.txs = append(f.txs, tx.Hash())
		}
	}
	fixtures[key] = f
	return f
}

// mutate returns the mutant and whether its header hash equals B's.
func mutate(cfg *types.Chain33Config, parent, B *types.Block, c caseSpec) (*types.Block, bool) {
	m := types.Clone(B).(*types.Block)
	n := len(m.Txs)
	i, j := c.I%n, c.J%n
	switch c.Mut {
	case "dropTx":
		m.Txs = append(m.Txs[:i:i], m.Txs[i+1:]...)
	case "dupTx":
		m.Txs = append(m.Txs, types.Clone(m.Txs[i]).(*types.Transaction))
	case "swapTx":
		if i == j {
			j = (i + 1) % n
		}
		m.Txs[i], m.Txs[j] = m.Txs[j], m.Txs[i]
	case "alterAmount":
		m.Txs[i].Fee++
	case "alterSig":
		s := m.Txs[i].Signature.Signature
		s[len(s)-1] ^= 1
	case "alterSigRoot":
		// a signature that does not verify, with the declared transaction root made consistent with the altered body
		// (full transaction hashes enter the root); execution does not look at signatures, so the state root stays right
		s := m.Txs[i].Signature.Signature
		s[len(s)-1] ^= 1
		m.TxHash = merkle.CalcMerkleRoot(cfg, m.Height, m.Txs)
	case "alterPubkey":
		p := m.Txs[i].Signature.Pubkey
		p[len(p)-1] ^= 1
	case "addTx":
		keys := chainfix.Keys()
		m.Txs = append(m.Txs, chainfix.TransferTx(cfg, keys[1], chainfix.Addr(keys[3]), 7e8, int64(900000+c.I)))
	case "dupTail":
		m.Txs = append(m.Txs, types.Clone(m.Txs[n-1]).(*types.Transaction))
	case "emptyBody":
		m.Txs = nil
	case "blockSig":
		// a block-level signature that does not verify (made over another message); Block.Signature is not part of
		// the block hash, so the mutant keeps B's hash
		k := chainfix.Keys()[c.I%len(chainfix.Keys())]
		m.Signature = &types.Signature{Ty: types.SECP256K1, Pubkey: k.PubKey().Bytes(), Signature: k.Sign([]byte(fmt.Sprintf("not this block %d", c.J))).Bytes()}
	case "heightPlus":
		m.Height++
	case "heightMinus":
		m.Height--
	case "heightForged":
		// a header height that is not parent+1, with tx root and state root made consistent with executing the body at
		// that height (what a careless verifier would compute); if the producer's executor cannot execute at that height
		// only the tx root is recomputed
		h := []int64{0, -1, B.Height - 1, B.Height + 1, B.Height + 5, 1}[c.I%6]
		if h == B.Height {
			h = 0
		}
		var fm *types.Block
		if parent != nil {
			func() {
				defer func() { _ = recover() }()
				if x, err := builder.ChildAt(parent, B.Txs, B.Difficulty, B.BlockTime, h); err == nil && len(x.Txs) == len(B.Txs) {
					fm = x
				}
			}()
		}
		if fm != nil {
			m = fm
		} else {
			m.Height = h
			m.TxHash = merkle.CalcMerkleRoot(cfg, m.Height, m.Txs)
		}
	case "txRoot":
		m.TxHash = append([]byte{}, m.TxHash...)
		m.TxHash[c.I%32] ^= 0x40
	case "stateRoot":
		m.StateHash = append([]byte{}, m.StateHash...)
		m.StateHash[c.I%32] ^= 0x40
	case "recomputedRootWrongState":
		// a consistent header for a different body, but the state root of the original body
		keys := chainfix.Keys()
		m.Txs = append(m.Txs, chainfix.TransferTx(cfg, keys[1], chainfix.Addr(keys[4]), 3e8, int64(800000+c.I)))
		m.Txs = types.TransactionSort(m.Txs)
		m.TxHash = merkle.CalcMerkleRoot(cfg, m.Height, m.Txs)
	case "unknownParent":
		m.ParentHash = append([]byte{}, m.ParentHash...)
		m.ParentHash[c.I%32] ^= 0x40
	}
	return m, bytes.Equal(m.Hash(cfg), B.Hash(cfg))
}

func sameBody(a, b *types.Block) bool {
	if len(a.Txs) != len(b.Txs) || !bytes.Equal(encSig(a.GetSignature()), encSig(b.GetSignature())) {
		return false
	}
	for i := range a.Txs {
		if !bytes.Equal(types.Encode(a.Txs[i]), types.Encode(b.Txs[i])) {
			return false
		}
	}
	return true
}

func encSig(s *types.Signature) []byte {
	if s == nil {
		return nil
	}
	return types.Encode(s)
}

var refViews = map[string]*chainfix.View{}

func reference(f *fixture, key string, withC bool) *chainfix.View {
	k := fmt.Sprintf("%s-%v", key, withC)
	if v, ok := refViews[k]; ok {
		return v
	}
	n := chainfix.NewNode()
	defer n.Close()
	blocks := append(append([]*types.Block{}, f.trunk...), f.B)
	if withC {
		blocks = append(blocks, f.C)
	}
	for _, b := range blocks {
		if _, _, err := n.Deliver(b, "ref", false); err != nil {
			lib.Inconclusive("reference node rejected a genuine block: %v", err)
		}
	}
	v := n.Snapshot(f.txs, f.addrs)
	refViews[k] = v
	return v
}

// referenceTrunk: the view of a node that only ever received the trunk.
func referenceTrunk(f *fixture, key string) *chainfix.View {
	k := key + "-trunk"
	if v, ok := refViews[k]; ok {
		return v
	}
	n := chainfix.NewNode()
	defer n.Close()
	for _, b := range f.trunk {
		if _, _, err := n.Deliver(b, "ref", false); err != nil {
			lib.Inconclusive("reference node rejected a genuine block: %v", err)
		}
	}
	v := n.Snapshot(f.txs, f.addrs)
	refViews[k] = v
	return v
}

// runCase returns (sameHashMutant, toleratedKnown)
func runCase(t lib.TB, test string, c caseSpec) (bool, bool) {
	f := getFixture(c.Trunk, c.NTx)
	n := chainfix.NewNode()
	defer n.Close()
	cfg := n.Cfg
	first := f.trunk
	if c.BeforeParent {
		first = f.trunk[:len(f.trunk)-1] // B's parent arrives only after the mutant
	}
	for _, b := range first {
		if _, _, err := n.Deliver(b, "good", false); err != nil {
			lib.Inconclusive("follower rejected a genuine trunk block: %v", err)
		}
	}
	M, sameHash := mutate(cfg, f.trunk[len(f.trunk)-1], f.B, c)
	if sameHash && sameBody(M, f.B) {
		return sameHash, false // mutation was a no-op (e.g. swap of identical)
	}
	// the follower may already hold B's transactions in its pool, as it would for a freshly broadcast block
	if c.Pool > 0 {
		txs := f.B.Txs
		if c.Pool == 2 {
			txs = txs[:len(txs)-1]
		}
		for _, tx := range txs {
			if _, err := n.GetAPI().SendTx(types.Clone(tx).(*types.Transaction)); err != nil {
				lib.Inconclusive("follower pool refused a valid transaction of B: %v", err)
			}
		}
	}
	before := n.Snapshot(f.txs, f.addrs)
	deliveries := 1
	if c.Twice {
		deliveries = 2
	}
	for d := 0; d < deliveries; d++ {
		_, err := n.GetBlockChain().ProcAddBlockMsg(c.Broadcast, &types.BlockDetail{Block: types.Clone(M).(*types.Block)}, "bad")
		_ = err // orphan (unknown parent) is accepted silently, everything else must be an error; state is what counts
	}
	if c.BeforeParent {
		// now the parent arrives and the waiting mutant is examined; the node must look like one that holds the trunk only
		// (ProcessBlock reports the error of a waiting child that it examined next as the result of the parent's own
		// delivery; the return value is not part of the property, the comparison below shows whether the parent went in)
		_, _, _ = n.Deliver(f.trunk[len(f.trunk)-1], "good", false)
		before = referenceTrunk(f, fmt.Sprintf("%d-%d", c.Trunk, c.NTx))
	}
	// (1) no side effects
	after := n.Snapshot(f.txs, f.addrs)
	if d := chainfix.Diff(after, before); d != "" {
		lib.Violation(t, prop, test, c, "the rejected mutant changed the node's observable chain/state/indexes:\n%s", d)
	}
	Bhash := f.B.Hash(cfg)
	poisoned := false
	// (2) the rejected body is never served under B's hash
	served := func(stage string) {
		if !sameHash {
			return
		}
		st := n.GetBlockChain().GetStore()
		if d, err := st.LoadBlockByHash(Bhash); err == nil && d != nil && !sameBody(d.Block, f.B) {
			if lib.Known(knownPoison) {
				poisoned = true
				return
			}
			lib.Violation(t, prop, test, c, "%s: LoadBlockByHash(hash of B) serves the rejected body (%d txs, genuine has %d)", stage, len(d.Block.Txs), len(f.B.Txs))
		}
		if ds, err := n.GetBlockChain().GetBlockByHashes([][]byte{Bhash}); err == nil && ds != nil && len(ds.Items) == 1 && ds.Items[0] != nil && ds.Items[0].Block != nil && !sameBody(ds.Items[0].Block, f.B) {
			if lib.Known(knownPoison) {
				poisoned = true
				return
			}
			lib.Violation(t, prop, test, c, "%s: GetBlockByHashes(hash of B) serves the rejected body", stage)
		}
	}
	served("after rejection")
	// (3) the genuine block is accepted afterwards
	if c.ChildFirst {
		_, _ = n.GetBlockChain().ProcAddBlockMsg(false, &types.BlockDetail{Block: types.Clone(f.C).(*types.Block)}, "good")
	}
	_, errB := n.GetBlockChain().ProcAddBlockMsg(c.Broadcast, &types.BlockDetail{Block: types.Clone(f.B).(*types.Block)}, "good")
	withC := c.ChildFirst
	if withC {
		_, _ = n.GetBlockChain().ProcAddBlockMsg(false, &types.BlockDetail{Block: types.Clone(f.C).(*types.Block)}, "good2")
	}
	_, tip := n.Tip()
	wantTip := Bhash
	if withC {
		wantTip = f.C.Hash(cfg)
	}
	if !bytes.Equal(tip, wantTip) {
		if sameHash && lib.Known(knownPoison) && (errB == types.ErrBlockExist || poisoned) {
			lib.ExcludedKnown(knownPoison)
			return sameHash, true
		}
		lib.Violation(t, prop, test, c, "after the mutant was rejected, the genuine block B (delivered by another peer, err=%v) did not become the tip: tip=%x want=%x", errB, tip, wantTip)
	}
	served("after genuine block")
	got := n.Snapshot(f.txs, f.addrs)
	if d := chainfix.Diff(got, reference(f, fmt.Sprintf("%d-%d", c.Trunk, c.NTx), withC)); d != "" {
		lib.Violation(t, prop, test, c, "after accepting the genuine block the persisted chain differs from a node that never saw the mutant:\n%s", d)
	}
	if poisoned {
		lib.ExcludedKnown(knownPoison)
		return sameHash, true
	}
	return sameHash, false
}

func TestPropInvalidBlocks(t *testing.T) {
	defer lib.Flush()
	rapid.Check(t, func(t *rapid.T) {
		c := caseSpec{
			Trunk: rapid.IntRange(1, 3).Draw(t, "trunk"), NTx: rapid.IntRange(2, 5).Draw(t, "ntx"),
			I: rapid.IntRange(0, 63).Draw(t, "i"), J: rapid.IntRange(0, 63).Draw(t, "j"),
			Broadcast: rapid.Bool().Draw(t, "broadcast"), ChildFirst: rapid.Bool().Draw(t, "childFirst"), Twice: rapid.Bool().Draw(t, "twice"),
			Pool: rapid.SampledFrom([]int{0, 0, 1, 1, 2}).Draw(t, "pool"),
			BeforeParent: rapid.IntRange(0, 2).Draw(t, "beforeParent") == 0,
		}
		if rapid.IntRange(0, 3).Draw(t, "largeBlock") == 0 {
			// blocks with more transactions than the machine has cores (signature checking is spread over workers), with
			// the operand biased towards the last positions
			c.NTx = rapid.SampledFrom([]int{9, 17, 19, 21, 33, 35, 40}).Draw(t, "ntxLarge")
			if rapid.IntRange(0, 3).Draw(t, "tail") > 0 {
				c.I = c.NTx - 1 - rapid.SampledFrom([]int{0, 0, 0, 1, 2}).Draw(t, "fromEnd")
			}
			c.Trunk = 1
			c.Pool = 0
			c.Mut = rapid.SampledFrom([]string{"alterSigRoot", "alterSigRoot", "alterSigRoot", "alterSig", "alterPubkey", "alterAmount", "swapTx", "dropTx"}).Draw(t, "mutLarge")
		} else if rapid.IntRange(0, 2).Draw(t, "kind") > 0 {
			c.Mut = rapid.SampledFrom(bodyMuts).Draw(t, "mut")
		} else {
			c.Mut = rapid.SampledFrom(headerMuts).Draw(t, "mut")
		}
		if c.Pool > 0 && (c.Mut == "alterSig" || c.Mut == "alterSigRoot" || c.Mut == "alterPubkey") && lib.Known(knownPoolSig) {
			// with the transaction's id in the pool its signature is not verified at all (known finding of C28):
			// excluded by construction while that finding is listed
			lib.ExcludedKnown(knownPoolSig)
			c.Mut = "blockSig"
		}
		lib.Eval()
		same, tolerated := runCase(t, "TestPropInvalidBlocks", c)
		lib.Class("mut:" + c.Mut)
		if c.Pool > 0 {
			lib.Class("txs_in_pool")
		}
		if c.BeforeParent {
			lib.Class("mutant_before_its_parent")
		}
		if c.NTx > 8 {
			lib.Class("large_block")
		}
		if tolerated {
			lib.Class("tolerated_known")
		}
		if same {
			lib.Class("mutant_has_B_hash")
			lib.NonTrivialCase(c)
		}
	})
}

// TestKnown_TamperedBodyPoisonsHash: pinned minimal case — B with the signature of one transaction altered (the
// header hash covers the tx root and tx count, not signatures, so the hash is B's), delivered by broadcast from
// peer "bad", then the genuine B from peer "good".
func TestKnown_TamperedBodyPoisonsHash(t *testing.T) {
	defer lib.Flush()
	c := caseSpec{Trunk: 1, NTx: 2, Mut: "alterSig", I: 0, Broadcast: true}
	f := getFixture(c.Trunk, c.NTx)
	n := chainfix.NewNode()
	defer n.Close()
	for _, b := range f.trunk {
		if _, _, err := n.Deliver(b, "good", false); err != nil {
			lib.Inconclusive("follower rejected a genuine trunk block: %v", err)
		}
	}
	M, _ := mutate(n.Cfg, f.trunk[len(f.trunk)-1], f.B, c)
	_, errM := n.GetBlockChain().ProcAddBlockMsg(true, &types.BlockDetail{Block: M}, "bad")
	_, errB := n.GetBlockChain().ProcAddBlockMsg(true, &types.BlockDetail{Block: types.Clone(f.B).(*types.Block)}, "good")
	_, tip := n.Tip()
	t.Logf("mutant err=%v genuine err=%v tipIsB=%v", errM, errB, bytes.Equal(tip, f.B.Hash(n.Cfg)))
	if !bytes.Equal(tip, f.B.Hash(n.Cfg)) {
		lib.KnownOrViolation(t, prop, "TestKnown_TamperedBodyPoisonsHash", knownPoison, c,
			fmt.Sprintf("a block with B's header hash but one altered transaction signature is rejected (%v) yet stays indexed and stored under B's hash; the genuine B from another peer is then refused (%v) and never becomes the tip", errM, errB))
	}
}

// TestRegress_LargeBlockTailSignature: blocks with more transactions than cores, the signature of one of the last
// transactions altered (fixed cases; the same shapes are drawn by the search).
func TestRegress_LargeBlockTailSignature(t *testing.T) {
	defer lib.Flush()
	for _, n := range []int{3, 5, 9, 17, 19, 21, 35, 40} {
		for _, back := range []int{0, 1} {
			for _, mut := range []string{"alterSig", "alterSigRoot", "alterPubkey"} {
				c := caseSpec{Trunk: 1, NTx: n, Mut: mut, I: n - 1 - back, Broadcast: back == 0}
				lib.Eval()
				runCase(t, "TestRegress_LargeBlockTailSignature", c)
			}
		}
	}
}
