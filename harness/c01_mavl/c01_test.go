// C01: the mavl state store behaves as a persistent versioned map.
//
// Oracle (from the property text): model[root] = copy(model[parent]) + batch (last write wins).  Reading a key
// at the root of batch i returns the most recent write in batches 1..i or nothing; reads do not change after
// later commits nor after close/reopen; a range iteration visits exactly the model's keys in [start,end),
// once each, in the requested order.  The model is a plain Go map per root and shares no code with the store.
// Nothing in the property lets an update that is merely pending (MemSet without Commit, an empty batch, an
// upgrade-mode MemSetUpgrade/CommitUpgrade computation) change what a committed root reads or iterates: pending
// updates are generated and left in the store's pending table while committed roots are read, then committed
// (a new version of the model) or rolled back (nothing).
package c01

import (
	"bytes"
	"encoding/hex"
	"encoding/json"
	"fmt"
	"os"
	"regexp"
	"sort"
	"testing"

	clog "github.com/33cn/chain33/common/log"
	"github.com/33cn/chain33/system/store/mavl"
	mavldb "github.com/33cn/chain33/system/store/mavl/db"
	"github.com/33cn/chain33/system/store/mavl/db/ticket"
	"github.com/33cn/chain33/types"
	"pgregory.net/rapid"
	"verifharness/lib"
)

const prop = "C01"

func TestMain(m *testing.M) {
	clog.SetLogLevel("crit")
	mavl.DisableLog()
	lib.Main(m)
}

// ---------------------------------------------------------------- case description (plain data, replayable)

type hx []byte // rendered as hex in JSON

func (h hx) MarshalJSON() ([]byte, error) { return json.Marshal(hex.EncodeToString(h)) }

type storeCfg struct {
	Prefix, Prune, MemTree, MemVal, MVCC bool
	TkCache                              int32  // tkCloseCacheLen (0 = default)
	Driver                               string // "memdb" | "leveldb"
	EmptyNil                             bool   // empty state passed as nil instead of 32 zero bytes
}

type kvSpec struct {
	Live int `json:"live"` // >=0: overwrite the (Live mod n)-th key of the parent state (falls back to K when the parent is empty)
	K    hx  `json:"k"`
	V    hx  `json:"v"`
}

type bound struct {
	Kind string `json:"kind"` // nil | live | succ | pred | key
	I    int    `json:"i,omitempty"`
	K    hx     `json:"k,omitempty"`
}

type op struct {
	Op     string   `json:"op"` // commit | redo | check | range | reopen | pmemset | presolve | upgrade
	Parent int      `json:"parent,omitempty"`
	KVs    []kvSpec `json:"kvs,omitempty"`
	MemSet bool     `json:"memset,omitempty"` // commit through MemSet+Commit instead of Set
	Root   int      `json:"root,omitempty"`
	Start  *bound   `json:"start,omitempty"`
	End    *bound   `json:"end,omitempty"`
	Desc   bool     `json:"desc,omitempty"`
	Stop   int      `json:"stop,omitempty"` // >0: callback asks to stop after Stop visits
	Redo   int      `json:"redo,omitempty"`
	// pmemset: MemSet left pending; KVs may be EMPTY; Like >= 0 repeats the (parent, batch) of an earlier commit, so the
	// pending root equals an already committed root.  upgrade: MemSetUpgrade+CommitUpgrade (computes, stores nothing).
	Like *int `json:"like,omitempty"`
	// presolve: Commit (true) or Rollback (false) of the (Pend mod n)-th pending update
	Pend       int  `json:"pend,omitempty"`
	CommitPend bool `json:"commit_pend,omitempty"`
}

type testCase struct {
	Cfg storeCfg `json:"cfg"`
	Ops []op     `json:"ops"`
}

// ---------------------------------------------------------------- generators

var fixedKeys = [][]byte{{}, []byte("a"), []byte("ab"), []byte("ab\x00"), []byte("a\x00"), []byte("b"), {0xff}, {0xff, 0xff}, {0x00},
	[]byte("mavl-coins-bty-1"), []byte("mavl-coins-bty-12"), append([]byte{}, ticket.TicketPrefix...)}

var closedTicket = types.Encode(&ticket.Ticket{TicketId: "t", Status: ticket.StatusCloseTicket})

func genKey() *rapid.Generator[[]byte] {
	small := rapid.SliceOfN(rapid.SampledFrom([]byte{0x00, 'a', 'b', 0xff}), 1, 12)
	return rapid.OneOf(
		rapid.SampledFrom(fixedKeys),
		small, small, small,
		rapid.SliceOfN(rapid.Byte(), 1, 12),
		rapid.Map(rapid.SliceOfN(rapid.SampledFrom([]byte{'0', '1', 0x00, 0xff}), 0, 3), func(s []byte) []byte {
			return append(append([]byte{}, "mavl-acc-"...), s...)
		}),
		rapid.Map(rapid.SliceOfN(rapid.SampledFrom([]byte{'0', '1'}), 0, 3), func(s []byte) []byte {
			return append(append([]byte{}, ticket.TicketPrefix...), s...)
		}),
	)
}

func genVal() *rapid.Generator[[]byte] {
	return rapid.OneOf(rapid.SliceOfN(rapid.Byte(), 0, 40), rapid.SliceOfN(rapid.Byte(), 1, 6), rapid.Just(closedTicket))
}

func genBatch(t *rapid.T, maxBatch int) []kvSpec {
	var n int
	if maxBatch < 32 { // small batches for updates that stay pending
		kvs := genBatch(t, 32)
		if len(kvs) > maxBatch {
			kvs = kvs[:maxBatch]
		}
		return kvs
	}
	switch rapid.IntRange(0, 9).Draw(t, "sizeClass") {
	case 0:
		n = rapid.IntRange(32, maxBatch).Draw(t, "nBig")
	case 1, 2:
		n = rapid.IntRange(5, 31).Draw(t, "nMid")
	default:
		n = rapid.IntRange(1, 4).Draw(t, "nSmall")
	}
	kvs := make([]kvSpec, n)
	for i := range kvs {
		kvs[i] = kvSpec{Live: -1, K: genKey().Draw(t, "k"), V: genVal().Draw(t, "v")}
		if rapid.IntRange(0, 9).Draw(t, "ow") < 3 { // 30 % overwrites of live keys
			kvs[i].Live = rapid.IntRange(0, 1<<20).Draw(t, "live")
		}
	}
	return kvs
}

func genBound(t *rapid.T, label string) *bound {
	switch rapid.IntRange(0, 5).Draw(t, label) {
	case 0, 1:
		return &bound{Kind: "nil"}
	case 2:
		return &bound{Kind: "live", I: rapid.IntRange(0, 1<<20).Draw(t, "bi")}
	case 3:
		return &bound{Kind: "succ", I: rapid.IntRange(0, 1<<20).Draw(t, "bi")}
	case 4:
		return &bound{Kind: "pred", I: rapid.IntRange(0, 1<<20).Draw(t, "bi")}
	}
	return &bound{Kind: "key", K: genKey().Draw(t, "bk")}
}

func genCase(t *rapid.T) testCase {
	c := testCase{}
	c.Cfg = storeCfg{
		Prefix: rapid.Bool().Draw(t, "prefix"), Prune: rapid.Bool().Draw(t, "prune"),
		// every open with the node cache enabled allocates a 500k-slot map (InitGlobalMem), 0.1-0.3 s: one case in four
		MemTree: rapid.IntRange(0, 3).Draw(t, "memTree") == 0, MemVal: rapid.Bool().Draw(t, "memVal"),
		MVCC:     rapid.IntRange(0, 6).Draw(t, "mvcc") == 0,
		TkCache:  rapid.SampledFrom([]int32{0, 2, 16}).Draw(t, "tkCache"),
		Driver:   rapid.SampledFrom([]string{"memdb", "leveldb"}).Draw(t, "driver"),
		EmptyNil: rapid.Bool().Draw(t, "emptyNil"),
	}
	if c.Cfg.Prune {
		// GoMemDB is a test backend whose batch fails on deleting an absent key, which mavl's prune bookkeeping does
		// when a height is written twice; pruning configurations therefore run on the backend nodes use (leveldb).
		c.Cfg.Driver = "leveldb"
	}
	maxSteps, maxBatch := lib.Pick(30, 60), lib.Pick(150, 300)
	n := rapid.IntRange(4, maxSteps).Draw(t, "nops")
	for i := 0; i < n; i++ {
		idx := func(l string) int { return rapid.IntRange(0, 1<<20).Draw(t, l) }
		switch rapid.SampledFrom([]string{"commit", "commit", "commit", "commit", "commit", "redo", "check", "check", "range", "range", "range", "range", "reopen",
			"pmemset", "pmemset", "pmemset", "presolve", "presolve", "presolve", "upgrade"}).Draw(t, "op") {
		case "pmemset", "upgrade":
			o := op{Op: "pmemset", Parent: -1}
			if rapid.IntRange(0, 1).Draw(t, "ptip") == 0 {
				o.Parent = idx("parent")
			}
			switch rapid.IntRange(0, 9).Draw(t, "pkind") {
			case 0, 1, 2, 3: // empty batch: its root is the parent's root
			case 4, 5: // content that is already committed
				like := idx("like")
				o.Like = &like
			default:
				o.KVs = genBatch(t, 12)
			}
			if rapid.IntRange(0, 3).Draw(t, "upg") == 0 {
				o.Op = "upgrade"
			}
			c.Ops = append(c.Ops, o)
		case "presolve":
			c.Ops = append(c.Ops, op{Op: "presolve", Pend: idx("pend"), CommitPend: rapid.Bool().Draw(t, "commitPend")})
		case "commit":
			o := op{Op: "commit", KVs: genBatch(t, maxBatch), MemSet: rapid.Bool().Draw(t, "memset")}
			if rapid.IntRange(0, 2).Draw(t, "tip") == 0 {
				o.Parent = idx("parent") // any root committed so far
			} else {
				o.Parent = -1 // newest root
			}
			c.Ops = append(c.Ops, o)
		case "redo":
			c.Ops = append(c.Ops, op{Op: "redo", Redo: idx("redo"), MemSet: rapid.Bool().Draw(t, "memset")})
		case "check":
			c.Ops = append(c.Ops, op{Op: "check", Root: idx("root")})
		case "range":
			o := op{Op: "range", Root: idx("root"), Start: genBound(t, "start"), End: genBound(t, "end"), Desc: rapid.Bool().Draw(t, "desc")}
			if rapid.IntRange(0, 3).Draw(t, "stopq") == 0 {
				o.Stop = rapid.IntRange(1, 5).Draw(t, "stop")
			}
			c.Ops = append(c.Ops, o)
		case "reopen":
			c.Ops = append(c.Ops, op{Op: "reopen"})
		}
	}
	return c
}

// ---------------------------------------------------------------- fixture

// fixture owns one Store.  The mavl package keeps process-global node caches (memTree, tkCloseCache) that
// InitGlobalMem only creates when they are nil; they are released before every open so that a case never sees
// nodes cached by a previous case (a previous case used another database, possibly another key-prefix layout).
// A reopen releases them too: a real restart is a new process with empty caches.
type fixture struct {
	cfg   storeCfg
	dir   string
	store *mavl.Store
	tcfg  *mavldb.TreeConfig
}

func (f *fixture) open() {
	mavldb.ReleaseGlobalMem()
	sub, _ := json.Marshal(map[string]interface{}{
		"enableMavlPrefix": f.cfg.Prefix, "enableMVCC": f.cfg.MVCC, "enableMavlPrune": f.cfg.Prune,
		"pruneHeight":   1 << 30, // so large that Tree.Save never starts the pruning goroutine
		"enableMemTree": f.cfg.MemTree, "enableMemVal": f.cfg.MemVal, "tkCloseCacheLen": f.cfg.TkCache,
	})
	f.store = mavl.New(&types.Store{Name: "mavl", Driver: f.cfg.Driver, DbPath: f.dir, DbCache: 16}, sub, nil).(*mavl.Store)
	// the same tree configuration mavl.New derives (pruning forces the prefix), for direct Tree reads
	f.tcfg = &mavldb.TreeConfig{EnableMavlPrefix: f.cfg.Prefix || f.cfg.Prune, EnableMVCC: f.cfg.MVCC, EnableMavlPrune: f.cfg.Prune,
		EnableMemTree: f.cfg.MemTree, EnableMemVal: f.cfg.MemVal, TkCloseCacheLen: f.cfg.TkCache}
}

func (f *fixture) close() {
	f.store.Close()
	mavldb.ReleaseGlobalMem()
}

// ---------------------------------------------------------------- model + runner

type version struct {
	hash   []byte // nil for the empty state
	height int64
	kv     map[string][]byte
}

type commitRec struct {
	parent int
	kvs    []*types.KeyValue
	root   []byte
}

type stats struct {
	commits, overwrites, bigBatch, oldReads, nonTip, reopens, desc, emptyKey, ffKey, dupInBatch, rangeNonEmpty, ticketClosed int
	pendEmpty, pendNonEmpty, pendEqualsCommitted, pendCommit, pendRollback, upgEmpty, upgNonEmpty                            int
	readsWhilePending, rangeWhilePendingOnRoot, pendingAtEnd                                                                 int
	toleratedKnown                                                                                                           bool
}

// pendEntry mirrors one entry of the store's pending table (keyed by the hash MemSet returned).
type pendEntry struct {
	hash   []byte
	parent int
	kvs    []*types.KeyValue // empty: nil marker stored under the parent's state hash
}

type runner struct {
	t       lib.TB
	c       testCase
	step    int
	fx      *fixture
	vers    []*version // vers[0] = empty state
	byHash  map[string]int
	commits []commitRec
	allKeys map[string]bool
	pend    []*pendEntry // the harness's view of the store's pending table, in creation order
	st      stats
}

func (r *runner) fail(format string, a ...interface{}) {
	c := r.c
	c.Ops = c.Ops[:r.step+1]
	lib.Violation(r.t, prop, "TestPropVersionedMap", c, "step %d (%s): %s", r.step, c.Ops[r.step].Op, fmt.Sprintf(format, a...))
}

func (r *runner) stateHash(v *version) []byte {
	if v.hash == nil && !r.c.Cfg.EmptyNil {
		return make([]byte, 32)
	}
	return v.hash
}

func sortedKeys(m map[string][]byte) []string {
	ks := make([]string, 0, len(m))
	for k := range m {
		ks = append(ks, k)
	}
	sort.Strings(ks)
	return ks
}

func (r *runner) resolveBatch(parent *version, specs []kvSpec) []*types.KeyValue {
	live := sortedKeys(parent.kv)
	out := make([]*types.KeyValue, len(specs))
	for i, s := range specs {
		k := []byte(s.K)
		if s.Live >= 0 && len(live) > 0 {
			k = []byte(live[s.Live%len(live)])
		}
		out[i] = &types.KeyValue{Key: append([]byte{}, k...), Value: append([]byte{}, s.V...)}
	}
	return out
}

// apply commits kvs on top of parent through one of the two public routes and returns the new root.
func (r *runner) apply(parent *version, kvs []*types.KeyValue, memset bool) []byte {
	set := &types.StoreSet{StateHash: r.stateHash(parent), KV: kvs, Height: parent.height + 1}
	if !memset {
		h, err := r.fx.store.Set(set, false)
		if err != nil {
			r.fail("Set on committed root %x failed: %v", parent.hash, err)
		}
		return h
	}
	h, err := r.fx.store.MemSet(set, false)
	if err != nil {
		r.fail("MemSet on committed root %x failed: %v", parent.hash, err)
	}
	h2, err := r.fx.store.Commit(&types.ReqHash{Hash: h})
	if err != nil || !bytes.Equal(h, h2) {
		r.fail("Commit(%x) = %x, %v", h, h2, err)
	}
	r.dropPending(h) // the pending table is keyed by root: this MemSet replaced, and Commit removed, an equal-root entry
	return h
}

func (r *runner) dropPending(h []byte) {
	for i, p := range r.pend {
		if bytes.Equal(p.hash, h) {
			r.pend = append(r.pend[:i], r.pend[i+1:]...)
			return
		}
	}
}

func (r *runner) commit(o op) {
	pi := len(r.vers) - 1
	if o.Parent >= 0 {
		pi = o.Parent % len(r.vers)
	}
	parent := r.vers[pi]
	kvs := r.resolveBatch(parent, o.KVs)
	r.record(pi, kvs, r.apply(parent, kvs, o.MemSet))
}

// record enters a committed batch in the model and checks the new root against it.
func (r *runner) record(pi int, kvs []*types.KeyValue, root []byte) {
	parent := r.vers[pi]
	if len(root) != 32 {
		r.fail("commit returned root %x (want 32 bytes)", root)
	}
	next := make(map[string][]byte, len(parent.kv)+len(kvs))
	for k, v := range parent.kv {
		next[k] = v
	}
	inBatch := map[string]bool{}
	for _, kv := range kvs {
		k := string(kv.Key)
		if _, ok := parent.kv[k]; ok {
			r.st.overwrites++
		}
		if inBatch[k] {
			r.st.dupInBatch++
		}
		inBatch[k] = true
		next[k] = kv.Value
		r.allKeys[k] = true
		switch {
		case len(kv.Key) == 0:
			r.st.emptyKey++
		case kv.Key[0] == 0xff:
			r.st.ffKey++
		}
		if bytes.HasPrefix(kv.Key, ticket.TicketPrefix) && bytes.Equal(kv.Value, closedTicket) {
			r.st.ticketClosed++
		}
	}
	if len(kvs) >= 32 {
		r.st.bigBatch++
	}
	if pi != len(r.vers)-1 {
		r.st.nonTip++
	}
	r.st.commits++
	r.commits = append(r.commits, commitRec{parent: pi, kvs: kvs, root: root})
	if vi, ok := r.byHash[string(root)]; ok {
		// the same root again (e.g. rewriting equal values): it must denote the same content
		if !sameMap(r.vers[vi].kv, next) {
			r.fail("root %x returned for two different contents (%d vs %d keys)", root, len(r.vers[vi].kv), len(next))
		}
		r.verify(vi, false)
		return
	}
	r.byHash[string(root)] = len(r.vers)
	r.vers = append(r.vers, &version{hash: root, height: parent.height + 1, kv: next})
	r.verify(len(r.vers)-1, false)
}

func sameMap(a, b map[string][]byte) bool {
	if len(a) != len(b) {
		return false
	}
	for k, v := range a {
		w, ok := b[k]
		if !ok || !bytes.Equal(v, w) {
			return false
		}
	}
	return true
}

// fib(h+2) is the minimum number of leaves of an AVL-balanced leaf tree of height h (leaf height 0).
func minLeaves(h int32) int64 {
	a, b := int64(1), int64(2)
	for i := int32(0); i < h; i++ {
		a, b = b, a+b
	}
	return a
}

// verify compares every observation of one committed version with the model.
func (r *runner) verify(vi int, full bool) {
	v := r.vers[vi]
	mvcc := r.c.Cfg.MVCC
	// probe keys: the version's own keys, keys only other versions have, never-written neighbours
	probe := sortedKeys(v.kv)
	for k := range r.allKeys {
		if _, ok := v.kv[k]; !ok {
			probe = append(probe, k)
		}
	}
	sort.Strings(probe)
	limit := 160
	if full {
		limit = 800
	}
	if len(probe) > limit { // deterministic thinning
		stride := (len(probe) + limit - 1) / limit
		var p2 []string
		for i := (vi + r.step) % stride; i < len(probe); i += stride {
			p2 = append(p2, probe[i])
		}
		probe = p2
	}
	probe = append(probe, "never-written", "\xff\xff\xff-never")
	if len(probe) > 2 {
		probe = append(probe, probe[0]+"\x00never")
	}
	keys := make([][]byte, len(probe))
	for i, k := range probe {
		keys[i] = []byte(k)
	}
	// 1. Store.Get: value of the most recent write, or nothing.  The interface returns a nil slice for "nothing",
	// which it cannot distinguish from an empty value, so an empty value is compared as empty-or-nil here and the
	// presence bit is checked through Tree.Get below.  Under MVCC the tree deliberately does not persist values.
	got := r.fx.store.Get(&types.StoreGet{StateHash: r.stateHash(v), Keys: keys})
	if len(got) != len(keys) {
		r.fail("Get returned %d values for %d keys", len(got), len(keys))
	}
	if !mvcc {
		for i, k := range probe {
			if want := v.kv[k]; !bytes.Equal(got[i], want) {
				r.fail("Get(root#%d %x, key %x) = %x, model %x (present %v)", vi, v.hash, k, got[i], want, v.kv[k] != nil)
			}
		}
	}
	// 2. direct tree view of the same root: presence, size, AVL height bounds
	tree := mavldb.NewTree(r.fx.store.GetDB(), true, r.fx.tcfg)
	if err := tree.Load(r.stateHash(v)); err != nil {
		r.fail("Load(root#%d %x): %v", vi, v.hash, err)
	}
	if int(tree.Size()) != len(v.kv) {
		r.fail("Size(root#%d %x) = %d, model %d", vi, v.hash, tree.Size(), len(v.kv))
	}
	if n := int64(len(v.kv)); n > 0 && (n < minLeaves(tree.Height()) || n > int64(1)<<uint(tree.Height())) {
		r.fail("Height(root#%d) = %d impossible for a balanced tree with %d leaves", vi, tree.Height(), n)
	}
	for _, k := range probe {
		_, val, ok := tree.Get([]byte(k))
		want, present := v.kv[k]
		if ok != present || (ok && !mvcc && !bytes.Equal(val, want)) {
			r.fail("Tree.Get(root#%d, key %x) = (%x,%v), model (%x,%v)", vi, k, val, ok, want, present)
		}
		if tree.Has([]byte(k)) != present {
			r.fail("Tree.Has(root#%d, key %x) = %v, model %v", vi, k, !present, present)
		}
	}
	// 3. full iteration equals the sorted model content
	if full || len(v.kv) <= 400 {
		r.iterate(vi, nil, nil, false, 0)
	}
}

// iterate runs one range read and compares it with the model's keys in [start,end).
func (r *runner) iterate(vi int, start, end []byte, desc bool, stop int) int {
	v := r.vers[vi]
	var want []string
	for _, k := range sortedKeys(v.kv) {
		if (start == nil || bytes.Compare([]byte(k), start) >= 0) && (end == nil || bytes.Compare([]byte(k), end) < 0) {
			want = append(want, k)
		}
	}
	if desc {
		for i, j := 0, len(want)-1; i < j; i, j = i+1, j-1 {
			want[i], want[j] = want[j], want[i]
		}
	}
	if stop > 0 && len(want) > stop {
		want = want[:stop]
	}
	var gotK []string
	var gotV [][]byte
	r.fx.store.IterateRangeByStateHash(r.stateHash(v), start, end, !desc, func(k, val []byte) bool {
		gotK = append(gotK, string(k))
		gotV = append(gotV, append([]byte{}, val...))
		return stop > 0 && len(gotK) >= stop
	})
	if len(gotK) != len(want) {
		r.fail("range(root#%d %x, [%x,%x) nilStart=%v nilEnd=%v desc=%v stop=%d) visited %d keys %x, model %d keys %x",
			vi, v.hash, start, end, start == nil, end == nil, desc, stop, len(gotK), gotK, len(want), want)
	}
	for i := range want {
		if gotK[i] != want[i] {
			r.fail("range(root#%d, [%x,%x) desc=%v) position %d: key %x, model %x", vi, start, end, desc, i, gotK[i], want[i])
		}
		if !r.c.Cfg.MVCC && !bytes.Equal(gotV[i], v.kv[want[i]]) {
			r.fail("range(root#%d) key %x: value %x, model %x", vi, want[i], gotV[i], v.kv[want[i]])
		}
	}
	return len(want)
}

func (r *runner) resolveBound(v *version, b *bound, isEnd bool) []byte {
	live := sortedKeys(v.kv)
	var k []byte
	switch b.Kind {
	case "nil":
		return nil
	case "key":
		k = append([]byte{}, b.K...)
	default:
		if len(live) == 0 {
			return nil
		}
		k = []byte(live[b.I%len(live)])
		switch b.Kind {
		case "succ":
			k = append(k, 0x00) // immediate successor in byte order
		case "pred": // a key just below: strip a trailing 0x00, else decrement the last byte
			if n := len(k); n > 0 && k[n-1] == 0 {
				k = k[:n-1]
			} else if n > 0 {
				k[n-1]--
				k = append(k, 0xff)
			}
		}
	}
	// An empty non-nil end bound has no agreed meaning for callers (over the wire it decodes to nil = unbounded);
	// it is not generated.  An empty start bound means "from the first key" under both readings.
	if isEnd && len(k) == 0 {
		return nil
	}
	return k
}

// Known finding C02-memtree-pending-poison (pinned and explained in harness/c02_rootdet): with key prefixing and the
// node cache, nodes of merely computed trees (pending MemSet, MemSetUpgrade) shadow committed nodes in the process-global
// cache and point at children that were never written.  While it is listed, a case that stops with exactly its
// signature is counted as excluded: prefix/prune + memTree configuration, >= 1 non-empty pending or upgrade-mode batch
// executed, panic "(left|right) hash 0x<height-prefixed key> ErrNodeNotExist", that key absent from the database and a
// record with the same 32-byte content hash present under another key.  Not listed: the panic is a violation.
const knownPoison = "C02-memtree-pending-poison"

var missingNodeRe = regexp.MustCompile(`(?:left|right) hash 0x([0-9a-f]+) ErrNodeNotExist`)

func (r *runner) poisonSignature(panicMsg string) bool {
	c := r.c.Cfg
	if !(c.Prefix || c.Prune) || !c.MemTree || r.st.pendNonEmpty+r.st.upgNonEmpty == 0 {
		return false
	}
	m := missingNodeRe.FindStringSubmatch(panicMsg)
	if m == nil {
		return false
	}
	key, err := hex.DecodeString(m[1])
	if err != nil || len(key) <= 32 {
		return false
	}
	db := r.fx.store.GetDB()
	if v, _ := db.Get(key); len(v) > 0 {
		return false
	}
	raw := key[len(key)-32:]
	if v, _ := db.Get(raw); len(v) > 0 { // twin stored without prefix (it once was a root)
		return true
	}
	it := db.Iterator(key[:5], nil, false) // "_mb_-" or "_mh_-"
	defer it.Close()
	for it.Rewind(); it.Valid(); it.Next() {
		if bytes.HasSuffix(it.Key(), raw) && !bytes.Equal(it.Key(), key) {
			return true
		}
	}
	return false
}

func runCase(t lib.TB, c testCase) (st stats) {
	dir, err := os.MkdirTemp("", "c01-")
	if err != nil {
		lib.Inconclusive("tempdir: %v", err)
	}
	defer os.RemoveAll(dir)
	r := &runner{t: t, c: c, fx: &fixture{cfg: c.Cfg, dir: dir}, byHash: map[string]int{}, allKeys: map[string]bool{}}
	r.vers = []*version{{kv: map[string][]byte{}}}
	r.fx.open()
	defer func() { r.fx.close() }()
	defer func() { // registered last: runs while the store is still open
		if e := recover(); e != nil {
			if lib.Known(knownPoison) && r.poisonSignature(fmt.Sprint(e)) {
				lib.ExcludedKnown(knownPoison)
				r.st.toleratedKnown = true
				st = r.st
				return
			}
			panic(e) // everything else (including rapid's own control-flow panics) is passed on untouched
		}
	}()
	for i, o := range c.Ops {
		r.step = i
		switch o.Op {
		case "commit":
			r.commit(o)
		case "redo": // the same (parent, batch) must give the same root again, by either route
			if len(r.commits) == 0 {
				continue
			}
			cr := r.commits[o.Redo%len(r.commits)]
			if root := r.apply(r.vers[cr.parent], cr.kvs, o.MemSet); !bytes.Equal(root, cr.root) {
				r.fail("re-applying commit #%d to parent root#%d gave root %x, first time %x", o.Redo%len(r.commits), cr.parent, root, cr.root)
			}
			r.verify(r.byHash[string(cr.root)], false)
		case "check":
			if o.Root%len(r.vers) != len(r.vers)-1 {
				r.st.oldReads++
			}
			r.notePendingRead(o.Root%len(r.vers), false)
			r.verify(o.Root%len(r.vers), false)
		case "range":
			vi := o.Root % len(r.vers)
			if vi != len(r.vers)-1 {
				r.st.oldReads++
			}
			if o.Desc {
				r.st.desc++
			}
			r.notePendingRead(vi, true)
			if r.iterate(vi, r.resolveBound(r.vers[vi], o.Start, false), r.resolveBound(r.vers[vi], o.End, true), o.Desc, o.Stop) > 0 {
				r.st.rangeNonEmpty++
			}
		case "pmemset", "upgrade":
			r.pending(o)
		case "presolve":
			r.resolvePending(o)
		case "reopen":
			if c.Cfg.Driver != "leveldb" {
				continue
			}
			r.fx.close()
			r.fx.open()
			r.pend = nil // pending updates live in memory only
			r.st.reopens++
			r.st.oldReads += len(r.vers) - 1
			for vi := range r.vers {
				r.verify(vi, true)
			}
		}
	}
	// every version ever committed still reads as the model says (pending updates that were never resolved,
	// and the markers upgrade-mode batches leave behind, are still in the store's table here)
	r.step = len(c.Ops) - 1
	r.st.pendingAtEnd = len(r.pend)
	for vi := range r.vers {
		r.verify(vi, true)
	}
	return r.st
}

// notePendingRead counts reads issued while the pending table is non-empty, and range reads of a committed root
// whose hash is a key of the pending table (the parent of an empty pending batch, or a root equal to a pending one).
func (r *runner) notePendingRead(vi int, isRange bool) {
	if len(r.pend) == 0 {
		return
	}
	r.st.readsWhilePending++
	for _, p := range r.pend {
		if isRange && bytes.Equal(p.hash, r.stateHash(r.vers[vi])) {
			r.st.rangeWhilePendingOnRoot++
		}
	}
}

// pending runs a MemSet that stays pending (or an upgrade-mode MemSetUpgrade+CommitUpgrade, which computes a root and
// stores nothing) and then reads the committed roots it could disturb: its parent and the committed root equal to
// the pending root, by point reads and by iteration in both directions and over a sub-range.
func (r *runner) pending(o op) {
	pi := len(r.vers) - 1
	if o.Parent >= 0 {
		pi = o.Parent % len(r.vers)
	}
	kvs := r.resolveBatch(r.vers[pi], o.KVs)
	if o.Like != nil && len(r.commits) > 0 {
		cr := r.commits[*o.Like%len(r.commits)]
		pi, kvs = cr.parent, cr.kvs
	}
	parent := r.vers[pi]
	set := &types.StoreSet{StateHash: r.stateHash(parent), KV: kvs, Height: parent.height + 1}
	var h []byte
	var err error
	if o.Op == "upgrade" {
		if h, err = r.fx.store.MemSetUpgrade(set, false); err == nil {
			_, err = r.fx.store.CommitUpgrade(&types.ReqHash{Hash: h, Upgrade: true})
		}
		if len(kvs) == 0 {
			r.st.upgEmpty++
		} else {
			r.st.upgNonEmpty++
		}
	} else {
		h, err = r.fx.store.MemSet(set, false)
	}
	if err != nil {
		r.fail("%s on committed root#%d %x failed: %v", o.Op, pi, parent.hash, err)
	}
	if len(kvs) == 0 && !bytes.Equal(h, set.StateHash) {
		r.fail("%s of an empty batch on root#%d %x returned %x", o.Op, pi, parent.hash, h)
	}
	if o.Op == "pmemset" || len(kvs) == 0 { // an empty upgrade-mode batch leaves its marker in the table as well
		r.dropPending(h)
		r.pend = append(r.pend, &pendEntry{hash: h, parent: pi, kvs: kvs})
	}
	if o.Op == "pmemset" {
		switch {
		case len(kvs) == 0:
			r.st.pendEmpty++
		default:
			r.st.pendNonEmpty++
		}
	}
	touched := []int{pi}
	if vi, ok := r.byHash[string(h)]; ok && vi != pi {
		touched = append(touched, vi)
		if o.Op == "pmemset" {
			r.st.pendEqualsCommitted++
		}
	}
	for _, vi := range touched {
		r.readAround(vi)
	}
}

// readAround: point reads + full ascending iteration (verify), full descending iteration, and one inner sub-range.
func (r *runner) readAround(vi int) {
	r.notePendingRead(vi, true)
	r.verify(vi, false)
	if len(r.vers[vi].kv) <= 400 {
		r.iterate(vi, nil, nil, true, 0)
		if ks := sortedKeys(r.vers[vi].kv); len(ks) >= 2 {
			r.iterate(vi, []byte(ks[len(ks)/3]), []byte(ks[len(ks)-1]), r.step%2 == 0, 0)
		}
	}
}

// resolvePending commits or rolls back one pending update; a committed non-empty one becomes a version of the model.
func (r *runner) resolvePending(o op) {
	if len(r.pend) == 0 {
		return
	}
	i := o.Pend % len(r.pend)
	p := r.pend[i]
	r.pend = append(r.pend[:i], r.pend[i+1:]...)
	var h []byte
	var err error
	if o.CommitPend {
		h, err = r.fx.store.Commit(&types.ReqHash{Hash: p.hash})
		r.st.pendCommit++
	} else {
		h, err = r.fx.store.Rollback(&types.ReqHash{Hash: p.hash})
		r.st.pendRollback++
	}
	if err != nil || !bytes.Equal(h, p.hash) {
		r.fail("commit=%v of pending update %x (parent root#%d, %d writes) = %x, %v", o.CommitPend, p.hash, p.parent, len(p.kvs), h, err)
	}
	if o.CommitPend && len(p.kvs) > 0 {
		r.record(p.parent, p.kvs, p.hash)
	}
	r.readAround(p.parent)
	if vi, ok := r.byHash[string(p.hash)]; ok && vi != p.parent {
		r.readAround(vi)
	}
}

func TestPropVersionedMap(t *testing.T) {
	defer lib.Flush()
	rapid.Check(t, func(t *rapid.T) {
		c := genCase(t)
		lib.Eval()
		st := runCase(t, c)
		cls := func(cond bool, label string) {
			if cond {
				lib.Class(label)
			}
		}
		cls(st.reopens > 0, "reopen")
		cls(st.desc > 0, "descending_range")
		cls(st.emptyKey > 0, "empty_key")
		cls(st.ffKey > 0, "0xff_key")
		cls(st.oldReads > 0, "old_root_read")
		cls(st.bigBatch > 0, "batch>=32")
		cls(st.overwrites > 0, "overwrite")
		cls(st.nonTip > 0, "non_tip_parent")
		cls(st.dupInBatch > 0, "dup_key_in_batch")
		cls(st.rangeNonEmpty > 0, "range_nonempty")
		cls(st.ticketClosed > 0, "closed_ticket_leaf")
		cls(c.Cfg.MVCC, "cfg_mvcc")
		cls(c.Cfg.MemTree, "cfg_memtree")
		cls(c.Cfg.MemTree && c.Cfg.MemVal, "cfg_memtree_memval")
		cls(c.Cfg.Prefix || c.Cfg.Prune, "cfg_prefix")
		cls(c.Cfg.Prune, "cfg_prune")
		cls(c.Cfg.Driver == "leveldb", "leveldb")
		cls(st.pendEmpty > 0, "pending_empty_batch")
		cls(st.pendNonEmpty > 0, "pending_nonempty_batch")
		cls(st.pendEqualsCommitted > 0, "pending_root_equals_committed_root")
		cls(st.pendCommit > 0, "pending_committed")
		cls(st.pendRollback > 0, "pending_rolled_back")
		cls(st.upgEmpty > 0, "upgrade_mode_empty_batch")
		cls(st.upgNonEmpty > 0, "upgrade_mode_nonempty_batch")
		cls(st.readsWhilePending > 0, "read_while_pending")
		cls(st.rangeWhilePendingOnRoot > 0, "range_of_root_keyed_in_pending_table")
		cls(st.pendingAtEnd > 0, "pending_left_at_end")
		cls(st.toleratedKnown, "stopped_by_known_finding")
		// non-trivial: >= 3 commits, a read at a non-newest root, and an overwrite or a batch >= 32 keys
		if st.commits >= 3 && st.oldReads > 0 && (st.overwrites > 0 || st.bigBatch > 0) {
			lib.NonTrivialCase(c)
		}
	})
}
