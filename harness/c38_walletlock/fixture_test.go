package c38

import (
	"os"
	"strings"

	clog "github.com/33cn/chain33/common/log"
	"github.com/33cn/chain33/queue"
	_ "github.com/33cn/chain33/system" // crypto drivers, coins executor
	"github.com/33cn/chain33/types"
	"github.com/33cn/chain33/wallet"
	"verifharness/lib"
)

func init() {
	clog.SetLogLevel("crit")
	queue.DisableLog()
	wallet.DisableLog()
}

// fakePeers answers, on a fresh queue, the few requests a wallet sends to its neighbours (the wallet
// package's own tests do the same for blockchain/mempool; store answers "no such account").
func fakePeers(q queue.Queue) {
	for _, topic := range []string{"blockchain", "mempool", "store", "exec", "consensus"} {
		c := q.Client()
		c.Sub(topic)
		go func(c queue.Client) {
			for msg := range c.Recv() {
				switch msg.Ty {
				case types.EventGetLastHeader:
					msg.Reply(c.NewMessage("", types.EventHeader, &types.Header{}))
				case types.EventGetTransactionByAddr:
					msg.Reply(c.NewMessage("", types.EventReplyTxInfo, &types.ReplyTxInfos{}))
				case types.EventGetTransactionByHash:
					msg.Reply(c.NewMessage("", types.EventTransactionDetails, &types.TransactionDetails{}))
				case types.EventGetBlockHeight:
					msg.Reply(c.NewMessage("", types.EventReplyBlockHeight, &types.ReplyBlockHeight{Height: 1}))
				case types.EventStoreGet:
					g := msg.Data.(*types.StoreGet)
					vals := make([][]byte, len(g.Keys)) // every account asked for exists and is rich, so that transfers can succeed
					for i, k := range g.Keys {
						ks := string(k)
						vals[i] = types.Encode(&types.Account{Addr: ks[strings.LastIndex(ks, "-")+1:], Balance: 1e12})
					}
					msg.Reply(c.NewMessage("", types.EventStoreGetReply, &types.StoreReplyValue{Values: vals}))
				case types.EventGetProperFee:
					msg.Reply(c.NewMessage("", types.EventReply, &types.ReplyProperFee{ProperFee: 1000000}))
				case types.EventTx:
					msg.Reply(c.NewMessage("", types.EventReply, &types.Reply{IsOk: true}))
				default:
					msg.Reply(c.NewMessage("", types.EventReply, types.ErrActionNotSupport))
				}
			}
		}(c)
	}
}

// node is one wallet process image: a wallet on its own queue, over a leveldb directory that survives restart().
type node struct {
	cfg *types.Chain33Config
	dir string
	q   queue.Queue
	w   *wallet.Wallet
}

// newNode creates a wallet over a fresh database directory (one per case: no state is shared between cases).
func newNode(signType string) *node {
	dir, err := os.MkdirTemp("", "c38-wallet-")
	if err != nil {
		lib.Inconclusive("cannot create scratch dir: %v", err)
	}
	cfg := types.NewChain33Config(types.GetDefaultCfgstring())
	wc := cfg.GetModuleConfig().Wallet
	wc.DbPath, wc.Driver, wc.SignType = dir, "leveldb", signType
	wc.DbCache = 4 // smallest leveldb buffers: reopening the database is the dominant cost of a case
	n := &node{cfg: cfg, dir: dir}
	n.start()
	return n
}

func (n *node) start() {
	n.q = queue.New("channel")
	n.q.SetConfig(n.cfg)
	fakePeers(n.q)
	n.w = wallet.New(n.cfg)
	n.w.SetQueueClient(n.q.Client())
}

func (n *node) stop() {
	n.w.Close() // waits for the wallet's goroutines and closes the database
	n.q.Close()
}

// restart models a process restart: everything held in memory (password, lock flag) is lost, the database is reopened.
func (n *node) restart() { n.stop(); n.start() }

func (n *node) destroy() { n.stop(); os.RemoveAll(n.dir) }
