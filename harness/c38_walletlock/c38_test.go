// C38: the wallet never appears unlocked without a successful unlock.
//
// Property text -> oracle (all order relations come from a logical clock, never from wall-clock time):
//   - every request stamps clock.Add(1) at invocation and at response; every observation reads the clock before (a)
//     and after (b) sampling.  stamp <= a  =>  happened before the sample;  stamp > b  =>  happened after it.
//   - "see the wallet unlocked only after a successful unlock with the correct password and before the next lock or
//     unlock timeout": an observation "unlocked" (IsWalletLocked()==false / GetWalletStatus().IsWalletLock==false)
//     needs a *justifying* unlock U: U returned nil, used a password that could be current during U, was invoked
//     before the observation ended (U.inv <= b), and is not *closed* before the observation began.  U is closed by
//     a successful ProcWalletLock entirely after U and entirely before the observation, or (timeouts fire inside the
//     wallet, so they are recognised by their effect) by any observation "locked" entirely after U and before it.
//     Everything overlapping is given the benefit of the doubt (soundness first).
//   - "while locked no request returns a stored private key or the seed or signs with a stored key": a successful
//     ProcDumpPrivkey / ProcSignRawTx(addr) / GetSeed needs a justifying unlock in the same sense.
//   - an unlock that returns nil with a password that was never / no longer the wallet's is itself a violation.
package c38

import (
	"encoding/json"
	"fmt"
	"os"
	"path/filepath"
	"runtime"
	"sort"
	"sync"
	"sync/atomic"
	"testing"
	"time"

	"github.com/33cn/chain33/common"
	"github.com/33cn/chain33/common/address"
	"github.com/33cn/chain33/common/crypto"
	"github.com/33cn/chain33/types"
	"pgregory.net/rapid"
	"verifharness/lib"
)

const (
	prop        = "C38"
	idTransient = "C38-setpasswd-transient-unlock"
	idLostLock  = "C38-setpasswd-lost-lock"
	pw0         = "initial0pw"
	unsignedTx  = "0a05636f696e73120c18010a081080c2d72f1a01312080897a30c0e2a4a789d684ad443a0131" // from wallet_test.go
	never       = ^uint64(0)
)

func TestMain(m *testing.M) { lib.Main(m) }

// ---------------------------------------------------------------- recorded history and oracle

type call struct {
	Kind     string `json:"kind"` // unlock lock chpass dump sign getseed
	G        int    `json:"g"`
	Inv, Res uint64
	OK       bool   `json:"ok"`
	Pw       string `json:"pw,omitempty"`  // unlock: password used; chpass: old password
	New      string `json:"new,omitempty"` // chpass
	Err      string `json:"err,omitempty"`
	Guarded  bool   `json:"guarded,omitempty"` // must fail while locked (dump sign getseed and the guarded rows of requestTable)
	Leak     string `json:"leak,omitempty"`    // a stored secret found in the reply
}

type sample struct {
	A, B     uint64
	Unlocked bool
	N        int // identical consecutive samples (the clock did not move)
	Via      string
}

type history struct {
	calls   []call
	samples [][]sample // per observer, in program order
	extra   []finding  // verdicts reached while driving the run (timeout waits)
}

// ---- elapsed time without a wall-clock threshold: the heartbeat rule
//
// A goroutine of this process sleeps in 50 ms slices and counts them.  n completed slices prove that at least n*50 ms
// passed AND that this process's runtime fired n later timers and scheduled their goroutine meanwhile.  A wallet timer
// armed for T seconds before those slices began is earlier in the same timer heap; if the heartbeat has measured
// T + relockGrace (40 s, i.e. 800 further timer expirations) and the wallet is still unlocked, the timeout did not
// close the window - however slow or loaded the machine is.  If the heartbeat itself cannot make that progress within
// the watchdog, the run is inconclusive.
const (
	hbSlice     = 50 * time.Millisecond
	relockGrace = 40 * time.Second
)

var (
	hbTicks atomic.Int64
	hbOnce  sync.Once
)

func heartbeat() int64 {
	hbOnce.Do(func() {
		go func() {
			for {
				time.Sleep(hbSlice)
				hbTicks.Add(1)
			}
		}()
	})
	return hbTicks.Load()
}

// relockLimit: the heartbeat tick count at which a window opened by an unlock with Timeout=timeoutS (which had
// returned when the tick count was `since`) has demonstrably expired, grace included.
func relockLimit(since, timeoutS int64) int64 {
	return since + (timeoutS*int64(time.Second)+int64(relockGrace))/int64(hbSlice) + 1
}

// waitRelock polls seenLocked (about every millisecond) until it returns true; it returns false once the heartbeat
// has reached limit.
func waitRelock(limit int64, seenLocked func() bool) bool {
	start, giveUp := heartbeat(), time.Now().Add(10*relockGrace)
	for !seenLocked() {
		if heartbeat() >= limit {
			return false
		}
		if time.Now().After(giveUp) {
			lib.Inconclusive("C38: the heartbeat of the test process made only %d of %d ticks in %v", heartbeat()-start, limit-start, 10*relockGrace)
		}
		time.Sleep(time.Millisecond)
	}
	return true
}

func (h *history) concurrentWithChpass(x, y uint64) bool { // some password change in flight during [x, y]
	for _, s := range h.calls {
		if s.Kind == "chpass" && s.Inv <= y && s.Res > x {
			return true
		}
	}
	return false
}

// plausible: could pw be the wallet's password at some moment of [inv, res]?  A password is current from the
// invocation of the successful change that set it (initial: from the start) to the response of the successful change
// that replaced it (new passwords are unique, so there is at most one of each).
func (h *history) plausible(pw string, inv, res uint64) bool {
	from, to := never, never
	if pw == pw0 {
		from = 0
	}
	for _, s := range h.calls {
		if s.Kind == "chpass" && s.OK {
			if s.New == pw && s.Inv < from {
				from = s.Inv
			}
			if s.Pw == pw {
				to = s.Res
			}
		}
	}
	return from <= res && to >= inv
}

// justified: is there an unlock that can explain "unlocked / acting unlocked" during [a, b]?  obs/idx locate the
// observation in its observer's sequence (-1 for requests).  lenient ignores closing evidence that is concurrent with
// a password change (signature of the lost-lock finding).
func (h *history) justified(a, b uint64, obs, idx int, lenient bool) bool {
	for _, u := range h.calls {
		if u.Kind != "unlock" || !u.OK || u.Inv > b || !h.plausible(u.Pw, u.Inv, u.Res) {
			continue
		}
		closed := false
		for _, l := range h.calls {
			if l.Kind == "lock" && l.OK && l.Inv > u.Res && l.Res <= a && !(lenient && h.concurrentWithChpass(l.Inv, l.Res)) {
				closed = true
				break
			}
		}
		for p := 0; p < len(h.samples) && !closed; p++ {
			for i, e := range h.samples[p] {
				if p == obs && i >= idx {
					break
				}
				if !e.Unlocked && e.A >= u.Res && (p == obs || e.B < a) && !(lenient && h.concurrentWithChpass(e.A, e.B)) {
					closed = true
					break
				}
			}
		}
		if !closed {
			return true
		}
	}
	return false
}

type finding struct {
	Kind string `json:"kind"` // idTransient, idLostLock or "other"
	What string `json:"what"`
	N    int    `json:"n"`
}

func (h *history) analyse() (fs []finding) {
	fs = append(fs, h.extra...)
	add := func(kind, what string, n int) {
		for i := range fs {
			if fs[i].Kind == kind {
				fs[i].N += n
				return
			}
		}
		fs = append(fs, finding{kind, what, n})
	}
	for p, ss := range h.samples {
		for i, o := range ss {
			if !o.Unlocked || h.justified(o.A, o.B, p, i, false) {
				continue
			}
			what := fmt.Sprintf("%s reported unlocked at clock [%d,%d] with no open unlock window", o.Via, o.A, o.B)
			switch {
			case h.concurrentWithChpass(o.A, o.B):
				add(idTransient, what+" while a ProcWalletSetPasswd call was in flight", o.N)
			case h.justified(o.A, o.B, p, i, true):
				add(idLostLock, what+"; the lock/timeout that closed the window was concurrent with a ProcWalletSetPasswd call and did not last", o.N)
			default:
				add("other", what, o.N)
			}
		}
	}
	for _, c := range h.calls {
		switch {
		case c.Kind == "unlock" && c.OK && !h.plausible(c.Pw, c.Inv, c.Res):
			add("other", fmt.Sprintf("unlock [%d,%d] succeeded with %q which was not the wallet's password then", c.Inv, c.Res, c.Pw), 1)
		case c.OK && (c.Guarded || c.Leak != "") && !h.justified(c.Inv, c.Res, -1, -1, false):
			what := fmt.Sprintf("%s [%d,%d] succeeded with no open unlock window (guarded=%v, stored secret in the reply: %q)", c.Kind, c.Inv, c.Res, c.Guarded, c.Leak)
			if h.justified(c.Inv, c.Res, -1, -1, true) {
				add(idLostLock, what+"; the lock that closed the window was concurrent with a ProcWalletSetPasswd call and did not last", 1)
			} else {
				add("other", what, 1)
			}
		}
	}
	return fs
}

// ---------------------------------------------------------------- driving a wallet

type world struct {
	n     *node
	clock atomic.Uint64
	mu    sync.Mutex
	cur   string // the password the harness believes current (updated after every successful change)
	addrs []string

	secrets  []secret // everything the wallet stores and must not hand out while locked (seed, keys)
	dumpFile string   // a key file written during set-up, for ImportPrivkeysFile
}

func (w *world) believed() string { w.mu.Lock(); defer w.mu.Unlock(); return w.cur }

// newWorldFresh: the wallet's first life.  An empty wallet database; GenSeed and SaveSeed arrive through the ordinary
// handlers (the password is chosen there) and nothing else has happened: no unlock, no accounts.  The two addresses the
// request table refers to belong to keys the wallet does not hold.
func newWorldFresh() *world {
	w := &world{n: newNode("secp256k1"), cur: pw0}
	r, err := w.n.w.GetAPI().ExecWalletFunc("wallet", "GenSeed", &types.GenSeedLang{Lang: 0})
	if err != nil {
		lib.Inconclusive("harness: GenSeed: %v", err)
	}
	seed := r.(*types.ReplySeed).Seed
	r, err = w.n.w.GetAPI().ExecWalletFunc("wallet", "SaveSeed", &types.SaveSeedByPw{Seed: seed, Passwd: pw0})
	if err != nil || !r.(*types.Reply).IsOk {
		lib.Inconclusive("harness: SaveSeed: %v %v", err, r)
	}
	w.addSecret("seed", []byte(seed))
	cr, err := crypto.Load("secp256k1", -1)
	if err != nil {
		lib.Inconclusive("harness: crypto.Load: %v", err)
	}
	for i := 1; i <= 2; i++ {
		k := make([]byte, 32)
		k[31], k[0] = byte(i), 0x11
		priv, err := cr.PrivKeyFromBytes(k)
		if err != nil {
			lib.Inconclusive("harness: key: %v", err)
		}
		w.addrs = append(w.addrs, address.PubKeyToAddr(address.DefaultID, priv.PubKey().Bytes()))
	}
	w.dumpFile = filepath.Join(w.n.dir, "setup.keys") // does not exist in this start state
	return w
}

// newWorld: wallet with a seed, two imported keys, a dumped key file and (airDrop) the air-drop account of
// NewAccountByIndex, left locked and "warm" (password held in memory).
func newWorld(airDrop bool) *world {
	w := &world{n: newNode("secp256k1"), cur: pw0}
	seed, err := w.n.w.GenSeed(0) // content irrelevant to the property; not part of the case
	if err != nil {
		lib.Inconclusive("harness: GenSeed: %v", err)
	}
	if ok, err := w.n.w.SaveSeed(pw0, seed.Seed); !ok {
		lib.Inconclusive("harness: SaveSeed: %v", err)
	}
	if err := w.n.w.ProcWalletUnLock(&types.WalletUnLock{Passwd: pw0}); err != nil {
		lib.Inconclusive("harness: initial unlock: %v", err)
	}
	for i := 1; i <= 2; i++ {
		k := make([]byte, 32)
		k[31], k[0] = byte(i), 0x11
		acc, err := w.n.w.ProcImportPrivKey(&types.ReqWalletImportPrivkey{Privkey: common.ToHex(k), Label: fmt.Sprintf("acc%d", i)})
		if err != nil {
			lib.Inconclusive("harness: import: %v", err)
		}
		w.addrs = append(w.addrs, acc.Acc.Addr)
		w.addSecret(fmt.Sprintf("key of acc%d", i), k)
	}
	w.addSecret("seed", []byte(seed.Seed))
	w.dumpFile = filepath.Join(w.n.dir, "setup.keys")
	if err := w.n.w.ProcDumpPrivkeysFile(w.dumpFile, filePass); err != nil {
		lib.Inconclusive("harness: dump key file: %v", err)
	}
	if airDrop {
		if err, _ := w.exec("NewAccountByIndex", 0); err != nil {
			lib.Inconclusive("harness: NewAccountByIndex: %v", err)
		}
	}
	if err := w.n.w.ProcWalletLock(); err != nil {
		lib.Inconclusive("harness: initial lock: %v", err)
	}
	return w
}

type op struct {
	Kind    string `json:"k"` // unlock unlockWrong unlockStale lock chpass chpassWrong status dump sign getseed
	Timeout int64  `json:"t,omitempty"`
	Acc     int    `json:"a,omitempty"`
	Fn      string `json:"fn,omitempty"` // Kind "req": a row of requestTable
}

// do performs one request (directly on the exported handler, or through the message queue as RPC does) and
// returns its record; status requests return a sample instead.
func (w *world) do(g, i int, o op, queue bool) (*call, *sample) {
	wl := w.n.w
	exec := func(fn string, m types.Message) (types.Message, error) {
		return wl.GetAPI().ExecWalletFunc("wallet", fn, m)
	}
	replyErr := func(r types.Message, err error) error { // handlers that report failure inside a Reply
		if err == nil && r != nil {
			if rp, ok := r.(*types.Reply); ok && !rp.IsOk {
				return fmt.Errorf("%s", rp.Msg)
			}
		}
		return err
	}
	c := &call{G: g}
	var run func() error
	switch o.Kind {
	case "status":
		s := &sample{Via: "GetWalletStatus(request)", N: 1, A: w.clock.Load()}
		if queue {
			r, err := exec("GetWalletStatus", &types.ReqNil{})
			if err != nil {
				return nil, nil
			}
			s.Unlocked = !r.(*types.WalletStatus).IsWalletLock
		} else {
			s.Unlocked = !wl.GetWalletStatus().IsWalletLock
		}
		s.B = w.clock.Load()
		return nil, s
	case "unlock", "unlockWrong", "unlockStale":
		c.Kind, c.Pw = "unlock", w.believed()
		if o.Kind == "unlockWrong" {
			c.Pw = fmt.Sprintf("never%dvalid%d", g+10, i)
		} else if o.Kind == "unlockStale" {
			c.Pw = pw0 // stale as soon as one change succeeded; the plausibility rule decides
		}
		req := &types.WalletUnLock{Passwd: c.Pw, Timeout: o.Timeout}
		run = func() error {
			if queue {
				return replyErr(exec("WalletUnLock", req))
			}
			return wl.ProcWalletUnLock(req)
		}
	case "lock":
		c.Kind = "lock"
		run = func() error {
			if queue {
				return replyErr(exec("WalletLock", &types.ReqNil{}))
			}
			return wl.ProcWalletLock()
		}
	case "chpass", "chpassWrong":
		c.Kind, c.Pw, c.New = "chpass", w.believed(), fmt.Sprintf("newpass%dx%d", g+10, i) // unique and valid (letters+digits, 8..30)
		if o.Kind == "chpassWrong" {
			c.Pw = fmt.Sprintf("never%dvalid%d", g+10, i)
		}
		req := &types.ReqWalletSetPasswd{OldPass: c.Pw, NewPass: c.New}
		run = func() error {
			if queue {
				return replyErr(exec("WalletSetPasswd", req))
			}
			return wl.ProcWalletSetPasswd(req)
		}
	case "dump":
		c.Kind, c.Guarded = "dump", true
		addr := w.addrs[o.Acc%len(w.addrs)]
		run = func() error {
			if queue {
				r, err := exec("DumpPrivkey", &types.ReqString{Data: addr})
				if err == nil && r.(*types.ReplyString).Data == "" {
					err = fmt.Errorf("empty reply")
				}
				return err
			}
			_, err := wl.ProcDumpPrivkey(addr)
			return err
		}
	case "sign":
		c.Kind, c.Guarded = "sign", true
		req := &types.ReqSignRawTx{Addr: w.addrs[o.Acc%len(w.addrs)], TxHex: unsignedTx, Expire: "0"}
		run = func() error {
			if queue {
				_, err := exec("SignRawTx", req)
				return err
			}
			_, err := wl.ProcSignRawTx(req)
			return err
		}
	case "getseed":
		c.Kind, c.Pw, c.Guarded = "getseed", w.believed(), true
		run = func() error {
			if queue {
				_, err := exec("GetSeed", &types.GetSeedByPw{Passwd: c.Pw})
				return err
			}
			_, err := wl.GetSeed(c.Pw)
			return err
		}
	case "req": // any other registered request, always through the queue
		c.Kind, c.Guarded = "req:"+o.Fn, requestByName(o.Fn).Guarded
		run = func() (err error) {
			err, c.Leak = w.exec(o.Fn, (g+10)*1000+i)
			return err
		}
	default:
		panic("harness: unknown op " + o.Kind)
	}
	c.Inv = w.clock.Add(1)
	err := run()
	c.Res = w.clock.Add(1)
	c.OK = err == nil
	if err != nil {
		c.Err = err.Error()
	}
	if c.Kind == "chpass" && c.OK {
		w.mu.Lock()
		w.cur = c.New
		w.mu.Unlock()
	}
	return c, nil
}

// observe spins on read() until stop, recording run-length compressed samples.
func (w *world) observe(via string, read func() bool, stop *atomic.Bool) []sample {
	var out []sample
	for !stop.Load() {
		a := w.clock.Load()
		locked := read()
		b := w.clock.Load()
		if n := len(out); n > 0 && out[n-1].A == a && out[n-1].B == b && out[n-1].Unlocked == !locked {
			out[n-1].N++
			continue
		}
		out = append(out, sample{A: a, B: b, Unlocked: !locked, N: 1, Via: via})
	}
	return out
}

type runCase struct {
	Start        string `json:"start"` // cold (restarted: no password in memory) | warm | unlocked
	Queue        []bool `json:"viaQueue"`
	Scripts      [][]op `json:"scripts"`
	AwaitTimeout string `json:"awaitTimeout"` // "", "quiet" or "busy": end the run with an unlock that times out after 1 s
}

const watchdog = 120 * time.Second

// execute runs the case on a fresh wallet and returns what was recorded.
func execute(c runCase) *history {
	w := newWorld(true)
	defer w.n.destroy()
	h := &history{}
	switch c.Start {
	case "cold":
		w.n.restart()
	case "unlocked":
		u, _ := w.do(-1, 0, op{Kind: "unlock"}, false)
		h.calls = append(h.calls, *u)
	}
	var stop atomic.Bool
	var owg, rwg sync.WaitGroup
	obs := make([][]sample, 2+len(c.Scripts))
	readers := []struct {
		via  string
		read func() bool
	}{
		{"IsWalletLocked()", w.n.w.IsWalletLocked},
		{"GetWalletStatus()", func() bool { return w.n.w.GetWalletStatus().IsWalletLock }},
	}
	for i, r := range readers {
		owg.Add(1)
		go func(i int, via string, read func() bool) {
			defer owg.Done()
			obs[i] = w.observe(via, read, &stop)
		}(i, r.via, r.read)
	}
	calls := make([][]call, len(c.Scripts))
	for g := range c.Scripts {
		rwg.Add(1)
		go func(g int) {
			defer rwg.Done()
			for i, o := range c.Scripts[g] {
				cl, s := w.do(g, i, o, c.Queue[g])
				if cl != nil {
					calls[g] = append(calls[g], *cl)
				}
				if s != nil {
					obs[2+g] = append(obs[2+g], *s)
				}
			}
		}(g)
	}
	done := make(chan struct{})
	go func() { rwg.Wait(); close(done) }()
	select {
	case <-done:
	case <-time.After(watchdog):
		lib.Inconclusive("C38 harness watchdog: requests still running after %v", watchdog)
	}
	for _, cs := range calls {
		h.calls = append(h.calls, cs...)
	}
	var own []sample // the main goroutine's own readings, taken while none of its requests is in flight
	look := func(via string) bool {
		o := sample{A: w.clock.Load(), Unlocked: !w.n.w.IsWalletLocked(), N: 1, Via: via}
		o.B = w.clock.Load()
		own = append(own, o)
		return o.Unlocked
	}
	if c.AwaitTimeout != "" {
		// the window of an unlock with Timeout=1s must be closed by the wallet itself; observers keep sampling.
		// An explicit lock first closes every earlier window, so that afterwards only the timed unlock can justify
		// "unlocked".  "quiet": nothing else is sent; "busy": failing password changes keep coming for the first 4000
		// requests of the wait.  "Never relocks" becomes a verdict through the heartbeat rule (waitRelock).
		l, _ := w.do(-2, 0, op{Kind: "lock"}, false)
		u, _ := w.do(-2, 1, op{Kind: "unlock", Timeout: 1}, false)
		h.calls = append(h.calls, *l, *u)
		if u.OK {
			i := 1
			relocked := waitRelock(relockLimit(heartbeat(), 1), func() bool {
				if !look("IsWalletLocked() between requests") {
					return true
				}
				if i++; c.AwaitTimeout == "busy" && i < 4000 {
					s, _ := w.do(-2, i, op{Kind: "chpassWrong"}, false)
					h.calls = append(h.calls, *s)
				}
				return false
			})
			if !relocked {
				kind := "other"
				if c.AwaitTimeout == "busy" { // signature of the lost-lock finding: the timer fired against in-flight password changes
					kind = idLostLock
				}
				h.extra = append(h.extra, finding{kind, fmt.Sprintf("wallet still unlocked after the test process's own 50 ms heartbeat measured more than %v since an unlock with Timeout=1s returned, with no later unlock (%s wait)", relockGrace, c.AwaitTimeout), 1})
			}
			for i := 0; i < 100 && relocked; i++ {
				s, _ := w.do(-2, 100000+i, op{Kind: "chpassWrong"}, false)
				h.calls = append(h.calls, *s)
			}
		}
	}
	// a last look after quiescence: persistent states must be seen even if no observer was scheduled in time
	w.clock.Add(1)
	time.Sleep(200 * time.Microsecond)
	stop.Store(true)
	owg.Wait()
	look("IsWalletLocked() at quiescence")
	h.samples = append(obs, own)
	sort.Slice(h.calls, func(i, j int) bool { return h.calls[i].Inv < h.calls[j].Inv })
	return h
}

// ---------------------------------------------------------------- generated search

var kinds = []string{"unlock", "unlockWrong", "unlockStale", "lock", "chpass", "chpassWrong", "status", "dump", "sign", "getseed", "req"}

// concurrentRequests: the rows of requestTable used in the concurrent runs: all but the two that derive a key from a
// seed under the wallet mutex (about 50 ms each; the sequential histories cover them).
var concurrentRequests = func() (out []string) {
	for _, r := range requestTable {
		if r.Fn != "NewAccount" && r.Fn != "NewRandAccount" {
			out = append(out, r.Fn)
		}
	}
	return
}()

func genCase(t *rapid.T) runCase {
	c := runCase{Start: rapid.SampledFrom([]string{"cold", "cold", "warm", "unlocked"}).Draw(t, "start"),
		AwaitTimeout: rapid.SampledFrom([]string{"", "", "", "", "", "", "", "", "", "", "quiet", "busy"}).Draw(t, "awaitTimeout")}
	// a per-run weight for every request kind: mixes range from "only failing requests on a locked wallet"
	// to "everything at once"
	var bag []string
	for _, k := range kinds {
		wt := rapid.SampledFrom([]int{0, 1, 1, 3}).Draw(t, "w_"+k)
		if k == "chpassWrong" && wt == 0 {
			wt = 1
		}
		for ; wt > 0; wt-- {
			bag = append(bag, k)
		}
	}
	for g := 0; g < 6; g++ {
		c.Queue = append(c.Queue, rapid.IntRange(0, 3).Draw(t, "viaQueue") == 0)
		n := rapid.IntRange(10, 120).Draw(t, "nops")
		s := make([]op, n)
		for i := range s {
			s[i] = op{Kind: rapid.SampledFrom(bag).Draw(t, "kind")}
			switch s[i].Kind {
			case "unlock":
				s[i].Timeout = rapid.SampledFrom([]int64{0, 0, 1, 2}).Draw(t, "timeout")
			case "dump", "sign":
				s[i].Acc = rapid.IntRange(0, 1).Draw(t, "acc")
			case "req":
				s[i].Fn = rapid.SampledFrom(concurrentRequests).Draw(t, "fn")
			}
		}
		c.Scripts = append(c.Scripts, s)
	}
	return c
}

// report turns findings into the verdict: listed known findings are tolerated by signature and counted,
// everything else is a violation.
func report(t lib.TB, test string, c interface{}, h *history, fs []finding) {
	for _, f := range fs {
		if f.Kind != "other" && lib.Known(f.Kind) {
			lib.ExcludedKnown(f.Kind)
			continue
		}
		lib.Violation(t, prop, test, map[string]interface{}{"case": c, "finding": f, "requests": h.calls}, "%s (x%d) [%s]", f.What, f.N, f.Kind)
	}
}

func TestPropLockVisibility(t *testing.T) {
	defer lib.Flush()
	if runtime.GOMAXPROCS(0) < 4 {
		lib.Inconclusive("C38 needs parallel observers: GOMAXPROCS=%d", runtime.GOMAXPROCS(0))
	}
	rapid.Check(t, func(t *rapid.T) {
		c := genCase(t)
		lib.Eval()
		if f := os.Getenv("C38_TRACE"); f != "" { // triage aid: the case about to run, replayable with C38_CASE=<file>
			b, _ := json.Marshal(c)
			_ = os.WriteFile(f, b, 0o644)
		}
		h := execute(c)
		fs := h.analyse()

		// coverage: what the run contained (measured on the recorded history)
		var total, during int
		lockedWrongChange := false
		var wrong []call
		for _, s := range h.calls {
			lib.Class(fmt.Sprintf("%s_ok=%v", s.Kind, s.OK))
			if s.Kind == "chpass" && !s.OK && !h.justified(s.Inv, s.Res, -1, -1, true) {
				lockedWrongChange = true
				wrong = append(wrong, s)
			}
		}
		for _, ss := range h.samples {
			for _, o := range ss {
				total += o.N
				for _, s := range wrong {
					if s.Inv <= o.B && s.Res > o.A {
						during += o.N
						break
					}
				}
				if o.Unlocked {
					lib.ClassN("samples_unlocked", o.N)
				}
			}
		}
		lib.ClassN("samples", total)
		lib.ClassN("samples_during_failing_change_while_locked", during)
		lib.Class("start_" + c.Start)
		if c.AwaitTimeout != "" {
			lib.Class("await_timeout_" + c.AwaitTimeout)
		}
		for _, f := range fs {
			lib.Class("finding_" + f.Kind)
		}
		// non-trivial (DESIGN): a failing password change while locked, watched by >= 10^4 samples
		if lockedWrongChange && during >= 10000 {
			lib.NonTrivialCase(c)
		}
		report(t, "TestPropLockVisibility", c, h, fs)
	})
}

// TestReplayCase re-runs one saved case (C38_CASE=<json file written by C38_TRACE or taken from a replay's
// "case" field) through the same oracle; the schedule is of course a new sample.
func TestReplayCase(t *testing.T) {
	defer lib.Flush()
	f := os.Getenv("C38_CASE")
	if f == "" {
		t.Skip("C38_CASE not set")
	}
	var c runCase
	b, err := os.ReadFile(f)
	if err == nil {
		err = json.Unmarshal(b, &c)
	}
	if err != nil {
		t.Fatalf("cannot read case: %v", err)
	}
	h := execute(c)
	report(t, "TestReplayCase", c, h, h.analyse())
}

// ---------------------------------------------------------------- pinned cases (no rapid)

// TestKnown_SetPasswdTransientUnlock: a wallet that is never unlocked (restarted, so the old password is checked
// against the stored hash) receives failing password changes while two goroutines watch the lock flag.  No unlock
// request is ever issued, so any "unlocked" reading violates the property.  Schedule dependent: silent if not hit.
func TestKnown_SetPasswdTransientUnlock(t *testing.T) {
	defer lib.Flush()
	w := newWorld(true)
	defer w.n.destroy()
	w.n.restart()
	var stop atomic.Bool
	var wg sync.WaitGroup
	obs := make([][]sample, 2)
	wg.Add(2)
	go func() { defer wg.Done(); obs[0] = w.observe("IsWalletLocked()", w.n.w.IsWalletLocked, &stop) }()
	go func() {
		defer wg.Done()
		obs[1] = w.observe("GetWalletStatus()", func() bool { return w.n.w.GetWalletStatus().IsWalletLock }, &stop)
	}()
	h := &history{}
	for i := 0; i < 4000; i++ {
		c, _ := w.do(0, i, op{Kind: "chpassWrong"}, false)
		if c.OK {
			lib.Violation(t, prop, "TestKnown_SetPasswdTransientUnlock", nil, "a password change with a wrong old password succeeded")
		}
		h.calls = append(h.calls, *c)
	}
	stop.Store(true)
	wg.Wait()
	h.samples = obs
	seen := 0
	for _, ss := range obs {
		for _, o := range ss {
			if o.Unlocked {
				seen += o.N
			}
		}
	}
	if seen > 0 {
		lib.KnownOrViolation(t, prop, "TestKnown_SetPasswdTransientUnlock", idTransient,
			map[string]interface{}{"history": "restart; 4000 x ProcWalletSetPasswd(wrong old password) while 2 goroutines poll", "unlocked_samples": seen},
			fmt.Sprintf("IsWalletLocked()/GetWalletStatus() reported the wallet unlocked %d times during failing password changes although no unlock was ever requested (wallet_proc.go ProcWalletSetPasswd clears the flag before checking the old password)", seen))
	}
	for _, f := range h.analyse() { // and the general oracle must classify it the same way
		if f.Kind != idTransient {
			lib.Violation(t, prop, "TestKnown_SetPasswdTransientUnlock", f, "unexpected finding: %s", f.What)
		}
	}
}

// TestKnown_SetPasswdLostLock: goroutine A sends failing password changes back to back; goroutine B repeats
// {unlock with the right password; short varying delay; ProcWalletLock; CheckWalletStatus()}.  CheckWalletStatus reads
// the flag under the wallet mutex, i.e. while no password change is in flight; ProcWalletLock has just returned nil
// and no unlock followed, so it must report "locked".  Schedule dependent (the window is two adjacent atomic operations
// in ProcWalletSetPasswd, about one hit per 30 000 rounds here): silent if never hit.
func TestKnown_SetPasswdLostLock(t *testing.T) {
	defer lib.Flush()
	w := newWorld(true)
	defer w.n.destroy()
	var stop atomic.Bool
	var spin atomic.Uint64
	var wg sync.WaitGroup
	wg.Add(1)
	go func() {
		defer wg.Done()
		req := &types.ReqWalletSetPasswd{OldPass: "never0valid0", NewPass: "newpass10x0"}
		for !stop.Load() {
			_ = w.n.w.ProcWalletSetPasswd(req)
			for k := 0; k < 20; k++ { // leave the mutex free for a moment so that B is not starved
				spin.Load()
			}
		}
	}()
	rounds, lostAt := lib.Pick(250000, 1000000), -1
	for i := 0; i < rounds && lostAt < 0; i++ {
		if err := w.n.w.ProcWalletUnLock(&types.WalletUnLock{Passwd: pw0}); err != nil {
			lib.Violation(t, prop, "TestKnown_SetPasswdLostLock", nil, "unlock with the right password failed: %v", err)
		}
		for k := 0; k < (i%16)*8; k++ {
			spin.Load()
		}
		if err := w.n.w.ProcWalletLock(); err != nil {
			lib.Violation(t, prop, "TestKnown_SetPasswdLostLock", nil, "lock failed: %v", err)
		}
		if ok, _ := w.n.w.CheckWalletStatus(); ok {
			lostAt = i
		}
	}
	stop.Store(true)
	wg.Wait()
	if lostAt >= 0 {
		lib.KnownOrViolation(t, prop, "TestKnown_SetPasswdLostLock", idLostLock,
			map[string]interface{}{"history": "A: loop ProcWalletSetPasswd(wrong old password); B: loop {unlock(right); lock; CheckWalletStatus()}", "round": lostAt},
			fmt.Sprintf("after ProcWalletLock returned nil (round %d), with no request in flight and no unlock since, CheckWalletStatus() reports the wallet unlocked, and it stays so: a concurrent ProcWalletSetPasswd read the flag as unlocked, the lock set it, then the change cleared it (wallet_proc.go:907-913)", lostAt))
	}
}

// TestRegress_OracleSelfTest: hand-written histories with known classification, so that a slip in the model shows up
// as a failure here and not as a false alarm (or a missed alarm) in the search.
func TestRegress_OracleSelfTest(t *testing.T) {
	defer lib.Flush()
	U := func(inv, res uint64, pw string) call {
		return call{Kind: "unlock", Inv: inv, Res: res, OK: true, Pw: pw}
	}
	L := func(inv, res uint64) call { return call{Kind: "lock", Inv: inv, Res: res, OK: true} }
	S := func(inv, res uint64, ok bool, old, nw string) call {
		return call{Kind: "chpass", Inv: inv, Res: res, OK: ok, Pw: old, New: nw}
	}
	D := func(inv, res uint64) call { return call{Kind: "dump", Inv: inv, Res: res, OK: true, Guarded: true} }
	o := func(a, b uint64, unlocked bool) sample { return sample{A: a, B: b, Unlocked: unlocked, N: 1, Via: "t"} }
	for _, tc := range []struct {
		name  string
		calls []call
		obs   [][]sample
		want  string
	}{
		{"locked all along", nil, [][]sample{{o(0, 0, false)}}, ""},
		{"unlocked from nowhere", nil, [][]sample{{o(0, 0, true)}}, "other"},
		{"inside a window", []call{U(1, 2, pw0)}, [][]sample{{o(2, 2, true)}}, ""},
		{"overlapping the unlock", []call{U(1, 4, pw0)}, [][]sample{{o(0, 1, true)}}, ""},
		{"before the unlock", []call{U(3, 4, pw0)}, [][]sample{{o(1, 2, true)}}, "other"},
		{"after the lock", []call{U(1, 2, pw0), L(3, 4)}, [][]sample{{o(4, 4, true)}}, "other"},
		{"overlapping the lock", []call{U(1, 2, pw0), L(3, 5)}, [][]sample{{o(4, 6, true)}}, ""},
		{"lock overlapping the unlock closes nothing", []call{U(1, 4, pw0), L(2, 3)}, [][]sample{{o(5, 5, true)}}, ""},
		{"relocked by timeout, seen by another observer", []call{U(1, 2, pw0)}, [][]sample{{o(3, 3, false)}, {o(4, 5, true)}}, "other"},
		{"relocked by timeout, same observer", []call{U(1, 2, pw0)}, [][]sample{{o(2, 2, false), o(2, 2, true)}}, "other"},
		{"locked sample before the unlock returned closes nothing", []call{U(1, 3, pw0)}, [][]sample{{o(2, 2, false), o(3, 3, true)}}, ""},
		{"during a failing change", []call{S(1, 2, false, "x", "y")}, [][]sample{{o(1, 1, true)}}, idTransient},
		{"during a successful change while locked", []call{S(1, 2, true, pw0, "y")}, [][]sample{{o(1, 2, true)}}, idTransient},
		{"after the change", []call{S(1, 2, false, "x", "y")}, [][]sample{{o(2, 2, true)}}, "other"},
		{"lost lock", []call{U(1, 2, pw0), S(3, 6, false, "x", "y"), L(4, 5)}, [][]sample{{o(7, 7, true)}}, idLostLock},
		{"lost lock then secret", []call{U(1, 2, pw0), S(3, 6, false, "x", "y"), L(4, 5), D(7, 8)}, nil, idLostLock},
		{"lock not concurrent with a change is binding", []call{U(1, 2, pw0), S(3, 4, false, "x", "y"), L(5, 6)}, [][]sample{{o(7, 7, true)}}, "other"},
		{"secret while locked", []call{D(1, 2)}, nil, "other"},
		{"secret inside a window", []call{U(1, 2, pw0), D(3, 4)}, nil, ""},
		{"secret after lock", []call{U(1, 2, pw0), L(3, 4), D(5, 6)}, nil, "other"},
		{"unlock with a never-valid password", []call{U(1, 2, "bogus")}, nil, "other"},
		{"unlock with a stale password", []call{S(1, 2, true, pw0, "n1"), U(3, 4, pw0)}, nil, "other"},
		{"unlock with the old password during the change", []call{S(1, 4, true, pw0, "n1"), U(2, 3, pw0)}, [][]sample{{o(5, 5, true)}}, ""},
		{"unlock with the new password", []call{S(1, 2, true, pw0, "n1"), U(3, 4, "n1")}, [][]sample{{o(5, 5, true)}}, ""},
	} {
		h := &history{calls: tc.calls, samples: tc.obs}
		got := ""
		for _, f := range h.analyse() {
			got += f.Kind
		}
		if got != tc.want {
			t.Errorf("oracle self-test %q: classified %q, want %q", tc.name, got, tc.want)
		}
	}
}
