// C38, sequential part: an unlock window closes no later than its timeout, whatever failed or unrelated requests
// arrive inside it.
//
// One goroutine issues a generated history; there is no concurrency, so the reference model is exact about order:
//   - the wallet may be (act) unlocked only while a *window* is open: a window is opened by a whole-wallet unlock that
//     returned nil with the current password; it is closed by a successful lock, by being seen locked, or - if the
//     unlock carried Timeout=T>0 and no untimed successful unlock is open as well - by the timeout.  Failed unlocks,
//     ticket-only unlocks, password changes (successful or not), status queries and secret-returning requests neither
//     open nor extend a window.
//   - "the timeout has passed" is never judged by a wall-clock threshold but by the heartbeat rule of c38_test.go:
//     at an await point the wallet must be seen locked before the process's own heartbeat has measured T + 40 s since
//     the unlock returned.  In a correct wallet the wait ends after about T.
//   - once seen locked, status must stay "locked" and dump / sign / get-seed must fail until the next window.
package c38

import (
	"fmt"
	"testing"

	"github.com/33cn/chain33/types"
	"pgregory.net/rapid"
	"verifharness/lib"
)

type top struct {
	Kind    string `json:"k"` // unlockT unlock0 unlockBad ticket ticketBad lock chpass chpassBad status dump sign getseed await
	Timeout int64  `json:"t,omitempty"`
	Fn      string `json:"fn,omitempty"` // Kind "req": a row of requestTable (c38_requests_test.go), sent through the queue
	// Kind "sweep": every row of requestTable once, in this order (cheap while locked: guarded requests fail at once)
	Fns []string `json:"fns,omitempty"`
}

func genSweep(t *rapid.T) top {
	var all []string
	for _, r := range requestTable {
		all = append(all, r.Fn)
	}
	return top{Kind: "sweep", Fns: rapid.Permutation(all).Draw(t, "sweepOrder")}
}

var (
	interfering = []string{"unlockBad", "unlockBad", "unlockBad", "ticket", "ticketBad", "chpass", "chpassBad", "status", "dump", "sign", "getseed", "req", "req", "req", "req"}
	anyTop      = append([]string{"unlockT", "unlock0", "lock", "lock", "restart"}, interfering...)
	// firstLife: what may arrive before anybody has unlocked the wallet with the right password
	firstLife = []string{"unlockBad", "unlockBad", "unlockBad", "unlockBad", "ticketBad", "ticketBad", "ticket", "status", "status", "dump", "sign", "getseed", "req", "req", "chpassBad", "chpass", "lock", "restart"}
	probes    = []string{"status", "dump", "sign", "getseed", "req", "req", "req", "req", "req", "req"}
)

func genTop(t *rapid.T, from []string) top {
	o := top{Kind: rapid.SampledFrom(from).Draw(t, "kind")}
	switch o.Kind {
	case "unlockT":
		o.Timeout = rapid.SampledFrom([]int64{1, 1, 2}).Draw(t, "timeout")
	case "unlockBad", "ticket", "ticketBad":
		o.Timeout = rapid.SampledFrom([]int64{0, 0, 1, 30}).Draw(t, "timeout")
	case "req": // guarded rows twice as likely as allowed ones
		o.Fn = rapid.SampledFrom(append(requestNames(true), append(requestNames(true), requestNames(false)...)...)).Draw(t, "fn")
	}
	return o
}

// genTimeoutHistory: 1-2 segments of  [anything]* [lock]? unlockT(1s) [requests that must not extend the window]+ await
// [probes]+ ; built so that most awaits really have to wait for the wallet's own timer.
func genTimeoutHistory(t *rapid.T) []top {
	var ops []top
	for i, k := 0, rapid.IntRange(1, 5).Draw(t, "firstLife"); i < k; i++ {
		ops = append(ops, genTop(t, firstLife))
	}
	if rapid.IntRange(0, 2).Draw(t, "sweepAtStart") == 0 { // locked since start-up, password in memory
		ops = append(ops, genSweep(t))
	}
	for seg, n := 0, rapid.IntRange(1, 2).Draw(t, "segments"); seg < n; seg++ {
		for i, k := 0, rapid.IntRange(0, 3).Draw(t, "pre"); i < k; i++ {
			ops = append(ops, genTop(t, anyTop))
		}
		if rapid.IntRange(0, 3).Draw(t, "lockFirst") > 0 {
			ops = append(ops, top{Kind: "lock"})
		}
		ops = append(ops, top{Kind: "unlockT", Timeout: 1})
		for i, k := 0, rapid.IntRange(1, 4).Draw(t, "inside"); i < k; i++ {
			ops = append(ops, genTop(t, interfering))
		}
		ops = append(ops, top{Kind: "await"}, genSweep(t)) // relocked by its own timer: now nothing guarded may work
		for i, k := 0, rapid.IntRange(1, 3).Draw(t, "post"); i < k; i++ {
			ops = append(ops, genTop(t, probes))
		}
	}
	return ops
}

type timeoutStats struct {
	waited, skipped               int
	requests, requestsWhileLocked int
	restarts, beforeFirstUnlock   int // beforeFirstUnlock: requests issued before any correct unlock of the history
	badUnlockInside, chpassIns    bool
}

func runTimeoutHistory(t lib.TB, start string, airDrop bool, ops []top) (st timeoutStats) {
	var w *world
	if start == "fresh" {
		w = newWorldFresh() // first life: the seed was saved by this very process, nothing has been unlocked yet
	} else {
		w = newWorld(airDrop) // locked, password pw0 in memory, two accounts, key file, air-drop account iff airDrop
	}
	defer w.n.destroy()
	cur := pw0
	fail := func(step int, format string, a ...interface{}) {
		lib.Violation(t, prop, "TestPropTimeoutHistory", map[string]interface{}{"start": start, "airDropAccountAtStart": airDrop, "ops": ops[:step+1]}, "step %d (%s %s): %s", step, ops[step].Kind, ops[step].Fn, fmt.Sprintf(format, a...))
	}
	// model: open windows since the last closing evidence
	untimed, timed := false, false
	var limitTicks int64 // heartbeat tick count by which every open timed window has demonstrably expired (+ grace)
	closeAll := func() { untimed, timed = false, false }
	mayBeUnlocked := func() bool {
		return untimed || (timed && heartbeat() < limitTicks)
	}
	request := func(step int, fn string, id int) {
		open := mayBeUnlocked() // judged before the call: a window that is open when the request starts excuses it
		err, leak := w.exec(fn, id)
		st.requests++
		if !open {
			st.requestsWhileLocked++
			lib.Class("locked_request_" + fn)
			if requestByName(fn).Guarded && err == nil {
				fail(step, "%s succeeded with no open unlock window (it must fail while the wallet is locked)", fn)
			}
			if leak != "" {
				fail(step, "the reply of %s contains the %s although no unlock window is open", fn, leak)
			}
		} else if err == nil {
			lib.Class("unlocked_request_ok_" + fn)
		}
	}
	unlockedOnce := false
	for step, o := range ops {
		inWindow := timed && !untimed
		if o.Kind == "unlockT" || o.Kind == "unlock0" {
			unlockedOnce = true
		} else if !unlockedOnce {
			st.beforeFirstUnlock++
		}
		switch o.Kind {
		case "unlockT", "unlock0":
			if err := w.n.w.ProcWalletUnLock(&types.WalletUnLock{Passwd: cur, Timeout: o.Timeout}); err != nil {
				fail(step, "unlock with the current password failed: %v", err) // not C38 proper, but nothing below makes sense then
			}
			if o.Timeout == 0 {
				untimed = true
			} else {
				l := relockLimit(heartbeat(), o.Timeout)
				if !timed || l > limitTicks {
					limitTicks = l
				}
				timed = true
			}
		case "unlockBad", "ticketBad":
			if err := w.n.w.ProcWalletUnLock(&types.WalletUnLock{Passwd: "never" + cur, Timeout: o.Timeout, WalletOrTicket: o.Kind == "ticketBad"}); err == nil {
				fail(step, "unlock accepted a password that is not the wallet's")
			}
			st.badUnlockInside = st.badUnlockInside || (inWindow && o.Kind == "unlockBad")
		case "ticket": // right password, mining-only unlock: must not open a wallet window
			_ = w.n.w.ProcWalletUnLock(&types.WalletUnLock{Passwd: cur, Timeout: o.Timeout, WalletOrTicket: true})
		case "restart": // a new process on the same database: locked, nothing in memory
			w.n.restart()
			closeAll()
			st.restarts++
		case "lock":
			if err := w.n.w.ProcWalletLock(); err != nil {
				fail(step, "lock failed: %v", err)
			}
			closeAll()
		case "chpass", "chpassBad":
			old, nw := cur, fmt.Sprintf("changed%dpw", step)
			if o.Kind == "chpassBad" {
				old = "never" + cur
			}
			if err := w.n.w.ProcWalletSetPasswd(&types.ReqWalletSetPasswd{OldPass: old, NewPass: nw}); err == nil {
				cur = nw
				w.mu.Lock()
				w.cur = nw
				w.mu.Unlock()
			}
			st.chpassIns = st.chpassIns || inWindow
		case "status":
			if w.n.w.GetWalletStatus().IsWalletLock {
				closeAll() // seen locked (timeout): stays closed until the next successful unlock
			} else if !mayBeUnlocked() {
				fail(step, "GetWalletStatus reports unlocked with no open unlock window")
			}
		case "dump", "sign", "getseed":
			var err error
			switch o.Kind {
			case "dump":
				_, err = w.n.w.ProcDumpPrivkey(w.addrs[step%len(w.addrs)])
			case "sign":
				_, err = w.n.w.ProcSignRawTx(&types.ReqSignRawTx{Addr: w.addrs[step%len(w.addrs)], TxHex: unsignedTx, Expire: "0"})
			default:
				_, err = w.n.w.GetSeed(cur)
			}
			if err == nil && !mayBeUnlocked() {
				fail(step, "%s succeeded with no open unlock window", o.Kind)
			}
		case "req":
			request(step, o.Fn, step)
		case "sweep":
			for i, fn := range o.Fns {
				request(step, fn, step*100+i)
			}
		case "await":
			switch {
			case untimed: // an untimed successful unlock is open: nothing says the wallet must relock
				st.skipped++
			case !timed:
				if !w.n.w.IsWalletLocked() {
					fail(step, "IsWalletLocked()==false with no open unlock window")
				}
			default:
				st.waited++
				if !waitRelock(limitTicks, func() bool { return w.n.w.IsWalletLocked() }) {
					fail(step, "wallet still unlocked after this process's 50 ms heartbeat measured more than timeout + %v since the last timed unlock returned; no untimed unlock is open, so the unlock timeout did not close the window", relockGrace)
				}
				closeAll()
			}
		}
	}
	return st
}

func TestPropTimeoutHistory(t *testing.T) {
	defer lib.Flush()
	heartbeat()
	rapid.Check(t, func(t *rapid.T) {
		start := rapid.SampledFrom([]string{"existing", "fresh"}).Draw(t, "start")
		airDrop := rapid.IntRange(0, 3).Draw(t, "airDropAccountAtStart") > 0
		ops := genTimeoutHistory(t)
		lib.Eval()
		st := runTimeoutHistory(t, start, airDrop, ops)
		lib.Class("start_" + start)
		lib.ClassN("requests_before_first_correct_unlock_"+start, st.beforeFirstUnlock)
		lib.ClassN("restarts", st.restarts)
		lib.ClassN("timeout_waited", st.waited)
		lib.ClassN("timeout_wait_skipped_untimed_window_open", st.skipped)
		if st.badUnlockInside {
			lib.Class("failed_unlock_inside_timed_window")
		}
		if st.chpassIns {
			lib.Class("password_change_inside_timed_window")
		}
		// non-trivial: the wallet's own timer had to close a window in which a failed whole-wallet unlock or a
		// password change had arrived
		if st.waited > 0 && (st.badUnlockInside || st.chpassIns) {
			lib.NonTrivialCase(map[string]interface{}{"start": start, "airDropAccountAtStart": airDrop, "ops": ops})
		}
	})
}
