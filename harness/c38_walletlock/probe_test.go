package c38

import (
	"fmt"
	"os"
	"strconv"
	"sync"
	"sync/atomic"
	"testing"
	"time"

	"github.com/33cn/chain33/types"
)

func envInt(k string, d int) int {
	if v, err := strconv.Atoi(os.Getenv(k)); err == nil {
		return v
	}
	return d
}

func TestProbeLostLock2(t *testing.T) {
	w := newWorld()
	defer w.n.destroy()
	aPause, bMax, iters := envInt("APAUSE", 20), envInt("BMAX", 64), envInt("ITERS", 20000)
	var stop atomic.Bool
	var sink atomic.Uint64
	var wg sync.WaitGroup
	wg.Add(1)
	go func() {
		defer wg.Done()
		req := &types.ReqWalletSetPasswd{OldPass: "never0valid0", NewPass: "newpass10x0"}
		for !stop.Load() {
			_ = w.n.w.ProcWalletSetPasswd(req)
			for k := 0; k < aPause; k++ {
				sink.Load()
			}
		}
	}()
	t0 := time.Now()
	hits := 0
	first := -1
	for i := 0; i < iters; i++ {
		if err := w.n.w.ProcWalletUnLock(&types.WalletUnLock{Passwd: pw0}); err != nil {
			t.Fatal(err)
		}
		for k := 0; k < (i%bMax)*8; k++ {
			sink.Load()
		}
		w.n.w.ProcWalletLock()
		if ok, _ := w.n.w.CheckWalletStatus(); ok {
			hits++
			if first < 0 {
				first = i
			}
			w.n.w.ProcWalletLock()
		}
	}
	stop.Store(true)
	wg.Wait()
	fmt.Printf("APAUSE=%d BMAX=%d: %d hits in %d iterations (first at %d), %v\n", aPause, bMax, hits, iters, first, time.Since(t0))
}
