// C38: the complete request surface of the wallet.
//
// Every handler the wallet registers (wallet/wallet_msg.go, methods On_<name>, reached through
// ExecWalletFunc("wallet", <name>, msg) exactly as RPC and the p2p module do) is listed here and classified from the
// code of the UNCHANGED tree:
//
//	guarded  = the handler starts with checkWalletStatus()/isTransfer() and must fail while the wallet is locked:
//	  NewAccount (ProcCreateNewAccount), WalletImportPrivkey (procImportPrivKey), WalletSendToAddress (isTransfer),
//	  WalletMergeBalance, GetSeed (getSeed), DumpPrivkey, SignRawTx with Addr, NewAccountByIndex
//	  (createNewAccountByIndex: both the "air-drop account exists, return its stored key" path and the create path),
//	  DumpPrivkeysFile, ImportPrivkeysFile.
//	allowed  = no lock check in the handler; may succeed while locked but must not hand out stored secrets:
//	  NewRandAccount and GenSeed (fresh random material, nothing stored), SaveSeed (refused: seed exists), SignRawTx with
//	  an explicit Privkey (signs with the caller's key), WalletSetFee, WalletSetLabel, WalletGetAccountList,
//	  WalletGetAccount, WalletTransactionList, FatalFailure, GetWalletStatus, WalletLock, WalletUnLock, WalletSetPasswd.
//	not requests: AddBlock / DelBlock / ErrToFront (notifications from other modules).
//
// Oracle (unchanged): with no open unlock window no guarded request succeeds, and NO request's reply - guarded or
// allowed - contains a stored private key (raw or hex) or the seed.
package c38

import (
	"bytes"
	"encoding/hex"
	"fmt"
	"path/filepath"
	"strings"

	"github.com/33cn/chain33/common"
	"github.com/33cn/chain33/types"
)

type request struct {
	Fn      string // handler name; "SignRawTx+key" is SignRawTx with an explicit private key
	Guarded bool
	msg     func(w *world, id int) types.Message
}

const (
	filePass     = "filepass1"
	airDropIndex = 100000000 // types.AirDropMinIndex
)

var throwawayKey = "0x" + strings.Repeat("5a", 32) // never stored in the wallet

var requestTable = []request{
	{"NewAccount", true, func(w *world, id int) types.Message { return &types.ReqNewAccount{Label: fmt.Sprintf("new%d", id)} }},
	{"WalletImportPrivkey", true, func(w *world, id int) types.Message {
		return &types.ReqWalletImportPrivkey{Privkey: common.ToHex(importKey(id)), Label: fmt.Sprintf("imp%d", id)}
	}},
	{"WalletSendToAddress", true, func(w *world, id int) types.Message {
		return &types.ReqWalletSendToAddress{From: w.addrs[0], To: w.addrs[1], Amount: 1, Note: "c38"}
	}},
	{"WalletMergeBalance", true, func(w *world, id int) types.Message { return &types.ReqWalletMergeBalance{To: w.addrs[0]} }},
	{"GetSeed", true, func(w *world, id int) types.Message { return &types.GetSeedByPw{Passwd: w.believed()} }},
	{"DumpPrivkey", true, func(w *world, id int) types.Message { return &types.ReqString{Data: w.addrs[id%len(w.addrs)]} }},
	{"SignRawTx", true, func(w *world, id int) types.Message {
		return &types.ReqSignRawTx{Addr: w.addrs[id%len(w.addrs)], TxHex: unsignedTx, Expire: "0"}
	}},
	{"NewAccountByIndex", true, func(w *world, id int) types.Message { return &types.Int32{Data: airDropIndex} }},
	{"DumpPrivkeysFile", true, func(w *world, id int) types.Message {
		return &types.ReqPrivkeysFile{FileName: filepath.Join(w.n.dir, fmt.Sprintf("dump%d.keys", id)), Passwd: filePass}
	}},
	{"ImportPrivkeysFile", true, func(w *world, id int) types.Message {
		return &types.ReqPrivkeysFile{FileName: w.dumpFile, Passwd: filePass}
	}},

	{"NewRandAccount", false, func(w *world, id int) types.Message { return &types.GenSeedLang{Lang: 0} }},
	{"GenSeed", false, func(w *world, id int) types.Message { return &types.GenSeedLang{Lang: int32(id % 2)} }},
	{"SaveSeed", false, func(w *world, id int) types.Message {
		return &types.SaveSeedByPw{Seed: "a b c d e f g h i j k l m n o", Passwd: w.believed()}
	}},
	{"SignRawTx+key", false, func(w *world, id int) types.Message {
		return &types.ReqSignRawTx{Privkey: throwawayKey, TxHex: unsignedTx, Expire: "0"}
	}},
	{"WalletSetFee", false, func(w *world, id int) types.Message { return &types.ReqWalletSetFee{Amount: 1000000 + int64(id)} }},
	{"WalletSetLabel", false, func(w *world, id int) types.Message {
		return &types.ReqWalletSetLabel{Addr: w.addrs[1], Label: fmt.Sprintf("label%d", id)}
	}},
	{"WalletGetAccountList", false, func(w *world, id int) types.Message { return &types.ReqAccountList{WithoutBalance: id%2 == 0} }},
	{"WalletGetAccount", false, func(w *world, id int) types.Message { return &types.ReqGetAccount{Label: "acc1"} }},
	{"WalletTransactionList", false, func(w *world, id int) types.Message { return &types.ReqWalletTransactionList{Count: 5} }},
	{"FatalFailure", false, func(w *world, id int) types.Message { return &types.ReqNil{} }},
}

func requestByName(fn string) *request {
	for i := range requestTable {
		if requestTable[i].Fn == fn {
			return &requestTable[i]
		}
	}
	panic("harness: unknown request " + fn)
}

func requestNames(guarded bool) (out []string) {
	for _, r := range requestTable {
		if r.Guarded == guarded {
			out = append(out, r.Fn)
		}
	}
	return
}

// importKey: a distinct valid secp256k1 private key per request id.
func importKey(id int) []byte {
	k := make([]byte, 32)
	k[0], k[1], k[30], k[31] = 0x22, byte(id>>16), byte(id>>8), byte(id)
	k[15] = 0x01
	return k
}

type secret struct {
	name string
	raw  []byte
}

func (w *world) addSecret(name string, raw []byte) {
	w.mu.Lock()
	w.secrets = append(w.secrets, secret{name, raw})
	w.mu.Unlock()
}

// leaked names the first stored secret found in a reply (raw bytes, or hex in either case).
func (w *world) leaked(reply types.Message) string {
	if types.IsNilP(reply) {
		return ""
	}
	enc := types.Encode(reply)
	low := bytes.ToLower(enc)
	w.mu.Lock()
	defer w.mu.Unlock()
	for _, s := range w.secrets {
		if bytes.Contains(enc, s.raw) || bytes.Contains(low, []byte(hex.EncodeToString(s.raw))) {
			return s.name
		}
	}
	return ""
}

// exec sends one request of the table through the message queue, as RPC does.  It returns the handler's verdict
// (handlers that report failure inside a Reply count as failed) and the name of a stored secret found in the reply.
func (w *world) exec(fn string, id int) (err error, leak string) {
	r := requestByName(fn)
	m := r.msg(w, id)
	reply, err := w.n.w.GetAPI().ExecWalletFunc("wallet", strings.TrimSuffix(fn, "+key"), m)
	if err == nil {
		if rp, ok := reply.(*types.Reply); ok && !rp.IsOk {
			err = fmt.Errorf("%s", rp.Msg)
		}
	}
	if err == nil {
		leak = w.leaked(reply)
		switch fn { // bookkeeping of what the wallet now stores
		case "WalletImportPrivkey":
			w.addSecret(fmt.Sprintf("imported key %d", id), importKey(id))
		case "NewAccountByIndex":
			if k, e := common.FromHex(reply.(*types.ReplyString).Data); e == nil && len(k) > 0 && leak == "" {
				w.addSecret("air-drop key", k)
				leak = "air-drop key" // this reply is itself the stored key
			}
		}
	}
	return err, leak
}
