// C37: wallet secrets decrypt correctly across formats and password changes.
//
// Property text -> oracle:
//   - "decrypting data encrypted with the same password returns the original bytes" -> round trip through
//     CBCEncrypterPrivkey/CBCDecrypterPrivkey (keys of 32 and 64 bytes) and AesgcmEncrypter/AesgcmDecrypter (seeds).
//   - "data encrypted in the legacy fixed-IV and fixed-nonce formats still decrypts to the original" -> blobs made
//     by the harness's own AES-CBC(iv=key[:16]) / AES-GCM(nonce=key[:12]) code must decrypt to the original.
//   - "after a password change, successful or not, every stored private key and the seed decrypt under the
//     wallet's current password to the same values as before" -> after every ProcWalletSetPasswd attempt on a real
//     wallet (current password := new one iff the call returned nil) the stored blobs decrypt to the recorded
//     values, and after unlock(current password) ProcDumpPrivkey / GetSeed return them.
//
// Nothing is asserted about *when* a change must succeed, nor about CBC under a wrong password.
package c37

import (
	"bytes"
	"encoding/hex"
	"fmt"
	"strings"
	"testing"

	"github.com/33cn/chain33/common"
	"github.com/33cn/chain33/common/crypto"
	"github.com/33cn/chain33/types"
	"github.com/33cn/chain33/wallet"
	bip39 "github.com/33cn/chain33/wallet/bipwallet/go-bip39"
	wcom "github.com/33cn/chain33/wallet/common"
	"pgregory.net/rapid"
	"verifharness/lib"
)

const prop = "C37"

func TestMain(m *testing.M) { lib.Main(m) }

// ---------------------------------------------------------------- format level

// genMnemonic: a real BIP-39 sentence of 12/15/18/21/24 words (English or Chinese) from drawn entropy.
func genMnemonic(t *rapid.T) (string, int32, []byte) {
	lang := rapid.Int32Range(0, 1).Draw(t, "lang")
	ent := rapid.SliceOfN(rapid.Byte(), 16, 16).Draw(t, "entropy")
	for extra := rapid.IntRange(0, 4).Draw(t, "entropyWords"); extra > 0; extra-- {
		ent = append(ent, rapid.SliceOfN(rapid.Byte(), 4, 4).Draw(t, "entropyMore")...)
	}
	m, err := bip39.NewMnemonic(ent, lang)
	if err != nil {
		lib.Inconclusive("harness: NewMnemonic: %v", err)
	}
	return m, lang, ent
}

// genRawPassword: 1..80 bytes; the classes <32, =32, >32 and "zero bytes inside" are drawn explicitly because the
// key derivation (truncate / zero-pad to 32) branches on them.
func genRawPassword(t *rapid.T) []byte {
	var n int
	switch rapid.IntRange(0, 3).Draw(t, "pwClass") {
	case 0:
		n = rapid.IntRange(1, 31).Draw(t, "pwLen")
	case 1:
		n = 32
	default:
		n = rapid.IntRange(33, 80).Draw(t, "pwLen")
	}
	pw := rapid.SliceOfN(rapid.Byte(), n, n).Draw(t, "pw")
	if rapid.IntRange(0, 4).Draw(t, "zeroTail") == 0 {
		pw[len(pw)-1] = 0
	}
	return pw
}

type cryptoCase struct {
	Password string `json:"password_hex"`
	Key      string `json:"key_hex"`
	Seed     string `json:"seed"`
	Wrong    string `json:"wrong_password_hex"`
}

func TestPropCryptoRoundTrip(t *testing.T) {
	defer lib.Flush()
	rapid.Check(t, func(t *rapid.T) {
		pw := genRawPassword(t)
		klen := rapid.SampledFrom([]int{32, 64}).Draw(t, "keyLen")
		key := rapid.SliceOfN(rapid.Byte(), klen, klen).Draw(t, "key")
		seedStr, lang, _ := genMnemonic(t)
		seed := []byte(seedStr)
		// a password whose derived key differs: flip one byte inside the first min(len,32) bytes
		wrong := append([]byte{}, pw...)
		i := rapid.IntRange(0, min(len(pw), 32)-1).Draw(t, "flipAt")
		wrong[i] ^= byte(rapid.IntRange(1, 255).Draw(t, "flipMask"))
		c := cryptoCase{hex.EncodeToString(pw), hex.EncodeToString(key), seedStr, hex.EncodeToString(wrong)}
		fail := func(format string, a ...interface{}) {
			lib.Violation(t, prop, "TestPropCryptoRoundTrip", c, format, a...)
		}
		lib.Eval()
		cp := func(b []byte) []byte { return append([]byte{}, b...) } // the code may alias its arguments

		// private keys: new format round trip, legacy blob
		blob := wcom.CBCEncrypterPrivkey(cp(pw), cp(key))
		if got := wcom.CBCDecrypterPrivkey(cp(pw), cp(blob)); !bytes.Equal(got, key) {
			fail("CBC round trip: got %x want %x (blob %x)", got, key, blob)
		}
		if got := wcom.CBCDecrypterPrivkey(cp(pw), legacyCBC(pw, key)); !bytes.Equal(got, key) {
			fail("legacy CBC blob: got %x want %x", got, key)
		}
		// seeds: new format round trip, legacy blob
		sblob, err := wallet.AesgcmEncrypter(cp(pw), cp(seed))
		if err != nil {
			fail("AesgcmEncrypter: %v", err)
		}
		if got, err := wallet.AesgcmDecrypter(cp(pw), cp(sblob)); err != nil || !bytes.Equal(got, seed) {
			fail("GCM round trip: got %q err %v", got, err)
		}
		lblob := legacyGCM(pw, seed)
		if got, err := wallet.AesgcmDecrypter(cp(pw), cp(lblob)); err != nil || !bytes.Equal(got, seed) {
			fail("legacy GCM blob: got %q err %v", got, err)
		}
		// authenticated format: a password with a different derived key must be rejected (never yields the seed)
		for name, b := range map[string][]byte{"new": sblob, "legacy": lblob} {
			if got, err := wallet.AesgcmDecrypter(cp(wrong), cp(b)); err == nil {
				fail("GCM %s blob opened with a different key: %q", name, got)
			}
		}

		switch {
		case len(pw) < 32:
			lib.Class("pw<32")
		case len(pw) == 32:
			lib.Class("pw=32")
		default:
			lib.Class("pw>32")
		}
		lib.Class(fmt.Sprintf("key%d", klen))
		lib.Class(fmt.Sprintf("seedWords%d_lang%d", len(strings.Fields(seedStr)), lang))
		if len(pw) > 32 { // non-trivial: the truncating branch of the key derivation
			lib.NonTrivialCase(c)
		}
	})
}

// ---------------------------------------------------------------- wallet histories

type hop struct {
	Op    string `json:"op"`
	Label string `json:"label,omitempty"`
	Key   string `json:"key,omitempty"` // import: private key hex
	Old   string `json:"old,omitempty"` // chpass: "right", "~prefix", "~plus", "~case", "~empty" or a literal password
	New   string `json:"new,omitempty"` // chpass: new password (possibly invalid)
	Pw    string `json:"pw,omitempty"`  // unlockWrong: the password tried
	Idx   int    `json:"idx,omitempty"` // legacy: account index (mod #accounts); -1 = the seed
	// create/import: address format of the account: -1 node default, 0 btc, 1 btc multi-sign, 2 eth (every id that
	// ProcCreateNewAccount / ProcImportPrivKey accept; ids >= 3 make address.PubKeyToAddr panic)
	AddrID int32 `json:"addressID"`
}

type hcase struct {
	SignType string `json:"signType"`
	Lang     int32  `json:"lang"`
	Entropy  string `json:"entropy_hex"`
	Pw0      string `json:"password0"`
	Ops      []hop  `json:"ops"`
}

const alnum = "abcdefghijklmnopqrstuvwxyzABCDEFGHIJKLMNOPQRSTUVWXYZ0123456789"

// genWalletPassword: what isValidPassWord accepts: 8..30 bytes, letters and digits only, at least one of each.
func genWalletPassword(t *rapid.T, label string) string {
	n := rapid.IntRange(6, 28).Draw(t, label+"Len")
	b := rapid.SliceOfN(rapid.SampledFrom([]byte(alnum)), n, n).Draw(t, label)
	s := "p" + string(b) + "7"
	if n <= 20 && rapid.IntRange(0, 5).Draw(t, label+"Uni") == 0 {
		s = "密" + s // a 3-byte letter: []byte(password) is what gets hashed and used as key material
	}
	return s
}

func genKeyHex(t *rapid.T, signType string) string {
	n := 32
	if signType == "ed25519" && rapid.Bool().Draw(t, "long") {
		n = 64 // the ed25519 driver accepts both a 32-byte seed and a 64-byte key; the wallet stores what it is given
	}
	cr, _ := crypto.Load(signType, -1)
	for {
		k := rapid.SliceOfN(rapid.Byte(), n, n).Draw(t, "privkey")
		if _, err := cr.PrivKeyFromBytes(k); err == nil { // secp256k1 rejects 0 and values >= N (probability ~2^-128)
			return common.ToHex(k)
		}
	}
}

func genHistory(t *rapid.T) hcase {
	c := hcase{SignType: rapid.SampledFrom([]string{"secp256k1", "ed25519", "sm2"}).Draw(t, "signType")}
	_, lang, ent := genMnemonic(t)
	c.Lang, c.Entropy = lang, hex.EncodeToString(ent)
	c.Pw0 = genWalletPassword(t, "pw0")
	label := 0
	add := func(imp bool) {
		label++
		o := hop{Op: "create", Label: fmt.Sprintf("acc%d", label), AddrID: rapid.SampledFrom([]int32{-1, 0, 1, 2, 2}).Draw(t, "addressID")}
		if imp {
			o.Op, o.Key = "import", genKeyHex(t, c.SignType)
		}
		c.Ops = append(c.Ops, o)
	}
	for i, n := 0, rapid.IntRange(1, 4).Draw(t, "initialAccounts"); i < n; i++ {
		add(rapid.IntRange(0, 3).Draw(t, "imported") > 0) // seed derivation (pure-Go bip32) costs ~50 ms: mostly import
	}
	kinds := []string{"chpass", "chpass", "chpass", "chpassWrong", "chpassWrong", "chpassWrong", "chpassBadNew",
		"restart", "restart", "lock", "unlock", "unlockWrong", "create", "import", "legacy", "legacy", "verify"}
	for i, n := 0, rapid.IntRange(3, 14).Draw(t, "nops"); i < n; i++ {
		switch k := rapid.SampledFrom(kinds).Draw(t, "op"); k {
		case "chpass":
			c.Ops = append(c.Ops, hop{Op: "chpass", Old: "right", New: genWalletPassword(t, "new")})
		case "chpassWrong":
			old := rapid.SampledFrom([]string{"~prefix", "~plus", "~case", "~empty", "~stale", ""}).Draw(t, "wrongKind")
			if old == "" {
				old = genWalletPassword(t, "wrongOld")
			}
			c.Ops = append(c.Ops, hop{Op: "chpass", Old: old, New: genWalletPassword(t, "new")})
		case "chpassBadNew":
			bad := rapid.SampledFrom([]string{"a1", "abcdefghij", "1234567890", "abcd 12345", "abcdefghijklmnopqrstuvwxyz012345", ""}).Draw(t, "badNew")
			c.Ops = append(c.Ops, hop{Op: "chpass", Old: "right", New: bad})
		case "unlockWrong":
			c.Ops = append(c.Ops, hop{Op: "unlockWrong", Pw: genWalletPassword(t, "wrongUnlock")})
		case "create":
			add(false)
		case "import":
			add(true)
		case "legacy":
			c.Ops = append(c.Ops, hop{Op: "legacy", Idx: rapid.IntRange(-1, 5).Draw(t, "legacyIdx")})
		default:
			c.Ops = append(c.Ops, hop{Op: k})
		}
	}
	return c
}

type account struct {
	addr   string
	key    string // hex with 0x, as ProcDumpPrivkey renders it
	addrID int32
}

type histStats struct {
	okChanges, failedChanges, accountsAtOkChange int
	formatsAtOkChange                            map[int32]bool // address formats present at a successful change
	legacyBeforeChange, coldChange               bool           // cold = change attempted with no password held in memory (after restart)
}

func runHistory(t lib.TB, c hcase) (st histStats) {
	fail := func(step int, format string, a ...interface{}) {
		cc := c
		if step >= 0 {
			cc.Ops = c.Ops[:step+1]
		}
		lib.Violation(t, prop, "TestPropWalletHistory", cc, "step %d: %s", step, fmt.Sprintf(format, a...))
	}
	ent, _ := hex.DecodeString(c.Entropy)
	seed, err := bip39.NewMnemonic(ent, c.Lang)
	if err != nil {
		lib.Inconclusive("harness: NewMnemonic: %v", err)
	}
	n := newNode(c.SignType)
	defer n.destroy()

	cur, prev := c.Pw0, ""
	if ok, err := n.w.SaveSeed(cur, seed); !ok {
		lib.Inconclusive("harness: SaveSeed(%q): %v", cur, err) // fixture problem, not a verdict about the property
	}
	var accs []account
	legacyPending := false

	// storage-level reading of "decrypt under the wallet's current password": does not disturb wallet state
	verifyStored := func(step int) {
		if s, err := wallet.GetSeed(n.w.GetDBStore(), cur); err != nil || s != seed {
			fail(step, "stored seed under current password %q: got %q err %v, want %q", cur, s, err, seed)
		}
		for _, a := range accs {
			rec, err := n.w.GetAccountByAddr(a.addr)
			if err != nil {
				fail(step, "account %s lost: %v", a.addr, err)
			}
			blob, _ := common.FromHex(rec.GetPrivkey())
			if got := common.ToHex(wcom.CBCDecrypterPrivkey([]byte(cur), blob)); got != a.key {
				fail(step, "stored key of %s under current password %q decrypts to %s, want %s", a.addr, cur, got, a.key)
			}
		}
	}
	// request-level reading: unlock with the current password, dump every key, read the seed
	verifyRequests := func(step int) {
		wasLocked := n.w.IsWalletLocked()
		if err := n.w.ProcWalletUnLock(&types.WalletUnLock{Passwd: cur}); err != nil {
			fail(step, "unlock with the current password %q failed: %v", cur, err)
		}
		for _, a := range accs {
			if got, err := n.w.ProcDumpPrivkey(a.addr); err != nil || got != a.key {
				fail(step, "ProcDumpPrivkey(%s) = %s, %v; want %s", a.addr, got, err, a.key)
			}
		}
		if s, err := n.w.GetSeed(cur); err != nil || s != seed {
			fail(step, "GetSeed(current password) = %q, %v; want %q", s, err, seed)
		}
		if wasLocked {
			_ = n.w.ProcWalletLock()
		}
	}
	unlocked := func(step int) { // create/import need an unlocked wallet: unlock by construction
		if n.w.IsWalletLocked() {
			if err := n.w.ProcWalletUnLock(&types.WalletUnLock{Passwd: cur}); err != nil {
				fail(step, "unlock with the current password %q failed: %v", cur, err)
			}
		}
	}

	for step, o := range c.Ops {
		switch o.Op {
		case "create":
			unlocked(step)
			wa, err := n.w.ProcCreateNewAccount(&types.ReqNewAccount{Label: o.Label, AddressID: o.AddrID})
			if err != nil {
				fail(step, "ProcCreateNewAccount: %v", err)
			}
			k, err := n.w.ProcDumpPrivkey(wa.Acc.Addr) // "the same values as before": first reading is the reference
			if err != nil {
				fail(step, "ProcDumpPrivkey of a fresh account: %v", err)
			}
			accs = append(accs, account{wa.Acc.Addr, k, o.AddrID})
		case "import":
			unlocked(step)
			wa, err := n.w.ProcImportPrivKey(&types.ReqWalletImportPrivkey{Privkey: o.Key, Label: o.Label, AddressID: o.AddrID})
			if err != nil {
				fail(step, "ProcImportPrivKey: %v", err)
			}
			accs = append(accs, account{wa.Acc.Addr, o.Key, o.AddrID})
		case "lock":
			_ = n.w.ProcWalletLock()
		case "unlock":
			if err := n.w.ProcWalletUnLock(&types.WalletUnLock{Passwd: cur}); err != nil {
				fail(step, "unlock with the current password %q failed: %v", cur, err)
			}
		case "unlockWrong":
			if o.Pw != cur {
				_ = n.w.ProcWalletUnLock(&types.WalletUnLock{Passwd: o.Pw})
			}
		case "restart":
			n.restart()
		case "legacy": // the database of an older release: same content, fixed-IV / fixed-nonce blobs
			if o.Idx < 0 || len(accs) == 0 {
				if err := n.w.GetDBStore().SetSync(wallet.WalletSeed, legacyGCM([]byte(cur), []byte(seed))); err != nil {
					lib.Inconclusive("harness: write legacy seed: %v", err)
				}
			} else {
				a := accs[o.Idx%len(accs)]
				rec, err := n.w.GetAccountByAddr(a.addr)
				if err != nil {
					fail(step, "account %s lost: %v", a.addr, err)
				}
				plain, _ := common.FromHex(a.key)
				rec.Privkey = common.ToHex(legacyCBC([]byte(cur), plain))
				if err := n.w.SetWalletAccount(true, a.addr, rec); err != nil {
					lib.Inconclusive("harness: write legacy account: %v", err)
				}
			}
			legacyPending = true
			verifyStored(step) // the legacy blobs themselves must read back
		case "chpass":
			old := o.Old
			switch o.Old {
			case "right":
				old = cur
			case "~prefix":
				old = cur[:len(cur)-1]
			case "~plus":
				old = cur + "1"
			case "~case":
				old = strings.ToUpper(cur)
				if old == cur {
					old = strings.ToLower(cur)
				}
			case "~empty":
				old = ""
			case "~stale":
				old = prev
			}
			cold := n.w.GetPassword() == ""
			err := n.w.ProcWalletSetPasswd(&types.ReqWalletSetPasswd{OldPass: old, NewPass: o.New})
			if err == nil {
				prev, cur = cur, o.New
				st.okChanges++
				if len(accs) > st.accountsAtOkChange {
					st.accountsAtOkChange = len(accs)
				}
				if st.formatsAtOkChange == nil {
					st.formatsAtOkChange = map[int32]bool{}
				}
				for _, a := range accs {
					st.formatsAtOkChange[a.addrID] = true
				}
				st.legacyBeforeChange = st.legacyBeforeChange || legacyPending
				legacyPending = false
			} else {
				st.failedChanges++
			}
			st.coldChange = st.coldChange || cold
			verifyStored(step)
		case "verify":
			verifyStored(step)
			verifyRequests(step)
		}
	}
	verifyStored(len(c.Ops) - 1)
	verifyRequests(len(c.Ops) - 1)
	n.restart() // and what is on disk is what a new process reads
	verifyStored(len(c.Ops) - 1)
	verifyRequests(len(c.Ops) - 1)
	return st
}

func TestPropWalletHistory(t *testing.T) {
	defer lib.Flush()
	rapid.Check(t, func(t *rapid.T) {
		c := genHistory(t)
		lib.Eval()
		st := runHistory(t, c)
		lib.Class(c.SignType)
		if st.okChanges > 0 {
			lib.Class("successful_change")
		}
		if st.failedChanges > 0 {
			lib.Class("failed_change")
		}
		if st.legacyBeforeChange {
			lib.Class("change_over_legacy_blobs")
		}
		if st.coldChange {
			lib.Class("change_after_restart_without_unlock")
		}
		for id := range st.formatsAtOkChange {
			lib.Class(fmt.Sprintf("successful_change_over_addressID_%d_account", id))
		}
		if (st.formatsAtOkChange[1] || st.formatsAtOkChange[2]) && (st.formatsAtOkChange[-1] || st.formatsAtOkChange[0]) {
			lib.Class("successful_change_over_mixed_address_formats")
		}
		// non-trivial (DESIGN): a failed and a successful change, the successful one over >= 2 accounts
		if st.okChanges > 0 && st.failedChanges > 0 && st.accountsAtOkChange >= 2 {
			lib.NonTrivialCase(c)
		}
	})
}
