package c36

// Goroutine registry and the structural "blocked for ever" decision (oracle O5).
//
// Wall-clock never decides.  A join first simply waits for its goroutines.  If they have not finished after a short
// grace, the process is inspected: a goroutine is reported as blocked for ever only when
//   - it is registered as being inside a queue call that has no timeout (Send/Wait without timeout, Close, Reply),
//   - the Go runtime shows it parked (chan send / chan receive / select / semacquire …) with a chain33/queue frame,
//   - every other unfinished harness goroutine is either parked in such a call too or is an idle subscriber loop
//     parked on `<-client.Recv()`, and every goroutine of the queue package itself (subscriber pumps, the callback
//     goroutine) is parked as well — i.e. nothing that could still wake it is running, runnable, sleeping or
//     holding a timer,
//   - and the next inspection (0.5 s later) shows the same goroutines in the same calls.
// In that state no schedule of the remaining program can complete the call, whatever the machine speed.  Anything
// else (somebody still runnable or sleeping, a call with a timer) keeps waiting; after 150 s without any progress of
// the traffic the watchdog reports *inconclusive*, never a violation.

import (
	"fmt"
	"regexp"
	"runtime"
	"runtime/debug"
	"sort"
	"strconv"
	"strings"
	"sync/atomic"
	"time"

	"verifharness/lib"
)

const (
	graceBeforeInspect = 3 * time.Second
	watchdog           = 150 * time.Second
)

type gstate struct {
	s   string // "run", "sleep", "gate" (waits for a harness event), "recv", "join", or "q:<call>"
	inf bool   // queue call without timeout
	seq int64
}

type gor struct {
	name string
	gid  int64
	done chan struct{}
	st   atomic.Pointer[gstate]
	seq  int64 // owned by the goroutine
	late bool  // talks to the unsubscribed topic: parked calls are expected until the final shutdown has returned
}

func (g *gor) set(s string, inf bool) { g.seq++; g.st.Store(&gstate{s: s, inf: inf, seq: g.seq}) }

// call brackets one queue API call.
func (g *gor) call(desc string, inf bool, f func()) {
	g.set("q:"+desc, inf)
	f()
	g.set("run", false)
}

func (g *gor) finished() bool {
	select {
	case <-g.done:
		return true
	default:
		return false
	}
}

var gidRe = regexp.MustCompile(`^goroutine (\d+) \[([^\]]*)\]`)

func curGID() int64 {
	var b [64]byte
	m := gidRe.FindSubmatch(b[:runtime.Stack(b[:], false)])
	id, _ := strconv.ParseInt(string(m[1]), 10, 64)
	return id
}

// spawn starts a registered harness goroutine.  A panic escaping a queue call is a violation ("… or crashing").
func (h *harness) spawn(name string, f func(g *gor)) *gor { return h.spawnOpt(name, false, f) }

func (h *harness) spawnOpt(name string, late bool, f func(g *gor)) *gor {
	g := &gor{name: name, done: make(chan struct{}), late: late}
	g.set("run", false)
	ready := make(chan struct{})
	go func() {
		g.gid = curGID()
		close(ready)
		defer close(g.done)
		defer func() {
			if r := recover(); r != nil {
				st := g.st.Load()
				h.fail("O5: panic in %s during %s: %v\n%s", name, st.s, r, debug.Stack())
			}
		}()
		f(g)
	}()
	<-ready
	h.mu.Lock()
	h.gors = append(h.gors, g)
	h.mu.Unlock()
	return g
}

type gdump struct {
	status string
	text   string
}

func dumpAll() map[int64]gdump {
	buf := make([]byte, 1<<20)
	for {
		n := runtime.Stack(buf, true)
		if n < len(buf) {
			buf = buf[:n]
			break
		}
		buf = make([]byte, 2*len(buf))
	}
	out := map[int64]gdump{}
	for _, blk := range strings.Split(string(buf), "\n\n") {
		m := gidRe.FindStringSubmatch(blk)
		if m == nil {
			continue
		}
		id, _ := strconv.ParseInt(m[1], 10, 64)
		out[id] = gdump{status: strings.TrimSpace(strings.Split(m[2], ",")[0]), text: blk}
	}
	return out
}

func parked(status string) bool {
	switch status {
	case "chan send", "chan receive", "select", "semacquire", "sync.WaitGroup.Wait", "sync.Mutex.Lock", "sync.RWMutex.Lock", "sync.RWMutex.RLock", "sync.Cond.Wait",
		"chan send (nil chan)", "chan receive (nil chan)", "select (no cases)":
		return true
	}
	return false
}

const queuePkg = "github.com/33cn/chain33/queue."

// inspect returns the goroutines that are blocked for ever in the sense above ("" key set when the process is not
// quiescent).  The fingerprint identifies (goroutine, call) pairs so that two inspections can be compared.
func (h *harness) inspect() (stuck []string, fingerprint string, dump string) {
	self := curGID()
	regs := h.allGors()
	d := dumpAll()
	byGid := map[int64]*gor{}
	var fp []string
	var texts []string
	for _, g := range regs {
		byGid[g.gid] = g
		if g.finished() {
			continue
		}
		st := g.st.Load()
		gd, ok := d[g.gid]
		if !ok { // finished between the two looks
			return nil, "", ""
		}
		switch {
		case g.late && !h.shutdownDone.Load() && strings.HasPrefix(st.s, "q:") && st.inf && parked(gd.status):
			// nobody answers on the unsubscribed topic; only the shutdown (not yet done) is required to end this call
		case strings.HasPrefix(st.s, "q:") && st.inf && parked(gd.status) && strings.Contains(gd.text, queuePkg):
			stuck = append(stuck, fmt.Sprintf("%s in %s [%s]", g.name, st.s[2:], gd.status))
			fp = append(fp, fmt.Sprintf("%d/%d", g.gid, st.seq))
			texts = append(texts, gd.text)
		case (st.s == "recv" || st.s == "join") && gd.status == "chan receive":
			// idle subscriber loop; or a closer waiting for its (registered) children
		default:
			return nil, "", "" // somebody is still moving, sleeping, or inside a call with a timer
		}
	}
	for id, gd := range d {
		if id == self || byGid[id] != nil || !strings.Contains(gd.text, queuePkg) {
			continue
		}
		if !parked(gd.status) {
			return nil, "", ""
		}
		texts = append(texts, gd.text) // parked queue-internal goroutines (pumps; leftovers of earlier cases)
	}
	sort.Strings(fp)
	return stuck, strings.Join(fp, " "), strings.Join(texts, "\n\n")
}

// join waits for gs.  Returns "" when all finished, or the violation text.
func (h *harness) join(phase string, gs []*gor) string {
	t0 := time.Now()
	tick := time.NewTicker(500 * time.Millisecond)
	defer tick.Stop()
	prevFP := ""
	lastProgress, lastMove := h.progress.Load(), t0 // the watchdog measures time without any progress of the traffic
	for _, g := range gs {
		for !g.finished() {
			select {
			case <-g.done:
			case <-h.failed:
				return h.failMsg + "\nobserved history:\n" + h.history(tokensIn(h.failMsg)...)
			case <-tick.C:
				if time.Since(t0) < graceBeforeInspect {
					continue
				}
				stuck, fp, dump := h.inspect()
				if len(stuck) > 0 && fp == prevFP {
					return fmt.Sprintf("O5: blocked for ever while waiting for %s: %s\n(the process is quiescent: every other goroutine of the harness and of the queue has finished or is parked)\nobserved history:\n%s\ngoroutine dump (parked goroutines with queue frames):\n%s",
						phase, strings.Join(stuck, "; "), h.history(tokensIn(strings.Join(stuck, " "))...), clip(dump, 12000))
				}
				prevFP = fp
				if p := h.progress.Load(); p != lastProgress {
					lastProgress, lastMove = p, time.Now()
				}
				if time.Since(lastMove) > watchdog {
					fmt.Printf("c36: watchdog while waiting for %s; history:\n%s\n%s\n", phase, h.history(), clip(string(debug.Stack()), 2000))
					for _, x := range h.allGors() {
						if !x.finished() {
							fmt.Printf("  unfinished: %s state=%s\n", x.name, x.st.Load().s)
						}
					}
					lib.Inconclusive("C36 harness watchdog (%v) expired waiting for %s without a quiescent blocked state", watchdog, phase)
				}
			}
		}
	}
	select {
	case <-h.failed:
		return h.failMsg + "\nobserved history:\n" + h.history(tokensIn(h.failMsg)...)
	default:
	}
	return ""
}

var tokRe = regexp.MustCompile(`\b[RBF]\d+\b`)

func tokensIn(s string) []string { return tokRe.FindAllString(s, 8) }

func clip(s string, n int) string {
	if len(s) > n {
		return s[:n] + "\n…(clipped)"
	}
	return s
}
