// C36: the message bus (queue.Queue / queue.Client) under generated concurrent traffic.
//
// One generated *scenario* = topics (one subscriber client each, as in chain33: "一个topic 只有一个订阅者"),
// requesters (own send-only client, or a module's subscribed client), a close plan and optionally a slow
// ("stalled") module with a burst/flood sender.  Only the usage found in the code base is generated:
//
//	msg := c.NewMessage(topic, ty, data); c.Send/SendTimeout(msg, true, …); r, err := c.Wait/WaitTimeout(msg, …)
//	on success (and only then) c.FreeMessage(msg[, r])           (client/queueprotocol.go, mempool/check.go, util/exec.go)
//	c.Send(msg, false) and never touch msg again; the subscriber may free it          (testnode mockP2P)
//	c.Sub(topic); for msg := range c.Recv() { …; msg.Reply(c.NewMessage(…)) | msg.ReplyErr(…) }, possibly `go handle(msg)`
//	module.Close(): c.Close() from another goroutine while the Recv loop keeps draining; then q.Close()
//	mem.client.Send(msg, true) with the error ignored, then WaitTimeout(msg, …)          (mempool/base.go getCurrentNonce)
//	a request sent with waitReply=false (low-priority channel; the reply channel stays on the message) and then waited for
//	pooled objects travel between topics: NewMessage is repeated (rejects are given back) until it hands out an object
//	whose previous life was a successful synchronous request on another topic — sync.Pool drops objects under -race
//	requests to a topic nobody subscribes (disabled module; queue_test.go TestClient_WaitTimeout): only q.Close() ends them
//
// Oracle (from the property text, independent of the queue's implementation):
//
//	O1 a successful Wait returns the echo of *its own* token (the responder copies the token of the message it handled);
//	O2 a subscriber never sees the same token twice;
//	O3 a Send that starts after Close() of {the queue | the target topic's client | the sender's own subscribed client}
//	   has returned must return an error;
//	O4 an error is only legal with a cause: ErrQueueTimeout/ErrQueueChannelFull need a finite timeout on that very call,
//	   closed-errors need a relevant Close to have been *initiated* (so a request never silently loses its reply);
//	O5 no call blocks forever / panics: decided structurally from goroutine states (c36_stuck_test.go), never by a clock.
package c36

import (
	"errors"
	"fmt"
	"strconv"
	"strings"
	"sync"
	"sync/atomic"
	"testing"
	"time"

	"github.com/33cn/chain33/queue"
	"github.com/33cn/chain33/types"
	"pgregory.net/rapid"
	"verifharness/lib"
)

const (
	prop    = "C36"
	tySync  = int64(9001)
	tyAsync = int64(9002)
	tyReply = int64(9003)
	// knownAsync: async Send (no timeout) parked on a full low-priority channel is not woken by Close.
	knownAsync = "C36-async-send-not-woken-by-close"
	// knownFresh: a topic whose channel is created by a Send overlapping queue.Close() is never marked closed.
	knownFresh = "C36-topic-created-during-queue-close"
	// atStandstill as closeCfg.At: never reached by counting, the plan fires when the traffic stands still.
	atStandstill = 1 << 30
)

func TestMain(m *testing.M) { queue.DisableLog(); lib.Main(m) }

// ---------------------------------------------------------------- scenario (plain data, rendered on violation)

type topicCfg struct {
	Spawn     bool  `json:"spawn"`      // handle every message in its own goroutine (else inline in the Recv loop)
	DelayUs   []int `json:"delay_us"`   // handler delay, cycled by arrival index
	FreeAsync bool  `json:"free_async"` // subscriber frees async messages after handling (mockP2P pattern)
	Style     int   `json:"style"`      // 0 reply with pooled NewMessage, 1 reply with queue.NewMessage, 2 msg.ReplyErr
	Stall     bool  `json:"stall"`      // slow module: holds its first message until the first Close has been initiated
	ReleaseUs int   `json:"release_us"` // … plus this delay
}

type opCfg struct {
	Topic  int  `json:"t"`                // -1: the unsubscribed topic
	Async  bool `json:"async,omitempty"`  // fire and forget: Send(msg,false), never waited for
	Low    bool `json:"low,omitempty"`    // a request sent with waitReply=false (low-priority channel) and then waited for
	Ignore bool `json:"ignore,omitempty"` // the error of Send is ignored and the request is waited for anyway
	Reuse  bool `json:"reuse,omitempty"`  // insist on a pooled object last used for a sync request on another topic
	SendMs int  `json:"send_ms"`          // -1: Send (blocks), 0: SendTimeout(0) non-blocking, >0: SendTimeout
	WaitUs int  `json:"wait_us"`          // 0: Wait (blocks), >0: WaitTimeout
	PreUs  int  `json:"pre_us,omitempty"`
	GapUs  int  `json:"gap_us,omitempty"` // between Send and Wait
	Free   int  `json:"free"`             // after a successful wait: 0 nothing, 1 FreeMessage(msg), 2 FreeMessage(msg, reply)
}

type reqCfg struct {
	Client int `json:"client"` // -1: own send-only client; k: the subscribed client of topic k
	// Orphan: all ops go to topic -1, a topic nobody subscribes (a disabled module; queue_test.go does the same).
	// Nothing ever replies there, so only queue.Close() can end its blocking calls: it is joined after the shutdown.
	Orphan bool    `json:"orphan,omitempty"`
	Window int     `json:"window"` // send Window requests, then wait for each (1 = strict request/response)
	Ops    []opCfg `json:"ops,omitempty"`
	// Flood > 0: instead of Ops, Flood async sends to topic FloodTopic with send timeout FloodMs.
	Flood      int `json:"flood,omitempty"`
	FloodTopic int `json:"flood_topic,omitempty"`
	FloodMs    int `json:"flood_ms,omitempty"`
}

type closeCfg struct {
	What       []int `json:"what"` // k: Close() of topic k's client; len(Topics): queue.Close()
	At         int   `json:"at"`   // fire when this many requests have been started (or when traffic stops moving)
	GapUs      []int `json:"gap_us"`
	Concurrent bool  `json:"concurrent"` // the closes are issued from separate goroutines
}

type scenario struct {
	Topics []topicCfg `json:"topics"`
	Reqs   []reqCfg   `json:"reqs"`
	Close  *closeCfg  `json:"close,omitempty"`
}

// ---------------------------------------------------------------- run state

type payload struct {
	Token string
	Topic int
}
type echo struct{ Token string }

type counters struct {
	ok, timeouts, recycled, inflightAtClose, closedErr, sendSpannedClose, waitSpannedClose, postCloseRefused, fullErr, foreign, asyncSeen, crossTopic, lowWaited, waitAfterFailedSend, waitOnTravelled atomic.Int64
}

type harness struct {
	sc      *scenario
	q       queue.Queue
	tclient []queue.Client // subscriber client per topic
	tname   []string

	mu       sync.Mutex
	hist     []string
	freed    map[*queue.Message]bool
	lastSync map[*queue.Message]int // topic of the object's last successful synchronous send (its previous life)
	gors     []*gor

	failOnce sync.Once
	failed   chan struct{}
	failMsg  string

	initiated, returned []atomic.Bool // index k: topic k's client, index len(topics): the queue
	initCount           atomic.Int64
	firstInit           chan struct{}
	firstInitOnce       sync.Once

	progress, started, inflight, reqDone atomic.Int64
	normalReqs                           int
	shutdownDone                         atomic.Bool
	tokSeq, idSeq                        atomic.Int64
	c                                    counters
}

func (h *harness) logf(format string, a ...interface{}) {
	s := fmt.Sprintf(format, a...)
	h.mu.Lock()
	h.hist = append(h.hist, fmt.Sprintf("%04d %s", len(h.hist), s))
	h.mu.Unlock()
}

func (h *harness) fail(format string, a ...interface{}) {
	h.failOnce.Do(func() {
		h.failMsg = fmt.Sprintf(format, a...)
		close(h.failed)
	})
}

// history renders the observed history: everything if short, else the tail plus every line naming one of keys.
func (h *harness) history(keys ...string) string {
	h.mu.Lock()
	defer h.mu.Unlock()
	const tail = 300
	var b strings.Builder
	cut := len(h.hist) - tail
	for i, l := range h.hist {
		keep := i >= cut
		for _, k := range keys {
			keep = keep || (k != "" && strings.Contains(l, k))
		}
		if keep {
			b.WriteString(l)
			b.WriteByte('\n')
		}
	}
	return b.String()
}

func sleepUs(us int) {
	if us > 0 {
		time.Sleep(time.Duration(us) * time.Microsecond)
	}
}

// newMsg is client.NewMessage plus recycling detection by pointer identity (the pool is per queue, the queue per run).
func (h *harness) newMsg(c queue.Client, topic string, ty int64, data interface{}) *queue.Message {
	m, _ := h.newMsgOn(c, -2, topic, ty, data)
	return m
}

// newMsgOn also tells whether the object has travelled: recycled, and its previous life was a successful synchronous
// request on a topic other than ti.
func (h *harness) newMsgOn(c queue.Client, ti int, topic string, ty int64, data interface{}) (m *queue.Message, travelled bool) {
	m = c.NewMessage(topic, ty, data)
	h.mu.Lock()
	if h.freed[m] {
		delete(h.freed, m)
		h.c.recycled.Add(1)
		if prev, ok := h.lastSync[m]; ok && ti != -2 && prev != ti {
			travelled = true
			h.c.crossTopic.Add(1)
		}
	}
	h.mu.Unlock()
	return m, travelled
}

// newTravelled repeats NewMessage (at most 12 times) until the pool hands out a travelled object; the rejects are held
// back meanwhile and then returned to the pool unused.  Falls back to the last object drawn.
func (h *harness) newTravelled(c queue.Client, ti int, topic string, ty int64, data interface{}) (*queue.Message, bool) {
	var rejects []*queue.Message
	defer func() {
		if len(rejects) > 0 {
			h.free(c, rejects...)
		}
	}()
	for i := 0; ; i++ {
		m, tr := h.newMsgOn(c, ti, topic, ty, data)
		if tr || i == 11 {
			return m, tr
		}
		rejects = append(rejects, m)
	}
}

func (h *harness) free(c queue.Client, msgs ...*queue.Message) {
	h.mu.Lock()
	for _, m := range msgs {
		h.freed[m] = true
	}
	h.mu.Unlock()
	c.FreeMessage(msgs...)
}

func isClosedErr(err error) bool {
	return err == types.ErrChannelClosed || err == queue.ErrIsQueueClosed
}

// relevant lists the close targets that may legitimately make a call of `own` towards `topic` fail.
func (h *harness) relevant(own, topic int) []int {
	r := []int{len(h.sc.Topics)}
	if topic >= 0 {
		r = append(r, topic)
	}
	if own >= 0 && own != topic {
		r = append(r, own)
	}
	return r
}

func anySet(flags []atomic.Bool, idx []int) bool {
	for _, i := range idx {
		if flags[i].Load() {
			return true
		}
	}
	return false
}

// ---------------------------------------------------------------- subscriber side

func (h *harness) consumer(g *gor, ti int) {
	cfg, cl := h.sc.Topics[ti], h.tclient[ti]
	seen := map[string]bool{}
	n := 0
	for {
		g.set("recv", false)
		msg, ok := <-cl.Recv()
		g.set("run", false)
		if !ok {
			return
		}
		ty := msg.Ty
		p, _ := msg.Data.(*payload)
		if p == nil { // not one of ours (the property says nothing about it); never reply to it
			h.c.foreign.Add(1)
			continue
		}
		if seen[p.Token] { // O2
			h.fail("O2: subscriber of topic %d received message %s twice", ti, p.Token)
			continue // keep draining, as a module would
		}
		seen[p.Token] = true
		n++
		if cfg.Stall && n == 1 {
			h.logf("topic%d stalls on %s", ti, p.Token)
			g.set("gate", false)
			<-h.firstInit
			sleepUs(cfg.ReleaseUs)
			g.set("run", false)
			h.logf("topic%d resumes", ti)
		}
		d := cfg.DelayUs[n%len(cfg.DelayUs)]
		handle := func(hg *gor) {
			hg.set("sleep", false)
			sleepUs(d)
			hg.set("run", false)
			if ty == tyAsync {
				h.c.asyncSeen.Add(1)
				if cfg.FreeAsync {
					h.free(cl, msg)
				}
				return
			}
			tok := p.Token
			if !strings.HasPrefix(tok, "B") { // burst traffic is summarised, not logged per message
				h.logf("topic%d replies to %s", ti, tok)
			}
			// after Reply the request belongs to the requester again: msg is not touched below this point
			switch cfg.Style {
			case 0:
				r := h.newMsg(cl, "", tyReply, &echo{Token: tok})
				hg.call("Reply", true, func() { msg.Reply(r) })
			case 1:
				r := queue.NewMessage(h.idSeq.Add(1), "", tyReply, &echo{Token: tok})
				hg.call("Reply", true, func() { msg.Reply(r) })
			default:
				hg.call("ReplyErr", true, func() { msg.ReplyErr("c36", errors.New(tok)) })
			}
		}
		if cfg.Spawn {
			h.spawn(fmt.Sprintf("handler%d", ti), handle)
		} else {
			handle(g)
		}
	}
}

func replyToken(r *queue.Message) (string, bool) {
	switch d := r.GetData().(type) {
	case *echo:
		return d.Token, true
	case *types.Reply:
		return string(d.Msg), true
	}
	return "", false
}

// ---------------------------------------------------------------- requester side

type pending struct {
	op        opCfg
	token     string
	msg       *queue.Message
	quiet     bool
	counted   bool  // counted in h.inflight
	sendErr   error // Ignore: the error Send returned and the caller did not look at
	travelled bool
}

func (h *harness) clientOf(own int, plain queue.Client) queue.Client {
	if own >= 0 {
		return h.tclient[own]
	}
	return plain
}

// checkSendErr applies O3/O4 to the result of one Send/SendTimeout call.
func (h *harness) checkSendErr(who, token string, own, topic, sendMs int, pre bool, err error) {
	rel := h.relevant(own, topic)
	switch {
	case err == nil && pre:
		h.fail("O3: %s: send of %s to topic %d returned nil although a relevant Close had already returned (closed: %s)", who, token, topic, h.closedList(rel))
	case err == nil:
	case isClosedErr(err):
		h.c.closedErr.Add(1)
		if pre {
			h.c.postCloseRefused.Add(1)
		}
		if !anySet(h.initiated, rel) {
			h.fail("O4: %s: send of %s to topic %d failed with %v but no relevant Close was ever initiated", who, token, topic, err)
		}
	case err == queue.ErrQueueChannelFull && sendMs == 0, err == queue.ErrQueueTimeout && sendMs > 0:
		h.c.fullErr.Add(1)
	default:
		h.fail("O4: %s: send of %s to topic %d (send_ms=%d) returned unexpected error %v", who, token, topic, sendMs, err)
	}
}

func (h *harness) closedList(idx []int) string {
	var s []string
	for _, i := range idx {
		if h.returned[i].Load() {
			s = append(s, h.targetName(i))
		}
	}
	return strings.Join(s, ",")
}

func (h *harness) topicName(t int) string {
	if t < 0 {
		return "orphan"
	}
	return h.tname[t]
}

func (h *harness) targetName(i int) string {
	if i == len(h.sc.Topics) {
		return "queue"
	}
	return fmt.Sprintf("client(topic%d)", i)
}

func (h *harness) send(g *gor, who string, cl queue.Client, own int, op opCfg, quiet bool) *pending {
	sleepUs(op.PreUs)
	pfx := "R"
	if quiet {
		pfx = "B"
	}
	token := fmt.Sprintf("%s%d", pfx, h.tokSeq.Add(1))
	ty := tySync
	if op.Async {
		ty = tyAsync
	}
	pre := anySet(h.returned, h.relevant(own, op.Topic)) // read before the call starts (O3)
	i0 := h.initCount.Load()
	var msg *queue.Message
	var travelled bool
	if op.Reuse && op.Topic >= 0 {
		msg, travelled = h.newTravelled(cl, op.Topic, h.topicName(op.Topic), ty, &payload{Token: token, Topic: op.Topic})
	} else {
		msg, travelled = h.newMsgOn(cl, op.Topic, h.topicName(op.Topic), ty, &payload{Token: token, Topic: op.Topic})
	}
	waitReply := !op.Async && !op.Low
	h.started.Add(1)
	h.progress.Add(1)
	counted := !op.Async && op.Topic >= 0 // orphan requests are not "requests in flight" for the non-triviality rule
	if counted {
		h.inflight.Add(1)
	}
	var err error
	desc := fmt.Sprintf("Send(%s->topic%d async=%v send_ms=%d)", token, op.Topic, op.Async, op.SendMs)
	if op.Low || travelled {
		desc = fmt.Sprintf("Send(%s->topic%d waitReply=%v send_ms=%d travelled=%v)", token, op.Topic, waitReply, op.SendMs, travelled)
	}
	g.call(desc, op.SendMs < 0, func() {
		if op.SendMs < 0 {
			err = cl.Send(msg, waitReply)
		} else {
			err = cl.SendTimeout(msg, waitReply, time.Duration(op.SendMs)*time.Millisecond)
		}
	})
	if err == nil && waitReply && op.Topic >= 0 {
		h.mu.Lock()
		h.lastSync[msg] = op.Topic
		h.mu.Unlock()
	}
	h.progress.Add(1)
	if h.initCount.Load() > i0 {
		h.c.sendSpannedClose.Add(1)
	}
	if !quiet || err != nil {
		h.logf("%s %s -> %v (closedBefore=%v)", who, desc, err, pre)
	}
	h.checkSendErr(who, token, own, op.Topic, op.SendMs, pre, err)
	if op.Async || (err != nil && !op.Ignore) { // async: msg now belongs to the subscriber; error: most callers drop the message
		if counted {
			h.inflight.Add(-1)
		}
		return nil
	}
	if err != nil && counted { // nothing is in flight; the caller just has not looked
		h.inflight.Add(-1)
		counted = false
	}
	return &pending{op: op, token: token, msg: msg, quiet: quiet, counted: counted, sendErr: err, travelled: travelled}
}

func (h *harness) wait(g *gor, who string, cl queue.Client, own int, p *pending) {
	if p.counted {
		defer h.inflight.Add(-1)
	}
	sleepUs(p.op.GapUs)
	waitUs := p.op.WaitUs
	main := !h.shutdownDone.Load() // the class counters describe the traffic phase, not the post-mortem
	if p.sendErr != nil {
		if main {
			h.c.waitAfterFailedSend.Add(1)
		}
		// The request never entered a channel.  After a closed-error every Wait must come back with an error (the
		// property); after "channel full"/"send timeout" on a healthy topic only a bounded wait can (mempool: 2 s).
		if !isClosedErr(p.sendErr) && waitUs <= 0 {
			waitUs = 2000
		}
	}
	if p.op.Low && main {
		h.c.lowWaited.Add(1)
	}
	if main && p.travelled && (p.op.Low || p.sendErr != nil) {
		h.c.waitOnTravelled.Add(1)
	}
	i0 := h.initCount.Load()
	var reply *queue.Message
	var err error
	desc := fmt.Sprintf("Wait(%s wait_us=%d)", p.token, waitUs)
	if p.sendErr != nil {
		desc = fmt.Sprintf("Wait(%s wait_us=%d after ignored send error %v)", p.token, waitUs, p.sendErr)
	}
	g.call(desc, waitUs <= 0, func() {
		if waitUs <= 0 {
			reply, err = cl.Wait(p.msg)
		} else {
			reply, err = cl.WaitTimeout(p.msg, time.Duration(waitUs)*time.Microsecond)
		}
	})
	h.progress.Add(1)
	if h.initCount.Load() > i0 {
		h.c.waitSpannedClose.Add(1)
	}
	rel := h.relevant(own, p.op.Topic)
	if err != nil {
		h.logf("%s %s -> err %v", who, desc, err)
		switch {
		case err == queue.ErrQueueTimeout && waitUs > 0:
			h.c.timeouts.Add(1) // timed-out requests are not recycled (queueprotocol.go: "只对正确流程msg回收")
		case isClosedErr(err):
			h.c.closedErr.Add(1)
			if !anySet(h.initiated, rel) {
				h.fail("O4: %s: wait for %s (topic %d) failed with %v but no relevant Close was ever initiated", who, p.token, p.op.Topic, err)
			}
		default:
			h.fail("O4: %s: wait for %s (topic %d, wait_us=%d) returned unexpected error %v", who, p.token, p.op.Topic, waitUs, err)
		}
		return
	}
	got, ok := replyToken(reply)
	if !p.quiet {
		h.logf("%s %s -> reply for %q", who, desc, got)
	}
	if !ok || got != p.token { // O1
		h.fail("O1: %s: request %s (topic %d) received a reply that was produced for %q (reply data %T)", who, p.token, p.op.Topic, got, reply.Data)
		return
	}
	h.c.ok.Add(1)
	switch p.op.Free {
	case 1:
		h.free(cl, p.msg)
	case 2:
		h.free(cl, p.msg, reply)
	}
}

func (h *harness) requester(g *gor, ri int, plain queue.Client) {
	rc := h.sc.Reqs[ri]
	if !rc.Orphan {
		defer h.reqDone.Add(1)
	}
	cl := h.clientOf(rc.Client, plain)
	who := fmt.Sprintf("req%d", ri)
	if rc.Flood > 0 {
		h.flood(g, who, cl, rc)
		return
	}
	win := rc.Window
	if win < 1 {
		win = 1
	}
	quiet := win > 8
	for i := 0; i < len(rc.Ops); i += win {
		var pend []*pending
		for j := i; j < i+win && j < len(rc.Ops); j++ {
			if p := h.send(g, who, cl, rc.Client, rc.Ops[j], quiet); p != nil {
				pend = append(pend, p)
			}
		}
		if quiet {
			h.logf("%s burst: %d requests accepted", who, len(pend))
		}
		for _, p := range pend {
			h.wait(g, who, cl, rc.Client, p)
		}
	}
}

// flood sends async messages back to back (not logged one by one); it stops after a few refusals.
func (h *harness) flood(g *gor, who string, cl queue.Client, rc reqCfg) {
	refused, sent := 0, 0
	defer func() { h.logf("%s flood: %d accepted, %d refused", who, sent, refused) }()
	desc := fmt.Sprintf("Send(async flood ->topic%d send_ms=%d)", rc.FloodTopic, rc.FloodMs) // one string: the loop must stay cheap
	for i := 0; i < rc.Flood && refused < 3; i++ {
		token := "F" + strconv.FormatInt(h.tokSeq.Add(1), 10)
		pre := anySet(h.returned, h.relevant(rc.Client, rc.FloodTopic))
		i0 := h.initCount.Load()
		msg := cl.NewMessage(h.tname[rc.FloodTopic], tyAsync, &payload{Token: token, Topic: rc.FloodTopic})
		var err error
		g.call(desc, rc.FloodMs < 0, func() {
			if rc.FloodMs < 0 {
				err = cl.Send(msg, false)
			} else {
				err = cl.SendTimeout(msg, false, time.Duration(rc.FloodMs)*time.Millisecond)
			}
		})
		h.progress.Add(1)
		if h.initCount.Load() > i0 {
			h.c.sendSpannedClose.Add(1)
		}
		if err != nil {
			refused++
			h.logf("%s flood #%d %s -> %v (closedBefore=%v)", who, i, token, err, pre)
		} else if sent++; sent%10000 == 0 {
			h.logf("%s flood: %d accepted so far (last %s)", who, sent, token)
		}
		h.checkSendErr(who, token, rc.Client, rc.FloodTopic, rc.FloodMs, pre, err)
	}
}

// ---------------------------------------------------------------- closing

func (h *harness) doClose(g *gor, target int) {
	if n := h.inflight.Load(); n > 0 && !h.initiated[target].Load() {
		h.c.inflightAtClose.Add(n)
	}
	h.logf("%s: Close(%s) begins, %d requests in flight", g.name, h.targetName(target), h.inflight.Load())
	h.initiated[target].Store(true)
	h.initCount.Add(1)
	h.firstInitOnce.Do(func() { close(h.firstInit) })
	g.call("Close("+h.targetName(target)+")", true, func() {
		if target == len(h.sc.Topics) {
			h.q.Close()
		} else {
			h.tclient[target].Close()
		}
	})
	h.returned[target].Store(true)
	h.logf("%s: Close(%s) returned", g.name, h.targetName(target))
}

// requestersParked: every requester (other than those of the unsubscribed topic) has finished or is parked by the
// runtime inside a queue call — the traffic stands still behind a stalled module or a full channel.
func (h *harness) requestersParked() bool {
	d := dumpAll()
	var seen []string
	for _, g := range h.allGors() {
		if !strings.HasPrefix(g.name, "req") || g.late || g.finished() {
			continue
		}
		gd, ok := d[g.gid]
		if !ok || !strings.HasPrefix(g.st.Load().s, "q:") || !parked(gd.status) {
			return false
		}
		seen = append(seen, fmt.Sprintf("%s [%s] in %s", g.name, gd.status, g.st.Load().s[2:]))
	}
	h.logf("traffic stands still: %s", strings.Join(seen, "; "))
	return true
}

// closer fires the close plan at the drawn point: when `At` requests have been started, or when the traffic stands
// still (no progress and every requester parked in a queue call) or has ended.  This only picks the schedule.
func (h *harness) closer(g *gor) {
	cp := h.sc.Close
	last, lastChange := h.progress.Load(), time.Now()
	const idle = 30 * time.Millisecond
	still := 0
	g.set("sleep", false)
	for h.started.Load() < int64(cp.At) && h.reqDone.Load() < int64(h.normalReqs) {
		if p := h.progress.Load(); p != last {
			last, lastChange, still = p, time.Now(), 0
		} else if time.Since(lastChange) > idle { // two looks, 30 ms apart, without any progress in between
			if !h.requestersParked() {
				still = 0
			} else if still++; still == 2 {
				break
			}
			lastChange = time.Now()
		}
		time.Sleep(200 * time.Microsecond)
	}
	var subs []*gor
	for i, target := range cp.What {
		i, target := i, target
		if cp.Concurrent {
			subs = append(subs, h.spawn(fmt.Sprintf("closer%d", i), func(sg *gor) {
				sg.set("sleep", false)
				sleepUs(cp.GapUs[i])
				h.doClose(sg, target)
			}))
		} else {
			g.set("sleep", false)
			sleepUs(cp.GapUs[i])
			h.doClose(g, target)
		}
	}
	g.set("join", false) // waits for its own registered children only
	for _, s := range subs {
		<-s.done
	}
}

// postMortem: everything has been closed; from every client, to every topic, each flavour of send must be refused (O3)
// and a Wait on a refused request must return an error too.
func (h *harness) postMortem(g *gor, who string, cl queue.Client, own int) {
	for ti := -1; ti < len(h.sc.Topics); ti++ {
		for _, op := range []opCfg{{Topic: ti, SendMs: -1}, {Topic: ti, SendMs: 0}, {Topic: ti, SendMs: 2}, {Topic: ti, Async: true, SendMs: -1}, {Topic: ti, Async: true, SendMs: 0}, {Topic: ti, Async: true, SendMs: 2},
			{Topic: ti, SendMs: -1, Ignore: true}, {Topic: ti, Low: true, SendMs: -1, Ignore: true}} {
			// a pending request without send error means O3 has already failed the run; after an ignored refusal the
			// caller's Wait (no timeout) must return an error as well
			if p := h.send(g, who+"/post", cl, own, op, false); p != nil && p.sendErr != nil {
				h.wait(g, who+"/post", cl, own, p)
			}
		}
	}
}

// ---------------------------------------------------------------- one run

func runScenario(sc *scenario) (h *harness, viol string) {
	nT := len(sc.Topics)
	h = &harness{sc: sc, q: queue.New("c36"), freed: map[*queue.Message]bool{}, lastSync: map[*queue.Message]int{}, failed: make(chan struct{}), firstInit: make(chan struct{}),
		initiated: make([]atomic.Bool, nT+1), returned: make([]atomic.Bool, nT+1)}
	var consumers, workers, late []*gor
	plains := make([]queue.Client, len(sc.Reqs))
	for ti := range sc.Topics { // all fixtures exist before any goroutine starts
		c := h.q.Client()
		name := fmt.Sprintf("topic%d", ti)
		c.Sub(name) // modules subscribe at start-up, before any traffic
		h.tclient, h.tname = append(h.tclient, c), append(h.tname, name)
	}
	for ri := range sc.Reqs {
		if sc.Reqs[ri].Client < 0 {
			plains[ri] = h.q.Client()
		}
	}
	if lib.Known(knownFresh) {
		// known finding excluded by construction: the unsubscribed topic's channel exists before any Close can run
		// (a non-blocking async send nobody will ever read), so no Send creates it while queue.Close() is sweeping
		for ri, rc := range sc.Reqs {
			if rc.Orphan {
				_ = plains[ri].SendTimeout(plains[ri].NewMessage("orphan", tyAsync, nil), false, 0)
				lib.ExcludedKnown(knownFresh)
			}
		}
	}
	for ti := range sc.Topics {
		ti := ti
		consumers = append(consumers, h.spawn("consumer"+h.tname[ti], func(g *gor) { h.consumer(g, ti) }))
	}
	for _, rc := range sc.Reqs {
		if !rc.Orphan {
			h.normalReqs++
		}
	}
	for ri := range sc.Reqs {
		ri := ri
		g := h.spawnOpt(fmt.Sprintf("req%d", ri), sc.Reqs[ri].Orphan, func(g *gor) { h.requester(g, ri, plains[ri]) })
		if sc.Reqs[ri].Orphan {
			late = append(late, g)
		} else {
			workers = append(workers, g)
		}
	}
	if sc.Close != nil {
		workers = append(workers, h.spawn("closer", h.closer))
	}
	if v := h.join("requesters and close plan", workers); v != "" {
		return h, v
	}
	// final shutdown in the order of util/testnode: modules' clients, then the queue
	fin := h.spawn("shutdown", func(g *gor) {
		for t := 0; t <= nT; t++ {
			h.doClose(g, t)
		}
		for _, p := range plains {
			if p != nil {
				p.Close() // a client that never subscribed: Close is a no-op in chain33; nothing is asserted about it
			}
		}
	})
	if v := h.join("final shutdown", []*gor{fin}); v != "" {
		return h, v
	}
	h.shutdownDone.Store(true)
	if v := h.join("requests to the unsubscribed topic", late); v != "" {
		return h, v
	}
	var post []*gor
	for ri := range sc.Reqs {
		ri := ri
		post = append(post, h.spawn(fmt.Sprintf("post%d", ri), func(g *gor) {
			h.postMortem(g, fmt.Sprintf("req%d", ri), h.clientOf(sc.Reqs[ri].Client, plains[ri]), sc.Reqs[ri].Client)
		}))
	}
	if v := h.join("sends after shutdown", post); v != "" {
		return h, v
	}
	if v := h.join("subscriber loops", consumers); v != "" {
		return h, v
	}
	return h, h.join("handlers", h.allGors()) // no Recv loop is left to spawn new ones
}

func (h *harness) allGors() []*gor {
	h.mu.Lock()
	defer h.mu.Unlock()
	return append([]*gor(nil), h.gors...)
}

// ---------------------------------------------------------------- generator

var (
	delaysUs = []int{0, 0, 0, 50, 300, 1500, 4000}
	waitsUs  = []int{0, 0, 0, 0, 100, 1000, 20000}
	sendsMs  = []int{-1, -1, -1, -1, 0, 3}
	gapsUs   = []int{0, 0, 0, 100, 1000}
)

func genScenario(t *rapid.T) *scenario {
	sc := &scenario{}
	nT := rapid.IntRange(1, 5).Draw(t, "topics")
	plan := rapid.SampledFrom([]string{"none", "client", "client", "queue", "queue", "client+queue", "queue+client", "clients", "queue+queue"}).Draw(t, "plan")
	special := ""
	if plan != "none" {
		special = rapid.SampledFrom([]string{"", "", "", "", "burst", "burst", "flood"}).Draw(t, "special")
	}
	for i := 0; i < nT; i++ {
		sc.Topics = append(sc.Topics, topicCfg{
			Spawn:     rapid.Bool().Draw(t, "spawn"),
			DelayUs:   rapid.SliceOfN(rapid.SampledFrom(delaysUs), 1, 4).Draw(t, "delays"),
			FreeAsync: rapid.Bool().Draw(t, "freeAsync"),
			Style:     rapid.SampledFrom([]int{0, 0, 1, 2}).Draw(t, "style"),
		})
	}
	if special != "" { // topic 0 is the slow module
		sc.Topics[0].Stall = true
		sc.Topics[0].ReleaseUs = rapid.SampledFrom([]int{0, 200, 3000}).Draw(t, "release")
		if special == "flood" {
			sc.Topics[0].Spawn, sc.Topics[0].DelayUs = false, []int{0}
		}
	}
	nR := rapid.IntRange(1, 8).Draw(t, "requesters")
	total := 0
	for r := 0; r < nR; r++ {
		rc := reqCfg{Client: rapid.SampledFrom([]int{-1, -1, 0, 1, 2, 3, 4}).Draw(t, "client"), Window: rapid.SampledFrom([]int{1, 1, 1, 2, 4}).Draw(t, "window")}
		if rc.Client >= nT {
			rc.Client = -1
		}
		nOps := rapid.IntRange(1, 16).Draw(t, "nops")
		for o := 0; o < nOps; o++ {
			kind := rapid.SampledFrom([]string{"async", "low", "sync", "sync", "sync", "sync"}).Draw(t, "kind")
			op := opCfg{
				Topic:  rapid.IntRange(0, nT-1).Draw(t, "topic"),
				Async:  kind == "async",
				Low:    kind == "low",
				Ignore: kind != "async" && rapid.IntRange(0, 2).Draw(t, "ignore") == 0,
				SendMs: rapid.SampledFrom(sendsMs).Draw(t, "sendMs"),
				WaitUs: rapid.SampledFrom(waitsUs).Draw(t, "waitUs"),
				PreUs:  rapid.SampledFrom(gapsUs).Draw(t, "pre"),
				GapUs:  rapid.SampledFrom(gapsUs).Draw(t, "gap"),
				Free:   rapid.SampledFrom([]int{2, 2, 1, 0}).Draw(t, "free"),
			}
			op.Reuse = op.Low || op.Ignore // these are the requests that do not (surely) pass the synchronous send path
			rc.Ops = append(rc.Ops, op)
		}
		total += nOps
		sc.Reqs = append(sc.Reqs, rc)
	}
	if rapid.IntRange(0, 3).Draw(t, "orphan") == 0 {
		rc := reqCfg{Client: -1, Orphan: true, Window: rapid.SampledFrom([]int{1, 3, 100}).Draw(t, "orphanWindow")}
		n := rapid.IntRange(1, 6).Draw(t, "orphanOps")
		if rc.Window == 100 {
			n = 100 // pipelined: parks in Send on the full high-priority channel of the unsubscribed topic
		}
		for o := 0; o < n; o++ {
			rc.Ops = append(rc.Ops, opCfg{Topic: -1, SendMs: rapid.SampledFrom(sendsMs).Draw(t, "sendMs"), WaitUs: rapid.SampledFrom([]int{0, 0, 1000}).Draw(t, "waitUs")})
		}
		sc.Reqs = append(sc.Reqs, rc)
	}
	switch special {
	case "burst": // pipelined sync requests against the stalled module: fills the high-priority channel
		n := rapid.IntRange(80, 160).Draw(t, "burst")
		rc := reqCfg{Client: -1, Window: n}
		for o := 0; o < n; o++ {
			rc.Ops = append(rc.Ops, opCfg{Topic: 0, SendMs: -1, Free: 2})
		}
		sc.Reqs = append(sc.Reqs, rc)
	case "flood": // async sends against the stalled module: fills the low-priority channel (40960 in chain33)
		ms := rapid.SampledFrom([]int{-1, -1, 20}).Draw(t, "floodMs")
		if ms < 0 && lib.Known(knownAsync) {
			// known finding excluded by construction: the unbounded async send that would stay parked is replaced
			// by the bounded one (same channel state at Close, the call returns by its own timer)
			ms = 20
			lib.ExcludedKnown(knownAsync)
		}
		sc.Reqs = append(sc.Reqs, reqCfg{Client: -1, Flood: 42000, FloodTopic: 0, FloodMs: ms})
	}
	if plan != "none" {
		cp := &closeCfg{At: rapid.IntRange(0, total).Draw(t, "at"), Concurrent: rapid.Bool().Draw(t, "concurrent")}
		if special != "" {
			cp.At = atStandstill // fire when traffic has stopped moving behind the stalled module
		}
		k := 0
		if special == "" {
			k = rapid.IntRange(0, nT-1).Draw(t, "closeTopic")
		}
		switch plan {
		case "client":
			cp.What = []int{k}
		case "queue":
			cp.What = []int{nT}
		case "client+queue":
			cp.What = []int{k, nT}
		case "queue+client":
			cp.What = []int{nT, k}
		case "queue+queue": // queue.Close is documented safe to repeat (closeOnce; queue_close_bug_test.go calls it concurrently)
			cp.What = []int{nT, nT}
		case "clients":
			cp.What = []int{k, rapid.IntRange(0, nT-1).Draw(t, "closeTopic2")}
			if cp.What[1] == k {
				cp.What = cp.What[:1]
			}
		}
		for range cp.What {
			cp.GapUs = append(cp.GapUs, rapid.SampledFrom(gapsUs).Draw(t, "closeGap"))
		}
		sc.Close = cp
	}
	return sc
}

// ---------------------------------------------------------------- tests

func classify(sc *scenario, h *harness) {
	lib.Eval()
	c := &h.c
	flag := func(name string, v int64) {
		if v > 0 {
			lib.Class(name)
		}
	}
	flag("run:timeout>=1", c.timeouts.Load())
	flag("run:recycled>=1", c.recycled.Load())
	flag("run:close_with_requests_in_flight", c.inflightAtClose.Load())
	flag("run:send_spanned_close", c.sendSpannedClose.Load())
	flag("run:wait_spanned_close", c.waitSpannedClose.Load())
	flag("run:closed_error_seen", c.closedErr.Load())
	flag("run:full_or_send_timeout_seen", c.fullErr.Load())
	flag("run:async_delivered", c.asyncSeen.Load())
	flag("run:foreign_message_at_subscriber", c.foreign.Load())
	flag("run:object_travelled_between_topics", c.crossTopic.Load())
	flag("run:low_priority_request_waited", c.lowWaited.Load())
	flag("run:wait_after_ignored_send_error", c.waitAfterFailedSend.Load())
	flag("run:wait_on_travelled_object_without_sync_send", c.waitOnTravelled.Load())
	lib.ClassN("travelled_objects", int(c.crossTopic.Load()))
	lib.ClassN("waits_on_travelled_object_without_sync_send", int(c.waitOnTravelled.Load()))
	lib.ClassN("replies_matched", int(c.ok.Load()))
	lib.ClassN("recycled_messages", int(c.recycled.Load()))
	lib.ClassN("sends_refused_after_close", int(c.postCloseRefused.Load()))
	if sc.Close == nil {
		lib.Class("plan:none")
	} else {
		lib.Class(fmt.Sprintf("plan:%d-closes", len(sc.Close.What)))
	}
	for _, r := range sc.Reqs {
		if r.Orphan {
			lib.Class("special:unsubscribed_topic")
		} else if r.Flood > 0 {
			lib.Class(fmt.Sprintf("special:flood(send_ms=%d)", r.FloodMs))
		} else if r.Window > 8 {
			lib.Class("special:burst")
		}
	}
	// non-triviality rule of the design: >=1 timeout, >=1 recycled message, a close while requests are in flight
	if c.timeouts.Load() > 0 && c.recycled.Load() > 0 && c.inflightAtClose.Load() > 0 {
		lib.NonTrivialCase(sc)
	}
}

func TestPropBus(t *testing.T) {
	defer lib.Flush()
	rapid.Check(t, func(t *rapid.T) {
		sc := genScenario(t)
		h, viol := runScenario(sc)
		if viol != "" {
			lib.Violation(t, prop, "TestPropBus", sc, "%s", viol)
		}
		classify(sc, h)
	})
}

// TestKnown_AsyncSendParkedAtClose: minimal history for finding C36-async-send-not-woken-by-close, without rapid.
// A slow module (holds one message), an async sender that fills the low-priority channel and parks in Send(msg,false),
// then the module's client is closed: the parked Send must return an error (O5); in chain33 it stays parked for ever.
func TestKnown_AsyncSendParkedAtClose(t *testing.T) {
	defer lib.Flush()
	for _, what := range [][]int{{0}, {1}} { // Close of the module's client; Close of the whole queue
		sc := &scenario{
			Topics: []topicCfg{{DelayUs: []int{0}, Stall: true}},
			Reqs:   []reqCfg{{Client: -1, Flood: 42000, FloodTopic: 0, FloodMs: -1}},
			Close:  &closeCfg{What: what, At: atStandstill, GapUs: []int{0}},
		}
		h, viol := runScenario(sc)
		if viol == "" {
			t.Logf("close plan %v: the parked async Send was released; history:\n%s", what, h.history())
		} else {
			if !strings.HasPrefix(viol, "O5:") || !strings.Contains(viol, "async flood") {
				lib.Violation(t, prop, "TestKnown_AsyncSendParkedAtClose", sc, "%s", viol)
			}
			lib.KnownOrViolation(t, prop, "TestKnown_AsyncSendParkedAtClose", knownAsync, sc,
				"async Send(msg,false) parked on a full low-priority channel is not woken by Close of the subscriber/queue: "+firstLine(viol))
		}
	}
}

func firstLine(s string) string {
	if i := strings.IndexByte(s, '\n'); i >= 0 {
		return s[:i]
	}
	return s
}

// TestKnown_TopicCreatedDuringClose: pinned search for finding C36-topic-created-during-queue-close, without rapid.
// Senders keep issuing sync requests to never-used topics (no subscriber) while queue.Close() runs; afterwards every
// request whose Send was accepted is waited for without timeout.  The queue is closed, so each Wait must return (O5).
// In chain33 a Send that passed the isClosed() test before Close's sweep creates its topic after the sweep; that topic
// is never marked closed and the Wait stays parked.  The race is not forced (no hook): a tree where it does not occur
// within the attempts passes silently, as a fixed tree does.
func TestKnown_TopicCreatedDuringClose(t *testing.T) {
	defer lib.Flush()
	const attempts, senders, perSender = 30, 8, 60
	for a := 0; a < attempts; a++ {
		sc := &scenario{}
		h := &harness{sc: sc, q: queue.New("c36"), freed: map[*queue.Message]bool{}, failed: make(chan struct{}), firstInit: make(chan struct{}),
			initiated: make([]atomic.Bool, 1), returned: make([]atomic.Bool, 1)}
		cl := h.q.Client()
		accepted := make(chan *queue.Message, senders*perSender)
		var running atomic.Int64
		var gs []*gor
		for s := 0; s < senders; s++ {
			s := s
			gs = append(gs, h.spawn(fmt.Sprintf("sender%d", s), func(g *gor) {
				for i := 0; i < perSender; i++ {
					msg := cl.NewMessage(fmt.Sprintf("fresh-%d-%d-%d", a, s, i), tySync, &payload{Token: fmt.Sprintf("R%d", s*perSender+i)})
					running.Add(1)
					var err error
					g.call("Send(fresh topic)", true, func() { err = cl.Send(msg, true) })
					if err != nil {
						return
					}
					accepted <- msg
				}
			}))
		}
		for running.Load() < senders { // every sender is sending before Close starts
			time.Sleep(50 * time.Microsecond)
		}
		gs = append(gs, h.spawn("closer", func(g *gor) { h.doClose(g, 0) }))
		viol := h.join("senders and queue.Close", gs)
		close(accepted)
		if viol == "" {
			var ws []*gor
			for msg := range accepted {
				msg := msg
				ws = append(ws, h.spawn("waiter("+msg.Topic+")", func(g *gor) {
					g.call("Wait("+msg.Topic+")", true, func() { _, _ = cl.Wait(msg) })
				}))
			}
			viol = h.join("waits after queue.Close returned", ws)
		}
		if viol != "" {
			c := map[string]interface{}{"attempt": a, "senders": senders, "fresh_topics_per_sender": perSender}
			if !strings.HasPrefix(viol, "O5: blocked for ever while waiting for waits after queue.Close returned") {
				lib.Violation(t, prop, "TestKnown_TopicCreatedDuringClose", c, "%s", viol)
			}
			lib.KnownOrViolation(t, prop, "TestKnown_TopicCreatedDuringClose", knownFresh, c,
				"Wait() never returns after queue.Close() when the request's topic was first used by a Send overlapping Close: "+clip(firstLine(viol), 300))
			return
		}
	}
}
