// C12: transactions can only write where their executor is allowed.
//
// Synthetic executors (package vx, registered like external plugins) emit generated state and local keys; the real
// executor module decides per transaction.  The oracle is a predicate written from the property text:
// a state key is acceptable iff it lies in the transaction executor's own namespace ("mavl-<executor>-…"), in the
// executor's own deposit area inside another executor ("mavl-<other>-<symbol>-exec-<address of the executor>:…", the
// account package's exec-account key format), or in an area the owning executor opens through IsFriend (here: vowner
// opens "mavl-vowner-shared-…" to transactions whose executor is vwrite).  A transaction succeeds iff every key it Set
// is reported and every reported key is acceptable; otherwise it is packed as failed and nothing it wrote reaches the
// state.  Local keys must start with "LODB-<executor>-"; any other local key must never appear in the block's local set.
package c12

import (
	"fmt"
	"os"
	"strings"
	"sync"
	"testing"

	"github.com/33cn/chain33/common/address"
	"github.com/33cn/chain33/types"
	"pgregory.net/rapid"
	"verifharness/c11_execrollback/vx"
	"verifharness/lib"
)

const prop = "C12"

func TestMain(m *testing.M) {
	code := m.Run()
	if node != nil {
		node.Close()
	}
	lib.Flush()
	os.Exit(code)
}

// ---- fixture --------------------------------------------------------------------------------------------------------

const (
	nSenders  = 6
	paraTitle = "user.p.test."
)

var (
	node      *vx.Node
	nodeTitle string
	nodeOnce  sync.Once
)

// theNode starts the per-process node. A process can host one chain title only (executors register once).
func theNode(title string) *vx.Node {
	nodeOnce.Do(func() {
		n, err := vx.NewNode(title, nSenders, nil)
		if err != nil {
			lib.Inconclusive("node fixture: %v", err)
		}
		node, nodeTitle = n, title
	})
	if nodeTitle != title {
		return nil
	}
	return node
}

// ---- case description ---------------------------------------------------------------------------------------------

type keySpec struct {
	Class string `json:"class"`
	Key   string `json:"key"`
	Style string `json:"style"` // ws: Set + report; wr: report only; wso: Set, not reported; wl / wlr for local keys
	Val   string `json:"val"`
}

type txCase struct {
	Ex     string    `json:"ex"` // full executor name of the transaction
	Sender int       `json:"sender"`
	Keys   []keySpec `json:"keys,omitempty"`
	Local  []keySpec `json:"local,omitempty"`
}

// names derived from an executor name the way the documentation describes them
type exNames struct {
	full, own, realName, addr string
	sameTime                  bool
}

func namesOf(title, ex string) exNames {
	n := exNames{full: ex, own: strings.TrimPrefix(ex, title), addr: address.ExecAddress(ex)}
	n.realName = n.own
	if strings.HasPrefix(n.own, "user.") { // user.<driver>.<anything>
		n.realName = strings.SplitN(strings.TrimPrefix(n.own, "user."), ".", 2)[0]
	}
	n.sameTime = n.realName != vx.ExPlain
	return n
}

// ---- the oracle predicate -------------------------------------------------------------------------------------------

// stateKeyAllowed decides one reported key from the property text; it returns the rule that admits the key.
func stateKeyAllowed(key string, n exNames) (bool, string) {
	if !strings.HasPrefix(key, "mavl-") {
		return false, ""
	}
	rest := key[len("mavl-"):]
	i := strings.IndexByte(rest, '-')
	if i < 0 {
		return false, "" // no executor part
	}
	owner, tail := rest[:i], rest[i+1:]
	if owner == n.own {
		return true, "own"
	}
	// deposit area of executor X inside <owner>: mavl-<owner>-<symbol>-exec-<address of X>:<holder…>
	if j := strings.IndexByte(tail, '-'); j >= 0 && strings.HasPrefix(tail[j+1:], "exec-") {
		after := tail[j+1+len("exec-"):]
		if c := strings.IndexByte(after, ':'); c >= 0 && after[:c] == n.addr {
			return true, "deposit"
		}
	}
	// the owner's explicit permission (vx.Driver.IsFriend)
	if owner == vx.ExOwner && n.realName == vx.ExWrite && strings.HasPrefix(key, vx.SharedPrefix) {
		return true, "friend"
	}
	return false, ""
}

// localKeyAllowed: the key carries the executor's local prefix (full name or driver name) and names something below it.
func localKeyAllowed(key string, n exNames) bool {
	for _, name := range []string{n.full, n.realName} {
		p := "LODB-" + name + "-"
		if strings.HasPrefix(key, p) && len(key) > len(p) {
			return true
		}
	}
	return false
}

type txVerdict struct {
	ok        bool // the transaction must be ExecOk
	badLocal  bool // it produces a local key without the prefix
	causes    int  // number of independent reasons for rejection
	viaRule   bool // accepted through the deposit or friend rule
	reachesEL bool // its state keys are fine, so an ExecLocalSameTime executor runs ExecLocal during execution
}

func verdict(tx txCase, title string) txVerdict {
	n := namesOf(title, tx.Ex)
	v := txVerdict{ok: true}
	set, reported := map[string]bool{}, map[string]bool{}
	for _, k := range tx.Keys {
		if k.Style != "wr" {
			set[k.Key] = true
		}
		if k.Style != "wso" {
			reported[k.Key] = true
			ok, rule := stateKeyAllowed(k.Key, n)
			if !ok {
				v.ok = false
				v.causes++
			} else if rule != "own" {
				v.viaRule = true
			}
		}
	}
	for k := range set {
		if !reported[k] {
			v.ok = false
			v.causes++
		}
	}
	v.reachesEL = v.ok
	for _, k := range tx.Local {
		if !localKeyAllowed(k.Key, n) {
			v.badLocal = true
			v.causes++
		}
	}
	if v.badLocal && n.sameTime {
		v.ok = false // ExecLocal is part of executing the transaction
	}
	return v
}

// ---- running a case --------------------------------------------------------------------------------------------------

func program(tx txCase) vx.Program {
	var p vx.Program
	for _, k := range tx.Keys {
		p.Exec = append(p.Exec, vx.Step{Op: k.Style, K: k.Key, V: k.Val})
	}
	for _, k := range tx.Local {
		p.Local = append(p.Local, vx.Step{Op: k.Style, K: k.Key, V: k.Val})
	}
	return p
}

type blockStats struct {
	nontrivial bool
	aborted    bool
}

func checkBlock(t lib.TB, test, title string, block []txCase) blockStats {
	n := theNode(title)
	var st blockStats
	fail := func(format string, a ...interface{}) { lib.Violation(t, prop, test, block, format, a...) }
	var txs []*types.Transaction
	verdicts := make([]txVerdict, len(block))
	mayAbortExec, mayAbortAdd := false, false
	for i, c := range block {
		txs = append(txs, n.Tx(c.Sender, c.Ex, program(c), int64(100+i)))
		v := verdict(c, title)
		verdicts[i] = v
		same := namesOf(title, c.Ex).sameTime
		// a local key without the prefix makes the executor panic (execenv.go checkPrefix): the request is answered with
		// an error. That counts as "rejected"; it is only legitimate when such a key was really produced.
		if v.badLocal && same && v.reachesEL {
			mayAbortExec = true
		}
		if v.badLocal && !same && v.ok {
			mayAbortAdd = true
		}
		if v.causes == 1 || (v.ok && v.viaRule) {
			st.nontrivial = true
		}
	}
	res, err := n.Run(txs)
	if _, aborted := err.(*vx.ReplyError); aborted {
		if !mayAbortExec {
			fail("EventExecTxList was answered with %v although no transaction produced a bad local key", err)
		}
		st.aborted = true
		return st
	} else if err != nil {
		lib.Inconclusive("node fixture: %v", err)
	}
	// receipts: ExecOk exactly for the transactions the predicate admits; a failed one carries only the fee KV
	for i, c := range block {
		r, v := res.Receipts[i], verdicts[i]
		if r.Ty != types.ExecOk && r.Ty != types.ExecPack {
			lib.Inconclusive("node fixture: tx %d got receipt type %d (sender unfunded?)", i, r.Ty)
		}
		if got := r.Ty == types.ExecOk; got != v.ok {
			fail("tx %d (%s): ExecOk=%v, the write-permission rule says %v", i, c.Ex, got, v.ok)
		}
		if len(r.KV) == 0 || string(r.KV[0].Key) != n.AccountKey(n.Addrs[c.Sender]) {
			fail("tx %d: first receipt KV is not the sender's fee", i)
		}
		if !v.ok && len(r.KV) != 1 {
			fail("tx %d failed but its receipt carries %d KVs besides the fee", i, len(r.KV)-1)
		}
	}
	// committed state: a key is present (with the reported value) iff its transaction succeeded and reported it
	var keys, want []string
	for i, c := range block {
		for _, k := range c.Keys {
			if k.Key == "" {
				continue
			}
			keys = append(keys, k.Key)
			if verdicts[i].ok && k.Style != "wso" {
				want = append(want, k.Val)
			} else {
				want = append(want, "")
			}
		}
	}
	if len(keys) > 0 {
		vals, err := n.StateGet(res.StateRoot, keys)
		if err != nil {
			lib.Inconclusive("node fixture: reading back state: %v", err)
		}
		for i, k := range keys {
			if string(vals[i]) != want[i] {
				fail("committed state %q=%q, expected %q", k, vals[i], want[i])
			}
		}
	}
	// local set of the block
	if res.LocalErr != nil {
		if !mayAbortAdd {
			fail("EventAddBlock was answered with %v although no successful transaction produced a bad local key", res.LocalErr)
		}
		st.aborted = true
		return st
	}
	got := map[string]string{}
	for _, kv := range res.Local {
		got[string(kv.Key)] = string(kv.Value)
	}
	for i, c := range block {
		nm := namesOf(title, c.Ex)
		for _, k := range c.Local {
			v, present := got[k.Key]
			switch {
			case !localKeyAllowed(k.Key, nm):
				if present {
					fail("tx %d (%s): local key %q without the executor's prefix reached the block's local set", i, c.Ex, k.Key)
				}
			case verdicts[i].ok && !verdicts[i].badLocal:
				if !present || v != k.Val {
					fail("tx %d (%s) succeeded but its local key %q is %q in the block's local set, expected %q", i, c.Ex, k.Key, v, k.Val)
				}
			case !verdicts[i].ok:
				if present {
					fail("tx %d (%s) failed but its local key %q reached the block's local set", i, c.Ex, k.Key)
				}
			}
		}
	}
	return st
}

// ---- generator -------------------------------------------------------------------------------------------------------

var stateClasses = []string{
	"own", "own", "own", "own", "own", "own-tricky", "own-tricky",
	"deposit-own", "deposit-own", "deposit-own", "deposit-foreign", "deposit-foreign",
	"deposit-short", "deposit-long", "deposit-nocolon", "deposit-addrsuffix", "deposit-addrprefix", "deposit-upper",
	"foreign", "foreign", "foreign-near", "friend-area", "friend-area", "friend-near",
	"malformed", "malformed", "omitted", "omitted",
}

var localClasses = []string{"l-real", "l-real", "l-real", "l-full", "l-other", "l-noprefix", "l-wrongcommon", "l-ext", "l-trunc", "l-nosep", "l-case"}

func pick(t *rapid.T, label string, xs ...string) string { return rapid.SampledFrom(xs).Draw(t, label) }

// genStateKey builds a key of the drawn class; uid makes it unique within the block.
func genStateKey(t *rapid.T, n *vx.Node, nm exNames, sender int, uid string) keySpec {
	class := rapid.SampledFrom(stateClasses).Draw(t, "class")
	var others []string
	for _, o := range []string{"coins", vx.ExOwner, vx.ExPlain, vx.ExWrite, "ghost"} {
		if o != nm.own {
			others = append(others, o)
		}
	}
	other := pick(t, "other", others...)
	sym := pick(t, "sym", "bty", "tok")
	// an address that is not the executor's own: another executor's, the driver's (when the name is user.<driver>.x),
	// or the sender's account address
	foreignAddr := pick(t, "faddr", address.ExecAddress(other), address.ExecAddress(nm.realName+"x"), n.Addrs[sender])
	if nm.realName != nm.own && rapid.Bool().Draw(t, "driveraddr") {
		foreignAddr = address.ExecAddress(nm.realName)
	}
	k := keySpec{Class: class, Style: pick(t, "style", "ws", "wr"), Val: "v" + uid}
	switch class {
	case "own":
		k.Key = "mavl-" + nm.own + "-" + pick(t, "rest", "k", "a-b:", "acc:", "-") + uid
	case "own-tricky": // looks like somebody's deposit area or another namespace, but lies in the own namespace
		k.Key = "mavl-" + nm.own + "-" + pick(t, "rest", sym+"-exec-"+foreignAddr+":", "exec-"+foreignAddr+":", "mavl-"+other+"-") + uid
	case "deposit-own":
		k.Key = "mavl-" + other + "-" + sym + "-exec-" + nm.addr + ":" + pick(t, "holder", n.Addrs[sender], "x-y:z", "") + uid
	case "deposit-foreign":
		k.Key = "mavl-" + other + "-" + sym + "-exec-" + foreignAddr + ":" + uid
	case "deposit-short":
		k.Key = "mavl-" + other + "-exec-" + nm.addr + ":" + uid
	case "deposit-long":
		k.Key = "mavl-" + other + "-" + sym + "-x-exec-" + nm.addr + ":" + uid
	case "deposit-nocolon":
		k.Key = "mavl-" + other + "-" + sym + "-exec-" + nm.addr + uid
	case "deposit-addrsuffix":
		k.Key = "mavl-" + other + "-" + sym + "-exec-" + nm.addr + pick(t, "junk", "x", "-", "1") + ":" + uid
	case "deposit-addrprefix":
		k.Key = "mavl-" + other + "-" + sym + "-exec-" + pick(t, "junk", "x", ":", "1") + nm.addr + ":" + uid
	case "deposit-upper":
		k.Key = "mavl-" + other + "-" + sym + pick(t, "sep", "-EXEC-", "-exec", "-exec:", "exec-") + nm.addr + ":" + uid
	case "foreign":
		k.Key = "mavl-" + other + "-" + pick(t, "rest", "k", sym+"-", nm.own+"-") + uid
	case "foreign-near": // names that only resemble the own namespace
		k.Key = "mavl-" + pick(t, "near", nm.own+"x", nm.own[:len(nm.own)-1], strings.ToUpper(nm.own), nm.own+".y", "user."+nm.own) + "-" + uid
	case "friend-area":
		k.Key = vx.SharedPrefix + uid
	case "friend-near":
		k.Key = "mavl-" + vx.ExOwner + "-" + pick(t, "near", "sharedx", "share-", "private-", "Shared-") + uid
	case "malformed":
		k.Key = pick(t, "bad", "", "mavl-", "mavl-"+nm.own+uid, "mavx-"+nm.own+"-"+uid, nm.own+"-"+uid, "Mavl-"+nm.own+"-"+uid, "-"+uid, "mavl"+nm.own+"-"+uid)
	case "omitted":
		k.Key = "mavl-" + nm.own + "-o" + uid
		k.Style = "wso"
	}
	return k
}

func genLocalKey(t *rapid.T, nm exNames, uid string) keySpec {
	class := rapid.SampledFrom(localClasses).Draw(t, "lclass")
	k := keySpec{Class: class, Style: pick(t, "lstyle", "wl", "wlr"), Val: "l" + uid}
	other := vx.ExPlain
	if nm.realName == vx.ExPlain {
		other = vx.ExWrite
	}
	r := nm.realName
	switch class {
	case "l-real":
		k.Key = "LODB-" + r + "-" + pick(t, "lrest", "k", "a-b:", "-") + uid
	case "l-full":
		k.Key = "LODB-" + nm.full + "-" + uid
	case "l-other":
		k.Key = "LODB-" + other + "-" + uid
	case "l-noprefix":
		k.Key = pick(t, "lbad", r+"-"+uid, "-"+r+"-"+uid, "mavl-"+r+"-"+uid, "TX:"+uid)
	case "l-wrongcommon":
		k.Key = pick(t, "lbad", "LODC-", "LODBX", "XLODB-", "LOD-") + r + "-" + uid
	case "l-ext":
		k.Key = "LODB-" + r + pick(t, "lbad", "x-", ".y-", "_") + uid
	case "l-trunc":
		k.Key = "LODB-" + r[:len(r)-1] + "-" + uid
	case "l-nosep":
		k.Key = pick(t, "lbad", "LODB"+r+"-"+uid, "LODB-"+r+uid, "LODB--"+r+"-"+uid)
	case "l-case":
		k.Key = pick(t, "lbad", "lodb-"+r+"-"+uid, "LODB-"+strings.ToUpper(r)+"-"+uid)
	}
	return k
}

func genBlock(t *rapid.T, n *vx.Node, title string) []txCase {
	execs := []string{vx.ExWrite, vx.ExWrite, vx.ExPlain, vx.ExOwner, "user." + vx.ExWrite + ".a", "user." + vx.ExWrite + ".b1", "user." + vx.ExPlain + ".c"}
	var block []txCase
	// bad local keys abort the whole request, so they are confined to a minority of blocks
	withBadLocal := rapid.SampledFrom([]bool{false, false, false, false, false, false, true}).Draw(t, "localblock")
	for i, cnt := 0, rapid.IntRange(1, 8).Draw(t, "ntx"); i < cnt; i++ {
		c := txCase{Ex: title + rapid.SampledFrom(execs).Draw(t, "ex"), Sender: rapid.IntRange(0, nSenders-1).Draw(t, "sender")}
		nm := namesOf(title, c.Ex)
		nkeys := rapid.SampledFrom([]int{0, 1, 1, 1, 1, 1, 1, 2, 2, 3}).Draw(t, "nkeys")
		for j := 0; j < nkeys; j++ {
			c.Keys = append(c.Keys, genStateKey(t, n, nm, c.Sender, fmt.Sprintf("%d.%d", i, j)))
		}
		for j, nl := 0, rapid.SampledFrom([]int{0, 0, 1, 1, 2}).Draw(t, "nlocal"); j < nl; j++ {
			k := genLocalKey(t, nm, fmt.Sprintf("%d.%d", i, j))
			if !withBadLocal && !localKeyAllowed(k.Key, nm) {
				continue
			}
			c.Local = append(c.Local, k)
		}
		block = append(block, c)
	}
	return block
}

func runProp(t *testing.T, test, title string) {
	defer lib.Flush()
	n := theNode(title)
	if n == nil {
		t.Skipf("this process already hosts a node with title %q", nodeTitle)
	}
	rapid.Check(t, func(t *rapid.T) {
		block := genBlock(t, n, title)
		lib.Eval()
		st := checkBlock(t, test, title, block)
		for _, c := range block {
			v := verdict(c, title)
			for _, k := range c.Keys {
				lib.Class("key:" + k.Class)
			}
			for _, k := range c.Local {
				lib.Class("local:" + k.Class)
			}
			switch {
			case v.ok && v.viaRule:
				lib.Class("tx:ok-via-deposit-or-friend")
			case v.ok:
				lib.Class("tx:ok")
			case v.causes == 1:
				lib.Class("tx:rejected-single-cause")
			default:
				lib.Class("tx:rejected-multi-cause")
			}
		}
		if st.aborted {
			lib.Class("block:aborted-by-bad-local-key")
		}
		if st.nontrivial {
			lib.NonTrivialCase(map[string]interface{}{"title": title, "block": block})
		}
	})
}

func TestPropWriteAllowedMain(t *testing.T) { runProp(t, "TestPropWriteAllowedMain", "") }

func TestPropWriteAllowedPara(t *testing.T) { runProp(t, "TestPropWriteAllowedPara", paraTitle) }

// TestRegress_PredicateExamples pins the oracle predicate itself on hand-written keys (documentation examples), so that
// an accidental edit of the predicate cannot silently weaken the check.
func TestRegress_PredicateExamples(t *testing.T) {
	defer lib.Flush()
	nm := namesOf("", "vwrite")
	para := namesOf(paraTitle, paraTitle+"user.vwrite.a")
	cases := []struct {
		key  string
		nm   exNames
		want bool
	}{
		{"mavl-vwrite-k", nm, true},
		{"mavl-vwrite", nm, false},
		{"mavl-vplain-k", nm, false},
		{"mavl-coins-bty-exec-" + nm.addr + ":1abc", nm, true},
		{"mavl-coins-bty-exec-" + address.ExecAddress("vplain") + ":1abc", nm, false},
		{"mavl-coins-exec-" + nm.addr + ":1abc", nm, false},
		{"mavl-coins-bty-x-exec-" + nm.addr + ":1abc", nm, false},
		{"mavl-coins-bty-exec-" + nm.addr, nm, false},
		{"mavl-vowner-shared-1", nm, true},
		{"mavl-vowner-private-1", nm, false},
		{"mavl-vowner-shared-1", namesOf("", "vplain"), false},
		{"mavl-user.vwrite.a-k", para, true},
		{"mavl-vwrite-k", para, false},
		{"mavl-coins-bty-exec-" + para.addr + ":x", para, true},
		{"mavl-vowner-shared-1", para, true},
		{"vwrite-k", nm, false},
		{"", nm, false},
	}
	for _, c := range cases {
		if got, _ := stateKeyAllowed(c.key, c.nm); got != c.want {
			t.Fatalf("predicate(%q, %s) = %v, want %v", c.key, c.nm.full, got, c.want)
		}
	}
}
