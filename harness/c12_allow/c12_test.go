// C12: transactions can only write where their executor is allowed.
//
// Synthetic executors (package vx, registered like external plugins) emit generated state and local keys; the real
// executor module decides per transaction.  The oracle is a predicate written from the property text:
// a state key is acceptable iff it lies in the transaction executor's own namespace ("mavl-<executor>-…"), in the
// executor's own deposit area inside another executor ("mavl-<other>-<symbol>-exec-<address of the executor>:…", the
// account package's exec-account key format), or in an area the owning executor opens through IsFriend (here: vowner
// opens "mavl-vowner-shared-…" to transactions whose executor is vwrite).  A transaction succeeds iff every key it Set
// is reported and every reported key is acceptable; otherwise it is packed as failed and nothing it wrote reaches the
// state.  Local keys must start with "LODB-<executor>-"; any other local key must never appear in the block's local set.
package c12

import (
	"fmt"
	"os"
	"strings"
	"sync"
	"testing"

	"github.com/33cn/chain33/common/address"
	"github.com/33cn/chain33/types"
	"pgregory.net/rapid"
	"verifharness/c11_execrollback/vx"
	"verifharness/lib"
)

const prop = "C12"

func TestMain(m *testing.M) {
	code := m.Run()
	if node != nil {
		node.Close()
	}
	lib.Flush()
	os.Exit(code)
}

// ---- fixture --------------------------------------------------------------------------------------------------------

const (
	nSenders  = 6
	paraTitle = "user.p.test."
)

var (
	node      *vx.Node
	nodeTitle string
	nodeOnce  sync.Once
)

// theNode starts the per-process node. A process can host one chain title only (executors register once).
func theNode(title string) *vx.Node {
	nodeOnce.Do(func() {
		n, err := vx.NewNode(title, nSenders, nil)
		if err != nil {
			lib.Inconclusive("node fixture: %v", err)
		}
		node, nodeTitle = n, title
	})
	if nodeTitle != title {
		return nil
	}
	return node
}

// ---- case description ---------------------------------------------------------------------------------------------

type keySpec struct {
	Class string `json:"class"`
	Key   string `json:"key"`
	Style string `json:"style"` // ws: Set + report; wr: report only; wso: Set, not reported; wl / wlr for local keys
	Val   string `json:"val"`
}

type txCase struct {
	Ex     string    `json:"ex"` // full executor name of the transaction
	Sender int       `json:"sender"`
	Keys   []keySpec `json:"keys,omitempty"`
	Local  []keySpec `json:"local,omitempty"`
}

// names derived from an executor name the way the documentation describes them
type exNames struct {
	full, own, realName, addr string
	sameTime                  bool
}

func namesOf(title, ex string) exNames {
	n := exNames{full: ex, own: strings.TrimPrefix(ex, title), addr: address.ExecAddress(ex)}
	n.realName = n.own
	if strings.HasPrefix(n.own, "user.") { // user.<driver>.<anything>
		n.realName = strings.SplitN(strings.TrimPrefix(n.own, "user."), ".", 2)[0]
	}
	n.sameTime = n.realName != vx.ExPlain
	return n
}

// ---- the oracle predicate -------------------------------------------------------------------------------------------

// stateKeyAllowed decides one reported key from the property text; it returns the rule that admits the key.
func stateKeyAllowed(key string, n exNames) (bool, string) {
	if !strings.HasPrefix(key, "mavl-") {
		return false, ""
	}
	rest := key[len("mavl-"):]
	i := strings.IndexByte(rest, '-')
	if i < 0 {
		return false, "" // no executor part
	}
	owner, tail := rest[:i], rest[i+1:]
	if owner == n.own {
		return true, "own"
	}
	// deposit area of executor X inside <owner>: mavl-<owner>-<symbol>-exec-<address of X>:<holder…>
	if j := strings.IndexByte(tail, '-'); j >= 0 && strings.HasPrefix(tail[j+1:], "exec-") {
		after := tail[j+1+len("exec-"):]
		if c := strings.IndexByte(after, ':'); c >= 0 && after[:c] == n.addr {
			return true, "deposit"
		}
	}
	// the owner's explicit permission (vx.Driver.IsFriend)
	if owner == vx.ExOwner && n.realName == vx.ExWrite && strings.HasPrefix(key, vx.SharedPrefix) {
		return true, "friend"
	}
	return false, ""
}

// localKeyAllowed: the key carries the executor's local prefix (full name or driver name) and names something below it.
func localKeyAllowed(key string, n exNames) bool {
	for _, name := range []string{n.full, n.realName} {
		p := "LODB-" + name + "-"
		if strings.HasPrefix(key, p) && len(key) > len(p) {
			return true
		}
	}
	return false
}

type txVerdict struct {
	ok        bool // the transaction must be ExecOk
	badLocal  bool // it produces a local key without the prefix
	causes    int  // number of independent reasons for rejection
	viaRule   bool // accepted through the deposit or friend rule
	reachesEL bool // its state keys are fine, so an ExecLocalSameTime executor runs ExecLocal during execution
}

func verdict(tx txCase, title string) txVerdict {
	n := namesOf(title, tx.Ex)
	v := txVerdict{ok: true}
	set, reported := map[string]bool{}, map[string]bool{}
	for _, k := range tx.Keys {
		if k.Style != "wr" {
			set[k.Key] = true
		}
		if k.Style != "wso" {
			reported[k.Key] = true
			ok, rule := stateKeyAllowed(k.Key, n)
			if !ok {
				v.ok = false
				v.causes++
			} else if rule != "own" {
				v.viaRule = true
			}
		}
	}
	for k := range set {
		if !reported[k] {
			v.ok = false
			v.causes++
		}
	}
	v.reachesEL = v.ok
	for _, k := range tx.Local {
		if !localKeyAllowed(k.Key, n) {
			v.badLocal = true
			v.causes++
		}
	}
	if v.badLocal && n.sameTime {
		v.ok = false // ExecLocal is part of executing the transaction
	}
	return v
}

// ---- running a case --------------------------------------------------------------------------------------------------

func program(tx txCase) vx.Program {
	var p vx.Program
	for _, k := range tx.Keys {
		p.Exec = append(p.Exec, vx.Step{Op: k.Style, K: k.Key, V: k.Val})
	}
	for _, k := range tx.Local {
		p.Local = append(p.Local, vx.Step{Op: k.Style, K: k.Key, V: k.Val})
	}
	return p
}

type blockStats struct {
	nontrivial bool
	aborted    bool
}

// unit is one transaction, or a transaction group of 2..5 members executed as a whole.
type unit []txCase

// unitVerdict: a group succeeds iff every member does (the property is applied to every member separately: each must
// report every key it wrote itself, also keys that an earlier member of the same group already wrote, and each reported
// key must be acceptable for that member's executor); otherwise the whole group fails and nothing of it survives.
type unitVerdict struct {
	ok      bool
	members []txVerdict
	causes  int
	viaRule bool
}

func verdictOf(u unit, title string) unitVerdict {
	uv := unitVerdict{ok: true}
	for _, c := range u {
		v := verdict(c, title)
		uv.members = append(uv.members, v)
		uv.ok = uv.ok && v.ok
		uv.causes += v.causes
		uv.viaRule = uv.viaRule || v.viaRule
	}
	return uv
}

func checkBlock(t lib.TB, test, title string, block []unit) blockStats {
	n := theNode(title)
	var st blockStats
	fail := func(format string, a ...interface{}) { lib.Violation(t, prop, test, block, format, a...) }
	var txs []*types.Transaction
	var flat []txCase
	var head, okOf []bool // per flattened transaction: pays the fee; its unit must succeed
	verdicts := make([]unitVerdict, len(block))
	mayAbortExec, mayAbortAdd := false, false
	for ui, u := range block {
		uv := verdictOf(u, title)
		verdicts[ui] = uv
		var utxs []*types.Transaction
		var senders []int
		for j, c := range u {
			utxs = append(utxs, n.Tx(c.Sender, c.Ex, program(c), int64(100+len(flat))))
			senders = append(senders, c.Sender)
			flat, head, okOf = append(flat, c), append(head, j == 0), append(okOf, uv.ok)
			v := uv.members[j]
			same := namesOf(title, c.Ex).sameTime
			// a local key without the prefix makes the executor panic (execenv.go checkPrefix): the request is answered
			// with an error. That counts as "rejected"; it is only legitimate when such a key was really produced
			// (the generator keeps such keys out of groups).
			if v.badLocal && same && v.reachesEL {
				mayAbortExec = true
			}
			if v.badLocal && !same && v.ok {
				mayAbortAdd = true
			}
		}
		if len(utxs) > 1 {
			utxs = n.Group(utxs, senders)
		}
		txs = append(txs, utxs...)
		if uv.causes == 1 || (uv.ok && uv.viaRule) {
			st.nontrivial = true
		}
	}
	res, err := n.Run(txs)
	if _, aborted := err.(*vx.ReplyError); aborted {
		if !mayAbortExec {
			fail("EventExecTxList was answered with %v although no transaction produced a bad local key", err)
		}
		st.aborted = true
		return st
	} else if err != nil {
		lib.Inconclusive("node fixture: %v", err)
	}
	// receipts: ExecOk exactly for the transactions (all members of the groups) the predicate admits; a failed unit
	// carries only the fee KV, in its first receipt
	for i, c := range flat {
		r := res.Receipts[i]
		if r.Ty != types.ExecOk && r.Ty != types.ExecPack {
			lib.Inconclusive("node fixture: tx %d got receipt type %d (sender unfunded?)", i, r.Ty)
		}
		if got := r.Ty == types.ExecOk; got != okOf[i] {
			fail("tx %d (%s): ExecOk=%v, the write-permission rule says %v", i, c.Ex, got, okOf[i])
		}
		nfee := 0
		if head[i] {
			nfee = 1
			if len(r.KV) == 0 || string(r.KV[0].Key) != n.AccountKey(n.Addrs[c.Sender]) {
				fail("tx %d: first receipt KV is not the sender's fee", i)
			}
		}
		if !okOf[i] && len(r.KV) != nfee {
			fail("tx %d failed but its receipt carries %d KVs besides the fee", i, len(r.KV)-nfee)
		}
	}
	// committed state: exactly the reported KVs of the successful units, applied in block order
	model := map[string]string{}
	seen := map[string]bool{}
	var keys []string
	for ui, u := range block {
		for _, c := range u {
			for _, k := range c.Keys {
				if k.Key != "" && !seen[k.Key] {
					seen[k.Key] = true
					keys = append(keys, k.Key)
				}
				if verdicts[ui].ok && k.Style != "wso" {
					model[k.Key] = k.Val
				}
			}
		}
	}
	if len(keys) > 0 {
		vals, err := n.StateGet(res.StateRoot, keys)
		if err != nil {
			lib.Inconclusive("node fixture: reading back state: %v", err)
		}
		for i, k := range keys {
			if string(vals[i]) != model[k] {
				fail("committed state %q=%q, expected %q", k, vals[i], model[k])
			}
		}
	}
	// local set of the block
	if res.LocalErr != nil {
		if !mayAbortAdd {
			fail("EventAddBlock was answered with %v although no successful transaction produced a bad local key", res.LocalErr)
		}
		st.aborted = true
		return st
	}
	got := map[string]string{}
	for _, kv := range res.Local {
		got[string(kv.Key)] = string(kv.Value)
	}
	i := -1
	for ui, u := range block {
		for j, c := range u {
			i++
			nm := namesOf(title, c.Ex)
			for _, k := range c.Local {
				v, present := got[k.Key]
				switch {
				case !localKeyAllowed(k.Key, nm):
					if present {
						fail("tx %d (%s): local key %q without the executor's prefix reached the block's local set", i, c.Ex, k.Key)
					}
				case verdicts[ui].ok && !verdicts[ui].members[j].badLocal:
					if !present || v != k.Val {
						fail("tx %d (%s) succeeded but its local key %q is %q in the block's local set, expected %q", i, c.Ex, k.Key, v, k.Val)
					}
				case !verdicts[ui].ok:
					if present {
						fail("tx %d (%s) failed but its local key %q reached the block's local set", i, c.Ex, k.Key)
					}
				}
			}
		}
	}
	return st
}

// ---- generator -------------------------------------------------------------------------------------------------------

var stateClasses = []string{
	"own", "own", "own", "own", "own", "own-tricky", "own-tricky",
	"deposit-own", "deposit-own", "deposit-own", "deposit-foreign", "deposit-foreign",
	"deposit-short", "deposit-long", "deposit-nocolon", "deposit-addrsuffix", "deposit-addrprefix", "deposit-upper",
	"foreign", "foreign", "foreign-near", "friend-area", "friend-area", "friend-near",
	"malformed", "malformed", "omitted", "omitted",
}

var localClasses = []string{"l-real", "l-real", "l-real", "l-full", "l-other", "l-noprefix", "l-wrongcommon", "l-ext", "l-trunc", "l-nosep", "l-case"}

func pick(t *rapid.T, label string, xs ...string) string { return rapid.SampledFrom(xs).Draw(t, label) }

// genStateKey builds a key of the drawn class; uid makes it unique within the block.
func genStateKey(t *rapid.T, n *vx.Node, nm exNames, sender int, uid string) keySpec {
	class := rapid.SampledFrom(stateClasses).Draw(t, "class")
	var others []string
	for _, o := range []string{"coins", vx.ExOwner, vx.ExPlain, vx.ExWrite, "ghost"} {
		if o != nm.own {
			others = append(others, o)
		}
	}
	other := pick(t, "other", others...)
	sym := pick(t, "sym", "bty", "tok")
	// an address that is not the executor's own: another executor's, the driver's (when the name is user.<driver>.x),
	// or the sender's account address
	foreignAddr := pick(t, "faddr", address.ExecAddress(other), address.ExecAddress(nm.realName+"x"), n.Addrs[sender])
	if nm.realName != nm.own && rapid.Bool().Draw(t, "driveraddr") {
		foreignAddr = address.ExecAddress(nm.realName)
	}
	k := keySpec{Class: class, Style: pick(t, "style", "ws", "wr"), Val: "v" + uid}
	switch class {
	case "own":
		k.Key = "mavl-" + nm.own + "-" + pick(t, "rest", "k", "a-b:", "acc:", "-") + uid
	case "own-tricky": // looks like somebody's deposit area or another namespace, but lies in the own namespace
		k.Key = "mavl-" + nm.own + "-" + pick(t, "rest", sym+"-exec-"+foreignAddr+":", "exec-"+foreignAddr+":", "mavl-"+other+"-") + uid
	case "deposit-own":
		k.Key = "mavl-" + other + "-" + sym + "-exec-" + nm.addr + ":" + pick(t, "holder", n.Addrs[sender], "x-y:z", "") + uid
	case "deposit-foreign":
		k.Key = "mavl-" + other + "-" + sym + "-exec-" + foreignAddr + ":" + uid
	case "deposit-short":
		k.Key = "mavl-" + other + "-exec-" + nm.addr + ":" + uid
	case "deposit-long":
		k.Key = "mavl-" + other + "-" + sym + "-x-exec-" + nm.addr + ":" + uid
	case "deposit-nocolon":
		k.Key = "mavl-" + other + "-" + sym + "-exec-" + nm.addr + uid
	case "deposit-addrsuffix":
		k.Key = "mavl-" + other + "-" + sym + "-exec-" + nm.addr + pick(t, "junk", "x", "-", "1") + ":" + uid
	case "deposit-addrprefix":
		k.Key = "mavl-" + other + "-" + sym + "-exec-" + pick(t, "junk", "x", ":", "1") + nm.addr + ":" + uid
	case "deposit-upper":
		k.Key = "mavl-" + other + "-" + sym + pick(t, "sep", "-EXEC-", "-exec", "-exec:", "exec-") + nm.addr + ":" + uid
	case "foreign":
		k.Key = "mavl-" + other + "-" + pick(t, "rest", "k", sym+"-", nm.own+"-") + uid
	case "foreign-near": // names that only resemble the own namespace
		k.Key = "mavl-" + pick(t, "near", nm.own+"x", nm.own[:len(nm.own)-1], strings.ToUpper(nm.own), nm.own+".y", "user."+nm.own) + "-" + uid
	case "friend-area":
		k.Key = vx.SharedPrefix + uid
	case "friend-near":
		k.Key = "mavl-" + vx.ExOwner + "-" + pick(t, "near", "sharedx", "share-", "private-", "Shared-") + uid
	case "malformed":
		k.Key = pick(t, "bad", "", "mavl-", "mavl-"+nm.own+uid, "mavx-"+nm.own+"-"+uid, nm.own+"-"+uid, "Mavl-"+nm.own+"-"+uid, "-"+uid, "mavl"+nm.own+"-"+uid)
	case "omitted":
		k.Key = "mavl-" + nm.own + "-o" + uid
		k.Style = "wso"
	}
	return k
}

func genLocalKey(t *rapid.T, nm exNames, uid string) keySpec {
	class := rapid.SampledFrom(localClasses).Draw(t, "lclass")
	k := keySpec{Class: class, Style: pick(t, "lstyle", "wl", "wlr"), Val: "l" + uid}
	other := vx.ExPlain
	if nm.realName == vx.ExPlain {
		other = vx.ExWrite
	}
	r := nm.realName
	switch class {
	case "l-real":
		k.Key = "LODB-" + r + "-" + pick(t, "lrest", "k", "a-b:", "-") + uid
	case "l-full":
		k.Key = "LODB-" + nm.full + "-" + uid
	case "l-other":
		k.Key = "LODB-" + other + "-" + uid
	case "l-noprefix":
		k.Key = pick(t, "lbad", r+"-"+uid, "-"+r+"-"+uid, "mavl-"+r+"-"+uid, "TX:"+uid)
	case "l-wrongcommon":
		k.Key = pick(t, "lbad", "LODC-", "LODBX", "XLODB-", "LOD-") + r + "-" + uid
	case "l-ext":
		k.Key = "LODB-" + r + pick(t, "lbad", "x-", ".y-", "_") + uid
	case "l-trunc":
		k.Key = "LODB-" + r[:len(r)-1] + "-" + uid
	case "l-nosep":
		k.Key = pick(t, "lbad", "LODB"+r+"-"+uid, "LODB-"+r+uid, "LODB--"+r+"-"+uid)
	case "l-case":
		k.Key = pick(t, "lbad", "lodb-"+r+"-"+uid, "LODB-"+strings.ToUpper(r)+"-"+uid)
	}
	return k
}

// rewrite makes c write a key that an earlier transaction wrote (prev = earlier members of the same group, or earlier
// units for a single transaction): Set without reporting it (most often), or report it.  Whether the rewrite is
// acceptable is decided by the same predicate as any other key, for c's own executor.
func rewrite(t *rapid.T, c *txCase, prev []keySpec, class, uid string) {
	var cands []keySpec
	for _, k := range prev {
		if k.Key != "" {
			cands = append(cands, k)
		}
	}
	if len(cands) == 0 {
		return
	}
	k := rapid.SampledFrom(cands).Draw(t, "rewritten")
	c.Keys = append(c.Keys, keySpec{Class: class, Key: k.Key, Style: pick(t, "rstyle", "wso", "wso", "ws", "wr"), Val: "r" + uid})
}

func genTx(t *rapid.T, n *vx.Node, title string, execs []string, txid int, clean, badLocal bool) txCase {
	c := txCase{Ex: title + rapid.SampledFrom(execs).Draw(t, "ex"), Sender: rapid.IntRange(0, nSenders-1).Draw(t, "sender")}
	nm := namesOf(title, c.Ex)
	nkeys := rapid.SampledFrom([]int{0, 1, 1, 1, 1, 1, 1, 2, 2, 3}).Draw(t, "nkeys")
	for j := 0; j < nkeys; j++ {
		uid := fmt.Sprintf("%d.%d", txid, j)
		k := genStateKey(t, n, nm, c.Sender, uid)
		if ok, _ := stateKeyAllowed(k.Key, nm); clean && (!ok || k.Style == "wso") {
			k = keySpec{Class: "own", Key: "mavl-" + nm.own + "-c" + uid, Style: pick(t, "style", "ws", "wr"), Val: "v" + uid}
		}
		c.Keys = append(c.Keys, k)
	}
	for j, nl := 0, rapid.SampledFrom([]int{0, 0, 1, 1, 2}).Draw(t, "nlocal"); j < nl; j++ {
		k := genLocalKey(t, nm, fmt.Sprintf("%d.%d", txid, j))
		if !badLocal && !localKeyAllowed(k.Key, nm) {
			continue
		}
		c.Local = append(c.Local, k)
	}
	return c
}

func genBlock(t *rapid.T, n *vx.Node, title string) []unit {
	execs := []string{vx.ExWrite, vx.ExWrite, vx.ExPlain, vx.ExOwner, "user." + vx.ExWrite + ".a", "user." + vx.ExWrite + ".b1", "user." + vx.ExPlain + ".c"}
	groupExecs := []string{vx.ExWrite, vx.ExWrite, vx.ExOwner, vx.ExPlain, "user." + vx.ExWrite + ".a"}
	var block []unit
	var earlier []keySpec // keys of the units before the current one
	// bad local keys abort the whole request, so they are confined to a minority of blocks (and to single transactions)
	withBadLocal := rapid.SampledFrom([]bool{false, false, false, false, true}).Draw(t, "localblock")
	txid := 0
	for i, cnt := 0, rapid.IntRange(1, 5).Draw(t, "nunits"); i < cnt && txid < 10; i++ {
		size := rapid.SampledFrom([]int{1, 1, 1, 1, 2, 2, 3, 3, 4, 5}).Draw(t, "size")
		if withBadLocal {
			size = 1
		}
		var u unit
		if size == 1 {
			c := genTx(t, n, title, execs, txid, false, withBadLocal)
			if rapid.IntRange(0, 5).Draw(t, "rewriteprev") == 0 {
				rewrite(t, &c, earlier, "rewrite-prev", fmt.Sprint(txid))
			}
			u = unit{c}
			txid++
		} else {
			// in a "clean" group every ordinary key is acceptable, so that a rewrite is the only possible cause of failure
			clean := rapid.SampledFrom([]bool{true, true, false}).Draw(t, "clean")
			var inGroup []keySpec
			for j := 0; j < size; j++ {
				c := genTx(t, n, title, groupExecs, txid, clean, false)
				if j > 0 && rapid.Bool().Draw(t, "rewrite") {
					rewrite(t, &c, inGroup, "rewrite", fmt.Sprint(txid))
				}
				inGroup = append(inGroup, c.Keys...)
				u = append(u, c)
				txid++
			}
		}
		for _, c := range u {
			earlier = append(earlier, c.Keys...)
		}
		block = append(block, u)
	}
	return block
}

func runProp(t *testing.T, test, title string) {
	defer lib.Flush()
	n := theNode(title)
	if n == nil {
		t.Skipf("this process already hosts a node with title %q", nodeTitle)
	}
	rapid.Check(t, func(t *rapid.T) {
		block := genBlock(t, n, title)
		lib.Eval()
		st := checkBlock(t, test, title, block)
		for _, u := range block {
			uv := verdictOf(u, title)
			kind := "tx"
			if len(u) > 1 {
				kind = "group"
			}
			rewriteOmitted, otherCauses := 0, uv.causes
			for _, c := range u {
				nm := namesOf(title, c.Ex)
				reported := map[string]bool{}
				for _, k := range c.Keys {
					if k.Style != "wso" {
						reported[k.Key] = true
					}
				}
				for _, k := range c.Keys {
					label := "key:" + k.Class
					if strings.HasPrefix(k.Class, "rewrite") {
						ok, _ := stateKeyAllowed(k.Key, nm)
						switch {
						case k.Style == "wso" && !reported[k.Key]:
							label += "-omitted"
							if k.Class == "rewrite" {
								rewriteOmitted++
							}
						case ok:
							label += "-reported-allowed"
						default:
							label += "-reported-rejected"
						}
					}
					lib.Class(label)
				}
				for _, k := range c.Local {
					lib.Class("local:" + k.Class)
				}
			}
			otherCauses -= rewriteOmitted
			switch {
			case uv.ok && uv.viaRule:
				lib.Class(kind + ":ok-via-deposit-or-friend")
			case uv.ok:
				lib.Class(kind + ":ok")
			case rewriteOmitted > 0 && otherCauses == 0:
				// the only reason is a member that Set, without reporting, a key first written by an earlier member
				lib.Class(kind + ":rejected-only-by-unreported-rewrite")
			case uv.causes == 1:
				lib.Class(kind + ":rejected-single-cause")
			default:
				lib.Class(kind + ":rejected-multi-cause")
			}
		}
		if st.aborted {
			lib.Class("block:aborted-by-bad-local-key")
		}
		if st.nontrivial {
			lib.NonTrivialCase(map[string]interface{}{"title": title, "block": block})
		}
	})
}

func TestPropWriteAllowedMain(t *testing.T) { runProp(t, "TestPropWriteAllowedMain", "") }

func TestPropWriteAllowedPara(t *testing.T) { runProp(t, "TestPropWriteAllowedPara", paraTitle) }

// TestRegress_PredicateExamples pins the oracle predicate itself on hand-written keys (documentation examples), so that
// an accidental edit of the predicate cannot silently weaken the check.
func TestRegress_PredicateExamples(t *testing.T) {
	defer lib.Flush()
	nm := namesOf("", "vwrite")
	para := namesOf(paraTitle, paraTitle+"user.vwrite.a")
	cases := []struct {
		key  string
		nm   exNames
		want bool
	}{
		{"mavl-vwrite-k", nm, true},
		{"mavl-vwrite", nm, false},
		{"mavl-vplain-k", nm, false},
		{"mavl-coins-bty-exec-" + nm.addr + ":1abc", nm, true},
		{"mavl-coins-bty-exec-" + address.ExecAddress("vplain") + ":1abc", nm, false},
		{"mavl-coins-exec-" + nm.addr + ":1abc", nm, false},
		{"mavl-coins-bty-x-exec-" + nm.addr + ":1abc", nm, false},
		{"mavl-coins-bty-exec-" + nm.addr, nm, false},
		{"mavl-vowner-shared-1", nm, true},
		{"mavl-vowner-private-1", nm, false},
		{"mavl-vowner-shared-1", namesOf("", "vplain"), false},
		{"mavl-user.vwrite.a-k", para, true},
		{"mavl-vwrite-k", para, false},
		{"mavl-coins-bty-exec-" + para.addr + ":x", para, true},
		{"mavl-vowner-shared-1", para, true},
		{"vwrite-k", nm, false},
		{"", nm, false},
	}
	for _, c := range cases {
		if got, _ := stateKeyAllowed(c.key, c.nm); got != c.want {
			t.Fatalf("predicate(%q, %s) = %v, want %v", c.key, c.nm.full, got, c.want)
		}
	}
}
