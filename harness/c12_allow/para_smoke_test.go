package c12

import (
	"fmt"
	"strings"
	"testing"

	"github.com/33cn/chain33/types"
	"github.com/33cn/chain33/util/testnode"
	_ "verifharness/c11_execrollback/vx"
)

func TestParaSmoke(t *testing.T) {
	s := strings.Replace(types.GetDefaultCfgstring(), `Title="local"`, `Title="user.p.test."`, 1)
	cfg := types.NewChain33Config(s)
	cfg.GetModuleConfig().Consensus.Minerstart = false
	mock := testnode.NewWithConfig(cfg, nil)
	defer mock.Close()
	fmt.Println("ispara", cfg.IsPara(), mock.WaitHeight(0))
	b := mock.GetBlock(0)
	fmt.Println(len(b.Txs), string(b.Txs[0].Execer))
}
