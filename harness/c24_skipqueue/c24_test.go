// C24: the score-ordered queue (common/skiplist Queue) against a sorted-slice model.
package c24

import (
	"fmt"
	"math/rand"
	"sort"
	"testing"

	"github.com/33cn/chain33/common/skiplist"
	"pgregory.net/rapid"
	"verifharness/lib"
)

const prop = "C24"

func TestMain(m *testing.M) { lib.Main(m) }

// item is a Scorer with a harness-controlled tie-break rank and byte size.
type item struct {
	id    string
	score int64
	rank  int64 // Compare: lower rank ranks higher (Big)
	size  int64
}

func (i *item) GetScore() int64 { return i.score }
func (i *item) Hash() []byte    { return []byte(i.id) }
func (i *item) ByteSize() int64 { return i.size }
func (i *item) Compare(o skiplist.Scorer) int {
	oi := o.(*item)
	switch {
	case i.rank < oi.rank:
		return skiplist.Big
	case i.rank > oi.rank:
		return skiplist.Small
	}
	return skiplist.Equal
}

type op struct {
	Op    string `json:"op"`
	ID    string `json:"id,omitempty"`
	Score int64  `json:"score,omitempty"`
	Rank  int64  `json:"rank,omitempty"`
	Size  int64  `json:"size,omitempty"`
	N     int    `json:"n,omitempty"`
}

type model struct {
	items []*item // kept in queue order: score desc, arrival asc
	cap   int
}

func (m *model) find(id string) int {
	for i, it := range m.items {
		if it.id == id {
			return i
		}
	}
	return -1
}

func (m *model) insert(it *item) {
	// after the last element with score >= it.score
	pos := sort.Search(len(m.items), func(i int) bool { return m.items[i].score < it.score })
	m.items = append(m.items, nil)
	copy(m.items[pos+1:], m.items[pos:])
	m.items[pos] = it
}

func (m *model) remove(i int) { m.items = append(m.items[:i], m.items[i+1:]...) }

func (m *model) bytes() int64 {
	var s int64
	for _, it := range m.items {
		s += it.size
	}
	return s
}

func scoreGen() *rapid.Generator[int64] {
	return rapid.OneOf(rapid.Int64Range(-3, 3), rapid.Int64Range(-3, 3), rapid.SampledFrom([]int64{-1 << 63, -1 << 62, 1<<63 - 1, 1 << 40, 0}))
}

func runCase(t lib.TB, capacity int, levelSeed int64, ops []op) (evict, refuse, maxTie int) {
	rand.Seed(levelSeed)
	q := skiplist.NewQueue(int64(capacity))
	m := &model{cap: capacity}
	fail := func(step int, format string, a ...interface{}) {
		lib.Violation(t, prop, "TestPropQueueModel", map[string]interface{}{"cap": capacity, "levelSeed": levelSeed, "ops": ops[:step+1]}, "step %d (%+v): %s", step, ops[step], fmt.Sprintf(format, a...))
	}
	for step, o := range ops {
		switch o.Op {
		case "push":
			it := &item{id: o.ID, score: o.Score, rank: o.Rank, size: o.Size}
			err := q.Push(it)
			var want string
			if m.find(o.ID) >= 0 {
				want = "exist"
			} else if len(m.items) >= m.cap {
				last := m.items[len(m.items)-1]
				if it.score > last.score || (it.score == last.score && it.rank < last.rank) {
					m.remove(len(m.items) - 1)
					m.insert(it)
					want = "ok"
					evict++
				} else {
					want = "full"
					refuse++
				}
			} else {
				m.insert(it)
				want = "ok"
			}
			got := "ok"
			if err != nil {
				got = "err"
			}
			if (want == "ok") != (got == "ok") {
				fail(step, "Push returned %v, model says %s", err, want)
			}
		case "remove":
			err := q.Remove(o.ID)
			i := m.find(o.ID)
			if (i >= 0) != (err == nil) {
				fail(step, "Remove returned %v, model present=%v", err, i >= 0)
			}
			if i >= 0 {
				m.remove(i)
			}
		case "walk":
			var got []string
			q.Walk(o.N, func(v skiplist.Scorer) bool { got = append(got, v.(*item).id); return true })
			n := len(m.items)
			if o.N > 0 && o.N < n {
				n = o.N
			}
			var want []string
			for _, it := range m.items[:n] {
				want = append(want, it.id)
			}
			if fmt.Sprint(got) != fmt.Sprint(want) {
				fail(step, "Walk(%d) = %v, model %v", o.N, got, want)
			}
		}
		// invariant after every step
		if q.Size() != len(m.items) {
			fail(step, "Size %d, model %d", q.Size(), len(m.items))
		}
		if q.Size() > capacity {
			fail(step, "Size %d exceeds capacity %d", q.Size(), capacity)
		}
		if q.GetCacheBytes() != m.bytes() {
			fail(step, "GetCacheBytes %d, model %d", q.GetCacheBytes(), m.bytes())
		}
		var got []string
		q.Walk(0, func(v skiplist.Scorer) bool { got = append(got, v.(*item).id); return true })
		var want []string
		for _, it := range m.items {
			want = append(want, it.id)
		}
		if fmt.Sprint(got) != fmt.Sprint(want) {
			fail(step, "order %v, model %v", got, want)
		}
		if len(m.items) > 0 {
			if f := q.First().(*item).id; f != m.items[0].id {
				fail(step, "First %s, model %s", f, m.items[0].id)
			}
			if l := q.Last().(*item).id; l != m.items[len(m.items)-1].id {
				fail(step, "Last %s, model %s", l, m.items[len(m.items)-1].id)
			}
		} else if q.First() != nil || q.Last() != nil {
			fail(step, "First/Last non-nil on empty queue")
		}
		for _, id := range idSpace {
			i := m.find(id)
			if q.Exist(id) != (i >= 0) {
				fail(step, "Exist(%s)=%v, model %v", id, q.Exist(id), i >= 0)
			}
			gi, err := q.GetItem(id)
			if (err == nil) != (i >= 0) {
				fail(step, "GetItem(%s) err=%v, model present %v", id, err, i >= 0)
			}
			if i >= 0 && gi.(*item) != m.items[i] {
				fail(step, "GetItem(%s) returned a different item", id)
			}
		}
		ties := map[int64]int{}
		for _, it := range m.items {
			ties[it.score]++
			if ties[it.score] > maxTie {
				maxTie = ties[it.score]
			}
		}
	}
	return
}

var idSpace = []string{"a", "b", "c", "d", "e", "f", "g", "h", "i", "j", "k", "l"}

func genOps(t *rapid.T) []op {
	n := rapid.IntRange(1, 60).Draw(t, "nops")
	ops := make([]op, 0, n)
	for i := 0; i < n; i++ {
		switch rapid.SampledFrom([]string{"push", "push", "push", "push", "remove", "walk"}).Draw(t, "kind") {
		case "push":
			ops = append(ops, op{Op: "push", ID: rapid.SampledFrom(idSpace).Draw(t, "id"), Score: scoreGen().Draw(t, "score"),
				Rank: rapid.Int64Range(0, 3).Draw(t, "rank"), Size: rapid.Int64Range(0, 1000).Draw(t, "size")})
		case "remove":
			ops = append(ops, op{Op: "remove", ID: rapid.SampledFrom(idSpace).Draw(t, "id")})
		case "walk":
			ops = append(ops, op{Op: "walk", N: rapid.IntRange(0, 8).Draw(t, "n")})
		}
	}
	return ops
}

func TestPropQueueModel(t *testing.T) {
	defer lib.Flush()
	rapid.Check(t, func(t *rapid.T) {
		capacity := rapid.IntRange(1, 6).Draw(t, "cap")
		ops := genOps(t)
		seeds := []int64{rapid.Int64().Draw(t, "levelSeed"), 1, 2, 3}
		for _, s := range seeds {
			lib.Eval()
			ev, rf, tie := runCase(t, capacity, s, ops)
			if ev > 0 {
				lib.Class("eviction")
			}
			if rf > 0 {
				lib.Class("refused_push")
			}
			if tie >= 3 {
				lib.Class("tie>=3")
			}
			if ev > 0 && rf > 0 && tie >= 3 {
				lib.NonTrivialCase(map[string]interface{}{"cap": capacity, "ops": ops})
			}
		}
	})
}
