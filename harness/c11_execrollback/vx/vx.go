// Package vx holds the synthetic executors shared by the C11 (rollback) and C12 (write permission) checks.
//
// The executors are registered exactly the way an external chain33 plugin registers itself: a types package
// part (AllowUserExec + types.RegFork + types.RegExec -> types.RegistorExecutor of an ExecutorType) and an executor
// part (pluginmgr.Register whose Exec hook calls drivers.Register and InitFuncList).  Transactions are dispatched by
// DriverBase.Exec / DriverBase.ExecLocal through the ordinary Exec_<Action> / ExecLocal_<Action> reflection path.
// The action container is the repository's own ManageAction{Modify: ModifyConfig} message (no protoc in the
// sandbox); ModifyConfig.Value carries the JSON text of a small generated Program.
//
// The drivers only use the executor-facing API the way real dapps do: GetStateDB().Get/Set, GetLocalDB().Get/List in
// Exec (ExecLocalSameTime executors only), GetLocalDB().Get/List/Set in ExecLocal (the KVCreator.Add pattern: Set and
// also return the KV), receipts with KV + logs, LocalDBSet results, IsFriend, Allow.
package vx

import (
	"encoding/json"
	"errors"
	"strings"

	"github.com/33cn/chain33/pluginmgr"
	drivers "github.com/33cn/chain33/system/dapp"
	mty "github.com/33cn/chain33/system/dapp/manage/types"
	"github.com/33cn/chain33/types"
)

// Executor names. vwrite/vowner run ExecLocal together with Exec (ExecLocalSameTime), vplain does not.
const (
	ExWrite = "vwrite"
	ExPlain = "vplain"
	ExOwner = "vowner"
	// TyObs is the receipt-log type under which Exec echoes what it read.
	TyObs = int32(9001)
	// SharedPrefix is the area of vowner that vowner.IsFriend opens to transactions of executor vwrite.
	SharedPrefix = "mavl-" + ExOwner + "-shared-"
)

var sameTime = map[string]bool{ExWrite: true, ExOwner: true, ExPlain: false}

// Names lists the registered executors.
var Names = []string{ExWrite, ExPlain, ExOwner}

// Step is one instruction of a Program.
//
// Exec phase:  rs K (read state, echo) | ws K V (Set + report in receipt) | wr K V (report in receipt only, the usual
// dapp style) | wso K V (Set but omit from the receipt) | rl K (read local, echo) | ll K (list local prefix, echo) |
// fail | panic.
// Local phase: wl K V (Set + return) | wlr K V (return only) | wlo K V (Set but omit from the returned set) |
// cp K D V (D := V+"="+local[K], Set + return) | lc K D V (D := V+"="+join(list(K)), Set + return) | fail | panic.
type Step struct {
	Op string `json:"op"`
	K  string `json:"k,omitempty"`
	V  string `json:"v,omitempty"`
	D  string `json:"d,omitempty"`
}

// Program is the payload of a synthetic transaction.
type Program struct {
	Exec  []Step `json:"exec,omitempty"`
	Local []Step `json:"local,omitempty"`
}

// Payload encodes a program as the transaction payload understood by the synthetic executors.
func Payload(p Program) []byte {
	b, err := json.Marshal(p)
	if err != nil {
		panic(err)
	}
	return types.Encode(&mty.ManageAction{Ty: mty.ManageActionModifyConfig,
		Value: &mty.ManageAction_Modify{Modify: &types.ModifyConfig{Key: "prog", Value: string(b)}}})
}

// ---- types-package part -------------------------------------------------------------------------------------------

type vType struct {
	types.ExecTypeBase
	name string
}

func newType(name string, cfg *types.Chain33Config) *vType {
	c := &vType{name: name}
	c.SetChild(c)
	c.SetConfig(cfg)
	return c
}

func (t *vType) GetName() string                     { return t.name }
func (t *vType) GetPayload() types.Message           { return &mty.ManageAction{} }
func (t *vType) GetLogMap() map[int64]*types.LogInfo { return map[int64]*types.LogInfo{} }
func (t *vType) GetTypeMap() map[string]int32 {
	return map[string]int32{"Modify": mty.ManageActionModifyConfig}
}

func init() {
	for _, name := range Names {
		name := name
		types.AllowUserExec = append(types.AllowUserExec, []byte(name))
		types.RegFork(name, func(cfg *types.Chain33Config) { cfg.RegisterDappFork(name, "Enable", 0) })
		types.RegExec(name, func(cfg *types.Chain33Config) { types.RegistorExecutor(name, newType(name, cfg)) })
		pluginmgr.Register(&pluginmgr.PluginBase{
			Name:     "verif." + name,
			ExecName: name,
			Exec: func(_ string, cfg *types.Chain33Config, _ []byte) {
				drivers.Register(cfg, name, func() drivers.Driver { return newDriver(name) }, cfg.GetDappFork(name, "Enable"))
				types.LoadExecutorType(name).InitFuncList(types.ListMethod(&Driver{}))
			},
		})
	}
}

// ---- executor part ------------------------------------------------------------------------------------------------

// Driver is the synthetic executor.
type Driver struct {
	drivers.DriverBase
	name string
}

func newDriver(name string) drivers.Driver {
	d := &Driver{name: name}
	d.SetChild(d)
	d.SetExecutorType(types.LoadExecutorType(name))
	return d
}

// GetDriverName is the fixed driver name.
func (d *Driver) GetDriverName() string { return d.name }

// ExecutorOrder selects ExecLocalSameTime for vwrite and vowner.
func (d *Driver) ExecutorOrder() int64 {
	if sameTime[d.name] {
		return drivers.ExecLocalSameTime
	}
	return 0
}

// CheckReceiptExecOk makes DriverBase skip ExecLocal for receipts that are not ExecOk (as manage does).
func (d *Driver) CheckReceiptExecOk() bool { return true }

// Allow accepts "<name>" and "user.<name>.<x>" (the evm convention), also below the chain's own para title.
func (d *Driver) Allow(tx *types.Transaction, index int) error {
	if d.AllowIsSame(tx.Execer) || d.AllowIsUserDot2(tx.Execer) {
		return nil
	}
	return types.ErrNotAllow
}

// IsFriend: vowner lets transactions whose real executor is vwrite write below mavl-vowner-shared-; nothing else.
func (d *Driver) IsFriend(myexec, writekey []byte, othertx *types.Transaction) bool {
	if d.name != ExOwner || string(myexec) != ExOwner {
		return false
	}
	if string(types.GetRealExecName(othertx.Execer)) != ExWrite {
		return false
	}
	return strings.HasPrefix(string(writekey), SharedPrefix)
}

var errProgFail = errors.New("vx: program failed")

func decode(payload *types.ModifyConfig) (*Program, error) {
	var p Program
	if err := json.Unmarshal([]byte(payload.GetValue()), &p); err != nil {
		return nil, err
	}
	return &p, nil
}

func show(v []byte, err error) string {
	if err == types.ErrNotFound {
		return "<nil>"
	}
	if err != nil {
		return "<err:" + err.Error() + ">"
	}
	return string(v)
}

func showList(vs [][]byte, err error) string {
	if err == types.ErrNotFound {
		return "[]"
	}
	if err != nil {
		return "<err:" + err.Error() + ">"
	}
	s := make([]string, len(vs))
	for i, v := range vs {
		s[i] = string(v)
	}
	return "[" + strings.Join(s, ",") + "]"
}

// Exec_Modify interprets the Exec phase.
func (d *Driver) Exec_Modify(payload *types.ModifyConfig, tx *types.Transaction, index int) (*types.Receipt, error) {
	p, err := decode(payload)
	if err != nil {
		return nil, err
	}
	r := &types.Receipt{Ty: types.ExecOk}
	obs := func(s string) { r.Logs = append(r.Logs, &types.ReceiptLog{Ty: TyObs, Log: []byte(s)}) }
	for _, s := range p.Exec {
		switch s.Op {
		case "rs":
			obs("rs " + s.K + "=" + show(d.GetStateDB().Get([]byte(s.K))))
		case "ws", "wso":
			if err := d.GetStateDB().Set([]byte(s.K), []byte(s.V)); err != nil {
				return nil, err
			}
			if s.Op == "ws" {
				r.KV = append(r.KV, &types.KeyValue{Key: []byte(s.K), Value: []byte(s.V)})
			}
		case "wr":
			r.KV = append(r.KV, &types.KeyValue{Key: []byte(s.K), Value: []byte(s.V)})
		case "rl":
			obs("rl " + s.K + "=" + show(d.GetLocalDB().Get([]byte(s.K))))
		case "ll":
			obs("ll " + s.K + "=" + showList(d.GetLocalDB().List([]byte(s.K), nil, 0, 1)))
		case "fail":
			return nil, errProgFail
		case "panic":
			panic("vx: program panic")
		default:
			return nil, types.ErrActionNotSupport
		}
	}
	return r, nil
}

// ExecLocal_Modify interprets the Local phase (only reached for ExecOk receipts, see CheckReceiptExecOk).
func (d *Driver) ExecLocal_Modify(payload *types.ModifyConfig, tx *types.Transaction, receipt *types.ReceiptData, index int) (*types.LocalDBSet, error) {
	p, err := decode(payload)
	if err != nil {
		return nil, err
	}
	set := &types.LocalDBSet{}
	put := func(k, v string, direct, ret bool) error {
		if direct {
			if err := d.GetLocalDB().Set([]byte(k), []byte(v)); err != nil {
				return err
			}
		}
		if ret {
			set.KV = append(set.KV, &types.KeyValue{Key: []byte(k), Value: []byte(v)})
		}
		return nil
	}
	for _, s := range p.Local {
		var err error
		switch s.Op {
		case "wl":
			err = put(s.K, s.V, true, true)
		case "wlr":
			err = put(s.K, s.V, false, true)
		case "wlo":
			err = put(s.K, s.V, true, false)
		case "cp":
			err = put(s.D, s.V+"="+show(d.GetLocalDB().Get([]byte(s.K))), true, true)
		case "lc":
			err = put(s.D, s.V+"="+showList(d.GetLocalDB().List([]byte(s.K), nil, 0, 1)), true, true)
		case "fail":
			return nil, errProgFail
		case "panic":
			panic("vx: program panic")
		default:
			return nil, types.ErrActionNotSupport
		}
		if err != nil {
			return nil, err
		}
	}
	return set, nil
}

// ExecDelLocal_Modify is not exercised by these checks.
func (d *Driver) ExecDelLocal_Modify(payload *types.ModifyConfig, tx *types.Transaction, receipt *types.ReceiptData, index int) (*types.LocalDBSet, error) {
	return nil, nil
}
