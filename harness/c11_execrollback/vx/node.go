package vx

import (
	"bytes"
	"crypto/sha256"
	"fmt"
	"strings"

	"github.com/33cn/chain33/common/address"
	"github.com/33cn/chain33/common/crypto"
	clog "github.com/33cn/chain33/common/log"
	"github.com/33cn/chain33/queue"
	_ "github.com/33cn/chain33/system" // crypto, consensus, store, mempool and system dapps
	"github.com/33cn/chain33/types"
	"github.com/33cn/chain33/util"
	"github.com/33cn/chain33/util/testnode"
)

// Node is one in-process chain33 node (util/testnode, default "local" test configuration: every fork active from
// height 0, fees charged, no miner) whose chain holds a genesis block and one seed block.  Case blocks are executed on
// top of the seed block through the executor and store modules and are never connected to the chain, so cases do
// not see each other.
type Node struct {
	Mock  *testnode.Chain33Mock
	Cfg   *types.Chain33Config
	Cli   queue.Client
	Base  *types.Block // parent of every case block (the seed block)
	Keys  []crypto.PrivKey
	Addrs []string
}

// Funding is what every sender owns after the seed block (before it pays seed-block fees).
const Funding = int64(100) * types.DefaultCoinPrecision

// Key derives the i-th deterministic sender key.
func Key(i int) crypto.PrivKey {
	c, err := crypto.Load(types.GetSignName("", types.SECP256K1), -1)
	if err != nil {
		panic(err)
	}
	h := sha256.Sum256([]byte(fmt.Sprintf("verif-vx-sender-%d", i)))
	k, err := c.PrivKeyFromBytes(h[:])
	if err != nil {
		panic(err)
	}
	return k
}

// NewNode starts a node, funds nSenders deterministic accounts and lets seed add transactions to the seed block.
// title "" keeps the default main-chain test configuration (Title="local"); a title like "user.p.test." makes the
// node a parachain node (forks are all active from height 0 in both cases).  One process can host one title only:
// executors are registered once, with the first configuration.
func NewNode(title string, nSenders int, seed func(n *Node) []*types.Transaction) (*Node, error) {
	clog.SetLogLevel("crit")
	cfgstr := types.GetDefaultCfgstring()
	if title != "" {
		cfgstr = strings.Replace(cfgstr, `Title="local"`, `Title="`+title+`"`, 1)
	}
	cfg := types.NewChain33Config(cfgstr)
	cfg.GetModuleConfig().Consensus.Minerstart = false
	mock := testnode.NewWithConfig(cfg, nil)
	if mock == nil {
		return nil, fmt.Errorf("testnode did not start")
	}
	clog.SetLogLevel("crit")
	n := &Node{Mock: mock, Cfg: mock.GetClient().GetConfig(), Cli: mock.GetClient()}
	if err := mock.WaitHeight(0); err != nil {
		return nil, err
	}
	for i := 0; i < nSenders; i++ {
		k := Key(i)
		n.Keys = append(n.Keys, k)
		n.Addrs = append(n.Addrs, address.PubKeyToAddr(address.DefaultID, k.PubKey().Bytes()))
	}
	var txs []*types.Transaction
	for i, a := range n.Addrs {
		tx := util.CreateCoinsTx(n.Cfg, nil, a, Funding)
		tx.Nonce = int64(1000 + i)
		tx.Sign(types.SECP256K1, mock.GetGenesisKey())
		txs = append(txs, tx)
	}
	if seed != nil {
		txs = append(txs, seed(n)...)
	}
	genesis := mock.GetBlock(0)
	blk := util.CreateNewBlock(n.Cfg, genesis, txs)
	msg := n.Cli.NewMessage("blockchain", types.EventAddBlockDetail, &types.BlockDetail{Block: blk})
	if err := n.Cli.Send(msg, true); err != nil {
		return nil, err
	}
	resp, err := n.Cli.Wait(msg)
	if err != nil {
		return nil, err
	}
	if _, ok := resp.GetData().(*types.BlockDetail); !ok {
		return nil, fmt.Errorf("seed block rejected: %v", resp.GetData())
	}
	n.Base = mock.GetBlock(1)
	if len(n.Base.Txs) != len(txs) {
		return nil, fmt.Errorf("seed block kept %d of %d transactions", len(n.Base.Txs), len(txs))
	}
	return n, nil
}

// Close stops the node.
func (n *Node) Close() { n.Mock.Close() }

// Tx builds and signs a synthetic transaction for executor name execer (fee = the minimum fee for its size).
func (n *Node) Tx(sender int, execer string, p Program, nonce int64) *types.Transaction {
	tx := &types.Transaction{Execer: []byte(execer), Payload: Payload(p), To: address.ExecAddress(execer)}
	tx, err := types.FormatTx(n.Cfg, execer, tx)
	if err != nil {
		panic(err)
	}
	tx.Nonce = nonce
	tx.Sign(types.SECP256K1, n.Keys[sender])
	return tx
}

// Group turns already built transactions into a transaction group (the head pays the whole fee) and re-signs them.
func (n *Node) Group(txs []*types.Transaction, senders []int) []*types.Transaction {
	for _, tx := range txs {
		tx.Signature = nil
	}
	g, err := types.CreateTxGroup(txs, n.Cfg.GetMinTxFeeRate())
	if err != nil {
		panic(err)
	}
	for i := range g.Txs {
		if err := g.SignN(i, types.SECP256K1, n.Keys[senders[i]]); err != nil {
			panic(err)
		}
	}
	return g.Txs
}

// AccountKey is the state key of addr's coins account.
func (n *Node) AccountKey(addr string) string {
	return "mavl-" + n.Cfg.GetCoinExec() + "-" + n.Cfg.GetCoinSymbol() + "-" + addr
}

// Result is everything observable about one executed case block.
type Result struct {
	Receipts  []*types.Receipt  // as replied to EventExecTxList, one per submitted transaction
	StateRoot []byte            // root after committing the block's KV set on top of Base
	Kept      []int             // indices (into the submitted list) of the transactions kept in the block
	Local     []*types.KeyValue // reply of the executor to EventAddBlock (nil when LocalErr is set)
	LocalErr  error
}

// ReplyError is an EventExecTxList reply that is an error instead of receipts (the executor recovered a panic).
type ReplyError struct{ Msg string }

func (e *ReplyError) Error() string { return "executor replied: " + e.Msg }

// ExecTxList sends the transactions to the executor module as block Base.Height+1 on Base's state.
// A reply that is an error (the executor recovered a panic) is returned as *ReplyError.
func (n *Node) ExecTxList(txs []*types.Transaction) ([]*types.Receipt, *types.Block, error) {
	blk := util.CreateNewBlock(n.Cfg, n.Base, txs)
	for i := range txs { // CreateNewBlock sorts by chain title; the checks index receipts by submission order
		if blk.Txs[i] != txs[i] {
			return nil, nil, fmt.Errorf("harness: block reordered the transactions (mixed chain titles)")
		}
	}
	list := &types.ExecTxList{StateHash: n.Base.StateHash, ParentHash: blk.ParentHash, MainHash: blk.MainHash, MainHeight: blk.MainHeight,
		Txs: blk.Txs, BlockTime: blk.BlockTime, Height: blk.Height, Difficulty: uint64(blk.Difficulty)}
	msg := n.Cli.NewMessage("execs", types.EventExecTxList, list)
	if err := n.Cli.Send(msg, true); err != nil {
		return nil, nil, err
	}
	resp, err := n.Cli.Wait(msg) // Wait returns the reply's payload as err when the payload is an error
	if resp != nil && resp.Err() != nil {
		return nil, blk, &ReplyError{resp.Err().Error()}
	}
	if err != nil {
		return nil, nil, fmt.Errorf("no reply to EventExecTxList: %v", err)
	}
	rs, ok := resp.GetData().(*types.Receipts)
	if !ok {
		return nil, nil, fmt.Errorf("unexpected EventExecTxList reply %T", resp.GetData())
	}
	return rs.Receipts, blk, nil
}

// Run executes a case block the way util.PreExecBlock/ExecBlock and blockchain.connectBlock do: EventExecTxList, drop
// ExecErr transactions, store MemSet + Commit of the receipts' KV on Base's state, then EventAddBlock to the executor
// to obtain the block's local KV set.  Nothing is written to the chain.
func (n *Node) Run(txs []*types.Transaction) (*Result, error) {
	receipts, blk, err := n.ExecTxList(txs)
	if err != nil {
		return nil, err
	}
	if len(receipts) != len(txs) {
		return nil, fmt.Errorf("%d receipts for %d transactions", len(receipts), len(txs))
	}
	res := &Result{Receipts: receipts}
	var kvset []*types.KeyValue
	var rdata []*types.ReceiptData
	var kept []*types.Transaction
	for i, r := range receipts {
		if r.Ty == types.ExecErr {
			continue
		}
		res.Kept = append(res.Kept, i)
		kept = append(kept, blk.Txs[i])
		rdata = append(rdata, &types.ReceiptData{Ty: r.Ty, Logs: r.Logs})
		kvset = append(kvset, r.KV...)
	}
	blk.Txs = kept
	kvset = util.DelDupKey(kvset)
	root, err := util.ExecKVMemSet(n.Cli, n.Base.StateHash, blk.Height, kvset, true, false)
	if err != nil {
		return nil, err
	}
	if err := util.ExecKVSetCommit(n.Cli, root, false); err != nil {
		return nil, err
	}
	res.StateRoot = root
	blk.StateHash = root
	detail := &types.BlockDetail{Block: blk, Receipts: rdata, KV: kvset, PrevStatusHash: n.Base.StateHash}
	msg := n.Cli.NewMessage("execs", types.EventAddBlock, detail)
	if err := n.Cli.Send(msg, true); err != nil {
		return nil, err
	}
	resp, err := n.Cli.Wait(msg)
	if resp != nil && resp.Err() != nil {
		res.LocalErr = resp.Err()
		return res, nil
	}
	if err != nil {
		return nil, fmt.Errorf("no reply to EventAddBlock: %v", err)
	}
	set, ok := resp.GetData().(*types.LocalDBSet)
	if !ok {
		return nil, fmt.Errorf("unexpected EventAddBlock reply %T", resp.GetData())
	}
	res.Local = set.KV
	return res, nil
}

// StateGet reads keys from the store at root (nil entries for absent keys).
func (n *Node) StateGet(root []byte, keys []string) ([][]byte, error) {
	q := &types.StoreGet{StateHash: root}
	for _, k := range keys {
		q.Keys = append(q.Keys, []byte(k))
	}
	msg := n.Cli.NewMessage("store", types.EventStoreGet, q)
	if err := n.Cli.Send(msg, true); err != nil {
		return nil, err
	}
	resp, err := n.Cli.Wait(msg)
	if err != nil {
		return nil, err
	}
	vals := resp.GetData().(*types.StoreReplyValue).Values
	if len(vals) != len(keys) {
		return nil, fmt.Errorf("store returned %d values for %d keys", len(vals), len(keys))
	}
	return vals, nil
}

// LocalGet reads keys from the node's durable local DB (what earlier connected blocks left behind).
func (n *Node) LocalGet(keys []string) ([][]byte, error) {
	q := &types.LocalDBGet{}
	for _, k := range keys {
		q.Keys = append(q.Keys, []byte(k))
	}
	r, err := n.Mock.GetAPI().LocalGet(q)
	if err != nil {
		return nil, err
	}
	return r.Values, nil
}

// Balance decodes a coins account value.
func Balance(v []byte) (int64, error) {
	if len(v) == 0 {
		return 0, nil
	}
	var acc types.Account
	if err := types.Decode(v, &acc); err != nil {
		return 0, err
	}
	return acc.Balance, nil
}

// Observations extracts what a receipt's Exec phase echoed.
func Observations(r *types.Receipt) []string {
	var out []string
	for _, l := range r.Logs {
		if l.Ty == TyObs {
			out = append(out, string(l.Log))
		}
	}
	return out
}

// HasKey reports whether kvs mentions key.
func HasKey(kvs []*types.KeyValue, key string) bool {
	for _, kv := range kvs {
		if bytes.Equal(kv.Key, []byte(key)) {
			return true
		}
	}
	return false
}
