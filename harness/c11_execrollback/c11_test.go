// C11: failed transactions leave only their fee behind.
//
// Generated blocks of synthetic-executor transactions (package vx) are executed by the real executor module on an
// in-process node (EventExecTxList -> store MemSet/Commit -> EventAddBlock) and compared with a reference interpreter
// written from the property text: two maps (state, local data) and a fee ledger, where a transaction that fails, or a
// group with a failing member, contributes nothing but the fee.
package c11

import (
	"fmt"
	"os"
	"sort"
	"strings"
	"sync"
	"testing"

	"github.com/33cn/chain33/types"
	"pgregory.net/rapid"
	"verifharness/c11_execrollback/vx"
	"verifharness/lib"
)

const (
	prop = "C11"
	// knownLeak: executor.LocalDB.Rollback keeps the buffered remote writes (l.kvs) of the rolled-back transaction.
	knownLeak = "C11-localdb-rollback-keeps-buffered-writes"
)

func TestMain(m *testing.M) {
	code := m.Run()
	if node != nil {
		node.Close()
	}
	lib.Flush()
	os.Exit(code)
}

// ---- fixture --------------------------------------------------------------------------------------------------------

const nSenders = 6

var (
	stateKeys = map[string][]string{
		vx.ExWrite: {"mavl-vwrite-s0", "mavl-vwrite-s1", "mavl-vwrite-s2", "mavl-vwrite-s3"},
		vx.ExPlain: {"mavl-vplain-s0", "mavl-vplain-s1"},
	}
	allStateKeys = append(append([]string{}, stateKeys[vx.ExWrite]...), stateKeys[vx.ExPlain]...)
	localKeys    = map[string][]string{
		vx.ExWrite: {"LODB-vwrite-a0", "LODB-vwrite-a1", "LODB-vwrite-b0", "LODB-vwrite-b1"},
		vx.ExPlain: {"LODB-vplain-p0", "LODB-vplain-p1"},
	}
	listPrefixes = []string{"LODB-vwrite-a", "LODB-vwrite-b", "LODB-vwrite-"}
	// what the seed block (connected to the chain) leaves behind: pre-existing values that a rollback must restore
	seedState = map[string]string{"mavl-vwrite-s0": "S0seed", "mavl-vwrite-s1": "S1seed", "mavl-vplain-s0": "P0seed"}
	seedLocal = map[string]string{"LODB-vwrite-a0": "A0seed", "LODB-vwrite-b0": "B0seed"}

	node     *vx.Node
	nodeOnce sync.Once
	baseBal  = map[string]int64{}
)

func seedTxs(n *vx.Node) []*types.Transaction {
	return []*types.Transaction{
		n.Tx(0, vx.ExWrite, vx.Program{
			Exec:  []vx.Step{{Op: "ws", K: "mavl-vwrite-s0", V: "S0seed"}, {Op: "wr", K: "mavl-vwrite-s1", V: "S1seed"}},
			Local: []vx.Step{{Op: "wl", K: "LODB-vwrite-a0", V: "A0seed"}, {Op: "wlr", K: "LODB-vwrite-b0", V: "B0seed"}}}, 1),
		n.Tx(1, vx.ExPlain, vx.Program{Exec: []vx.Step{{Op: "wr", K: "mavl-vplain-s0", V: "P0seed"}}}, 2),
	}
}

// theNode starts the per-process node and verifies the fixture itself (seed values present): a broken fixture is
// inconclusive, never a violation.
func theNode() *vx.Node {
	nodeOnce.Do(func() {
		n, err := vx.NewNode("", nSenders, seedTxs)
		if err != nil {
			lib.Inconclusive("node fixture: %v", err)
		}
		var sk, lk, ak []string
		for k := range seedState {
			sk = append(sk, k)
		}
		for k := range seedLocal {
			lk = append(lk, k)
		}
		sv, err1 := n.StateGet(n.Base.StateHash, sk)
		lv, err2 := n.LocalGet(lk)
		if err1 != nil || err2 != nil {
			lib.Inconclusive("node fixture: reading seed values: %v %v", err1, err2)
		}
		for i, k := range sk {
			if string(sv[i]) != seedState[k] {
				lib.Inconclusive("node fixture: seed state %s=%q", k, sv[i])
			}
		}
		for i, k := range lk {
			if string(lv[i]) != seedLocal[k] {
				lib.Inconclusive("node fixture: seed local %s=%q", k, lv[i])
			}
		}
		for _, a := range n.Addrs {
			ak = append(ak, n.AccountKey(a))
		}
		av, err := n.StateGet(n.Base.StateHash, ak)
		if err != nil {
			lib.Inconclusive("node fixture: %v", err)
		}
		for i, a := range n.Addrs {
			b, err := vx.Balance(av[i])
			if err != nil || b < vx.Funding/2 {
				lib.Inconclusive("node fixture: sender %d balance %d %v", i, b, err)
			}
			baseBal[a] = b
		}
		node = n
	})
	return node
}

// ---- case description ---------------------------------------------------------------------------------------------

type txSpec struct {
	Ex     string     `json:"ex"`
	Sender int        `json:"sender"`
	Mode   string     `json:"mode,omitempty"` // generator's intent, informational
	Prog   vx.Program `json:"prog"`
}

// item is a single transaction (one element) or a transaction group (2..4 elements).
type item []txSpec

// ---- reference interpreter (the oracle) -------------------------------------------------------------------------------

// localView is the local data as a transaction may observe it.
type localView interface {
	get(k string) string       // "<nil>" when absent
	list(prefix string) string // "[v1,v2]" values of keys with the prefix in ascending key order
	set(k, v string)
}

func showList(m map[string]string, prefix string) string {
	var ks []string
	for k := range m {
		if strings.HasPrefix(k, prefix) {
			ks = append(ks, k)
		}
	}
	sort.Strings(ks)
	vs := make([]string, len(ks))
	for i, k := range ks {
		vs[i] = m[k]
	}
	return "[" + strings.Join(vs, ",") + "]"
}

// mapLocal: the property's view of local data — a plain map with snapshot/restore.
type mapLocal struct{ m map[string]string }

func (l *mapLocal) get(k string) string {
	if v, ok := l.m[k]; ok {
		return v
	}
	return "<nil>"
}
func (l *mapLocal) list(p string) string { return showList(l.m, p) }
func (l *mapLocal) set(k, v string)      { l.m[k] = v }

func clone(m map[string]string) map[string]string {
	c := make(map[string]string, len(m))
	for k, v := range m {
		c[k] = v
	}
	return c
}

// leakLocal reproduces, for the tolerance of known finding knownLeak only, how the layered local DB of one
// EventExecTxList request behaves when Rollback keeps the buffered writes: an executor-side cache / transaction cache /
// write buffer in front of the blockchain-side committed layer / transaction layer / durable DB.  It is never used to
// accept anything unless the finding is listed as known.
type leakLocal struct {
	main, rcache, rtx map[string]string // blockchain side: durable, committed in this request, open transaction
	cache             map[string]*string
	tx                map[string]string
	kvs               [][2]string
	hasbegin          bool
}

func newLeakLocal(main map[string]string) *leakLocal {
	return &leakLocal{main: main, rcache: map[string]string{}, cache: map[string]*string{}, tx: map[string]string{}}
}
func (l *leakLocal) begin() { l.tx = map[string]string{}; l.hasbegin = false }
func (l *leakLocal) set(k, v string) {
	l.tx[k] = v
	l.kvs = append(l.kvs, [2]string{k, v})
}
func (l *leakLocal) get(k string) string {
	if v, ok := l.tx[k]; ok {
		return v
	}
	if p, ok := l.cache[k]; ok {
		if p == nil {
			return "<nil>"
		}
		return *p
	}
	for _, layer := range []map[string]string{l.rtx, l.rcache, l.main} {
		if v, ok := layer[k]; ok {
			l.cache[k] = &v
			return v
		}
	}
	l.cache[k] = nil
	return "<nil>"
}
func (l *leakLocal) save() {
	if len(l.kvs) == 0 {
		return
	}
	if !l.hasbegin {
		l.rtx, l.hasbegin = map[string]string{}, true
	}
	for _, kv := range l.kvs {
		l.rtx[kv[0]] = kv[1]
	}
	l.kvs = nil
}
func (l *leakLocal) list(p string) string {
	l.save()
	m := clone(l.main)
	for _, layer := range []map[string]string{l.rcache, l.rtx} {
		for k, v := range layer {
			m[k] = v
		}
	}
	return showList(m, p)
}
func (l *leakLocal) commit() {
	for k, v := range l.tx {
		v := v
		l.cache[k] = &v
	}
	l.save()
	if l.hasbegin {
		for k, v := range l.rtx {
			l.rcache[k] = v
		}
		l.rtx = nil
	}
	l.begin()
}
func (l *leakLocal) rollback() {
	if l.hasbegin {
		l.rtx = nil
	}
	l.begin() // l.kvs is kept: this is the known defect
}

// txResult is what the interpreter predicts for one transaction.
type txResult struct {
	ok       bool
	obs      []string    // strict echo of the Exec phase
	obsLeak  []string    // echo under the known defect (only differs in local reads)
	reported [][2]string // receipt KV in order (without the fee KV)
}

// world is the interpreter's state while walking through a block.
type world struct {
	state map[string]string
	local *mapLocal
	leak  *leakLocal
	// keys written (state Set/report, local Set) by units that were rolled back, for the non-triviality rule
	rbState, rbLocal map[string]bool
	readBack         bool // a later transaction read a key that a rolled-back state+local writer had written
}

func allowedStateKey(ex, key string) bool { return strings.HasPrefix(key, "mavl-"+ex+"-") }

// runLocal interprets the Local phase against view; returns ok=false when the phase makes the transaction fail.
// touched collects the local keys the phase Set (for the non-triviality rule); reads reports what it read.
func runLocal(p vx.Program, view localView, touched map[string]bool, reads func(k string, prefix bool)) bool {
	var returned [][2]string
	direct := false
	setKeys := map[string]bool{} // keys Set directly in the local DB
	for _, s := range p.Local {
		switch s.Op {
		case "wl":
			view.set(s.K, s.V)
			touched[s.K], direct, setKeys[s.K] = true, true, true
			returned = append(returned, [2]string{s.K, s.V})
		case "wlr":
			returned = append(returned, [2]string{s.K, s.V})
		case "wlo":
			view.set(s.K, s.V)
			touched[s.K], direct, setKeys[s.K] = true, true, true
		case "cp":
			reads(s.K, false)
			v := s.V + "=" + view.get(s.K)
			view.set(s.D, v)
			touched[s.D], direct, setKeys[s.D] = true, true, true
			returned = append(returned, [2]string{s.D, v})
		case "lc":
			reads(s.K, true)
			v := s.V + "=" + view.list(s.K)
			view.set(s.D, v)
			touched[s.D], direct, setKeys[s.D] = true, true, true
			returned = append(returned, [2]string{s.D, v})
		case "fail", "panic":
			// The generator only fails a Local phase after a direct Set, so the transaction fails whether the
			// framework propagates the error or swallows it (DriverBase) and then finds unreported Set keys.
			if !direct {
				panic("generator invariant: local failure without a preceding direct Set")
			}
			return false
		}
	}
	for _, kv := range returned {
		delete(setKeys, kv[0])
	}
	if len(setKeys) > 0 {
		return false // a key Set in the local DB is missing from the returned set
	}
	for _, kv := range returned { // the framework applies the returned set
		view.set(kv[0], kv[1])
		touched[kv[0]] = true
	}
	return true
}

// runTx interprets one transaction inside an open unit (state and both local views are the unit's working copies).
func (w *world) runTx(tx txSpec, wState, wLocal map[string]bool) txResult {
	var r txResult
	note := func(k string, prefix bool, local bool) {
		set := w.rbState
		if local {
			set = w.rbLocal
		}
		for rk := range set {
			if rk == k || (prefix && strings.HasPrefix(rk, k)) {
				w.readBack = true
			}
		}
	}
	setKeys := map[string]bool{} // keys Set in the state DB
	for _, s := range tx.Prog.Exec {
		switch s.Op {
		case "rs":
			note(s.K, false, false)
			v, ok := w.state[s.K]
			if !ok {
				v = "<nil>"
			}
			r.obs = append(r.obs, "rs "+s.K+"="+v)
			r.obsLeak = append(r.obsLeak, "rs "+s.K+"="+v)
		case "ws", "wso":
			w.state[s.K] = s.V
			wState[s.K], setKeys[s.K] = true, true
			if s.Op == "ws" {
				r.reported = append(r.reported, [2]string{s.K, s.V})
			}
		case "wr":
			wState[s.K] = true
			r.reported = append(r.reported, [2]string{s.K, s.V})
		case "rl":
			note(s.K, false, true)
			r.obs = append(r.obs, "rl "+s.K+"="+w.local.get(s.K))
			r.obsLeak = append(r.obsLeak, "rl "+s.K+"="+w.leak.get(s.K))
		case "ll":
			note(s.K, true, true)
			r.obs = append(r.obs, "ll "+s.K+"="+w.local.list(s.K))
			r.obsLeak = append(r.obsLeak, "ll "+s.K+"="+w.leak.list(s.K))
		case "fail", "panic":
			return r
		}
	}
	for _, kv := range r.reported {
		delete(setKeys, kv[0])
		if !allowedStateKey(tx.Ex, kv[0]) { // C12: reported keys must lie in the executor's own namespace
			return r
		}
	}
	if len(setKeys) > 0 { // C12: every state key written must be reported in the receipt
		return r
	}
	if tx.Ex == vx.ExWrite { // ExecLocalSameTime: the Local phase is part of executing the transaction
		reads := func(k string, prefix bool) { note(k, prefix, true) }
		okStrict := runLocal(tx.Prog, w.local, wLocal, reads)
		okLeak := runLocal(tx.Prog, w.leak, map[string]bool{}, func(string, bool) {})
		if okStrict != okLeak {
			panic("interpreter: outcome must not depend on local reads")
		}
		if !okStrict {
			return r
		}
	}
	for _, kv := range r.reported { // reported KVs become state when the transaction succeeds
		w.state[kv[0]] = kv[1]
	}
	r.ok = true
	return r
}

// expectation for one submitted transaction
type expect struct {
	ok       bool
	obs      []string
	obsLeak  []string
	reported [][2]string
	feeOf    string // address charged in this receipt ("" = no fee KV expected: non-head group member)
	balance  int64  // that address's balance after the charge
}

// interpret walks the block and returns per-transaction expectations plus the final world.
func interpret(n *vx.Node, items []item, txs [][]*types.Transaction) ([]expect, *world, map[string]int64) {
	w := &world{state: clone(seedState), local: &mapLocal{clone(seedLocal)}, leak: newLeakLocal(clone(seedLocal)),
		rbState: map[string]bool{}, rbLocal: map[string]bool{}}
	bal := map[string]int64{}
	for a, b := range baseBal {
		bal[a] = b
	}
	var exps []expect
	for i, it := range items {
		head := n.Addrs[it[0].Sender]
		bal[head] -= txs[i][0].Fee // the fee is charged before the unit starts and is never rolled back
		snapState, snapLocal := clone(w.state), clone(w.local.m)
		w.leak.begin()
		wState, wLocal := map[string]bool{}, map[string]bool{}
		res := make([]txResult, len(it))
		allOK := true
		for j, tx := range it {
			res[j] = w.runTx(tx, wState, wLocal)
			if !res[j].ok {
				allOK = false
				break
			}
		}
		if allOK {
			w.leak.commit()
		} else {
			w.state, w.local.m = snapState, snapLocal
			w.leak.rollback()
			if len(wState) > 0 && len(wLocal) > 0 { // the unit wrote state and local data and then failed
				for k := range wState {
					w.rbState[k] = true
				}
				for k := range wLocal {
					w.rbLocal[k] = true
				}
			}
		}
		for j := range it {
			e := expect{ok: allOK}
			if j == 0 {
				e.feeOf, e.balance = head, bal[head]
			}
			if allOK {
				e.obs, e.obsLeak, e.reported = res[j].obs, res[j].obsLeak, res[j].reported
			}
			exps = append(exps, e)
		}
	}
	return exps, w, bal
}

// ---- running a case --------------------------------------------------------------------------------------------------

type caseStats struct {
	nontrivial, leakSeen bool
	failedUnits          int
}

func join(ss []string) string { return strings.Join(ss, " | ") }

// build turns a case description into signed transactions (flattened, and per item).
func build(n *vx.Node, items []item) (all []*types.Transaction, grouped [][]*types.Transaction) {
	nonce := int64(100)
	for _, it := range items {
		var txs []*types.Transaction
		var senders []int
		for _, s := range it {
			nonce++
			txs = append(txs, n.Tx(s.Sender, s.Ex, s.Prog, nonce))
			senders = append(senders, s.Sender)
		}
		if len(txs) > 1 {
			txs = n.Group(txs, senders)
		}
		grouped = append(grouped, txs)
		all = append(all, txs...)
	}
	return all, grouped
}

// checkCase executes the block on the node and compares every observable with the interpreter.
func checkCase(t lib.TB, test string, items []item) caseStats {
	n := theNode()
	all, grouped := build(n, items)
	exps, w, bal := interpret(n, items, grouped)
	var st caseStats
	st.nontrivial = w.readBack
	fail := func(format string, a ...interface{}) {
		lib.Violation(t, prop, test, items, format, a...)
	}
	res, err := n.Run(all)
	if _, aborted := err.(*vx.ReplyError); aborted {
		// no generated program can legitimately abort the whole block: panics are confined to one transaction
		fail("executing the block failed: %v", err)
	} else if err != nil {
		lib.Inconclusive("node fixture: %v", err)
	}
	tolerate := lib.Known(knownLeak)
	// 1. receipts of EventExecTxList
	for i, e := range exps {
		r := res.Receipts[i]
		wantTy := int32(types.ExecPack)
		if e.ok {
			wantTy = types.ExecOk
		} else {
			st.failedUnits++
		}
		if r.Ty != wantTy {
			fail("tx %d: receipt type %d, expected %d", i, r.Ty, wantTy)
		}
		kv := r.KV
		if e.feeOf != "" {
			if len(kv) == 0 || string(kv[0].Key) != n.AccountKey(e.feeOf) {
				fail("tx %d: first receipt KV is not the fee payer's account", i)
			}
			if b, err := vx.Balance(kv[0].Value); err != nil || b != e.balance {
				fail("tx %d: fee KV leaves balance %d (%v), expected %d", i, b, err, e.balance)
			}
			kv = kv[1:]
		}
		// a failed transaction's receipt carries nothing but the fee; a successful one exactly what it reported
		if len(kv) != len(e.reported) {
			fail("tx %d: receipt has %d KVs besides the fee, expected %d", i, len(kv), len(e.reported))
		}
		for j, want := range e.reported {
			if string(kv[j].Key) != want[0] || string(kv[j].Value) != want[1] {
				fail("tx %d: receipt KV %d is %s=%s, expected %s=%s", i, j, kv[j].Key, kv[j].Value, want[0], want[1])
			}
		}
		got := join(vx.Observations(r))
		if got != join(e.obs) {
			// what a later transaction observed differs from "the failed ones only paid their fee"
			if tolerate && got == join(e.obsLeak) {
				st.leakSeen = true
				continue
			}
			fail("tx %d observed [%s], expected [%s]", i, got, join(e.obs))
		}
	}
	// 2. the committed state: every key and every sender balance
	keys := append([]string{}, allStateKeys...)
	for _, a := range n.Addrs {
		keys = append(keys, n.AccountKey(a))
	}
	vals, err := n.StateGet(res.StateRoot, keys)
	if err != nil {
		fail("reading back state: %v", err)
	}
	for i, k := range allStateKeys {
		want, ok := w.state[k]
		if string(vals[i]) != want || (vals[i] != nil) != ok {
			fail("committed state %s=%q, expected %q (present=%v)", k, vals[i], want, ok)
		}
	}
	for i, a := range n.Addrs {
		if b, err := vx.Balance(vals[len(allStateKeys)+i]); err != nil || b != bal[a] {
			fail("sender %d balance %d (%v), expected %d", i, b, err, bal[a])
		}
	}
	// 3. the local KV set the executor hands to the blockchain for this block (EventAddBlock): exactly the local
	// writes of the successful transactions, replayed in order on the pre-block local data
	if res.LocalErr != nil {
		fail("EventAddBlock failed: %v", res.LocalErr)
	}
	add := &mapLocal{clone(seedLocal)}
	wantSet := map[string]bool{}
	k := 0
	for _, it := range items {
		for _, tx := range it {
			if exps[k].ok && !runLocal(tx.Prog, add, wantSet, func(string, bool) {}) {
				panic("interpreter: a successful transaction's Local phase failed in the AddBlock replay")
			}
			k++
		}
	}
	gotLocal := map[string]string{}
	for _, kv := range res.Local {
		if strings.HasPrefix(string(kv.Key), "LODB-v") {
			gotLocal[string(kv.Key)] = string(kv.Value)
		}
	}
	for k := range wantSet {
		if gotLocal[k] != add.m[k] {
			fail("block local set has %s=%q, expected %q", k, gotLocal[k], add.m[k])
		}
	}
	for k, v := range gotLocal {
		if !wantSet[k] {
			fail("block local set contains %s=%q, which no successful transaction wrote", k, v)
		}
	}
	return st
}

// ---- generator -------------------------------------------------------------------------------------------------------

var (
	modesWrite = []string{"ok", "ok", "ok", "ok", "ok", "ok", "ok", "ok", "ok", "ok", "exec-fail", "exec-fail", "exec-panic", "omit", "foreign",
		"local-fail", "local-fail", "local-panic", "local-omit", "local-omit"}
	modesPlain = []string{"ok", "ok", "ok", "ok", "ok", "ok", "exec-fail", "exec-panic", "omit", "foreign"}
)

func insertAt(steps []vx.Step, pos int, s vx.Step) []vx.Step {
	steps = append(steps, vx.Step{})
	copy(steps[pos+1:], steps[pos:])
	steps[pos] = s
	return steps
}

// genTx draws one transaction. Values are unique per write ("t<id>.<n>") so that every observed value names its writer.
func genTx(t *rapid.T, id int, reader bool) txSpec {
	ex := rapid.SampledFrom([]string{vx.ExWrite, vx.ExWrite, vx.ExWrite, vx.ExWrite, vx.ExPlain}).Draw(t, "ex")
	if reader {
		ex = vx.ExWrite
	}
	tx := txSpec{Ex: ex, Sender: rapid.IntRange(0, nSenders-1).Draw(t, "sender")}
	nval := 0
	val := func() string { nval++; return fmt.Sprintf("t%d.%d", id, nval) }
	own := rapid.SampledFrom(stateKeys[ex])
	lkey := rapid.SampledFrom(localKeys[ex])
	if reader { // reads everything the earlier transactions may have touched
		for _, k := range stateKeys[vx.ExWrite] {
			tx.Prog.Exec = append(tx.Prog.Exec, vx.Step{Op: "rs", K: k})
		}
		for _, k := range localKeys[vx.ExWrite] {
			tx.Prog.Exec = append(tx.Prog.Exec, vx.Step{Op: "rl", K: k})
		}
		tx.Prog.Exec = append(tx.Prog.Exec, vx.Step{Op: "ll", K: "LODB-vwrite-"})
		tx.Mode = "reader"
		return tx
	}
	ops := []string{"rs", "rs", "ws", "ws", "wr", "wr"}
	if ex == vx.ExWrite {
		ops = append(ops, "rl", "ll", "ll")
	}
	for i, n := 0, rapid.IntRange(0, 4).Draw(t, "nexec"); i < n; i++ {
		switch op := rapid.SampledFrom(ops).Draw(t, "eop"); op {
		case "rs":
			tx.Prog.Exec = append(tx.Prog.Exec, vx.Step{Op: op, K: rapid.SampledFrom(allStateKeys).Draw(t, "k")})
		case "ws", "wr":
			tx.Prog.Exec = append(tx.Prog.Exec, vx.Step{Op: op, K: own.Draw(t, "k"), V: val()})
		case "rl":
			tx.Prog.Exec = append(tx.Prog.Exec, vx.Step{Op: op, K: lkey.Draw(t, "k")})
		case "ll":
			tx.Prog.Exec = append(tx.Prog.Exec, vx.Step{Op: op, K: rapid.SampledFrom(listPrefixes).Draw(t, "k")})
		}
	}
	lops := []string{"wl", "wlr"}
	if ex == vx.ExWrite {
		lops = []string{"wl", "wl", "wl", "wlr", "wlr", "cp", "lc"}
	}
	for i, n := 0, rapid.IntRange(0, 3).Draw(t, "nlocal"); i < n; i++ {
		switch op := rapid.SampledFrom(lops).Draw(t, "lop"); op {
		case "wl", "wlr":
			tx.Prog.Local = append(tx.Prog.Local, vx.Step{Op: op, K: lkey.Draw(t, "k"), V: val()})
		case "cp":
			tx.Prog.Local = append(tx.Prog.Local, vx.Step{Op: op, K: lkey.Draw(t, "k"), D: lkey.Draw(t, "d"), V: val()})
		case "lc":
			tx.Prog.Local = append(tx.Prog.Local, vx.Step{Op: op, K: rapid.SampledFrom(listPrefixes).Draw(t, "k"), D: lkey.Draw(t, "d"), V: val()})
		}
	}
	modes := modesWrite
	if ex == vx.ExPlain {
		modes = modesPlain
	}
	tx.Mode = rapid.SampledFrom(modes).Draw(t, "mode")
	pos := func(steps []vx.Step, label string) int { return rapid.IntRange(0, len(steps)).Draw(t, label) }
	if strings.HasPrefix(tx.Mode, "local-") && !hasWrite(tx.Prog.Exec) {
		// the interesting failures come after a state write
		tx.Prog.Exec = insertAt(tx.Prog.Exec, pos(tx.Prog.Exec, "wpos"), vx.Step{Op: rapid.SampledFrom([]string{"ws", "wr"}).Draw(t, "wop"), K: own.Draw(t, "k"), V: val()})
	}
	switch tx.Mode {
	case "exec-fail", "exec-panic":
		tx.Prog.Exec = insertAt(tx.Prog.Exec, pos(tx.Prog.Exec, "fpos"), vx.Step{Op: strings.TrimPrefix(tx.Mode, "exec-")})
	case "omit":
		tx.Prog.Exec = insertAt(tx.Prog.Exec, pos(tx.Prog.Exec, "fpos"), vx.Step{Op: "wso", K: own.Draw(t, "k"), V: val()})
	case "foreign":
		other := vx.ExPlain
		if ex == vx.ExPlain {
			other = vx.ExWrite
		}
		tx.Prog.Exec = insertAt(tx.Prog.Exec, pos(tx.Prog.Exec, "fpos"), vx.Step{Op: rapid.SampledFrom([]string{"ws", "wr"}).Draw(t, "wop"),
			K: rapid.SampledFrom(stateKeys[other]).Draw(t, "k"), V: val()})
	case "local-fail", "local-panic":
		p := pos(tx.Prog.Local, "fpos")
		tx.Prog.Local = insertAt(tx.Prog.Local, p, vx.Step{Op: strings.TrimPrefix(tx.Mode, "local-")})
		tx.Prog.Local = insertAt(tx.Prog.Local, rapid.IntRange(0, p).Draw(t, "wlpos"), vx.Step{Op: "wl", K: lkey.Draw(t, "k"), V: val()})
	case "local-omit":
		tx.Prog.Local = insertAt(tx.Prog.Local, pos(tx.Prog.Local, "fpos"), vx.Step{Op: "wlo", K: lkey.Draw(t, "k"), V: val()})
	}
	return tx
}

func hasWrite(steps []vx.Step) bool {
	for _, s := range steps {
		if s.Op == "ws" || s.Op == "wr" {
			return true
		}
	}
	return false
}

func genBlock(t *rapid.T) []item {
	var items []item
	id, total := 0, 0
	for i, n := 0, rapid.IntRange(1, 6).Draw(t, "nitems"); i < n && total < 12; i++ {
		size := 1
		if rapid.IntRange(0, 99).Draw(t, "grouped") < 35 {
			size = rapid.IntRange(2, 4).Draw(t, "gsize")
		}
		if total+size > 12 {
			size = 1
		}
		var it item
		for j := 0; j < size; j++ {
			id++
			it = append(it, genTx(t, id, i > 0 && rapid.IntRange(0, 99).Draw(t, "reader") < 25))
		}
		items = append(items, it)
		total += size
	}
	return items
}

// ---- tests -----------------------------------------------------------------------------------------------------------

func TestPropFailedTxLeavesOnlyFee(t *testing.T) {
	defer lib.Flush()
	theNode()
	rapid.Check(t, func(t *rapid.T) {
		items := genBlock(t)
		lib.Eval()
		st := checkCase(t, "TestPropFailedTxLeavesOnlyFee", items)
		groups := 0
		for _, it := range items {
			if len(it) > 1 {
				groups++
			}
			for _, tx := range it {
				lib.Class("mode:" + tx.Mode)
			}
		}
		if groups > 0 {
			lib.Class("has_group")
		}
		if st.failedUnits > 0 {
			lib.Class("has_failed_tx")
		}
		if st.leakSeen {
			lib.Class("known_leak_observed")
			lib.ExcludedKnown(knownLeak)
		}
		if st.nontrivial {
			lib.Class("nontrivial")
			lib.NonTrivialCase(items)
		}
	})
}

// TestKnown_LocalRollbackLeak pins the minimal history for finding knownLeak: in a two-member group the first member
// (ExecLocalSameTime executor) returns one local KV and succeeds, the second member fails, so the group is rolled
// back; the next transaction lists the local prefix and must not see the first member's value.
func TestKnown_LocalRollbackLeak(t *testing.T) {
	defer lib.Flush()
	n := theNode()
	items := []item{
		{{Ex: vx.ExWrite, Sender: 0, Prog: vx.Program{Exec: []vx.Step{{Op: "wr", K: "mavl-vwrite-s2", V: "t1.1"}}, Local: []vx.Step{{Op: "wlr", K: "LODB-vwrite-a1", V: "t1.2"}}}},
			{Ex: vx.ExWrite, Sender: 1, Prog: vx.Program{Exec: []vx.Step{{Op: "fail"}}}}},
		{{Ex: vx.ExWrite, Sender: 2, Prog: vx.Program{Exec: []vx.Step{{Op: "rs", K: "mavl-vwrite-s2"}, {Op: "ll", K: "LODB-vwrite-a"}}}}},
	}
	all, _ := build(n, items)
	receipts, _, err := n.ExecTxList(all)
	if err != nil || len(receipts) != 3 {
		lib.Inconclusive("pinned case could not be executed: %v", err)
	}
	if receipts[0].Ty != types.ExecPack || receipts[1].Ty != types.ExecPack || receipts[2].Ty != types.ExecOk {
		lib.Violation(t, prop, "TestKnown_LocalRollbackLeak", items, "receipt types %d %d %d, expected 1 1 2", receipts[0].Ty, receipts[1].Ty, receipts[2].Ty)
	}
	got := join(vx.Observations(receipts[2]))
	want := "rs mavl-vwrite-s2=<nil> | ll LODB-vwrite-a=[A0seed]"
	if got != want {
		lib.KnownOrViolation(t, prop, "TestKnown_LocalRollbackLeak", knownLeak, items,
			fmt.Sprintf("after a rolled-back group a later transaction observed [%s], expected [%s]: executor.LocalDB.Rollback keeps the group's buffered local writes and the next List/Commit flushes them", got, want))
	}
}
