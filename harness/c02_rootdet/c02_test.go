// C02: the state root depends only on (prior committed root, ordered writes).
//
// Oracle (differential, from the property text): one generated script of committed batches is replayed under
// every store configuration, through Set and through MemSet+Commit, with and without unrelated pending updates /
// commits / rollbacks / cache-warming reads in between, on a cold store and again on the warm store, and with
// different block heights; the sequence of roots of the committed batches must be byte-identical in all runs and
// equal to the root of a plain in-memory tree (no database, no configuration) fed the same ordered writes.
package c02

import (
	"bytes"
	"encoding/hex"
	"encoding/json"
	"fmt"
	"os"
	"os/exec"
	"regexp"
	"runtime/debug"
	"sort"
	"strings"
	"testing"
	"time"

	clog "github.com/33cn/chain33/common/log"
	"github.com/33cn/chain33/system/store/mavl"
	mavldb "github.com/33cn/chain33/system/store/mavl/db"
	"github.com/33cn/chain33/system/store/mavl/db/ticket"
	"github.com/33cn/chain33/types"
	"pgregory.net/rapid"
	"verifharness/lib"
)

const prop = "C02"

func TestMain(m *testing.M) {
	clog.SetLogLevel("crit")
	mavl.DisableLog()
	lib.Main(m)
}

// ---------------------------------------------------------------- script (plain data)

type hx []byte

func (h hx) MarshalJSON() ([]byte, error) { return json.Marshal(hex.EncodeToString(h)) }
func (h *hx) UnmarshalJSON(b []byte) error {
	var s string
	if err := json.Unmarshal(b, &s); err != nil {
		return err
	}
	d, err := hex.DecodeString(s)
	*h = d
	return err
}

type kvSpec struct {
	Live int `json:"live"` // >=0: overwrite the (Live mod n)-th key of the parent state
	K    hx  `json:"k"`
	V    hx  `json:"v"`
}

// op kinds: "batch" = one of the committed batches whose roots are compared; the others are noise, executed only in
// the noisy variant: nmemset (pending update on a committed root), ncommit / nrollback (of a pending update),
// nset (unrelated direct commit), nread (point reads + iteration, warms caches).
type op struct {
	Op     string   `json:"op"`
	Parent int      `json:"parent"` // batch/nmemset/nset/nread: -1 newest main root, else index mod #main roots (0 = empty state)
	KVs    []kvSpec `json:"kvs,omitempty"`
	MemSet bool     `json:"memset,omitempty"` // batch: route in variant A (variant B uses the other one)
	Pend   int      `json:"pend,omitempty"`   // ncommit/nrollback: which pending update
}

type script struct {
	Ops    []op  `json:"ops"`
	Shift  int64 `json:"shift"`  // block heights of the noisy variant are shifted by this much
	Driver int   `json:"driver"` // index of the configuration that runs on leveldb instead of memdb
}

type storeCfg struct {
	Prefix, Prune, MemTree, MemVal, MVCC bool
}

func (c storeCfg) String() string {
	s := ""
	for _, f := range []struct {
		on bool
		n  string
	}{{c.Prefix, "prefix"}, {c.Prune, "prune"}, {c.MemTree, "memTree"}, {c.MemVal, "memVal"}, {c.MVCC, "mvcc"}} {
		if f.on {
			s += "+" + f.n
		}
	}
	if s == "" {
		return "plain"
	}
	return s[1:]
}

// quick: 12 configurations spanning every option alone and the interesting combinations; thorough: all 2^5.
func configs() []storeCfg {
	if lib.Thorough() {
		var all []storeCfg
		for m := 0; m < 32; m++ {
			all = append(all, storeCfg{m&1 != 0, m&2 != 0, m&4 != 0, m&8 != 0, m&16 != 0})
		}
		return all
	}
	return []storeCfg{
		{}, {Prefix: true}, {Prune: true}, {MemTree: true}, {MemTree: true, MemVal: true}, {MVCC: true},
		{Prefix: true, MemTree: true, MemVal: true}, {Prefix: true, Prune: true, MemTree: true}, {Prefix: true, MVCC: true},
		{MVCC: true, MemTree: true, MemVal: true}, {MemVal: true}, {Prefix: true, Prune: true, MemTree: true, MemVal: true, MVCC: true},
	}
}

// ---------------------------------------------------------------- generators

var fixedKeys = [][]byte{{}, []byte("a"), []byte("ab"), []byte("ab\x00"), []byte("b"), {0xff}, {0x00}, []byte("mavl-coins-bty-1"), append([]byte{}, ticket.TicketPrefix...)}

var closedTicket = types.Encode(&ticket.Ticket{TicketId: "t", Status: ticket.StatusCloseTicket})

func genKey() *rapid.Generator[[]byte] {
	small := rapid.SliceOfN(rapid.SampledFrom([]byte{0x00, 'a', 'b', 0xff}), 1, 8)
	return rapid.OneOf(rapid.SampledFrom(fixedKeys), small, small, rapid.SliceOfN(rapid.Byte(), 1, 12),
		rapid.Map(rapid.SliceOfN(rapid.SampledFrom([]byte{'0', '1'}), 0, 3), func(s []byte) []byte {
			return append(append([]byte{}, ticket.TicketPrefix...), s...)
		}))
}

func genKVs(t *rapid.T, max int) []kvSpec {
	n := rapid.IntRange(1, 6).Draw(t, "n")
	if rapid.IntRange(0, 4).Draw(t, "big") == 0 {
		n = rapid.IntRange(7, max).Draw(t, "nBig")
	}
	kvs := make([]kvSpec, n)
	for i := range kvs {
		kvs[i] = kvSpec{Live: -1, K: genKey().Draw(t, "k"),
			V: rapid.OneOf(rapid.SliceOfN(rapid.Byte(), 0, 20), rapid.Just(closedTicket)).Draw(t, "v")}
		if rapid.IntRange(0, 9).Draw(t, "ow") < 3 {
			kvs[i].Live = rapid.IntRange(0, 1<<20).Draw(t, "live")
		}
	}
	return kvs
}

func genScript(t *rapid.T) script {
	s := script{Shift: rapid.SampledFrom([]int64{0, 7, 1000000}).Draw(t, "shift"), Driver: rapid.IntRange(0, 31).Draw(t, "driver")}
	maxKV := lib.Pick(60, 120)
	parent := func() int {
		if rapid.IntRange(0, 1).Draw(t, "tip") == 0 {
			return rapid.IntRange(0, 1<<20).Draw(t, "parent") // any earlier committed root
		}
		return -1
	}
	// rounds of [unrelated pending updates, some of them committed / rolled back / left pending, reads] + one batch
	nb := rapid.IntRange(2, lib.Pick(8, 14)).Draw(t, "batches")
	for b := 0; b <= nb; b++ {
		for k := rapid.IntRange(0, 3).Draw(t, "noise"); k > 0; k-- {
			switch kind := rapid.SampledFrom([]string{"nmemset", "nmemset", "nmemset", "nset", "nread"}).Draw(t, "nkind"); kind {
			case "nmemset":
				s.Ops = append(s.Ops, op{Op: kind, Parent: parent(), KVs: genKVs(t, maxKV)})
				if fate := rapid.SampledFrom([]string{"nrollback", "nrollback", "ncommit", ""}).Draw(t, "fate"); fate != "" {
					s.Ops = append(s.Ops, op{Op: fate, Pend: rapid.IntRange(0, 1<<20).Draw(t, "pend")}) // any pending update, not only the newest
				}
			case "nset":
				s.Ops = append(s.Ops, op{Op: kind, Parent: parent(), KVs: genKVs(t, maxKV)})
			case "nread":
				s.Ops = append(s.Ops, op{Op: kind, Parent: parent()})
			}
		}
		if b < nb {
			s.Ops = append(s.Ops, op{Op: "batch", Parent: parent(), KVs: genKVs(t, maxKV), MemSet: rapid.Bool().Draw(t, "memset")})
		}
	}
	return s
}

// ---------------------------------------------------------------- resolved script: concrete writes per batch

type mainBatch struct {
	parent int // index into main roots (0 = empty state)
	kvs    []*types.KeyValue
}

type resolved struct {
	batches   []mainBatch       // in script order
	noise     map[int][]noiseOp // noise ops to run before main batch i (key len(batches) = after the last)
	nonTip    int
	overwrite int
	rollbacks int // noise rollbacks that find a pending update to discard
	ncommits  int // noise commits that find a pending update to commit
}

type noiseOp struct {
	kind   string
	parent int
	kvs    []*types.KeyValue
	pend   int
}

func sortedKeys(m map[string]bool) []string {
	ks := make([]string, 0, len(m))
	for k := range m {
		ks = append(ks, k)
	}
	sort.Strings(ks)
	return ks
}

// resolve turns indices into concrete parents and keys using key-set bookkeeping only (no store involved), so that
// every variant and configuration executes exactly the same writes.
func resolve(s script) resolved {
	r := resolved{noise: map[int][]noiseOp{}}
	keysets := []map[string]bool{{}} // per main root
	pick := func(p int) int {
		if p < 0 {
			return len(keysets) - 1
		}
		return p % len(keysets)
	}
	concrete := func(pi int, specs []kvSpec) []*types.KeyValue {
		live := sortedKeys(keysets[pi])
		out := make([]*types.KeyValue, len(specs))
		for i, sp := range specs {
			k := []byte(sp.K)
			if sp.Live >= 0 && len(live) > 0 {
				k = []byte(live[sp.Live%len(live)])
			}
			out[i] = &types.KeyValue{Key: append([]byte{}, k...), Value: append([]byte{}, sp.V...)}
		}
		return out
	}
	pending := 0
	for _, o := range s.Ops {
		at := len(r.batches)
		switch o.Op {
		case "batch":
			pi := pick(o.Parent)
			kvs := concrete(pi, o.KVs)
			next := map[string]bool{}
			for k := range keysets[pi] {
				next[k] = true
			}
			for _, kv := range kvs {
				if keysets[pi][string(kv.Key)] {
					r.overwrite++
				}
				next[string(kv.Key)] = true
			}
			if pi != len(keysets)-1 {
				r.nonTip++
			}
			keysets = append(keysets, next)
			r.batches = append(r.batches, mainBatch{pi, kvs})
		case "nmemset", "nset":
			pi := pick(o.Parent)
			r.noise[at] = append(r.noise[at], noiseOp{kind: o.Op, parent: pi, kvs: concrete(pi, o.KVs)})
			if o.Op == "nmemset" {
				pending++
			}
		case "nread":
			r.noise[at] = append(r.noise[at], noiseOp{kind: o.Op, parent: pick(o.Parent)})
		default:
			r.noise[at] = append(r.noise[at], noiseOp{kind: o.Op, pend: o.Pend})
			if pending > 0 {
				pending--
				if o.Op == "nrollback" {
					r.rollbacks++
				} else {
					r.ncommits++
				}
			}
		}
	}
	return r
}

// ---------------------------------------------------------------- execution under one configuration

// The mavl package keeps process-global node caches (memTree, tkCloseCache).  InitGlobalMem creates them only when
// nil, so they are released before every store is created: a store must never see nodes cached on behalf of another
// database / key layout (that would be a harness artefact: a process has one store).
func openStore(c storeCfg, driver, dir string) *mavl.Store {
	mavldb.ReleaseGlobalMem()
	sub, _ := json.Marshal(map[string]interface{}{
		"enableMavlPrefix": c.Prefix, "enableMVCC": c.MVCC, "enableMavlPrune": c.Prune, "pruneHeight": 1 << 30, // never prunes
		"enableMemTree": c.MemTree, "enableMemVal": c.MemVal, "tkCloseCacheLen": 4,
	})
	return mavl.New(&types.Store{Name: "mavl", Driver: driver, DbPath: dir, DbCache: 16}, sub, nil).(*mavl.Store)
}

type runOut struct {
	Roots [][]byte `json:"roots"` // per main batch: cold run without noise
	Noisy [][]byte `json:"noisy"` // per main batch: second store, other routes, noise, shifted heights
	Warm  [][]byte `json:"warm"`  // per main batch: replayed on the second store once more
	Err   string   `json:"err,omitempty"`
	// Tolerated names the known finding whose exact signature stopped the second store's runs (only when it is listed)
	Tolerated string `json:"tolerated,omitempty"`
}

// replay commits the main batches on st and returns their roots.  flip selects the opposite route per batch.
func replay(st *mavl.Store, s script, r resolved, flip, noise bool, shift int64) ([][]byte, error) {
	roots := [][]byte{make([]byte, 32)} // main roots, [0] = empty state
	heights := []int64{0}
	var pending [][]byte
	var out [][]byte
	bi := 0
	runNoise := func(at int) {
		for _, n := range r.noise[at] {
			switch n.kind {
			case "nmemset":
				if h, err := st.MemSet(&types.StoreSet{StateHash: roots[n.parent], KV: n.kvs, Height: heights[n.parent] + 1 + shift}, false); err == nil {
					pending = append(pending, h)
				}
			case "nset":
				_, _ = st.Set(&types.StoreSet{StateHash: roots[n.parent], KV: n.kvs, Height: heights[n.parent] + 1 + shift}, false)
			case "ncommit", "nrollback": // results of noise are not asserted (a pending root may coincide with a main one)
				if len(pending) == 0 {
					continue
				}
				i := n.pend % len(pending)
				if n.kind == "ncommit" {
					_, _ = st.Commit(&types.ReqHash{Hash: pending[i]})
				} else {
					_, _ = st.Rollback(&types.ReqHash{Hash: pending[i]})
				}
				pending = append(pending[:i], pending[i+1:]...)
			case "nread":
				st.Get(&types.StoreGet{StateHash: roots[n.parent], Keys: [][]byte{[]byte("a"), {}, {0xff}, []byte("mavl-coins-bty-1")}})
				cnt := 0
				st.IterateRangeByStateHash(roots[n.parent], nil, nil, true, func(k, v []byte) bool { cnt++; return cnt > 50 })
			}
		}
	}
	for _, o := range s.Ops {
		if o.Op != "batch" {
			continue
		}
		if noise {
			runNoise(bi)
		}
		b := r.batches[bi]
		set := &types.StoreSet{StateHash: roots[b.parent], KV: b.kvs, Height: heights[b.parent] + 1 + shift}
		var root []byte
		var err error
		if o.MemSet != flip {
			root, err = st.MemSet(set, false)
			if err == nil {
				var h2 []byte
				h2, err = st.Commit(&types.ReqHash{Hash: root})
				if err == nil && !bytes.Equal(h2, root) {
					err = fmt.Errorf("Commit(%x) returned %x", root, h2)
				}
			}
		} else {
			root, err = st.Set(set, false)
		}
		if err != nil {
			return out, fmt.Errorf("batch %d on committed root %x: %v", bi, roots[b.parent], err)
		}
		out = append(out, root)
		roots = append(roots, root)
		heights = append(heights, heights[b.parent]+1)
		bi++
	}
	if noise {
		runNoise(bi)
	}
	return out, nil
}

// ---- known finding C02-memtree-pending-poison (see TestKnown_MemTreePendingPoison for the mechanism)

const knownPoison = "C02-memtree-pending-poison"

var missingNodeRe = regexp.MustCompile(`(?:left|right) hash 0x([0-9a-f]+) ErrNodeNotExist`)

// safeReplay is replay with a panic inside the store turned into a message (the store is abandoned afterwards; the
// panics of interest are raised by getLeftNode/getRightNode after nodeDB.GetNode has released its mutex).
func safeReplay(st *mavl.Store, s script, r resolved, flip, noise bool, shift int64) (roots [][]byte, err error, panicMsg string) {
	defer func() {
		if e := recover(); e != nil {
			stack := debug.Stack()
			if len(stack) > 1500 {
				stack = stack[:1500]
			}
			panicMsg = fmt.Sprintf("%v\n%s", e, stack)
		}
	}()
	roots, err = replay(st, s, r, flip, noise, shift)
	return
}

// poisonSignature is the exact signature of the known finding: key-prefix + node-cache configuration; the store has
// executed at least one unrelated pending MemSet; the store panics with ErrNodeNotExist for a height-prefixed node key
// that is absent from the database while a committed node with the same 32-byte content hash exists under another key
// (the committed twin whose parent was shadowed in the cache by the uncommitted tree's variant).
func poisonSignature(c storeCfg, st *mavl.Store, hasPending bool, panicMsg string) bool {
	if !(c.Prefix || c.Prune) || !c.MemTree || !hasPending {
		return false
	}
	m := missingNodeRe.FindStringSubmatch(panicMsg)
	if m == nil {
		return false
	}
	key, err := hex.DecodeString(m[1])
	if err != nil || len(key) <= 32 {
		return false
	}
	db := st.GetDB()
	if v, _ := db.Get(key); len(v) > 0 {
		return false
	}
	raw := key[len(key)-32:]
	if v, _ := db.Get(raw); len(v) > 0 { // twin stored without prefix (it once was a root)
		return true
	}
	it := db.Iterator(key[:5], nil, false) // "_mb_-" or "_mh_-"
	defer it.Close()
	for it.Rewind(); it.Valid(); it.Next() {
		if bytes.HasSuffix(it.Key(), raw) && !bytes.Equal(it.Key(), key) {
			return true
		}
	}
	return false
}

func runConfig(c storeCfg, driver string, s script, r resolved) (o runOut) {
	dir, err := os.MkdirTemp("", "c02-")
	if err != nil {
		lib.Inconclusive("tempdir: %v", err)
	}
	defer os.RemoveAll(dir)
	var pm string
	st := openStore(c, driver, dir+"/a")
	o.Roots, err, pm = safeReplay(st, s, r, false, false, 0)
	st.Close()
	if err != nil || pm != "" {
		o.Err = fmt.Sprintf("cold: %v %s", err, pm)
		return
	}
	st = openStore(c, driver, dir+"/b")
	defer func() { st.Close(); mavldb.ReleaseGlobalMem() }()
	hasPending := false
	for _, op := range s.Ops {
		hasPending = hasPending || op.Op == "nmemset"
	}
	for _, v := range []struct {
		name        string
		dst         *[][]byte
		flip, noise bool
		shift       int64
	}{{"noisy", &o.Noisy, true, true, s.Shift}, {"warm", &o.Warm, false, false, 0}} {
		*v.dst, err, pm = safeReplay(st, s, r, v.flip, v.noise, v.shift)
		if pm != "" && lib.Known(knownPoison) && poisonSignature(c, st, hasPending, pm) {
			o.Tolerated = knownPoison
			return
		}
		if err != nil || pm != "" {
			o.Err = fmt.Sprintf("%s: %v %s", v.name, err, pm)
			return
		}
	}
	return
}

// reference: a plain in-memory tree (no database, no configuration) fed every write on the path from the empty
// state to the batch, in order.  Intermediate hashing/saving does not alter the shape, so its root must be the
// root the store reports.
func reference(r resolved) [][]byte {
	out := make([][]byte, len(r.batches))
	for i := range r.batches {
		var chain []int
		for j := i; ; j = r.batches[j].parent - 1 {
			chain = append(chain, j)
			if r.batches[j].parent == 0 {
				break
			}
		}
		tr := mavldb.NewTree(nil, true, nil)
		for k := len(chain) - 1; k >= 0; k-- {
			for _, kv := range r.batches[chain[k]].kvs {
				tr.Set(kv.Key, kv.Value)
			}
		}
		out[i] = tr.Hash()
	}
	return out
}

// ---------------------------------------------------------------- isolated child process (one configuration per process)

type childIn struct {
	Cfg    storeCfg `json:"cfg"`
	Driver string   `json:"driver"`
	Script script   `json:"script"`
}

// TestChildC02 is the subprocess body: it runs one configuration in a process that has never touched another one.
func TestChildC02(t *testing.T) {
	in, outPath := os.Getenv("C02_CHILD_IN"), os.Getenv("C02_CHILD_OUT")
	if in == "" {
		t.Skip("subprocess helper")
	}
	var ci childIn
	b, err := os.ReadFile(in)
	if err == nil {
		err = json.Unmarshal(b, &ci)
	}
	if err != nil {
		fmt.Println("VERIF-INCONCLUSIVE child input:", err)
		os.Exit(3)
	}
	o := runConfig(ci.Cfg, ci.Driver, ci.Script, resolve(ci.Script))
	ob, _ := json.Marshal(o)
	if err := os.WriteFile(outPath, ob, 0o644); err != nil {
		fmt.Println("VERIF-INCONCLUSIVE child output:", err)
		os.Exit(3)
	}
}

func runChild(c storeCfg, driver string, s script) (runOut, string) {
	dir, err := os.MkdirTemp("", "c02child-")
	if err != nil {
		lib.Inconclusive("tempdir: %v", err)
	}
	defer os.RemoveAll(dir)
	b, _ := json.Marshal(childIn{c, driver, s})
	if err := os.WriteFile(dir+"/in.json", b, 0o644); err != nil {
		lib.Inconclusive("child input: %v", err)
	}
	cmd := exec.Command(os.Args[0], "-test.run", "^TestChildC02$", "-test.timeout", "600s")
	cmd.Env = append(os.Environ(), "C02_CHILD_IN="+dir+"/in.json", "C02_CHILD_OUT="+dir+"/out.json", "VERIF_STATS=", "VERIF_REPLAY_OUT=")
	done := make(chan struct{})
	var outb []byte
	go func() { outb, err = cmd.CombinedOutput(); close(done) }()
	select {
	case <-done:
	case <-time.After(660 * time.Second): // watchdog: never a verdict
		_ = cmd.Process.Kill()
		lib.Inconclusive("child process did not finish in 660s")
	}
	var o runOut
	ob, rerr := os.ReadFile(dir + "/out.json")
	if rerr != nil || json.Unmarshal(ob, &o) != nil {
		if bytes.Contains(outb, []byte("VERIF-INCONCLUSIVE")) || bytes.Contains(outb, []byte("test timed out")) || !bytes.Contains(outb, []byte("panic")) {
			lib.Inconclusive("child produced no result: %v: %s", err, tail(outb))
		}
		return o, "child process crashed: " + tail(outb)
	}
	return o, ""
}

func tail(b []byte) string {
	if len(b) > 1500 {
		b = b[len(b)-1500:]
	}
	return string(b)
}

// ---------------------------------------------------------------- the property

func firstDiff(a, b [][]byte) int {
	for i := range a {
		if i >= len(b) || !bytes.Equal(a[i], b[i]) {
			return i
		}
	}
	if len(b) > len(a) {
		return len(a)
	}
	return -1
}

func checkScript(t lib.TB, s script, childCfgs []int) {
	r := resolve(s)
	if len(r.batches) == 0 {
		return
	}
	ref := reference(r)
	cfgs := configs()
	fail := func(c storeCfg, format string, a ...interface{}) {
		lib.Violation(t, prop, "TestPropRootDeterminism", map[string]interface{}{"script": s, "config": c.String()}, "config %s: %s", c, fmt.Sprintf(format, a...))
	}
	compare := func(c storeCfg, o runOut, where string) {
		if o.Err != "" {
			fail(c, "%s%s", where, o.Err)
		}
		for _, v := range []struct {
			name  string
			roots [][]byte
		}{{"cold store, no noise", o.Roots}, {"other route + unrelated updates + height shift", o.Noisy}, {"warm store replay", o.Warm}} {
			if o.Tolerated != "" && v.name != "cold store, no noise" {
				break // the second store hit the listed known finding: its runs stopped there
			}
			if i := firstDiff(ref, v.roots); i >= 0 {
				var got []byte
				if i < len(v.roots) {
					got = v.roots[i]
				}
				fail(c, "%s%s: batch %d (parent main root #%d, %d writes) has root %x, the in-memory reference tree and the other runs have %x",
					where, v.name, i, r.batches[i].parent, len(r.batches[i].kvs), got, ref[i])
			}
		}
	}
	for ci, c := range cfgs {
		driver := "memdb"
		if ci == s.Driver%len(cfgs) || c.Prune { // GoMemDB batches fail on deleting absent keys (prune bookkeeping): leveldb there
			driver = "leveldb"
			lib.Class("leveldb_run")
		}
		lib.Eval()
		o := runConfig(c, driver, s, r)
		if o.Tolerated != "" {
			lib.ExcludedKnown(o.Tolerated)
		}
		compare(c, o, "")
		for _, cc := range childCfgs {
			if cc%len(cfgs) == ci {
				o, crash := runChild(c, driver, s)
				if crash != "" {
					fail(c, "isolated process: %s", crash)
				}
				compare(c, o, "isolated process: ")
				lib.Class("isolated_process_run")
			}
		}
	}
	cls := func(cond bool, l string) {
		if cond {
			lib.Class(l)
		}
	}
	rolled := r.rollbacks > 0
	cls(rolled, "noise_rollback")
	cls(r.ncommits > 0, "noise_commit")
	cls(r.nonTip > 0, "non_tip_parent")
	cls(r.overwrite > 0, "overwrite")
	cls(s.Shift != 0, "height_shift")
	cls(len(r.batches) >= 4, "batches>=4")
	// non-trivial: replayed under configurations that differ in memTree (always: the list contains both), with >= 1
	// rolled-back unrelated pending update and >= 1 batch applied to a non-tip parent
	if rolled && r.nonTip > 0 {
		lib.NonTrivialCase(s)
	}
}

func TestPropRootDeterminism(t *testing.T) {
	defer lib.Flush()
	rapid.Check(t, func(t *rapid.T) {
		s := genScript(t)
		var child []int
		// thorough: two configurations per script additionally run alone in a fresh process; quick: one, for 1 script in 8
		if lib.Thorough() {
			child = []int{rapid.IntRange(0, 31).Draw(t, "child1"), rapid.IntRange(0, 31).Draw(t, "child2")}
		} else if rapid.IntRange(0, 7).Draw(t, "childq") == 0 {
			child = []int{rapid.IntRange(0, 31).Draw(t, "child1")}
		}
		checkScript(t, s, child)
	})
}

// ---------------------------------------------------------------- pinned known finding

func kvs(p ...string) []*types.KeyValue {
	var out []*types.KeyValue
	for i := 0; i+1 < len(p); i += 2 {
		out = append(out, &types.KeyValue{Key: []byte(p[i]), Value: []byte(p[i+1])})
	}
	return out
}

// TestKnown_MemTreePendingPoison: with key prefixing and the node cache enabled, unrelated updates that were only
// computed (MemSet) and rolled back make a committed root unusable.  Mechanism: Tree.Hash() publishes the nodes of the
// uncommitted tree in the process-global memTree, keyed by the hash of the height-prefixed node hash; an inner node's
// hash covers only the last 32 bytes of its children's hashes, so a pending tree that re-creates a leaf with unchanged
// content (k rewritten with its old value) yields an inner node with the same key as the committed tree's node but
// pointing at the leaf key of the pending height, which is never written.  TreeMap.Add toggles (a second Add of a key
// deletes it, a third re-inserts), Rollback removes nothing, and GetNode prefers the cache to the database.
// Oracle (property text): applying writes to the committed root yields the same root whatever other updates were
// computed, committed or rolled back earlier in the process (here: the root of the in-memory reference tree).
func TestKnown_MemTreePendingPoison(t *testing.T) {
	defer lib.Flush()
	zero := make([]byte, 32)
	ref := func(order ...string) []byte {
		tr := mavldb.NewTree(nil, true, nil)
		for _, kv := range kvs(order...) {
			tr.Set(kv.Key, kv.Value)
		}
		return tr.Hash()
	}
	wantNext := ref("a", "1", "k", "2", "z", "3", "x", "4", "k", "5", "a", "7")
	histories := map[string]func(st *mavl.Store) []byte{
		// what block execution does: three candidate updates of one parent at one height, one committed, two rolled back
		"memset-only": func(st *mavl.Store) []byte {
			p, _ := st.MemSet(&types.StoreSet{StateHash: zero, KV: kvs("a", "1", "k", "2", "z", "3"), Height: 1}, false)
			_, _ = st.Commit(&types.ReqHash{Hash: p})
			a, _ := st.MemSet(&types.StoreSet{StateHash: p, KV: kvs("x", "4"), Height: 2}, false)
			_, _ = st.Commit(&types.ReqHash{Hash: a})
			for _, extra := range []string{"y", "y2"} {
				b, _ := st.MemSet(&types.StoreSet{StateHash: p, KV: kvs("k", "2", "x", "4", extra, "9"), Height: 2}, false)
				_, _ = st.Rollback(&types.ReqHash{Hash: b})
			}
			return a
		},
		// one rolled-back pending update, then the one-step route
		"memset-rollback-then-set": func(st *mavl.Store) []byte {
			p, _ := st.Set(&types.StoreSet{StateHash: zero, KV: kvs("a", "1", "k", "2", "z", "3"), Height: 1}, false)
			b, _ := st.MemSet(&types.StoreSet{StateHash: p, KV: kvs("k", "2", "x", "4"), Height: 2}, false)
			_, _ = st.Rollback(&types.ReqHash{Hash: b})
			a, _ := st.Set(&types.StoreSet{StateHash: p, KV: kvs("x", "4"), Height: 2}, false)
			return a
		},
	}
	var failed []string
	for _, name := range []string{"memset-only", "memset-rollback-then-set"} {
		for _, c := range []storeCfg{{Prefix: true, MemTree: true}, {Prefix: true, MemTree: true, MemVal: true}} {
			func() {
				st := openStore(c, "memdb", "")
				defer func() {
					if e := recover(); e != nil {
						failed = append(failed, strings.TrimSpace(fmt.Sprintf("%s/%s: panic %.160v", name, c, e)))
					}
					st.Close()
					mavldb.ReleaseGlobalMem()
				}()
				a := histories[name](st)
				next, err := st.MemSet(&types.StoreSet{StateHash: a, KV: kvs("k", "5", "a", "7"), Height: 3}, false)
				if err != nil || !bytes.Equal(next, wantNext) {
					failed = append(failed, fmt.Sprintf("%s/%s: root %x err %v, reference %x", name, c, next, err, wantNext))
				}
			}()
		}
	}
	if len(failed) > 0 {
		lib.KnownOrViolation(t, prop, "TestKnown_MemTreePendingPoison", knownPoison, map[string]interface{}{"failed": failed},
			"enableMavlPrefix+enableMemTree: after unrelated MemSets that were rolled back, writes to / reads of a committed root panic with ErrNodeNotExist (node cache poisoned by uncommitted trees): "+fmt.Sprint(failed))
	}
}
