// Package c13 holds the execution core of check C13 (block execution is deterministic).  The same code runs inside
// the helper binary cmd/c13_exec (fresh child processes with different GOMAXPROCS / CPU masks, and a "warm" child that
// first does unrelated work) and inside the long-running test process itself; the test compares the digests byte for byte.
//
// Nothing in this file draws randomness or reads the clock for a value that ends up in a digest: the genesis block comes
// from the fixed default configuration (genesisBlockTime, genesis address), block times are parent+1, and the
// transactions arrive fully signed and serialized in the case file.
package c13

import (
	"bytes"
	"crypto/sha256"
	"encoding/binary"
	"encoding/hex"
	"encoding/json"
	"fmt"
	"os"
	"sort"
	"strings"
	"sync"

	dbm "github.com/33cn/chain33/common/db"
	"github.com/33cn/chain33/common/log/log15"
	"github.com/33cn/chain33/queue"
	_ "github.com/33cn/chain33/system" // registers drivers, consensus, store, crypto
	drivers "github.com/33cn/chain33/system/dapp"
	"github.com/33cn/chain33/types"
	"github.com/33cn/chain33/util"
	"github.com/33cn/chain33/util/testnode"
)

// Variant is the node configuration of a case (the "configurations" part of the property's quantifier).
type Variant struct {
	Stat    bool `json:"stat"`    // exec.enableStat: the "stat" plugin
	AddrFee bool `json:"addrfee"` // exec.enableAddrFeeIndex: the "addrfeeindex" plugin
	Free    bool `json:"free"`    // minimum fee rate 0, as testnode.New("--free--")
	// system forks moved from height 0 to a height the block list crosses (cfg.SetFork, the repo's own test hook), so
	// that height-gated decisions change between the blocks of a case
	Forks map[string]int64 `json:"forks,omitempty"`
}

// GatedDapps are synthetic dapps registered the way an external plugin registers itself
// (drivers.Register(cfg, name, create, enableHeight)) with an enable height above 0: below it the executor runs their
// transactions with the none driver, from it on with the real driver.
// PanicPayload: gated-dapp transactions whose payload starts with it panic inside Exec (nil-map write).
var PanicPayload = []byte("PANIC")

var GatedDapps = map[string]int64{"c13gate2": 2, "c13gate3": 3}

type gatedApp struct {
	*drivers.DriverBase
	name string
}

func (g *gatedApp) GetDriverName() string { return g.name }

// Exec is state dependent (a per-dapp counter) and writes a per-transaction key and a log.
func (g *gatedApp) Exec(tx *types.Transaction, index int) (*types.Receipt, error) {
	if bytes.HasPrefix(tx.Payload, PanicPayload) {
		// a contract bug: the executor recovers it and packs the transaction with an error receipt, which must be the
		// same bytes on every execution
		var m map[string]int
		m[g.name] = index
	}
	ckey := []byte("mavl-" + g.name + "-count")
	var count types.Int64
	if v, err := g.GetStateDB().Get(ckey); err == nil {
		if err := types.Decode(v, &count); err != nil {
			return nil, err
		}
	}
	count.Data++
	return &types.Receipt{Ty: types.ExecOk,
		KV: []*types.KeyValue{{Key: ckey, Value: types.Encode(&count)},
			{Key: []byte("mavl-" + g.name + "-tx-" + hex.EncodeToString(tx.Hash())), Value: append([]byte{1}, tx.Payload...)}},
		Logs: []*types.ReceiptLog{{Ty: 9913, Log: types.Encode(&count)}}}, nil
}

func (g *gatedApp) localKey(tx *types.Transaction) []byte {
	return []byte("LODB-" + g.name + "-" + hex.EncodeToString(tx.Hash()))
}

func (g *gatedApp) ExecLocal(tx *types.Transaction, r *types.ReceiptData, index int) (*types.LocalDBSet, error) {
	if r.GetTy() != types.ExecOk {
		return &types.LocalDBSet{}, nil
	}
	return &types.LocalDBSet{KV: []*types.KeyValue{{Key: g.localKey(tx), Value: r.Logs[len(r.Logs)-1].Log}}}, nil
}

func (g *gatedApp) ExecDelLocal(tx *types.Transaction, r *types.ReceiptData, index int) (*types.LocalDBSet, error) {
	if r.GetTy() != types.ExecOk {
		return &types.LocalDBSet{}, nil
	}
	return &types.LocalDBSet{KV: []*types.KeyValue{{Key: g.localKey(tx)}}}, nil
}

var gatedOnce sync.Once

// registerGated fills the process-global driver registry once per process (it is keyed by name only).
func registerGated(cfg *types.Chain33Config) {
	gatedOnce.Do(func() {
		names := make([]string, 0, len(GatedDapps))
		for name := range GatedDapps {
			names = append(names, name)
		}
		sort.Strings(names)
		for _, name := range names {
			name, h := name, GatedDapps[name]
			drivers.Register(cfg, name, func() drivers.Driver {
				app := &gatedApp{DriverBase: &drivers.DriverBase{}, name: name}
				app.SetChild(app)
				return app
			}, h)
			types.AllowUserExec = append(types.AllowUserExec, []byte(name))
		}
	})
}

// CaseFile is what the parent writes under $VERIF_WORK and every execution reads.
type CaseFile struct {
	Cfg    Variant    `json:"cfg"`
	Blocks [][]string `json:"blocks"` // per block: hex(types.Encode(signed tx)), chained on the genesis block
	Warm   [][]string `json:"warm"`   // unrelated blocks executed first by a "warm" execution
}

// BlockDigest is everything observable the property speaks about, for one block.
type BlockDigest struct {
	Raw     string `json:"raw"`      // EventExecTxList reply: sha256 of the encoded receipts (incl. KV and error receipts)
	Err     string `json:"err"`      // error of util.ExecBlock(errReturn=false), "" when ok
	Rcpt    string `json:"rcpt"`     // receipts kept in the block detail
	KV      string `json:"kv"`       // state write set after DelDupKey, in order
	Root    string `json:"root"`     // state root
	TxHash  string `json:"txhash"`   // merkle root of the kept transactions
	Hash    string `json:"hash"`     // block hash
	DelTx   string `json:"deltx"`    // hashes of dropped transactions, in order
	Add     string `json:"add"`      // EventAddBlock local KV set, in order (or error text)
	Del     string `json:"del"`      // EventDelBlock local KV set, in order (or error text)
	VErr    string `json:"verr"`     // verifier path: util.PreExecBlock(errReturn=true) on the produced block
	VRcpt   string `json:"vrcpt"`    //   its receipts
	VKV     string `json:"vkv"`      //   its state write set
	VRoot   string `json:"vroot"`    //   its state root
	AddSet  string `json:"add_set"`  // order-insensitive digest of Add (diagnosis only: tells reordering from content change)
	Counts  Counts `json:"counts"`   // shape of what was executed (for the non-triviality rule; also compared)
	NTxKept int    `json:"ntx_kept"` //
}

// Counts describes the executed block; the parent derives classes and the non-triviality verdict from it.
type Counts struct {
	NTx       int `json:"ntx"`
	Ok        int `json:"ok"`         // receipts ExecOk
	Pack      int `json:"pack"`       // receipts ExecPack (fee paid, nothing else done: none transactions and failures)
	Failed    int `json:"failed"`     // receipts ExecPack carrying an error log: failed after paying the fee
	GroupOk   int `json:"group_ok"`   // group members with an ExecOk receipt
	Dropped   int `json:"dropped"`    // receipts ExecErr (removed from the block)
	GroupTx   int `json:"group_tx"`   // transactions that are part of a group
	MaxWriter int `json:"max_writer"` // max number of transactions writing one state key
	DupKeys   int `json:"dup_keys"`   // keys collapsed by DelDupKey
	LocalAdd  int `json:"local_add"`  // number of local KVs of EventAddBlock
	GatedTx   int `json:"gated_tx"`   // transactions naming a gated dapp
	GatedOk   int `json:"gated_ok"`   // ... that were executed by the dapp's own driver (ExecOk)
}

// Result is one execution of a case.
type Result struct {
	Genesis string        `json:"genesis"` // genesis block hash and state root
	Blocks  []BlockDigest `json:"blocks"`
}

// Fixture marks problems of the harness fixture (as opposed to behaviour of the code under test).
type Fixture struct{ Msg string }

func (f Fixture) Error() string { return f.Msg }

func fixturef(format string, a ...interface{}) { panic(Fixture{fmt.Sprintf(format, a...)}) }

// Silence turns chain33 logging down; call once per process.
func Silence() { log15.Root().SetHandler(log15.DiscardHandler()) }

func cfgString(v Variant) string {
	s := types.GetDefaultCfgstring()
	rep := func(old, new string) {
		if strings.Count(s, old) != 1 {
			fixturef("default config: %q occurs %d times", old, strings.Count(s, old))
		}
		s = strings.Replace(s, old, new, 1)
	}
	if v.Stat {
		rep("[exec]\nenableStat=false", "[exec]\nenableStat=true")
	}
	if v.AddrFee {
		rep("[exec]\n", "[exec]\nenableAddrFeeIndex=true\n")
	}
	return s
}

// NewConfig builds the chain configuration of a variant (also used by the parent's generator for chain id / fee rate).
func NewConfig(v Variant) *types.Chain33Config {
	cfg := types.NewChain33Config(cfgString(v))
	if v.Free {
		cfg.GetModuleConfig().Mempool.MinTxFeeRate = 0
		cfg.GetModuleConfig().Wallet.MinFee = 0
		cfg.SetMinFee(0)
	}
	for name, h := range v.Forks {
		cfg.SetFork(name, h)
	}
	return cfg
}

func newNode(v Variant) *testnode.Chain33Mock {
	cfg := NewConfig(v)
	registerGated(cfg)
	mock := testnode.NewWithConfig(cfg, nil)
	if mock == nil {
		fixturef("testnode did not start")
	}
	if err := mock.WaitHeightTimeout(0, 60); err != nil {
		mock.Close()
		fixturef("no genesis block: %v", err)
	}
	Silence()
	return mock
}

func decodeTxs(hexes []string) []*types.Transaction {
	txs := make([]*types.Transaction, len(hexes))
	for i, h := range hexes {
		b, err := hex.DecodeString(h)
		if err != nil {
			fixturef("case file: tx %d: %v", i, err)
		}
		tx := &types.Transaction{}
		if err := types.Decode(b, tx); err != nil {
			fixturef("case file: tx %d: %v", i, err)
		}
		txs[i] = tx
	}
	return txs
}

func digestParts(parts ...[]byte) string {
	h := sha256.New()
	var l [8]byte
	for _, p := range parts {
		binary.LittleEndian.PutUint64(l[:], uint64(len(p)))
		h.Write(l[:])
		h.Write(p)
	}
	return hex.EncodeToString(h.Sum(nil))
}

func digestKVs(kvs []*types.KeyValue) string {
	parts := make([][]byte, 0, 2*len(kvs)+1)
	for _, kv := range kvs {
		// a nil value (delete) and an empty value are different writes
		tag := []byte{1}
		if kv.Value == nil {
			tag = []byte{0}
		}
		parts = append(parts, kv.Key, append(tag, kv.Value...))
	}
	return digestParts(parts...)
}

func digestSet(kvs []*types.KeyValue) string {
	last := map[string]string{}
	for _, kv := range kvs {
		last[string(kv.Key)] = fmt.Sprintf("%v:%x", kv.Value == nil, kv.Value)
	}
	b, _ := json.Marshal(last) // encoding/json sorts map keys
	return digestParts(b)
}

func digestReceiptData(rs []*types.ReceiptData) string {
	parts := make([][]byte, len(rs))
	for i, r := range rs {
		parts[i] = types.Encode(r)
	}
	return digestParts(parts...)
}

// sendExecs sends a block detail to the executor module exactly as blockchain's getLocalKV / getDelLocalKV do.
func sendExecs(client queue.Client, ty int64, detail *types.BlockDetail) (kvs []*types.KeyValue, errText string) {
	msg := client.NewMessage("execs", ty, detail)
	if err := client.Send(msg, true); err != nil {
		return nil, "send: " + err.Error()
	}
	resp, err := client.Wait(msg)
	if err != nil {
		return nil, "wait: " + err.Error()
	}
	switch d := resp.GetData().(type) {
	case *types.LocalDBSet:
		return d.KV, ""
	case error:
		return nil, "reply: " + d.Error()
	default:
		return nil, fmt.Sprintf("reply of type %T", d)
	}
}

// rawReceipts performs the EventExecTxList round trip of util.ExecTx but tolerates an error reply.
func rawReceipts(client queue.Client, prevRoot []byte, block *types.Block) (*types.Receipts, string) {
	list := &types.ExecTxList{StateHash: prevRoot, ParentHash: block.ParentHash, MainHash: block.MainHash, MainHeight: block.MainHeight,
		Txs: block.Txs, BlockTime: block.BlockTime, Height: block.Height, Difficulty: uint64(block.Difficulty)}
	msg := client.NewMessage("execs", types.EventExecTxList, list)
	if err := client.Send(msg, true); err != nil {
		return nil, "send: " + err.Error()
	}
	resp, err := client.Wait(msg)
	if err != nil {
		return nil, "wait: " + err.Error()
	}
	switch d := resp.GetData().(type) {
	case *types.Receipts:
		return d, ""
	case error:
		return nil, "reply: " + d.Error()
	default:
		return nil, fmt.Sprintf("reply of type %T", d)
	}
}

// mempoolCheck mirrors system/mempool checkTxListRemote: height, state and time of the last header, IsMempool set.
// The verdicts are ignored: this is prior activity, not an observation.
func mempoolCheck(client queue.Client, tip *types.Block, txs []*types.Transaction) {
	list := &types.ExecTxList{StateHash: tip.StateHash, BlockTime: tip.BlockTime, Height: tip.Height, IsMempool: true}
	for _, tx := range txs {
		if tx.GroupCount == 0 {
			list.Txs = append(list.Txs, tx)
		}
	}
	msg := client.NewMessage("execs", types.EventCheckTx, list)
	if err := client.Send(msg, true); err != nil {
		fixturef("EventCheckTx send: %v", err)
	}
	if _, err := client.Wait(msg); err != nil && err != types.ErrExecPanic {
		fixturef("EventCheckTx wait: %v", err)
	}
}

func applyLocal(db dbm.DB, kvs []*types.KeyValue) {
	batch := db.NewBatch(true)
	for _, kv := range kvs { // as BlockStore.AddTxs
		if kv.Value == nil {
			batch.Delete(kv.Key)
		} else {
			batch.Set(kv.Key, kv.Value)
		}
	}
	if err := batch.Write(); err != nil {
		fixturef("local db write: %v", err)
	}
}

// execChain executes the blocks one after another on top of the node's genesis block.  When connect is false the
// blocks are only executed against the state store (side-chain style): nothing is written to the local db.
// Prior activity on the same node, for executions that model a long-running process; before block i is executed,
//   - side: side[i%len] is executed and committed to the state store on the same parent, like a miner's own candidate
//     block that then loses against a received block of the same height;
//   - check: the single transactions of check[i%len] are sent to the executor as EventCheckTx at the height of the
//     current tip, exactly as the mempool does for every incoming transaction.
//
// Both carry transactions of every kind, including ones for dapps that are not enabled yet at that height.
type prior struct{ side, check [][]string }

func execChain(mock *testnode.Chain33Mock, blocks [][]string, connect bool, pr prior) []BlockDigest {
	client := mock.GetClient()
	cfg := client.GetConfig()
	parent := mock.GetBlock(0)
	var out []BlockDigest
	for i, hexes := range blocks {
		var d BlockDigest
		newBlock := func() *types.Block { return util.CreateNewBlock(cfg, parent, decodeTxs(hexes)) }
		if len(pr.side) > 0 {
			_, _, _ = util.ExecBlock(client, parent.StateHash, util.CreateNewBlock(cfg, parent, decodeTxs(pr.side[i%len(pr.side)])), false, true, false)
		}
		if len(pr.check) > 0 {
			mempoolCheck(client, parent, decodeTxs(pr.check[i%len(pr.check)]))
		}

		// (1) the executor's reply to EventExecTxList
		blk := newBlock()
		d.Counts.NTx = len(blk.Txs)
		raw, errText := rawReceipts(client, parent.StateHash, blk)
		if errText != "" {
			d.Raw = errText
		} else {
			d.Raw = digestParts(types.Encode(raw))
			writers := map[string]int{}
			for i, r := range raw.Receipts {
				if os.Getenv("C13_DEBUG") != "" { // diagnostic aid: why did each transaction end the way it did
					why := ""
					for _, l := range r.Logs {
						if l.Ty == types.TyLogErr {
							why = string(l.Log)
						}
					}
					fmt.Fprintf(os.Stderr, "C13-DEBUG tx %d exec=%s action=%s group=%d ty=%d %s\n", i, blk.Txs[i].Execer, blk.Txs[i].ActionName(), blk.Txs[i].GroupCount, r.Ty, why)
				}
				switch r.Ty {
				case types.ExecOk:
					d.Counts.Ok++
					if blk.Txs[i].GroupCount > 0 {
						d.Counts.GroupOk++
					}
				case types.ExecPack:
					d.Counts.Pack++
					for _, l := range r.Logs {
						if l.Ty == types.TyLogErr {
							d.Counts.Failed++
							break
						}
					}
				default:
					d.Counts.Dropped++
				}
				if blk.Txs[i].GroupCount > 0 {
					d.Counts.GroupTx++
				}
				if _, gated := GatedDapps[string(blk.Txs[i].Execer)]; gated {
					d.Counts.GatedTx++
					if r.Ty == types.ExecOk {
						d.Counts.GatedOk++
					}
				}
				seen := map[string]bool{}
				for _, kv := range r.KV {
					if !seen[string(kv.Key)] {
						seen[string(kv.Key)] = true
						writers[string(kv.Key)]++
					}
				}
				if r.Ty != types.ExecErr {
					d.Counts.DupKeys += len(r.KV)
				}
			}
			for _, n := range writers {
				if n > d.Counts.MaxWriter {
					d.Counts.MaxWriter = n
				}
			}
		}

		// (2) the miner path: execute, drop failing transactions, compute tx hash and state root, commit
		blk = newBlock()
		detail, deltx, err := util.ExecBlock(client, parent.StateHash, blk, false, true, false)
		if err != nil {
			d.Err = err.Error()
			out = append(out, d)
			continue // the next block is executed on the same parent
		}
		d.Rcpt = digestReceiptData(detail.Receipts)
		d.KV = digestKVs(detail.KV)
		d.Counts.DupKeys -= len(detail.KV)
		d.Root = hex.EncodeToString(detail.Block.StateHash)
		d.TxHash = hex.EncodeToString(detail.Block.TxHash)
		d.Hash = hex.EncodeToString(detail.Block.Hash(cfg))
		d.NTxKept = len(detail.Block.Txs)
		var dh [][]byte
		for _, tx := range deltx {
			dh = append(dh, tx.Hash())
		}
		d.DelTx = digestParts(dh...)

		// (3) the verifier path: what a node receiving this block does (signature pipeline, tx hash and state hash checks)
		vblk := &types.Block{}
		if err := types.Decode(types.Encode(detail.Block), vblk); err != nil {
			fixturef("block re-decode: %v", err)
		}
		vdetail, _, err := util.PreExecBlock(client, parent.StateHash, vblk, true, true, false)
		if err != nil {
			d.VErr = err.Error()
		} else {
			d.VRcpt = digestReceiptData(vdetail.Receipts)
			d.VKV = digestKVs(vdetail.KV)
			d.VRoot = hex.EncodeToString(vdetail.Block.StateHash)
		}

		if connect {
			// (4) local index write sets; the add set is written to the blockchain db before asking for the del set, as
			// a rollback of the tip would see it
			add, errText := sendExecs(client, types.EventAddBlock, detail)
			if errText != "" {
				d.Add = errText
			} else {
				d.Add = digestKVs(add)
				d.AddSet = digestSet(add)
				d.Counts.LocalAdd = len(add)
				applyLocal(mock.GetBlockChain().GetDB(), add)
			}
			del, errText := sendExecs(client, types.EventDelBlock, detail)
			if errText != "" {
				d.Del = errText
			} else {
				d.Del = digestKVs(del)
			}
		}
		out = append(out, d)
		parent = detail.Block
	}
	return out
}

// unrelatedWork is the "different prior activity" of a long-running process: a node with *all* optional plugins in the
// opposite setting connects the warm blocks and answers queries, is closed, and leaves its process-global traces
// (plugin flags, address and driver caches, sync.Pools, registered forks) behind.
func unrelatedWork(c *CaseFile) {
	v := Variant{Stat: !c.Cfg.Stat, AddrFee: !c.Cfg.AddrFee, Free: c.Cfg.Free, Forks: c.Cfg.Forks}
	mock := newNode(v)
	defer mock.Close()
	ds := execChain(mock, c.Warm, true, prior{})
	root, _ := hex.DecodeString(ds[len(ds)-1].Root)
	if len(root) > 0 {
		mock.GetAccount(root, mock.GetGenesisAddress())
		mock.GetAccount(root, mock.GetHotAddress())
	}
}

// Execution modes of Run.
const (
	ModeFresh = "fresh" // only the block list
	ModeWarm  = "warm"  // another node first, then side-chain and losing candidate blocks on the node under test
	ModeCheck = "check" // mempool-style EventCheckTx traffic on the node under test before every block
)

// Run executes a case once in this process.
func Run(c *CaseFile, mode string) (res *Result, err error) {
	defer func() {
		if r := recover(); r != nil {
			if f, ok := r.(Fixture); ok {
				err = f
				return
			}
			panic(r)
		}
	}()
	if len(c.Blocks) == 0 {
		fixturef("case without blocks")
	}
	if mode == ModeWarm {
		unrelatedWork(c)
	}
	mock := newNode(c.Cfg)
	defer mock.Close()
	var pr prior
	switch mode {
	case ModeWarm:
		// side chain from the genesis block: fills the state store and its caches with unrelated nodes
		execChain(mock, c.Warm, false, prior{})
		pr.side = c.Warm
	case ModeCheck:
		pr.check = c.Warm
	case ModeFresh:
	default:
		fixturef("unknown mode %q", mode)
	}
	g := mock.GetBlock(0)
	res = &Result{Genesis: hex.EncodeToString(g.Hash(mock.GetClient().GetConfig())) + "/" + hex.EncodeToString(g.StateHash)}
	res.Blocks = execChain(mock, c.Blocks, true, pr)
	return res, nil
}

// ReadCase loads a case file.
func ReadCase(path string) (*CaseFile, error) {
	b, err := os.ReadFile(path)
	if err != nil {
		return nil, err
	}
	c := &CaseFile{}
	if err := json.Unmarshal(b, c); err != nil {
		return nil, err
	}
	return c, nil
}
