// C13: block execution is deterministic.
//
// Oracle (differential, from the property text): "executing the same block on the same prior state produces
// byte-identical receipts, state write set, state root and local-index write set on every run, in fresh or long-running
// processes, for any CPU count and goroutine schedule".  One generated (configuration, block list) is executed
//   - in fresh child processes (helper c13_exec) under different GOMAXPROCS values and `taskset` CPU masks,
//   - in a fresh child that first did unrelated work (another node with the opposite plugin configuration connecting
//     unrelated blocks, then side-chain executions on the node under test),
//   - in this long-running test process, after all the cases it has executed before,
//
// and every execution must report the same digests (core.go: BlockDigest).  No expected value is computed by the
// harness: the only demand is equality between executions, which is exactly what the property states.
package c13

import (
	"bytes"
	"context"
	"crypto/sha256"
	"encoding/hex"
	"encoding/json"
	"fmt"
	"math/rand"
	"os"
	"os/exec"
	"path/filepath"
	"reflect"
	"runtime"
	"strconv"
	"strings"
	"sync"
	"testing"
	"time"

	"github.com/33cn/chain33/common/address"
	"github.com/33cn/chain33/common/crypto"
	"github.com/33cn/chain33/types"
	"github.com/33cn/chain33/util"
	"verifharness/lib"
)

const prop = "C13"

func TestMain(m *testing.M) { Silence(); lib.Main(m) }

// ---------------------------------------------------------------------------------------------------------------------
// generator: every choice comes from r (seeded from VERIF_SHARD_SEED and the case index)

type account struct {
	priv crypto.PrivKey
	addr string
}

var (
	accOnce  sync.Once
	accounts []account // 0 genesis (funded by the genesis block), 1 manage super manager, 2.. others
)

func pool() []account {
	accOnce.Do(func() {
		c, err := crypto.Load(types.GetSignName("", types.SECP256K1), -1)
		if err != nil {
			lib.Inconclusive("crypto.Load: %v", err)
		}
		add := func(p crypto.PrivKey) {
			accounts = append(accounts, account{p, address.PubKeyToAddr(address.DefaultID, p.PubKey().Bytes())})
		}
		add(util.TestPrivkeyList[1])
		add(util.TestPrivkeyList[0])
		for _, p := range util.TestPrivkeyList[2:] {
			add(p)
		}
		for i := 0; i < 6; i++ { // fixed, derived keys: no GenKey
			seed := sha256.Sum256([]byte(fmt.Sprintf("c13-account-%d", i)))
			p, err := c.PrivKeyFromBytes(seed[:])
			if err != nil {
				lib.Inconclusive("PrivKeyFromBytes: %v", err)
			}
			add(p)
		}
	})
	return accounts
}

type gen struct {
	r    *rand.Rand
	cfg  *types.Chain33Config
	rich map[int]bool // accounts that were sent coins by an earlier generated transaction
	desc []string     // short rendering of the generated case
}

const coin = types.DefaultCoinPrecision

// finish fills the fields FormatTx would fill, but with the nonce from r and no wall-clock expiry, then signs
// (secp256k1 signing in chain33 is RFC 6979: deterministic).
func (g *gen) finish(tx *types.Transaction, execer string, from account, lowFee bool) *types.Transaction {
	tx.Execer = []byte(execer)
	tx.Nonce = g.r.Int63()
	tx.ChainID = g.cfg.GetChainID()
	tx.Expire = 0
	if tx.To == "" {
		tx.To = address.ExecAddress(execer)
	}
	tx.Fee = 0
	fee, err := tx.GetRealFee(g.cfg.GetMinTxFeeRate())
	if err != nil {
		lib.Inconclusive("GetRealFee: %v", err)
	}
	tx.Fee = fee
	if lowFee {
		tx.Fee = fee / 2
	}
	tx.Sign(types.SECP256K1, from.priv)
	return tx
}

func (g *gen) sender() int {
	var richIdx []int
	for i := range pool() {
		if g.rich[i] {
			richIdx = append(richIdx, i)
		}
	}
	if g.r.Intn(10) < 8 {
		return richIdx[g.r.Intn(len(richIdx))]
	}
	return g.r.Intn(len(pool()))
}

// coinsTx draws a coins transaction.  safe: a small plain transfer from a funded account (used to build groups whose
// members all succeed); otherwise amounts above the total supply (ErrNoBalance after the fee), above the amount limit
// (ErrAmount), transfers to oneself, deposits to and withdrawals from executor accounts and too-low fees are mixed in.
func (g *gen) coinsTx(unsignedOnly, safe bool) (*types.Transaction, int) {
	p := pool()
	from := g.sender()
	ct := &types.CreateTx{Amount: int64(1+g.r.Intn(1000)) * coin / 1000}
	kind := g.r.Intn(100)
	if safe {
		kind = 0
		for !g.rich[from] {
			from = g.sender()
		}
	} else if k := g.r.Intn(100); k < 10 {
		ct.Amount = 3e16 // more than the total supply of 1e16
	} else if k < 13 {
		ct.Amount = 1 << 58 // more than types.MaxCoin allows
	}
	to := ""
	switch {
	case kind < 65: // plain transfer to one of few addresses, so that many transactions write the same account keys
		ti := g.r.Intn(len(p))
		for safe && ti == from {
			ti = g.r.Intn(len(p))
		}
		to = p[ti].addr
		if ct.Amount < 3e16 && g.rich[from] {
			g.rich[ti] = true
		}
		ct.Note = []byte(fmt.Sprintf("n%d", g.r.Intn(1000)))
	case kind < 88:
		ct.ExecName = []string{"none", "manage", "user.c13"}[g.r.Intn(3)]
		to = address.ExecAddress(ct.ExecName)
	default:
		ct.ExecName = []string{"none", "manage", "user.c13"}[g.r.Intn(3)]
		ct.IsWithdraw = true
		ct.Amount = int64(1+g.r.Intn(300)) * coin / 1000
		to = address.ExecAddress(ct.ExecName)
	}
	ct.To = to
	tx, err := types.LoadExecutorType("coins").AssertCreate(ct)
	if err != nil {
		lib.Inconclusive("coins AssertCreate: %v", err)
	}
	tx.To = to
	if unsignedOnly {
		return tx, from
	}
	return g.finish(tx, "coins", p[from], g.r.Intn(100) < 3), from
}

func (g *gen) noneTx() *types.Transaction {
	payload := make([]byte, g.r.Intn(40))
	g.r.Read(payload)
	execer := "none"
	if g.r.Intn(4) == 0 {
		execer = "user.c13"
	}
	return g.finish(&types.Transaction{Payload: payload}, execer, pool()[g.sender()], false)
}

// gatedTx names one of the synthetic height-gated dapps (core.go: GatedDapps).
func (g *gen) gatedTx(name string) *types.Transaction {
	payload := make([]byte, 1+g.r.Intn(12))
	g.r.Read(payload)
	if g.r.Intn(4) == 0 {
		payload = append(append([]byte(nil), PanicPayload...), payload...) // the dapp panics inside Exec
		lib.Class("tx/gated_dapp_panics_in_exec")
	}
	from := g.sender()
	for !g.rich[from] {
		from = g.sender()
	}
	return g.finish(&types.Transaction{Payload: payload}, name, pool()[from], false)
}

func (g *gen) manageTx() *types.Transaction {
	from := pool()[1]
	if g.r.Intn(4) == 0 {
		from = pool()[g.sender()] // usually not a super manager: ErrNoPrivilege after the fee
	}
	v := &types.ModifyConfig{Key: fmt.Sprintf("c13-key%d", g.r.Intn(3)), Op: []string{"add", "add", "delete"}[g.r.Intn(3)], Value: fmt.Sprintf("v%d", g.r.Intn(4))}
	tx, err := types.LoadExecutorType("manage").Create("Modify", v)
	if err != nil {
		lib.Inconclusive("manage Create: %v", err)
	}
	return g.finish(tx, "manage", from, false)
}

// group builds a 2..4 transaction group the way wallets do (types.CreateTxGroup, then every member signed).
func (g *gen) group() []*types.Transaction {
	n := 2 + g.r.Intn(3)
	txs := make([]*types.Transaction, n)
	froms := make([]int, n)
	safe := g.r.Intn(10) < 6 // otherwise some member probably fails and the whole group is rolled back
	for i := range txs {
		if g.r.Intn(3) == 0 {
			payload := make([]byte, g.r.Intn(20))
			g.r.Read(payload)
			txs[i], froms[i] = &types.Transaction{Payload: payload, Execer: []byte("none"), To: address.ExecAddress("none")}, g.sender()
		} else {
			txs[i], froms[i] = g.coinsTx(true, safe)
			txs[i].Execer = []byte("coins")
		}
		txs[i].Nonce = g.r.Int63()
		txs[i].ChainID = g.cfg.GetChainID()
		txs[i].Fee, _ = txs[i].GetRealFee(g.cfg.GetMinTxFeeRate())
	}
	grp, err := types.CreateTxGroup(txs, g.cfg.GetMinTxFeeRate())
	if err != nil {
		lib.Inconclusive("CreateTxGroup: %v", err)
	}
	for i := range txs {
		if err := grp.SignN(i, types.SECP256K1, pool()[froms[i]].priv); err != nil {
			lib.Inconclusive("SignN: %v", err)
		}
	}
	return grp.Txs
}

// block draws the transactions of the block at the given height.  Main-list blocks name a gated dapp only from its
// enable height on (so that fresh executions never see the name earlier); prior-activity blocks name them at any height.
func (g *gen) block(n int, height int64, priorActivity bool) []string {
	var txs []*types.Transaction
	kinds := map[string]int{}
	first := height == 1
	var gated []string
	for _, name := range []string{"c13gate2", "c13gate3"} {
		if priorActivity || height >= GatedDapps[name] {
			gated = append(gated, name)
		}
	}
	if first {
		// fund a few accounts from the genesis account so that later senders can pay fees
		p := pool()
		for _, i := range g.r.Perm(len(p) - 1)[:3+g.r.Intn(4)] {
			ct := &types.CreateTx{Amount: int64(100+g.r.Intn(900)) * coin, To: p[i+1].addr}
			tx, err := types.LoadExecutorType("coins").AssertCreate(ct)
			if err != nil {
				lib.Inconclusive("coins AssertCreate: %v", err)
			}
			tx.To = ct.To
			txs = append(txs, g.finish(tx, "coins", p[0], false))
			g.rich[i+1] = true
		}
		kinds["fund"] = len(txs)
	}
	for len(txs) < n {
		switch k := g.r.Intn(100); {
		case k < 6 && len(gated) > 0:
			txs = append(txs, g.gatedTx(gated[g.r.Intn(len(gated))]))
			kinds["gated"]++
		case k < 55:
			tx, _ := g.coinsTx(false, false)
			txs = append(txs, tx)
			kinds["coins"]++
		case k < 70:
			txs = append(txs, g.noneTx())
			kinds["none"]++
		case k < 80:
			txs = append(txs, g.manageTx())
			kinds["manage"]++
		case k < 92:
			txs = append(txs, g.group()...)
			kinds["group"]++
		case k < 95 && len(txs) > 0:
			// the same transaction twice in one block (CheckTxDup / DelDupTx path); never a group member
			if src := txs[g.r.Intn(len(txs))]; src.GroupCount == 0 {
				txs = append(txs, types.CloneTx(src))
				kinds["dup"]++
			}
		default:
			txs = append(txs, g.noneTx())
			kinds["none"]++
		}
	}
	for _, name := range gated { // every gated dapp that may appear does appear, even in small blocks
		var slots []int // positions that do not split a group: before a single transaction or a group head, or the end
		for p, tx := range txs {
			if tx.GroupCount == 0 || bytes.Equal(tx.Hash(), tx.Header) {
				slots = append(slots, p)
			}
		}
		at := append(slots, len(txs))[g.r.Intn(len(slots)+1)]
		txs = append(txs, nil)
		copy(txs[at+1:], txs[at:])
		txs[at] = g.gatedTx(name)
		kinds["gated"]++
	}
	if g.r.Intn(10) == 0 {
		// one signature that does not verify: only the verifier path looks at signatures, and must say ErrSign everywhere
		if tx := txs[g.r.Intn(len(txs))]; tx.GroupCount == 0 {
			tx.Signature.Signature[len(tx.Signature.Signature)/2] ^= 1
			kinds["badsig"]++
		}
	}
	hexes := make([]string, len(txs))
	for i, tx := range txs {
		hexes[i] = hex.EncodeToString(types.Encode(tx))
	}
	g.desc = append(g.desc, fmt.Sprintf("%dtx%v", len(txs), kinds))
	return hexes
}

// raisedForks are system forks consulted on the block execution path; a case may move one or two of them from height 0
// to height 2 or 3.
var raisedForks = []string{"ForkExecRollback", "ForkResetTx0", "ForkStateDBSet", "ForkCacheDriver", "ForkTxGroup", "ForkLocalDBAccess", "ForkExecKey", "ForkCheckTxDup"}

func blockSize(r *rand.Rand) int {
	switch k := r.Intn(10); {
	case k < 3:
		return 1 + r.Intn(20)
	case k < 8:
		return 81 + r.Intn(60) // > 80: chunked merkle root and a busy signature pipeline
	default:
		return 141 + r.Intn(160)
	}
}

func genCase(seed int64) (*CaseFile, []string) {
	r := rand.New(rand.NewSource(seed))
	c := &CaseFile{Cfg: Variant{Stat: r.Intn(2) == 0, AddrFee: r.Intn(2) == 0, Free: r.Intn(4) == 0}}
	if r.Intn(2) == 0 {
		c.Cfg.Forks = map[string]int64{}
		for i := 1 + r.Intn(2); i > 0; i-- {
			c.Cfg.Forks[raisedForks[r.Intn(len(raisedForks))]] = int64(2 + r.Intn(2))
		}
	}
	cfg := NewConfig(c.Cfg)
	g := &gen{r: r, cfg: cfg, rich: map[int]bool{0: true}}
	nb := []int{1, 2, 2, 2, 3, 3, 3}[r.Intn(7)]
	for i := 0; i < nb; i++ {
		c.Blocks = append(c.Blocks, g.block(blockSize(r), int64(i+1), false))
	}
	desc := g.desc
	// prior-activity blocks: Warm[i%2] is used at every height, Warm[0] also funds accounts from the genesis account
	w := &gen{r: r, cfg: cfg, rich: map[int]bool{0: true}}
	c.Warm = append(c.Warm, w.block(5+r.Intn(100), 1, true), w.block(1+r.Intn(30), 2, true))
	return c, desc
}

// ---------------------------------------------------------------------------------------------------------------------
// executions

type execSpec struct {
	Name       string
	GoMaxProcs int // GOMAXPROCS of the child
	CPUs       int // taskset -c 0-(CPUs-1)
	Warm       bool
}

// watchdog for one child; expiry is inconclusive, never a violation
const childTimeout = 600 * time.Second

func runChild(casePath string, s execSpec) (*Result, string) {
	bin := filepath.Join(os.Getenv("VERIF_BIN"), "c13_exec")
	args := []string{"-c", fmt.Sprintf("0-%d", s.CPUs-1), bin, casePath}
	if s.Warm {
		args = append(args, ModeWarm)
	}
	ctx, cancel := context.WithTimeout(context.Background(), childTimeout)
	defer cancel()
	cmd := exec.CommandContext(ctx, "taskset", args...)
	tmp, err := os.MkdirTemp(filepath.Dir(casePath), "child-")
	if err != nil {
		lib.Inconclusive("mkdir: %v", err)
	}
	defer os.RemoveAll(tmp)
	cmd.Dir = tmp
	cmd.Env = append(os.Environ(), "GOMAXPROCS="+strconv.Itoa(s.GoMaxProcs), "TMPDIR="+tmp)
	var out, errb bytes.Buffer
	cmd.Stdout, cmd.Stderr = &out, &errb
	err = cmd.Run()
	if ctx.Err() != nil {
		lib.Inconclusive("child %s exceeded %v", s.Name, childTimeout)
	}
	for _, line := range strings.Split(out.String(), "\n") {
		if strings.HasPrefix(line, "C13-FIXTURE") {
			lib.Inconclusive("child %s: %s", s.Name, line)
		}
		if strings.HasPrefix(line, "C13-RESULT ") {
			res := &Result{}
			if e := json.Unmarshal([]byte(line[len("C13-RESULT "):]), res); e != nil {
				lib.Inconclusive("child %s: unreadable result: %v", s.Name, e)
			}
			return res, ""
		}
	}
	tail := errb.String()
	if !strings.Contains(tail, "panic:") && !strings.Contains(tail, "fatal error:") {
		// killed from outside (memory pressure, ...) or taskset refused the mask: nothing the code under test did
		lib.Inconclusive("child %s ended without result and without a Go crash: %v %s", s.Name, err, tail)
	}
	if len(tail) > 1500 {
		tail = tail[len(tail)-1500:]
	}
	return nil, fmt.Sprintf("child crashed: %v; stderr tail: %s", err, tail)
}

func specs(r *rand.Rand) []execSpec {
	// design: GOMAXPROCS in {1,2,16} with taskset k in {1,3,16}; plus one drawn combination and the warm child
	g1, k1 := []int{1, 2, 3, 5, 8, 16}[r.Intn(6)], []int{2, 4, 5, 7, 11, 16}[r.Intn(6)]
	g2, k2 := []int{1, 4, 16}[r.Intn(3)], []int{1, 6, 16}[r.Intn(3)]
	ss := []execSpec{{GoMaxProcs: 1, CPUs: 1}, {GoMaxProcs: 2, CPUs: 3}, {GoMaxProcs: 16, CPUs: 16}, {GoMaxProcs: g1, CPUs: k1}, {GoMaxProcs: g2, CPUs: k2, Warm: true}}
	for i := range ss {
		if ss[i].CPUs > runtime.NumCPU() { // taskset refuses CPUs the machine does not have
			ss[i].CPUs = runtime.NumCPU()
		}
		ss[i].Name = fmt.Sprintf("%s-g%d-k%d", map[bool]string{false: "fresh", true: "warm"}[ss[i].Warm], ss[i].GoMaxProcs, ss[i].CPUs)
	}
	return ss
}

// diff names the fields in which two executions differ.
func diff(a, b *Result) []string {
	var d []string
	if a.Genesis != b.Genesis {
		d = append(d, "genesis")
	}
	if len(a.Blocks) != len(b.Blocks) {
		return append(d, "block count")
	}
	for i := range a.Blocks {
		va, vb := reflect.ValueOf(a.Blocks[i]), reflect.ValueOf(b.Blocks[i])
		for f := 0; f < va.NumField(); f++ {
			if !reflect.DeepEqual(va.Field(f).Interface(), vb.Field(f).Interface()) {
				d = append(d, fmt.Sprintf("block[%d].%s", i, va.Type().Field(f).Name))
			}
		}
	}
	return d
}

// checkCase runs every execution of one case and compares them with the first one.
func checkCase(t *testing.T, test string, seed int64, c *CaseFile, desc []string, ss []execSpec) *Result {
	work := os.Getenv("VERIF_WORK")
	if work == "" {
		work = t.TempDir()
	}
	dir, err := os.MkdirTemp(work, "case-")
	if err != nil {
		lib.Inconclusive("mkdir: %v", err)
	}
	if os.Getenv("C13_KEEP") == "" { // diagnostic aid: keep the case file for running c13_exec by hand
		defer os.RemoveAll(dir)
	}
	casePath := filepath.Join(dir, "case.json")
	b, _ := json.Marshal(c)
	if err := os.WriteFile(casePath, b, 0o644); err != nil {
		lib.Inconclusive("write case: %v", err)
	}

	results := make([]*Result, len(ss))
	died := make([]string, len(ss))
	var wg sync.WaitGroup
	sem := make(chan struct{}, lib.Pick(3, 2)) // children running at a time (the thorough tier has 12 shards doing this)
	for i := range ss {
		wg.Add(1)
		go func(i int) {
			defer wg.Done()
			sem <- struct{}{}
			results[i], died[i] = runChild(casePath, ss[i])
			<-sem
		}(i)
	}
	names := make([]string, len(ss))
	for i := range ss {
		names[i] = ss[i].Name
	}
	// this long-running process executes the case too, concurrently with the children, with mempool-style EventCheckTx
	// traffic on the node as its prior activity
	res, err := Run(c, ModeCheck)
	if err != nil {
		lib.Inconclusive("in-process execution: %v", err)
	}
	wg.Wait()
	results, died, names = append(results, res), append(died, ""), append(names, "long-running-test-process+checktx")

	rendering := map[string]interface{}{"seed": seed, "cfg": c.Cfg, "blocks": desc, "executions": names, "case": c}
	nDied := 0
	for _, d := range died {
		if d != "" {
			nDied++
		}
	}
	if nDied == len(died) {
		// every execution crashed the same way: not a statement about determinism
		lib.Inconclusive("all executions of case seed=%d died: %s", seed, died[0])
	}
	var ref *Result
	refName := ""
	for i, r := range results {
		if died[i] != "" {
			lib.Violation(t, prop, test, rendering, "execution %s died while others completed: %s", names[i], died[i])
		}
		if ref == nil {
			ref, refName = r, names[i]
			continue
		}
		if d := diff(ref, r); len(d) > 0 {
			ja, _ := json.Marshal(ref)
			jb, _ := json.Marshal(r)
			rendering["result_"+refName], rendering["result_"+names[i]] = json.RawMessage(ja), json.RawMessage(jb)
			lib.Violation(t, prop, test, rendering, "executions %s and %s of the same block list differ in %v", refName, names[i], d)
		}
	}
	return ref
}

func classify(res *Result, c *CaseFile, desc []string, seed int64) {
	var tot Counts
	verifierOK, big := 0, 0
	for _, b := range res.Blocks {
		tot.Ok += b.Counts.Ok
		tot.Pack += b.Counts.Pack
		tot.Dropped += b.Counts.Dropped
		tot.Failed += b.Counts.Failed
		tot.GroupOk += b.Counts.GroupOk
		tot.GroupTx += b.Counts.GroupTx
		tot.DupKeys += b.Counts.DupKeys
		tot.LocalAdd += b.Counts.LocalAdd
		tot.GatedTx += b.Counts.GatedTx
		tot.GatedOk += b.Counts.GatedOk
		if b.Counts.MaxWriter > tot.MaxWriter {
			tot.MaxWriter = b.Counts.MaxWriter
		}
		if b.NTxKept > 80 {
			big++
		}
		if b.Err == "" && b.VErr == "" {
			verifierOK++
		}
		if b.Err != "" {
			lib.Class("block_exec_error:" + b.Err)
		}
		if b.VErr != "" {
			lib.Class("verifier_error:" + b.VErr)
		}
		if b.Add == "" || !isHex(b.Add) || !isHex(b.Del) {
			lib.Class("local_set_error")
		}
	}
	mark := func(cond bool, label string) {
		if cond {
			lib.Class(label)
		}
	}
	mark(tot.Ok > 0, "has_ok")
	mark(tot.Failed > 0, "has_failed_after_fee(ExecPack+error log)")
	mark(tot.Dropped > 0, "has_dropped(ExecErr)")
	mark(tot.GroupTx > 0, "has_group")
	mark(tot.GroupOk > 0, "has_group_member_ExecOk")
	mark(tot.MaxWriter >= 2, "key_written_by>=2_txs")
	mark(tot.DupKeys > 0, "DelDupKey_collapsed")
	mark(big > 0, "block>80_kept_txs")
	mark(verifierOK > 0, "verifier_path_ok")
	mark(tot.GatedOk > 0, "gated_dapp_executed_by_own_driver")
	mark(tot.GatedTx > tot.GatedOk, "gated_dapp_tx_not_executed")
	mark(len(c.Cfg.Forks) > 0, "cfg_fork_raised_to_2_or_3")
	mark(c.Cfg.Stat, "cfg_stat")
	mark(c.Cfg.Free, "cfg_free")
	mark(c.Cfg.AddrFee, "cfg_addrfee")
	lib.Class(fmt.Sprintf("blocks=%d", len(res.Blocks)))
	// NT rule of the design: >= 2 txs writing one key, >= 1 failing tx, >= 1 group, and a block of > 80 kept txs
	if tot.MaxWriter >= 2 && tot.Failed+tot.Dropped > 0 && tot.GroupTx > 0 && big > 0 {
		lib.NonTrivialCase(map[string]interface{}{"seed": seed, "cfg": c.Cfg, "blocks": desc, "counts": tot})
	}
}

func isHex(s string) bool { _, err := hex.DecodeString(s); return err == nil && len(s) == 64 }

func envInt(name string, def int) int {
	if v, err := strconv.Atoi(os.Getenv(name)); err == nil {
		return v
	}
	return def
}

// savedCases loads the cases of earlier violations ($VERIF_DIR/replays/C13/*.json, written by the driver from the
// rendering passed to lib.Violation, which embeds the complete case file).
func savedCases() (cases []*CaseFile, names []string) {
	files, _ := filepath.Glob(filepath.Join(os.Getenv("VERIF_DIR"), "replays", prop, "*.json"))
	for _, f := range files {
		var rj struct {
			Case struct {
				Case *CaseFile `json:"case"`
			} `json:"case"`
		}
		if b, err := os.ReadFile(f); err == nil && json.Unmarshal(b, &rj) == nil && rj.Case.Case != nil && len(rj.Case.Case.Blocks) > 0 {
			cases, names = append(cases, rj.Case.Case), append(names, filepath.Base(f))
		}
	}
	return
}

// TestGenDeterminism is the generated search (driver phase C, plain test; all choices derive from VERIF_SHARD_SEED).
// Without VERIF_SHARD_SEED (that is how `./check replay <file>` invokes it) the saved failing cases are re-executed
// instead, independently of the generator.
func TestGenDeterminism(t *testing.T) {
	defer lib.Flush()
	if os.Getenv("VERIF_BIN") == "" {
		t.Skip("needs the driver (VERIF_BIN with c13_exec)")
	}
	base, err := strconv.ParseInt(os.Getenv("VERIF_SHARD_SEED"), 10, 64)
	if err != nil {
		cases, names := savedCases()
		for i, c := range cases {
			ss := specs(rand.New(rand.NewSource(int64(i))))
			checkCase(t, "TestGenDeterminism", -1, c, []string{"saved case " + names[i]}, ss)
			lib.Eval()
		}
		if len(cases) > 0 {
			return
		}
		base = 1
	}
	n := envInt("C13_LISTS", 4)
	for i := 0; i < n; i++ {
		seed := base + int64(i)*1000003 // int64 wrap-around is fine: any value seeds math/rand
		c, desc := genCase(seed)
		ss := specs(rand.New(rand.NewSource(seed ^ 0x5eed)))
		res := checkCase(t, "TestGenDeterminism", seed, c, desc, ss)
		lib.Eval()
		classify(res, c, desc, seed)
	}
}
