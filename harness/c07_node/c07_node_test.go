package c07node

// Node variant: the same key sets listed through the queue messages served by blockchain/localdb.go
// (EventLocalNew / Set / Begin / Get / List / PrefixCount / Close) of one running in-process node.
// Layer 2 = the node's blockchain database (written directly, under the harness namespace only),
// layer 1 = LocalSet before LocalBegin, layer 0 = LocalSet after LocalBegin.

import (
	"os"
	"strings"
	"sync"
	"testing"

	"github.com/33cn/chain33/client"
	clog "github.com/33cn/chain33/common/log"
	"github.com/33cn/chain33/queue"
	_ "github.com/33cn/chain33/system"
	"github.com/33cn/chain33/types"
	"github.com/33cn/chain33/util/testnode"
	"pgregory.net/rapid"
	c07 "verifharness/c07_list"
	"verifharness/lib"
)

var (
	nodeOnce sync.Once
	node     *testnode.Chain33Mock
)

func theNode() *testnode.Chain33Mock {
	nodeOnce.Do(func() {
		node = testnode.New("--free--", nil)
		if node == nil {
			lib.Inconclusive("cannot start the in-process node")
		}
	})
	return node
}

func TestMain(m *testing.M) {
	clog.SetLogLevel("crit")
	code := m.Run()
	if node != nil {
		node.Close()
	}
	lib.Flush()
	os.Exit(code)
}

// transport problems (queue timeouts on a loaded machine) are not verdicts
func transport(err error) {
	if err != nil && (err == types.ErrTimeout || err == queue.ErrQueueTimeout || strings.Contains(err.Error(), "timeout") || strings.Contains(err.Error(), "closed")) {
		lib.Inconclusive("queue transport: %v", err)
	}
}

type nodeView struct {
	api  client.QueueProtocolAPI
	cli  queue.Client
	txid int64 // 0: the base database only
}

func (v nodeView) List(prefix, key []byte, count, direction int32) ([][]byte, error) {
	r, err := v.api.LocalList(&types.LocalDBList{Txid: v.txid, Prefix: prefix, Key: key, Count: count, Direction: direction})
	transport(err)
	if err != nil {
		return nil, err
	}
	return r.Values, nil
}

// PrefixCount: blockchain.localPrefixCount counts in the base database (there is no per-transaction variant).
func (v nodeView) PrefixCount(prefix []byte) int64 {
	msg := v.cli.NewMessage("blockchain", types.EventLocalPrefixCount, &types.ReqKey{Key: prefix})
	if err := v.cli.Send(msg, true); err != nil {
		lib.Inconclusive("queue transport: %v", err)
	}
	r, err := v.cli.Wait(msg)
	if err != nil {
		lib.Inconclusive("queue transport: %v", err)
	}
	n, ok := r.GetData().(*types.Int64)
	if !ok {
		return -1
	}
	return n.Data
}

func TestPropNodeLocalDB(t *testing.T) {
	defer lib.Flush()
	n := theNode()
	api, base := n.GetAPI(), n.GetBlockChain().GetDB()
	rapid.Check(t, func(t *rapid.T) {
		c := c07.GenCase(t, []string{"node"}, c07.NodeNS)
		lib.Eval()
		fail := func(format string, a ...interface{}) {
			lib.Violation(t, c07.Prop, "TestPropNodeLocalDB", c.Render(), format, a...)
		}
		// reset: nothing of an earlier case may be left in the shared base database
		it := base.Iterator([]byte("c07"), nil, false)
		if it.Rewind() {
			k := string(it.Key())
			it.Close()
			lib.Inconclusive("base database not clean before the case: key %q", k)
		}
		it.Close()
		defer func() {
			for _, e := range c.Entries {
				if e.Layer == 2 {
					_ = base.Delete(c07.Clone(e.K))
				}
			}
		}()
		var kvs [3][]*types.KeyValue
		for _, e := range c.Entries {
			kvs[e.Layer] = append(kvs[e.Layer], &types.KeyValue{Key: c07.Clone(e.K), Value: e.Value()})
		}
		for _, kv := range kvs[2] {
			c07.MustSet(base.Set(kv.Key, kv.Value))
		}
		id, err := api.LocalNew(false)
		transport(err)
		if err != nil {
			fail("LocalNew: %v", err)
		}
		defer func() { _ = api.LocalClose(id) }()
		step := func(what string, err error) {
			transport(err)
			if err != nil {
				fail("%s: %v", what, err)
			}
		}
		step("LocalSet (before Begin)", api.LocalSet(&types.LocalDBSet{Txid: id.Data, KV: kvs[1]}))
		var warm [][]byte
		for _, e := range c.Entries {
			if e.Layer == 2 && len(e.K)%2 == 0 {
				warm = append(warm, c07.Clone(e.K))
			}
		}
		if len(warm) > 0 {
			_, err = api.LocalGet(&types.LocalDBGet{Txid: id.Data, Keys: warm})
			step("LocalGet", err)
		}
		step("LocalBegin", api.LocalBegin(id))
		step("LocalSet (in transaction)", api.LocalSet(&types.LocalDBSet{Txid: id.Data, KV: kvs[0]}))

		// merged view of the transaction
		res := c07.CheckLists(c, nodeView{api, n.GetClient(), id.Data}, fail)
		// base-only view (Txid 0) and the base prefix count
		b := c
		b.Entries = nil
		for _, e := range c.Entries {
			if e.Layer == 2 {
				b.Entries = append(b.Entries, e)
			}
		}
		resBase := c07.CheckView(b, nodeView{api, n.GetClient(), 0}, func(format string, a ...interface{}) {
			fail("base view (Txid 0): "+format, a...)
		})
		res.Listings += resBase.Listings
		res.Pages += resBase.Pages
		res.Seeks += resBase.Seeks
		c07.Classify(c, res)
		if res.BoundaryNT {
			lib.NonTrivialCase(c.Render())
		}
	})
}
