// C10: indexed tables (common/db/table) against a map[primary]row model.
//
// Oracle, derived from the property text ("a table behaves like a map from primary key to row ... for any sequence of
// additions, replacements, updates and deletions followed by a save ... also when several operations on the same key
// happen before one save"):
//   - the model applies every operation immediately: Add inserts iff the key is absent, Replace upserts, Update changes a
//     present row (and is a no-op on an absent one, where the table's contract is to return an error), Del removes;
//   - Add returns an error exactly when the key is currently present in the model;
//   - after every Save (records applied to the database the way util.SaveKVList does) reading each key returns the latest
//     row or not-found, the primary listing returns exactly the present rows, and for every index, ListIndex(index, value)
//     returns exactly the present rows whose field has that value, and ListIndex(index) over the whole index returns every
//     present row exactly once (a stale entry makes the listing fail or repeat a row; a missing one loses a row).
//
// Return values of Update / Del are not asserted (the property does not state them); a wrong acceptance or refusal shows
// up in the state after the save. Index values have a fixed width, so "entries with prefix value" = "rows with that value".
package c10

import (
	"fmt"
	"sort"
	"testing"

	dbm "github.com/33cn/chain33/common/db"
	"github.com/33cn/chain33/common/db/table"
	clog "github.com/33cn/chain33/common/log"
	"github.com/33cn/chain33/types"
	"github.com/golang/protobuf/proto"
	"pgregory.net/rapid"
	"verifharness/lib"
)

const (
	prop         = "C10"
	knownPendDel = "C10-pending-del-ignored"        // Add/Replace/Update of a persisted key after a Del in the same batch
	knownUpdDel  = "C10-update-then-del-index"      // Del of a persisted key whose pending update changed an indexed field
	knownJoinDel = "C10-join-del-left-update-right" // join: saved left row deleted and its right row's join field changed in one batch
)

func TestMain(m *testing.M) {
	clog.SetLogLevel("crit")
	lib.Main(m)
}

// ---- table definition: rows are types.Account, primary "addr", indexes "balance" and "frozen" ------------------------

type accRow struct{ *types.Account }

func (r *accRow) CreateRow() *table.Row { return &table.Row{Data: &types.Account{}} }
func (r *accRow) SetPayload(d types.Message) error {
	if a, ok := d.(*types.Account); ok {
		r.Account = a
		return nil
	}
	return types.ErrTypeAsset
}
func (r *accRow) Get(key string) ([]byte, error) {
	switch key {
	case "addr":
		return []byte(r.Addr), nil
	case "balance":
		return []byte(fmt.Sprintf("%03d", r.Balance)), nil
	case "frozen":
		return []byte(fmt.Sprintf("%03d", r.Frozen)), nil
	}
	return nil, types.ErrNotFound
}

var (
	primaries = []string{"p1", "p2", "p3", "p4", "p5"}
	indexes   = []string{"balance", "frozen"}
	valueMax  = map[string]int64{"balance": 2, "frozen": 1}
)

func field(a *types.Account, index string) int64 {
	if index == "balance" {
		return a.Balance
	}
	return a.Frozen
}

func newTable(kvdb dbm.KVDB) *table.Table {
	t, err := table.NewTable(&accRow{Account: &types.Account{}}, kvdb, &table.Option{Prefix: "LODB-c10", Name: "acc", Primary: "addr", Index: indexes})
	if err != nil {
		lib.Inconclusive("NewTable: %v", err)
	}
	return t
}

// ---- generated case ---------------------------------------------------------------------------------------------

type op struct {
	Op  string `json:"op"` // add replace update del save reopen
	P   string `json:"p,omitempty"`
	Bal int64  `json:"bal"`
	Fro int64  `json:"fro"`
	Cur int32  `json:"cur,omitempty"` // non-indexed payload, unique per operation
}

func (o op) row() *types.Account {
	return &types.Account{Addr: o.P, Balance: o.Bal, Frozen: o.Fro, Currency: o.Cur}
}

func genOps(t *rapid.T) []op {
	n := rapid.IntRange(2, 30).Draw(t, "nops")
	kinds := []string{"add", "add", "add", "replace", "replace", "replace", "update", "update", "update", "update", "del", "del", "del", "save", "save", "save", "reopen"}
	var ops []op
	for i := 0; i < n; i++ {
		o := op{Op: rapid.SampledFrom(kinds).Draw(t, "kind")}
		if o.Op != "save" && o.Op != "reopen" {
			o.P = rapid.SampledFrom(primaries).Draw(t, "p")
		}
		if o.Op == "add" || o.Op == "replace" || o.Op == "update" {
			o.Bal, o.Fro, o.Cur = rapid.Int64Range(0, 2).Draw(t, "bal"), rapid.Int64Range(0, 1).Draw(t, "fro"), int32(i+1)
		}
		ops = append(ops, o)
	}
	return ops
}

// ---- running one case -------------------------------------------------------------------------------------------

type stats struct {
	nontrivial, delThenWrite, updThenDel, multiOp bool
	saves, excludedA, excludedB                   int
}

func sameIndexed(a, b *types.Account) bool { return a.Balance == b.Balance && a.Frozen == b.Frozen }

func runCase(t lib.TB, test string, ops []op) (st stats) {
	mem, _ := dbm.NewGoMemDB("c10", "", 0)
	kvdb := dbm.NewKVDB(mem)
	tb := newTable(kvdb)
	cur := map[string]*types.Account{}       // the model: rows currently present
	persisted := map[string]*types.Account{} // rows in the database as of the last save
	// per-batch bookkeeping (reset by save): accepted operations per key, whether one changed an indexed field, and
	// whether a Del of a persisted key is pending
	nops, changed, pendDel := map[string]int{}, map[string]bool{}, map[string]bool{}
	step := 0
	fail := func(format string, a ...interface{}) {
		lib.Violation(t, prop, test, map[string]interface{}{"ops": ops[:step+1]}, "step %d (%+v): %s", step, ops[step], fmt.Sprintf(format, a...))
	}
	rowsEqual := func(what string, got []*table.Row, err error, want []*types.Account) {
		if len(want) == 0 {
			if err != types.ErrNotFound || len(got) != 0 {
				fail("%s = %d rows err=%v, model: no rows (ErrNotFound)", what, len(got), err)
			}
			return
		}
		if err != nil {
			fail("%s failed with %v, model %v", what, err, want)
		}
		ok := len(got) == len(want)
		for i := 0; ok && i < len(got); i++ {
			ok = string(got[i].Primary) == want[i].Addr && proto.Equal(got[i].Data, want[i])
		}
		if !ok {
			var g []string
			for _, r := range got {
				g = append(g, fmt.Sprintf("%s:{%v}", r.Primary, r.Data))
			}
			fail("%s = %v, model %v", what, g, want)
		}
	}
	present := func(filter func(*types.Account) bool, less func(a, b *types.Account) bool) []*types.Account {
		var out []*types.Account
		for _, p := range primaries {
			if a, ok := cur[p]; ok && (filter == nil || filter(a)) {
				out = append(out, a)
			}
		}
		sort.SliceStable(out, func(i, j int) bool { return less(out[i], out[j]) })
		return out
	}
	byPrimary := func(a, b *types.Account) bool { return a.Addr < b.Addr }
	save := func() {
		kvs, err := tb.Save()
		if err != nil {
			fail("Save returned %v", err)
		}
		for _, kv := range kvs { // as util.SaveKVList: a nil value deletes
			if kv.Value == nil {
				_ = mem.Delete(kv.Key) // deleting an absent record is not an error on the real write path (batch delete)
			} else if err := mem.Set(kv.Key, kv.Value); err != nil {
				lib.Inconclusive("apply save records: %v", err)
			}
		}
		st.saves++
		for p, n := range nops {
			if n >= 2 {
				st.multiOp = true
				st.nontrivial = st.nontrivial || changed[p]
			}
		}
		q := tb.GetQuery(kvdb)
		for _, p := range primaries {
			row, err := tb.GetData([]byte(p))
			want, ok := cur[p]
			if ok != (err == nil) || (ok && !proto.Equal(row.Data, want)) {
				fail("after save: GetData(%s) = %v err=%v, model %v present=%v", p, row, err, want, ok)
			}
		}
		got, err := q.ListIndex("primary", nil, nil, 0, dbm.ListASC)
		rowsEqual("after save: ListIndex(primary)", got, err, present(nil, byPrimary))
		for _, idx := range indexes {
			idx := idx
			for v := int64(0); v <= valueMax[idx]; v++ {
				v := v
				want := present(func(a *types.Account) bool { return field(a, idx) == v }, byPrimary)
				got, err := q.ListIndex(idx, []byte(fmt.Sprintf("%03d", v)), nil, 0, dbm.ListASC)
				rowsEqual(fmt.Sprintf("after save: ListIndex(%s,%03d,ASC)", idx, v), got, err, want)
				got, err = q.ListIndex(idx, []byte(fmt.Sprintf("%03d", v)), nil, 0, dbm.ListDESC)
				sort.SliceStable(want, func(i, j int) bool { return want[i].Addr > want[j].Addr })
				rowsEqual(fmt.Sprintf("after save: ListIndex(%s,%03d,DESC)", idx, v), got, err, want)
			}
			got, err := q.ListIndex(idx, nil, nil, 0, dbm.ListASC)
			rowsEqual(fmt.Sprintf("after save: ListIndex(%s, whole index)", idx), got, err,
				present(nil, func(a, b *types.Account) bool {
					return field(a, idx) < field(b, idx) || (field(a, idx) == field(b, idx) && a.Addr < b.Addr)
				}))
		}
		// stored records: one data record per present row and one record per (present row, index), nothing else (layout
		// from the package comment: prefix-name-d-primary and prefix-name-m-index-value-primary)
		if n := kvdb.PrefixCount([]byte("LODB-c10-acc-d-")); n != int64(len(cur)) {
			fail("after save: %d data records stored, model has %d rows", n, len(cur))
		}
		for _, idx := range indexes {
			if n := kvdb.PrefixCount([]byte("LODB-c10-acc-m-" + idx + "-")); n != int64(len(cur)) {
				fail("after save: %d records stored in index %s, model has %d rows", n, idx, len(cur))
			}
		}
		persisted = map[string]*types.Account{}
		for p, a := range cur {
			persisted[p] = a
		}
		nops, changed, pendDel = map[string]int{}, map[string]bool{}, map[string]bool{}
	}
	noteChange := func(p string, row *types.Account) {
		nops[p]++
		if old, ok := cur[p]; ok && !sameIndexed(old, row) {
			changed[p] = true
		} else if old, ok := persisted[p]; ok && !sameIndexed(old, row) {
			changed[p] = true
		}
	}
	for step = 0; step < len(ops); step++ {
		o := ops[step]
		switch o.Op {
		case "add", "replace", "update":
			if pendDel[o.P] {
				st.delThenWrite = true
				if lib.Known(knownPendDel) { // excluded by construction: the operation is not issued
					lib.ExcludedKnown(knownPendDel)
					st.excludedA++
					continue
				}
			}
			_, was := cur[o.P]
			row := o.row()
			var err error
			switch o.Op {
			case "add":
				err = tb.Add(row)
				if (err != nil) != was {
					fail("Add returned %v, model: key present=%v", err, was)
				}
				if !was {
					noteChange(o.P, row)
					cur[o.P] = proto.Clone(row).(*types.Account)
				}
			case "replace":
				if err = tb.Replace(row); err != nil {
					fail("Replace returned %v", err)
				}
				noteChange(o.P, row)
				cur[o.P] = proto.Clone(row).(*types.Account)
			case "update":
				err = tb.Update([]byte(o.P), row)
				if was {
					noteChange(o.P, row)
					cur[o.P] = proto.Clone(row).(*types.Account)
				}
			}
		case "del":
			if old, ok := persisted[o.P]; ok && !pendDel[o.P] {
				if now, ok := cur[o.P]; ok && !sameIndexed(old, now) {
					st.updThenDel = true
					if lib.Known(knownUpdDel) { // excluded by construction
						lib.ExcludedKnown(knownUpdDel)
						st.excludedB++
						continue
					}
				}
			}
			_ = tb.Del([]byte(o.P))
			if _, was := cur[o.P]; was {
				nops[o.P]++
				delete(cur, o.P)
				if _, ok := persisted[o.P]; ok {
					pendDel[o.P] = true
				}
			}
		case "save":
			save()
		case "reopen": // executors build a new Table object over the same database for every use; unsaved operations are dropped
			save()
			tb = newTable(kvdb)
		}
	}
	step = len(ops) - 1
	save()
	return st
}

func account(ops []op, st stats) {
	lib.Eval()
	for label, on := range map[string]bool{"several_ops_on_one_key_in_a_batch": st.multiOp, "write_after_pending_del_of_persisted_key": st.delThenWrite,
		"del_after_pending_index_change": st.updThenDel, "saves>=3": st.saves >= 3} {
		if on {
			lib.Class(label)
		}
	}
	// non-triviality rule: >= 2 accepted operations on one primary key between two saves, one of which changes an indexed field
	if st.nontrivial {
		lib.NonTrivialCase(map[string]interface{}{"ops": ops})
	}
}

func TestPropTableModel(t *testing.T) {
	defer lib.Flush()
	rapid.Check(t, func(t *rapid.T) {
		ops := genOps(t)
		account(ops, runCase(t, "TestPropTableModel", ops))
	})
}

// ---- pinned known findings (plain replays, oracle evaluated directly, independent of the known-findings file) ----------

type fixture struct {
	mem  *dbm.GoMemDB
	kvdb dbm.KVDB
	tb   *table.Table
}

func newFixture() *fixture {
	mem, _ := dbm.NewGoMemDB("c10", "", 0)
	kvdb := dbm.NewKVDB(mem)
	return &fixture{mem: mem, kvdb: kvdb, tb: newTable(kvdb)}
}

func (f *fixture) save(t *testing.T) {
	kvs, err := f.tb.Save()
	if err != nil {
		t.Fatalf("Save: %v", err)
	}
	for _, kv := range kvs {
		if kv.Value == nil {
			_ = f.mem.Delete(kv.Key)
		} else {
			_ = f.mem.Set(kv.Key, kv.Value)
		}
	}
}

func (f *fixture) list(index string, value int64) string {
	rows, err := f.tb.GetQuery(f.kvdb).ListIndex(index, []byte(fmt.Sprintf("%03d", value)), nil, 0, dbm.ListASC)
	if err != nil {
		return err.Error()
	}
	var out []string
	for _, r := range rows {
		out = append(out, string(r.Primary))
	}
	return fmt.Sprint(out)
}

func acc(p string, bal, fro int64) *types.Account {
	return &types.Account{Addr: p, Balance: bal, Frozen: fro}
}

// TestKnown_DelThenAdd: p1 is saved, then deleted and re-added (or replaced) before the next save.
func TestKnown_DelThenAdd(t *testing.T) {
	defer lib.Flush()
	f := newFixture()
	if err := f.tb.Add(acc("p1", 1, 0)); err != nil {
		t.Fatalf("Add: %v", err)
	}
	f.save(t)
	if err := f.tb.Del([]byte("p1")); err != nil {
		t.Fatalf("Del: %v", err)
	}
	hist := []op{{Op: "add", P: "p1", Bal: 1}, {Op: "save"}, {Op: "del", P: "p1"}, {Op: "add", P: "p1", Bal: 2}}
	if err := f.tb.Add(acc("p1", 2, 0)); err != nil {
		lib.KnownOrViolation(t, prop, "TestKnown_DelThenAdd", knownPendDel, map[string]interface{}{"ops": hist},
			fmt.Sprintf("Add of a key deleted earlier in the same batch returned %v although the key is not present (the pending Del of a saved row is not consulted)", err))
	}
	// same root cause, other symptom: Replace after the pending Del is saved as an update of the old row, so the index
	// entries of unchanged fields are deleted and not re-created
	g := newFixture()
	_ = g.tb.Add(acc("p1", 1, 0))
	g.save(t)
	_ = g.tb.Del([]byte("p1"))
	_ = g.tb.Replace(acc("p1", 2, 0))
	g.save(t)
	hist = []op{{Op: "add", P: "p1", Bal: 1}, {Op: "save"}, {Op: "del", P: "p1"}, {Op: "replace", P: "p1", Bal: 2}, {Op: "save"}}
	if got := g.list("frozen", 0); got != "[p1]" {
		lib.KnownOrViolation(t, prop, "TestKnown_DelThenAdd", knownPendDel, map[string]interface{}{"ops": hist},
			fmt.Sprintf("after Del+Replace of a saved row and a save, ListIndex(frozen,000) = %s, expected [p1] (index entry of the unchanged field is missing)", got))
	}
}

// TestKnown_UpdateThenDel: p1 and p2 are saved with balance 1; p1 is updated to balance 2 and deleted before the next save.
func TestKnown_UpdateThenDel(t *testing.T) {
	defer lib.Flush()
	f := newFixture()
	_ = f.tb.Add(acc("p1", 1, 0))
	_ = f.tb.Add(acc("p2", 1, 0))
	f.save(t)
	if err := f.tb.Update([]byte("p1"), acc("p1", 2, 0)); err != nil {
		t.Fatalf("Update: %v", err)
	}
	if err := f.tb.Del([]byte("p1")); err != nil {
		t.Fatalf("Del: %v", err)
	}
	f.save(t)
	hist := []op{{Op: "add", P: "p1", Bal: 1}, {Op: "add", P: "p2", Bal: 1}, {Op: "save"}, {Op: "update", P: "p1", Bal: 2}, {Op: "del", P: "p1"}, {Op: "save"}}
	if got := f.list("balance", 1); got != "[p2]" {
		lib.KnownOrViolation(t, prop, "TestKnown_UpdateThenDel", knownUpdDel, map[string]interface{}{"ops": hist},
			fmt.Sprintf("after Update(balance 1->2)+Del of a saved row and a save, ListIndex(balance,001) = %s, expected [p2]: the deleted row's old index entry balance=001 is still stored", got))
	}
}
