// C10, joined tables: left table gameaddr(txhash -> gameID, addr), right table game(gameID -> status), join indexes
// "addr#status" and "#status" maintained by JoinTable.Save. The model is two maps; after every save every join lookup must
// return exactly the present left rows whose addr / whose game's status match, each joined with its game's latest row.
//
// Preconditions taken from the package's own description of joins (join.go header, TestJoin): the left row carries the right
// table's primary key; the right row it points to exists when the left row is written; both tables are saved through
// JoinTable.Save. Games are never deleted and a left row never moves to another game (the generator does not produce these).
package c10

import (
	"fmt"
	"sort"
	"testing"

	dbm "github.com/33cn/chain33/common/db"
	"github.com/33cn/chain33/common/db/table"
	protodata "github.com/33cn/chain33/common/db/table/proto"
	"github.com/33cn/chain33/types"
	"github.com/golang/protobuf/proto"
	"pgregory.net/rapid"
	"verifharness/lib"
)

type gameRow struct{ *protodata.Game }

func (r *gameRow) CreateRow() *table.Row { return &table.Row{Data: &protodata.Game{}} }
func (r *gameRow) SetPayload(d types.Message) error {
	if g, ok := d.(*protodata.Game); ok {
		r.Game = g
		return nil
	}
	return types.ErrTypeAsset
}
func (r *gameRow) Get(key string) ([]byte, error) {
	switch key {
	case "gameID":
		return []byte(r.GameID), nil
	case "status":
		return []byte(fmt.Sprint(r.Status)), nil // one digit
	}
	return nil, types.ErrNotFound
}

type gameAddrRow struct{ *protodata.GameAddr }

func (r *gameAddrRow) CreateRow() *table.Row { return &table.Row{Data: &protodata.GameAddr{}} }
func (r *gameAddrRow) SetPayload(d types.Message) error {
	if g, ok := d.(*protodata.GameAddr); ok {
		r.GameAddr = g
		return nil
	}
	return types.ErrTypeAsset
}
func (r *gameAddrRow) Get(key string) ([]byte, error) {
	switch key {
	case "txhash":
		return []byte(r.Txhash), nil
	case "gameID":
		return []byte(r.GameID), nil
	case "addr":
		return []byte(r.Addr), nil
	}
	return nil, types.ErrNotFound
}

var (
	games    = []string{"g1", "g2"}
	txhashes = []string{"t1", "t2", "t3", "t4"}
	gameOf   = map[string]string{"t1": "g1", "t2": "g1", "t3": "g2", "t4": "g2"}
	addrs    = []string{"a1", "a2"}
)

type jop struct {
	Op     string `json:"op"` // game addr deladdr save
	ID     string `json:"id,omitempty"`
	Status int64  `json:"status,omitempty"`
	Addr   string `json:"addr,omitempty"`
}

func genJoinOps(t *rapid.T) []jop {
	n := rapid.IntRange(2, 24).Draw(t, "nops")
	kinds := []string{"game", "game", "addr", "addr", "addr", "deladdr", "save", "save"}
	var ops []jop
	for i := 0; i < n; i++ {
		o := jop{Op: rapid.SampledFrom(kinds).Draw(t, "kind")}
		switch o.Op {
		case "game":
			o.ID, o.Status = rapid.SampledFrom(games).Draw(t, "g"), rapid.Int64Range(1, 3).Draw(t, "status")
		case "addr":
			o.ID, o.Addr = rapid.SampledFrom(txhashes).Draw(t, "t"), rapid.SampledFrom(addrs).Draw(t, "addr")
		case "deladdr":
			o.ID = rapid.SampledFrom(txhashes).Draw(t, "t")
		}
		ops = append(ops, o)
	}
	return ops
}

type jstats struct {
	saves, skippedNoGame          int
	leftAndRightInOneBatch, multi bool
}

func newJoin(kvdb dbm.KVDB) *table.JoinTable {
	right, err := table.NewTable(&gameRow{Game: &protodata.Game{}}, kvdb, &table.Option{Prefix: "LODB-c10j", Name: "game", Primary: "gameID", Index: []string{"status"}})
	if err != nil {
		lib.Inconclusive("NewTable(game): %v", err)
	}
	left, err := table.NewTable(&gameAddrRow{GameAddr: &protodata.GameAddr{}}, kvdb, &table.Option{Prefix: "LODB-c10j", Name: "gameaddr", Primary: "txhash", Index: []string{"gameID", "addr"}})
	if err != nil {
		lib.Inconclusive("NewTable(gameaddr): %v", err)
	}
	j, err := table.NewJoinTable(left, right, []string{"addr#status", "#status"})
	if err != nil {
		lib.Inconclusive("NewJoinTable: %v", err)
	}
	return j
}

func runJoinCase(t lib.TB, test string, ops []jop) (st jstats) {
	mem, _ := dbm.NewGoMemDB("c10j", "", 0)
	kvdb := dbm.NewKVDB(mem)
	join := newJoin(kvdb)
	status := map[string]int64{}                  // model of the right table
	left := map[string]*protodata.GameAddr{}      // model of the left table
	persisted := map[string]*protodata.GameAddr{} // left rows as of the last save
	pendDel, leftOps := map[string]bool{}, map[string]int{}
	gameTouched, leftTouched := map[string]bool{}, map[string]bool{}
	persistedStatus := map[string]int64{} // right rows as of the last save
	step := 0
	fail := func(format string, a ...interface{}) {
		lib.Violation(t, prop, test, map[string]interface{}{"ops": ops[:step+1]}, "step %d (%+v): %s", step, ops[step], fmt.Sprintf(format, a...))
	}
	check := func(what string, rows []*table.Row, err error, want []string) {
		if len(want) == 0 {
			if err != types.ErrNotFound || len(rows) != 0 {
				fail("%s = %d rows err=%v, model: no rows (ErrNotFound)", what, len(rows), err)
			}
			return
		}
		if err != nil {
			fail("%s failed with %v, model %v", what, err, want)
		}
		ok := len(rows) == len(want)
		var got []string
		for i, r := range rows {
			got = append(got, string(r.Primary))
			if !ok {
				continue
			}
			jd, isJoin := r.Data.(*table.JoinData)
			l := left[want[i]]
			ok = string(r.Primary) == want[i] && isJoin && proto.Equal(jd.Left, l) &&
				proto.Equal(jd.Right, &protodata.Game{GameID: l.GameID, Status: status[l.GameID]})
		}
		if !ok {
			fail("%s = %v (or wrong joined data), model %v", what, got, want)
		}
	}
	save := func() {
		kvs, err := join.Save()
		if err != nil {
			fail("JoinTable.Save returned %v", err)
		}
		for _, kv := range kvs {
			if kv.Value == nil {
				_ = mem.Delete(kv.Key) // deleting an absent record is not an error on the real write path (batch delete)
			} else if err := mem.Set(kv.Key, kv.Value); err != nil {
				lib.Inconclusive("apply save records: %v", err)
			}
		}
		st.saves++
		for tx := range leftTouched {
			if gameTouched[gameOf[tx]] {
				st.leftAndRightInOneBatch = true
			}
		}
		for _, n := range leftOps {
			st.multi = st.multi || n >= 2
		}
		for _, s := range []int64{1, 2, 3} {
			var all []string
			for _, a := range addrs {
				var want []string
				for _, tx := range txhashes {
					if l, ok := left[tx]; ok && l.Addr == a && status[l.GameID] == s {
						want = append(want, tx)
					}
				}
				all = append(all, want...)
				rows, err := join.ListIndex("addr#status", table.JoinKey([]byte(a), []byte(fmt.Sprint(s))), nil, 0, dbm.ListASC)
				check(fmt.Sprintf("after save: join ListIndex(addr#status, %s, %d)", a, s), rows, err, want)
			}
			sort.Strings(all)
			rows, err := join.ListIndex("#status", table.JoinKey(nil, []byte(fmt.Sprint(s))), nil, 0, dbm.ListASC)
			check(fmt.Sprintf("after save: join ListIndex(#status, %d)", s), rows, err, all)
		}
		for _, tx := range txhashes {
			row, err := join.GetLeft().GetData([]byte(tx))
			if want, ok := left[tx]; ok != (err == nil) || (ok && !proto.Equal(row.Data, want)) {
				fail("after save: left GetData(%s) = %v err=%v, model %v", tx, row, err, left[tx])
			}
		}
		for _, g := range games {
			row, err := join.GetRight().GetData([]byte(g))
			if s, ok := status[g]; ok != (err == nil) || (ok && row.Data.(*protodata.Game).Status != s) {
				fail("after save: right GetData(%s) = %v err=%v, model status %d present=%v", g, row, err, s, ok)
			}
		}
		persisted = map[string]*protodata.GameAddr{}
		for k, v := range left {
			persisted[k] = v
		}
		pendDel, leftOps = map[string]bool{}, map[string]int{}
		gameTouched, leftTouched = map[string]bool{}, map[string]bool{}
		persistedStatus = map[string]int64{}
		for g, s := range status {
			persistedStatus[g] = s
		}
	}
	// the class of the listed finding knownJoinDel: within one batch a saved left row is deleted and the join-indexed field
	// of the saved right row it points to is changed
	rightChanged := func(g string) bool { old, ok := persistedStatus[g]; return ok && status[g] != old }
	for step = 0; step < len(ops); step++ {
		o := ops[step]
		switch o.Op {
		case "game":
			if old, ok := persistedStatus[o.ID]; ok && old != o.Status && lib.Known(knownJoinDel) {
				excluded := false
				for tx := range pendDel {
					excluded = excluded || gameOf[tx] == o.ID
				}
				if excluded {
					lib.ExcludedKnown(knownJoinDel)
					continue
				}
			}
			if err := join.GetRight().Replace(&protodata.Game{GameID: o.ID, Status: o.Status}); err != nil {
				fail("right Replace returned %v", err)
			}
			status[o.ID] = o.Status
			gameTouched[o.ID] = true
		case "addr":
			if _, ok := status[gameOf[o.ID]]; !ok {
				st.skippedNoGame++ // precondition of a join: the referenced right row exists
				continue
			}
			if pendDel[o.ID] && lib.Known(knownPendDel) {
				lib.ExcludedKnown(knownPendDel)
				continue
			}
			row := &protodata.GameAddr{Txhash: o.ID, GameID: gameOf[o.ID], Addr: o.Addr}
			if err := join.GetLeft().Replace(row); err != nil {
				fail("left Replace returned %v", err)
			}
			left[o.ID] = proto.Clone(row).(*protodata.GameAddr)
			leftOps[o.ID]++
			leftTouched[o.ID] = true
		case "deladdr":
			if old, ok := persisted[o.ID]; ok && !pendDel[o.ID] {
				if now, ok := left[o.ID]; ok && now.Addr != old.Addr && lib.Known(knownUpdDel) {
					lib.ExcludedKnown(knownUpdDel)
					continue
				}
			}
			if _, ok := persisted[o.ID]; ok && rightChanged(gameOf[o.ID]) && lib.Known(knownJoinDel) {
				lib.ExcludedKnown(knownJoinDel)
				continue
			}
			_ = join.GetLeft().Del([]byte(o.ID))
			if _, was := left[o.ID]; was {
				delete(left, o.ID)
				leftOps[o.ID]++
				leftTouched[o.ID] = true
				if _, ok := persisted[o.ID]; ok {
					pendDel[o.ID] = true
				}
			}
		case "save":
			save()
		}
	}
	step = len(ops) - 1
	save()
	return st
}

// TestPropJoinModel: non-trivial = a left row and the game it points to are both written between two saves.
func TestPropJoinModel(t *testing.T) {
	defer lib.Flush()
	rapid.Check(t, func(t *rapid.T) {
		ops := genJoinOps(t)
		st := runJoinCase(t, "TestPropJoinModel", ops)
		lib.Eval()
		if st.multi {
			lib.Class("join:several_ops_on_one_left_key_in_a_batch")
		}
		if st.skippedNoGame > 0 {
			lib.Class("join:left_write_skipped_game_missing")
		}
		if st.leftAndRightInOneBatch {
			lib.Class("join:left_and_its_game_written_in_one_batch")
			lib.NonTrivialCase(map[string]interface{}{"join_ops": ops})
		}
	})
}

// TestKnown_JoinDelLeftUpdateRight: t3 and t4 point to game g2 (status 1), all saved. In one batch t3 is deleted and g2's status
// becomes 2. The join lookup for status 2 must return exactly t4.
func TestKnown_JoinDelLeftUpdateRight(t *testing.T) {
	defer lib.Flush()
	mem, _ := dbm.NewGoMemDB("c10j", "", 0)
	kvdb := dbm.NewKVDB(mem)
	join := newJoin(kvdb)
	save := func() {
		kvs, err := join.Save()
		if err != nil {
			t.Fatalf("Save: %v", err)
		}
		for _, kv := range kvs {
			if kv.Value == nil {
				_ = mem.Delete(kv.Key)
			} else {
				_ = mem.Set(kv.Key, kv.Value)
			}
		}
	}
	_ = join.GetRight().Replace(&protodata.Game{GameID: "g2", Status: 1})
	_ = join.GetLeft().Replace(&protodata.GameAddr{Txhash: "t3", GameID: "g2", Addr: "a1"})
	_ = join.GetLeft().Replace(&protodata.GameAddr{Txhash: "t4", GameID: "g2", Addr: "a1"})
	save()
	if err := join.GetLeft().Del([]byte("t3")); err != nil {
		t.Fatalf("Del: %v", err)
	}
	_ = join.GetRight().Replace(&protodata.Game{GameID: "g2", Status: 2})
	save()
	rows, err := join.ListIndex("#status", table.JoinKey(nil, []byte("2")), nil, 0, dbm.ListASC)
	var got []string
	for _, r := range rows {
		got = append(got, string(r.Primary))
	}
	if err != nil || fmt.Sprint(got) != "[t4]" {
		hist := []jop{{Op: "game", ID: "g2", Status: 1}, {Op: "addr", ID: "t3", Addr: "a1"}, {Op: "addr", ID: "t4", Addr: "a1"}, {Op: "save"},
			{Op: "deladdr", ID: "t3"}, {Op: "game", ID: "g2", Status: 2}, {Op: "save"}}
		lib.KnownOrViolation(t, prop, "TestKnown_JoinDelLeftUpdateRight", knownJoinDel, map[string]interface{}{"join_ops": hist},
			fmt.Sprintf("after deleting left row t3 and changing its game's status 1->2 in one batch, join ListIndex(#status,2) = %v err=%v, expected [t4]: a join index entry for the deleted row t3 was written", got, err))
	}
}
