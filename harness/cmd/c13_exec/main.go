// c13_exec executes one C13 case file in this (fresh) process and prints the digests.
//
//	c13_exec <case.json> [fresh|warm|check]
//
// Output: one line "C13-RESULT <json>" on stdout; exit 0.  Fixture problems: "C13-FIXTURE <why>", exit 4.
// GOMAXPROCS comes from the environment and the CPU mask from taskset; both are echoed for the parent's log.
package main

import (
	"encoding/json"
	"fmt"
	"os"
	"runtime"

	c13 "verifharness/c13_determinism"
)

func main() {
	if len(os.Args) < 2 {
		fmt.Println("C13-FIXTURE usage: c13_exec <case.json> [fresh|warm|check]")
		os.Exit(4)
	}
	c13.Silence()
	c, err := c13.ReadCase(os.Args[1])
	if err != nil {
		fmt.Println("C13-FIXTURE", err)
		os.Exit(4)
	}
	mode := c13.ModeFresh
	if len(os.Args) > 2 {
		mode = os.Args[2]
	}
	res, err := c13.Run(c, mode)
	if err != nil {
		fmt.Println("C13-FIXTURE", err)
		os.Exit(4)
	}
	b, _ := json.Marshal(res)
	fmt.Printf("C13-ENV numcpu=%d gomaxprocs=%d\n", runtime.NumCPU(), runtime.GOMAXPROCS(0))
	fmt.Printf("C13-RESULT %s\n", b)
}
