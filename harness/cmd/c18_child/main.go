// c18_child runs the worker-count-sensitive part of the C18 check in a process whose CPU affinity (and hence
// runtime.NumCPU, which merkle.GetMerkleRoot uses to pick its chunk size) was restricted by the parent with
// `taskset -c <k cpus>`.  It prints one JSON line per case; the parent aggregates counters and reports failures.
//
//	c18_child -seed S -ns 1-300,512,4099 -multi 20 -maxchain 400
package main

import (
	"encoding/json"
	"flag"
	"fmt"
	"math/rand"
	"os"
	"runtime"
	"strconv"
	"strings"

	"github.com/33cn/chain33/types"
	c18 "verifharness/c18_merkle"
)

type line struct {
	Kind   string   `json:"kind"` // "hello" | "root" | "txlist"
	K      int      `json:"k"`
	N      int      `json:"n,omitempty"`
	Case   int      `json:"case,omitempty"`
	Chains int      `json:"chains,omitempty"`
	MaxSeg int      `json:"maxseg,omitempty"`
	Inter  bool     `json:"interleaved,omitempty"`
	Fail   string   `json:"fail,omitempty"`
	Txs    []c18.Tx `json:"txs,omitempty"`
}

func parseNs(s string) (out []int) {
	for _, part := range strings.Split(s, ",") {
		if part == "" {
			continue
		}
		if i := strings.IndexByte(part, '-'); i > 0 {
			a, _ := strconv.Atoi(part[:i])
			b, _ := strconv.Atoi(part[i+1:])
			for n := a; n <= b; n++ {
				out = append(out, n)
			}
		} else {
			n, _ := strconv.Atoi(part)
			out = append(out, n)
		}
	}
	return
}

func main() {
	seed := flag.Int64("seed", 1, "")
	ns := flag.String("ns", "", "")
	multi := flag.Int("multi", 0, "")
	maxChain := flag.Int("maxchain", 300, "")
	flag.Parse()
	k := runtime.NumCPU()
	enc := json.NewEncoder(os.Stdout)
	_ = enc.Encode(line{Kind: "hello", K: k})
	for _, n := range parseNs(*ns) {
		if n < 1 {
			continue
		}
		_ = enc.Encode(line{Kind: "root", K: k, N: n, Fail: c18.CheckRoot(c18.Leaves(*seed, n))})
	}
	if *multi > 0 {
		cfg := types.NewChain33Config(types.GetDefaultCfgstring()) // title "local": ForkRootHash = 1
		for i := 0; i < *multi; i++ {
			r := rand.New(rand.NewSource(*seed*1000003 + int64(i)))
			list, inter := c18.GenTxList(r, *maxChain, true)
			msg, chains := c18.CheckTxList(cfg, 0, 1+int64(r.Intn(1000)), list)
			l := line{Kind: "txlist", K: k, Case: i, N: len(list), Chains: chains, MaxSeg: c18.MaxSegment(list), Inter: inter, Fail: msg}
			if msg != "" {
				l.Txs = list
			}
			_ = enc.Encode(l)
		}
	}
	fmt.Println(`{"kind":"done"}`)
}
