// c19_query answers validity queries in ONE process configured like a node: it reads
//
//	{"cfg": {...}, "queries": [{"fn": "...", "in": "...", "h": 12}, ...]}
//
// on stdin, initialises the configuration exactly in the order util/cli.RunChain33 does (stock
// cmd/chain33/chain33.toml with the generated [address.enableHeight] / [crypto.enableHeight] entries, stock
// chain33.fork.toml with the generated fork heights; NewChain33Config, address.Init, crypto.Init, crypto context
// with a queue API), answers the queries in the given order and prints {"answers": [...]}.
// The parent uses it both as the long-running "history" process and as the fresh-process oracle (batches in which
// no cache key occurs twice).
package main

import (
	"encoding/hex"
	"encoding/json"
	"fmt"
	"os"
	"regexp"
	"sort"
	"strconv"
	"strings"

	"github.com/33cn/chain33/client"
	"github.com/33cn/chain33/common/address"
	"github.com/33cn/chain33/common/crypto"
	cryptocli "github.com/33cn/chain33/common/crypto/client"
	clog "github.com/33cn/chain33/common/log"
	"github.com/33cn/chain33/queue"
	_ "github.com/33cn/chain33/system/address"          // btc, btcMultiSign, utxo, eth address drivers
	_ "github.com/33cn/chain33/system/crypto/btcscript" // a node links this driver through rpc/client
	_ "github.com/33cn/chain33/system/crypto/init"      // signature drivers
	dapp "github.com/33cn/chain33/system/dapp"
	_ "github.com/33cn/chain33/system/dapp/init" // system executors (executor addresses, per-executor sign types, forks)
	nty "github.com/33cn/chain33/system/dapp/none/types"
	"github.com/33cn/chain33/types"
)

type cfgT struct {
	AddrEnable   map[string]int64 `json:"addrEnable"`   // [address.enableHeight]
	CryptoEnable map[string]int64 `json:"cryptoEnable"` // [crypto.enableHeight]
	Forks        map[string]int64 `json:"forks"`        // [fork.system]
	// chain state the btcscript driver reads through the node API: delayed transactions committed to the none
	// executor (tx hash hex -> begin height / begin timestamp), what none's Query_GetDelayTxInfo serves
	DelayTxs map[string]delayT `json:"delayTxs"`
}

type delayT struct {
	Height int64 `json:"h"`
	Time   int64 `json:"t"`
}

// stateAPI is the node API with the one state query the signature drivers make answered from the configured table
// (a real node answers it from the state DB; there is no executor/store in this helper).
type stateAPI struct {
	client.QueueProtocolAPI
	delay map[string]delayT
}

func (a *stateAPI) Query(driver, funcname string, param types.Message) (types.Message, error) {
	if driver == nty.NoneX && funcname == nty.QueryGetDelayTxInfo {
		req, _ := param.(*types.ReqBytes)
		d, ok := a.delay[hex.EncodeToString(req.GetData())]
		if !ok {
			return nil, types.ErrGetStateDB
		}
		return &nty.CommitDelayTxLog{DelayTxHash: hex.EncodeToString(req.GetData()), DelayBeginHeight: d.Height, DelayBeginTimestamp: d.Time}, nil
	}
	return nil, types.ErrNotSupport
}

type queryT struct {
	Fn string `json:"fn"`
	In string `json:"in"`
	H  int64  `json:"h"`
}

type inputT struct {
	Cfg     cfgT     `json:"cfg"`
	Queries []queryT `json:"queries"`
}

func section(m map[string]int64) string {
	keys := make([]string, 0, len(m))
	for k := range m {
		keys = append(keys, k)
	}
	sort.Strings(keys)
	var b strings.Builder
	for _, k := range keys {
		fmt.Fprintf(&b, "%s=%d\n", k, m[k])
	}
	return b.String()
}

func buildConfig(c cfgT) *types.Chain33Config {
	repo := os.Getenv("VERIF_REPO")
	if repo == "" {
		repo = "/repo"
	}
	text := types.ReadFile(repo + "/cmd/chain33/chain33.toml")
	fork := types.ReadFile(repo + "/cmd/chain33/chain33.fork.toml")
	// [address.enableHeight] does not exist in the stock file: add it right after the [address] table
	text = strings.Replace(text, "[address]\ndefaultDriver=\"btc\"\n", "[address]\ndefaultDriver=\"btc\"\n[address.enableHeight]\n"+section(c.AddrEnable), 1)
	if !strings.Contains(text, "[address.enableHeight]") {
		fail("stock chain33.toml has no [address] table in the expected form")
	}
	// [crypto.enableHeight] exists with secp256k1=0: replace that line by the generated entries
	ce := map[string]int64{"secp256k1": 0}
	for k, v := range c.CryptoEnable {
		ce[k] = v
	}
	re := regexp.MustCompile(`(?m)^secp256k1=0\n`)
	if !re.MatchString(text) {
		fail("stock chain33.toml has no secp256k1=0 line under [crypto.enableHeight]")
	}
	text = re.ReplaceAllString(text, section(ce))
	for k, v := range c.Forks {
		fr := regexp.MustCompile(`(?m)^` + k + `=-?\d+$`)
		if !fr.MatchString(fork) {
			fail("stock chain33.fork.toml has no entry " + k)
		}
		fork = fr.ReplaceAllString(fork, k+"="+strconv.FormatInt(v, 10))
	}
	return types.NewChain33Config(types.MergeCfg(text, fork))
}

func fail(msg string) {
	fmt.Fprintln(os.Stderr, "c19_query: "+msg)
	os.Exit(4)
}

func render(err error) string {
	if err == nil {
		return "ok"
	}
	return "err:" + err.Error()
}

func decodeTx(in string) *types.Transaction {
	b, err := hex.DecodeString(in)
	if err != nil {
		fail("bad tx hex")
	}
	var tx types.Transaction
	if err := types.Decode(b, &tx); err != nil {
		fail("bad tx encoding: " + err.Error())
	}
	return &tx
}

func answer(cfg *types.Chain33Config, q queryT) (out string) {
	defer func() {
		if r := recover(); r != nil {
			out = "panic:" + fmt.Sprint(r)
		}
	}()
	switch q.Fn {
	case "addrCheck":
		return render(address.CheckAddress(q.In, q.H))
	case "dappCheck":
		return render(dapp.CheckAddress(cfg, q.In, q.H))
	case "drvErrs": // pure per-driver verdicts (no cache, no iteration): used only to evaluate known-finding signatures
		var parts []string
		list := address.GetDriverList()
		for id := int32(0); id <= address.MaxID; id++ {
			if d, ok := list[id]; ok {
				parts = append(parts, d.GetName()+"="+render(d.ValidateAddr(q.In)))
			}
		}
		return strings.Join(parts, "|")
	case "pub2addr": // "<addressID>:<hex pubkey>", evaluated while the node's current block height is q.H
		i := strings.IndexByte(q.In, ':')
		id, _ := strconv.Atoi(q.In[:i])
		pub, _ := hex.DecodeString(q.In[i+1:])
		cryptocli.SetCurrentBlock(q.H, 0)
		return address.PubKeyToAddr(int32(id), pub)
	case "txFrom":
		cryptocli.SetCurrentBlock(q.H, 0)
		return decodeTx(q.In).From()
	case "checkSign": // a transaction of block q.H is checked while the node's current block is q.H-1 (block time 10 s per block)
		cur := q.H - 1
		if cur < 0 {
			cur = 0
		}
		cryptocli.SetCurrentBlock(cur, cur*10)
		return strconv.FormatBool(decodeTx(q.In).CheckSign(q.H))
	}
	fail("unknown fn " + q.Fn)
	return ""
}

func main() {
	clog.SetLogLevel("crit")
	var in inputT
	if err := json.NewDecoder(os.Stdin).Decode(&in); err != nil {
		fail("bad input: " + err.Error())
	}
	cfg := buildConfig(in.Cfg)
	mcfg := cfg.GetModuleConfig()
	q := queue.New("channel")
	q.SetConfig(cfg)
	address.Init(mcfg.Address)
	crypto.Init(mcfg.Crypto, cfg.GetSubConfig().Crypto)
	api, err := client.New(q.Client(), nil)
	if err != nil {
		fail("queue api: " + err.Error())
	}
	cryptocli.SetQueueAPI(&stateAPI{QueueProtocolAPI: api, delay: in.Cfg.DelayTxs}) // what the crypto module's SetQueueClient does (without its background goroutine)
	answers := make([]string, len(in.Queries))
	for i, qu := range in.Queries {
		answers[i] = answer(cfg, qu)
	}
	b, _ := json.Marshal(map[string]interface{}{"answers": answers})
	os.Stdout.Write(append(b, '\n'))
}
