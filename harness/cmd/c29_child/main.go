// c29_child is the crash-test child of C29: it opens a persistent node on a data directory, delivers a slice of
// pre-built blocks (terminating at the hook's VERIF_CRASH_AT-th durable write when set), or re-opens the directory
// after a crash, dumps what it finds, re-delivers everything and dumps again.
package main

import (
	"encoding/binary"
	"encoding/hex"
	"encoding/json"
	"fmt"
	"os"
	"strconv"

	"github.com/33cn/chain33/types"
	"verifharness/chainfix"
)

type probes struct {
	Txs   []string `json:"txs"`
	Addrs []string `json:"addrs"`
}

type dump struct {
	Tip1  string   `json:"tip1"`
	Snap1 []string `json:"snap1"`
	Errs  []string `json:"errs"`
	Tip2  string   `json:"tip2"`
	Snap2 []string `json:"snap2"`
}

func readBlocks(path string) []*types.Block {
	b, err := os.ReadFile(path)
	if err != nil {
		fail(err)
	}
	var out []*types.Block
	for len(b) > 0 {
		n := binary.LittleEndian.Uint32(b[:4])
		blk := &types.Block{}
		if err := types.Decode(b[4:4+n], blk); err != nil {
			fail(err)
		}
		out = append(out, blk)
		b = b[4+n:]
	}
	return out
}

func fail(err error) {
	fmt.Println("VERIF-INCONCLUSIVE c29_child:", err)
	os.Exit(3)
}

func mark(s string) {
	if p := os.Getenv("VERIF_CRASH_LOG"); p != "" {
		f, err := os.OpenFile(p, os.O_CREATE|os.O_WRONLY|os.O_APPEND, 0o644)
		if err == nil {
			fmt.Fprintln(f, s)
			f.Close()
		}
	}
}

func main() {
	if len(os.Args) < 6 {
		fail(fmt.Errorf("usage: c29_child run|recover dir blocks from to [probes]"))
	}
	mode, dir := os.Args[1], os.Args[2]
	blocks := readBlocks(os.Args[3])
	from, _ := strconv.Atoi(os.Args[4])
	to, _ := strconv.Atoi(os.Args[5])
	switch mode {
	case "run":
		mark("# open")
		n := chainfix.OpenPersistent(dir)
		for i := from; i < to; i++ {
			mark(fmt.Sprintf("# deliver %d", i))
			err := n.Deliver(blocks[i], "peer")
			h := n.Chain.GetBlockHeight()
			hash, _ := n.Chain.GetStore().GetBlockHashByHeight(h)
			fmt.Printf("TIP %d %x %v\n", i, hash, err)
		}
		mark("# close")
		n.Close()
	case "recover":
		var pr probes
		pb, err := os.ReadFile(os.Args[6])
		if err != nil {
			fail(err)
		}
		if err := json.Unmarshal(pb, &pr); err != nil {
			fail(err)
		}
		var txs [][]byte
		for _, h := range pr.Txs {
			x, _ := hex.DecodeString(h)
			txs = append(txs, x)
		}
		n := chainfix.OpenPersistent(dir)
		var d dump
		v := n.Snapshot(txs, pr.Addrs)
		d.Tip1, d.Snap1 = hex.EncodeToString(v.TipHash), v.Lines
		for i := from; i < to; i++ {
			if err := n.Deliver(blocks[i], "peer"); err != nil && err != types.ErrBlockExist {
				d.Errs = append(d.Errs, fmt.Sprintf("redelivery %d: %v", i, err))
			}
		}
		v = n.Snapshot(txs, pr.Addrs)
		d.Tip2, d.Snap2 = hex.EncodeToString(v.TipHash), v.Lines
		n.Close()
		out, _ := json.Marshal(d)
		fmt.Println("DUMP " + string(out))
	}
}
