// c16_child: subprocess oracle for C16's enable-height gating.  Signature enable heights are process-global crypto
// configuration, so each generated configuration is installed exactly once, in a fresh process: the request (JSON on
// stdin) carries a crypto.Config and a list of (type, height, tamper) queries; the reply (JSON on stdout, last line)
// carries CheckSign's verdict for each query.
package main

import (
	"crypto/sha256"
	"encoding/json"
	"fmt"
	"os"

	"github.com/33cn/chain33/common/crypto"
	clog "github.com/33cn/chain33/common/log"
	_ "github.com/33cn/chain33/system/crypto/init"
	"github.com/33cn/chain33/types"
)

type query struct {
	Type   string `json:"type"`
	Height int64  `json:"height"`
	Tamper bool   `json:"tamper"`
}

type request struct {
	EnableTypes  []string         `json:"enableTypes"`
	EnableHeight map[string]int64 `json:"enableHeight"`
	KeySeed      string           `json:"keySeed"`
	Queries      []query          `json:"queries"`
}

type reply struct {
	Results []bool   `json:"results"`
	Panics  []string `json:"panics"`
	Err     string   `json:"err,omitempty"`
}

func check(tx *types.Transaction, h int64) (ok bool, p string) {
	defer func() {
		if r := recover(); r != nil {
			p = fmt.Sprint(r)
		}
	}()
	return tx.CheckSign(h), ""
}

func main() {
	clog.SetLogLevel("crit")
	var req request
	var rep reply
	out := func() { b, _ := json.Marshal(rep); fmt.Printf("\nC16CHILD %s\n", b) }
	if err := json.NewDecoder(os.Stdin).Decode(&req); err != nil {
		rep.Err = "bad request: " + err.Error()
		out()
		os.Exit(2)
	}
	// the documented way a node installs the [crypto] section of its configuration (common/crypto/client does the same)
	crypto.Init(&crypto.Config{EnableTypes: req.EnableTypes, EnableHeight: req.EnableHeight}, nil)

	signed := map[string]*types.Transaction{}
	for _, q := range req.Queries {
		tx := signed[q.Type]
		if tx == nil {
			tx = &types.Transaction{Execer: []byte("coins"), Payload: []byte("payload-" + req.KeySeed), Fee: 100000, Nonce: 9, To: "1Q4NhureJxKNBf71d26B9J3fBQoQcfmez2"}
			ty := int32(crypto.GetType(q.Type))
			if ty == 0 {
				rep.Err = "type not registered: " + q.Type
				out()
				os.Exit(2)
			}
			if q.Type == "none" { // no key: the client just labels the transaction
				tx.Signature = &types.Signature{Ty: ty, Pubkey: []byte("nobody"), Signature: []byte("nothing")}
			} else {
				c, err := crypto.Load(q.Type, -1) // -1: load without the enable check (documented), signing itself is not gated
				if err != nil {
					rep.Err = "load " + q.Type + ": " + err.Error()
					out()
					os.Exit(2)
				}
				h := sha256.Sum256([]byte("c16child" + req.KeySeed))
				h[0] &= 0x7f
				priv, err := c.PrivKeyFromBytes(h[:])
				if err != nil {
					rep.Err = "key " + q.Type + ": " + err.Error()
					out()
					os.Exit(2)
				}
				tx.Sign(ty, priv)
			}
			signed[q.Type] = tx
		}
		if q.Tamper {
			tx = tx.Clone()
			tx.Fee++
		}
		ok, p := check(tx, q.Height)
		rep.Results = append(rep.Results, ok)
		rep.Panics = append(rep.Panics, p)
	}
	out()
}
