package chainfix

import (
	"path/filepath"

	"github.com/33cn/chain33/blockchain"
	"github.com/33cn/chain33/common/address"
	cryptocli "github.com/33cn/chain33/common/crypto/client"
	"github.com/33cn/chain33/consensus"
	"github.com/33cn/chain33/executor"
	"github.com/33cn/chain33/mempool"
	"github.com/33cn/chain33/queue"
	"github.com/33cn/chain33/store"
	"github.com/33cn/chain33/types"
)

// PNode is a node assembled like util/testnode does (queue, crypto, executor, store, blockchain, solo consensus
// with mining off, mempool, stub p2p and wallet) but on a caller-chosen data directory that survives the process,
// so that it can be re-opened after a crash.
type PNode struct {
	Q      queue.Queue
	Client queue.Client
	Cfg    *types.Chain33Config
	Chain  *blockchain.BlockChain
	mods   []queue.Module
}

type sink struct{ topic string }

func (s *sink) SetQueueClient(c queue.Client) {
	go func() {
		c.Sub(s.topic)
		for msg := range c.Recv() {
			switch msg.Ty {
			case types.EventPeerInfo:
				msg.Reply(c.NewMessage(s.topic, types.EventPeerList, &types.PeerList{}))
			case types.EventGetNetInfo:
				msg.Reply(c.NewMessage(s.topic, types.EventPeerList, &types.NodeNetInfo{}))
			case types.EventTxBroadcast, types.EventBlockBroadcast, types.EventAddBlock, types.EventDelBlock:
				c.FreeMessage(msg)
			default:
				msg.ReplyErr(s.topic+" stub", types.ErrNotSupport)
			}
		}
	}()
}
func (s *sink) Wait()  {}
func (s *sink) Close() {}

// OpenPersistent opens (creating if empty) a node whose databases live under dir.
func OpenPersistent(dir string, opts ...Option) *PNode {
	Quiet()
	cfg := types.NewChain33Config(types.GetDefaultCfgstring())
	m := cfg.GetModuleConfig()
	m.Consensus.Minerstart = false
	m.Log.LogFile = filepath.Join(dir, "logs", "chain33.log")
	m.BlockChain.DbPath = filepath.Join(dir, "datadir")
	m.P2P.DbPath = filepath.Join(dir, "addrbook")
	m.Wallet.DbPath = filepath.Join(dir, "wallet")
	m.Store.DbPath = filepath.Join(dir, "mavltree")
	for _, o := range opts {
		o(cfg)
	}
	q := queue.New("channel")
	q.SetConfig(cfg)
	n := &PNode{Q: q, Cfg: cfg}
	address.Init(m.Address)
	cr := cryptocli.New()
	cr.SetQueueClient(q.Client())
	ex := executor.New(cfg)
	ex.SetQueueClient(q.Client())
	st := store.New(cfg)
	st.SetQueueClient(q.Client())
	// stubs must listen before blockchain/consensus start talking
	p2p := &sink{topic: "p2p"}
	p2p.SetQueueClient(q.Client())
	wal := &sink{topic: "wallet"}
	wal.SetQueueClient(q.Client())
	n.Chain = blockchain.New(cfg)
	n.Chain.SetQueueClient(q.Client())
	cs := consensus.New(cfg)
	cs.SetQueueClient(q.Client())
	mem := mempool.New(cfg)
	mem.SetQueueClient(q.Client())
	mem.Wait()
	n.Client = q.Client()
	n.mods = []queue.Module{cr, mem, ex, cs, n.Chain, st}
	Quiet()
	return n
}

// Close shuts the modules down in the order testnode uses.
func (n *PNode) Close() {
	for _, m := range n.mods {
		m.Close()
	}
	n.Client.Close()
}

// Deliver hands a block to the node as received from peer pid.
func (n *PNode) Deliver(b *types.Block, pid string) error {
	_, err := n.Chain.ProcAddBlockMsg(false, &types.BlockDetail{Block: types.Clone(b).(*types.Block)}, pid)
	return err
}

// Snapshot renders the persisted chain (see Node.Snapshot).
func (n *PNode) Snapshot(txHashes [][]byte, addrs []string) *View {
	return SnapshotOf(n.Chain, n.Client, n.Cfg, txHashes, addrs, false)
}
