// Package chainfix is the shared blockchain fixture of the chain-level checks (C25–C29): in-process
// nodes that never mine on their own, a builder that produces valid blocks on any parent, and an
// observational snapshot of a node's persisted chain.
package chainfix

import (
	"bytes"
	"fmt"
	"math/big"
	"sort"

	"github.com/33cn/chain33/account"
	"github.com/33cn/chain33/blockchain"
	"github.com/33cn/chain33/common"
	"github.com/33cn/chain33/common/address"
	"github.com/33cn/chain33/common/crypto"
	"github.com/33cn/chain33/common/difficulty"
	"github.com/33cn/chain33/common/log/log15"
	"github.com/33cn/chain33/common/merkle"
	"github.com/33cn/chain33/executor"
	"github.com/33cn/chain33/queue"
	_ "github.com/33cn/chain33/system" // register drivers
	cty "github.com/33cn/chain33/system/dapp/coins/types"
	"github.com/33cn/chain33/types"
	"github.com/33cn/chain33/util"
	"github.com/33cn/chain33/util/testnode"
)

func init() { Quiet() }

// Quiet discards all chain33 log output (log.SetLogLevel cannot lower the level once testnode's init has cached an info-level console handler).
func Quiet() { log15.Root().SetHandler(log15.DiscardHandler()) }

// Node is an in-process chain33 node (solo consensus with mining switched off, so the only blocks it
// ever sees are the ones delivered to it).
type Node struct {
	*testnode.Chain33Mock
	Cfg *types.Chain33Config
	// ProbeAddrIndex makes Snapshot include per-address local index results (off by default).
	ProbeAddrIndex bool
}

// Option mutates the configuration before the node starts.
type Option func(*types.Chain33Config)

// NewNode starts a node with the default test configuration, mining off.
func NewNode(opts ...Option) *Node {
	Quiet()
	cfg := types.NewChain33Config(types.GetDefaultCfgstring())
	cfg.GetModuleConfig().Consensus.Minerstart = false
	for _, o := range opts {
		o(cfg)
	}
	m := testnode.NewWithConfig(cfg, nil)
	Quiet()
	return &Node{Chain33Mock: m, Cfg: m.GetClient().GetConfig()}
}

// Genesis returns the genesis block (with its state hash).
func (n *Node) Genesis() *types.Block {
	d, err := n.GetBlockChain().GetBlock(0)
	if err != nil {
		panic(err)
	}
	return d.Block
}

// Deliver hands a block to the node the way the p2p layer does for a block received from peer pid.
func (n *Node) Deliver(b *types.Block, pid string, broadcast bool) (isMain, isOrphan bool, err error) {
	blk := types.Clone(b).(*types.Block)
	_, isMain, isOrphan, err = n.GetBlockChain().ProcessBlock(broadcast, &types.BlockDetail{Block: blk}, pid, true, -1)
	return
}

// Tip returns the height and hash of the node's best-chain tip as persisted.
func (n *Node) Tip() (int64, []byte) {
	h := n.GetBlockChain().GetBlockHeight()
	hash, err := n.GetBlockChain().GetStore().GetBlockHashByHeight(h)
	if err != nil {
		panic(err)
	}
	return h, hash
}

// Builder produces valid blocks on arbitrary parents using its own node's executor and store (mavl keeps
// every committed version, so any earlier state root can be extended). Its own chain stays at genesis.
type Builder struct {
	N *Node
}

// NewBuilder starts a builder node.
func NewBuilder(opts ...Option) *Builder { return &Builder{N: NewNode(opts...)} }

// Child executes txs on top of parent (whose StateHash must be set) and returns the completed block.
// Transactions that fail with ExecErr are dropped, exactly as a producing node does.
func (b *Builder) Child(parent *types.Block, txs []*types.Transaction, bits uint32, blockTime int64) (*types.Block, error) {
	return b.ChildAt(parent, txs, bits, blockTime, parent.Height+1)
}

// ChildAt is Child with an explicit (possibly forged) height in the header: tx root and state root are those of executing
// the body on the parent's state at that height.
func (b *Builder) ChildAt(parent *types.Block, txs []*types.Transaction, bits uint32, blockTime int64, height int64) (*types.Block, error) {
	cfg := b.N.Cfg
	blk := &types.Block{Height: height, ParentHash: parent.Hash(cfg), BlockTime: blockTime, Difficulty: bits}
	for _, tx := range txs {
		blk.Txs = append(blk.Txs, types.Clone(tx).(*types.Transaction))
	}
	if cfg.IsFork(blk.Height, "ForkRootHash") {
		blk.Txs = types.TransactionSort(blk.Txs)
	}
	blk.TxHash = merkle.CalcMerkleRoot(cfg, blk.Height, blk.Txs)
	detail, _, err := util.ExecBlock(b.N.GetClient(), parent.StateHash, blk, false, true, false)
	if err != nil {
		return nil, err
	}
	if len(detail.Block.Txs) == 0 {
		return nil, fmt.Errorf("all transactions of the block failed")
	}
	return detail.Block, nil
}

// Keys are the funded test keys of the default genesis/test setup; Keys[1] is the genesis account.
func Keys() []crypto.PrivKey { return util.TestPrivkeyList }

// Addr returns the default-format address of a key.
func Addr(k crypto.PrivKey) string {
	return address.PubKeyToAddr(address.DefaultID, k.PubKey().Bytes())
}

// TransferTx is a signed coins transfer with an explicit nonce (so two calls give distinct hashes).
func TransferTx(cfg *types.Chain33Config, from crypto.PrivKey, to string, amount, nonce int64) *types.Transaction {
	v := &cty.CoinsAction_Transfer{Transfer: &types.AssetsTransfer{Amount: amount, Note: []byte("verif"), To: to}}
	tx := &types.Transaction{Execer: []byte(cfg.GetCoinExec()), Payload: types.Encode(&cty.CoinsAction{Value: v, Ty: cty.CoinsActionTransfer}),
		Fee: 1e6, To: to, Nonce: nonce, ChainID: cfg.GetChainID()}
	tx.Sign(types.SECP256K1, from)
	return tx
}

// Work returns the work of a block with compact difficulty bits.
func Work(bits uint32) *big.Int { return difficulty.CalcWork(bits) }

// View is an observational snapshot of the persisted best chain of a node.
type View struct {
	Height  int64
	Lines   []string // rendered facts, comparable with Diff
	TipHash []byte
}

// Snapshot renders everything a client can observe about the persisted chain: per height the hash index,
// header, body+receipts and total difficulty; per probed tx hash its index entry (or absence); per probed
// address its balance at the tip state and its indexed tx count.
func (n *Node) Snapshot(txHashes [][]byte, addrs []string) *View {
	return SnapshotOf(n.GetBlockChain(), n.GetClient(), n.Cfg, txHashes, addrs, n.ProbeAddrIndex)
}

// SnapshotOf is Snapshot for any assembled blockchain module.
func SnapshotOf(chain *blockchain.BlockChain, client queue.Client, cfg *types.Chain33Config, txHashes [][]byte, addrs []string, probeAddrIndex bool) *View {
	st := chain.GetStore()
	v := &View{Height: chain.GetBlockHeight()}
	add := func(format string, a ...interface{}) { v.Lines = append(v.Lines, fmt.Sprintf(format, a...)) }
	if st.Height() != v.Height {
		add("store.Height=%d chain.Height=%d", st.Height(), v.Height)
	}
	lh := st.LastHeader()
	add("lastHeader h=%d hash=%x", lh.GetHeight(), lh.GetHash())
	var tipState []byte
	for h := int64(0); h <= v.Height; h++ {
		hash, err := st.GetBlockHashByHeight(h)
		if err != nil {
			add("h=%d hashByHeight err=%v", h, err)
			continue
		}
		add("h=%d hash=%x", h, hash)
		hdr, err := st.GetBlockHeaderByHash(hash)
		if err != nil {
			add("h=%d header err=%v", h, err)
		} else {
			add("h=%d header=%x", h, common.Sha256(types.Encode(hdr)))
		}
		d, err := chain.GetBlock(h)
		if err != nil {
			add("h=%d block err=%v", h, err)
		} else {
			add("h=%d body=%x ntx=%d nreceipt=%d", h, common.Sha256(types.Encode(normBlock(d.Block))), len(d.Block.Txs), len(d.Receipts))
			add("h=%d receipts=%x", h, common.Sha256(types.Encode(&types.BlockDetail{Receipts: d.Receipts})))
			if !bytes.Equal(d.Block.Hash(cfg), hash) {
				add("h=%d stored block hash %x differs from index", h, d.Block.Hash(cfg))
			}
			tipState = d.Block.StateHash
		}
		bh, err := st.LoadBlockByHash(hash)
		if err != nil {
			add("h=%d loadByHash err=%v", h, err)
		} else {
			add("h=%d byHash=%x", h, common.Sha256(types.Encode(normBlock(bh.Block))))
		}
		td, err := st.GetTdByBlockHash(hash)
		if err != nil {
			add("h=%d td err=%v", h, err)
		} else {
			add("h=%d td=%s", h, td.String())
		}
		if h == v.Height {
			v.TipHash = hash
		}
	}
	// nothing above the tip
	if hash, err := st.GetBlockHashByHeight(v.Height + 1); err == nil {
		add("h=%d (above tip) still indexed hash=%x", v.Height+1, hash)
	}
	for _, th := range txHashes {
		d, err := chain.ProcQueryTxMsg(th)
		if err != nil {
			add("tx %x absent", th)
		} else {
			add("tx %x height=%d index=%d receipt=%x", th, d.Height, d.Index, common.Sha256(types.Encode(d.Receipt)))
		}
	}
	sa := append([]string(nil), addrs...)
	sort.Strings(sa)
	if tipState != nil {
		sdb := executor.NewStateDB(client, tipState, nil, nil)
		acc := account.NewCoinsAccount(cfg)
		acc.SetDB(sdb)
		for _, a := range sa {
			ac := acc.LoadAccount(a)
			add("acc %s balance=%d frozen=%d", a, ac.Balance, ac.Frozen)
		}
	}
	if probeAddrIndex {
		// per-address local indexes (tx count, received total) are the subject of C14, not of C25's list of persisted chain facts
		for _, a := range sa {
			ov, err := chain.ProcGetAddrOverview(&types.ReqAddr{Addr: a})
			if err != nil {
				add("addr %s overview err=%v", a, err)
			} else {
				add("addr %s txcount=%d reciver=%d", a, ov.TxCount, ov.Reciver)
			}
		}
	}
	return v
}

// normBlock clears MainHash/MainHeight: on a main (non-para) chain they are derived from the block itself
// and are filled in only when a block is read back from the database (a block served from the in-memory
// cache of a directly connected block lacks them), so they are not part of the persisted chain's identity.
func normBlock(b *types.Block) *types.Block {
	c := types.Clone(b).(*types.Block)
	c.MainHash, c.MainHeight = nil, 0
	return c
}

// Diff returns the first few differing lines of two views ("" when identical).
func Diff(a, b *View) string {
	var out []string
	n := len(a.Lines)
	if len(b.Lines) > n {
		n = len(b.Lines)
	}
	for i := 0; i < n && len(out) < 6; i++ {
		var x, y string
		if i < len(a.Lines) {
			x = a.Lines[i]
		}
		if i < len(b.Lines) {
			y = b.Lines[i]
		}
		if x != y {
			out = append(out, fmt.Sprintf("  got:  %s\n  want: %s", x, y))
		}
	}
	if len(out) == 0 {
		return ""
	}
	s := ""
	for _, o := range out {
		s += o + "\n"
	}
	return s
}

// SeqRecord is one entry of the block sequence log.
type SeqRecord struct {
	Seq  int64
	Hash []byte
	Type int64
}

// SequenceLog reads the node's whole sequence log (0..last).
func (n *Node) SequenceLog() ([]SeqRecord, int64, error) {
	st := n.GetBlockChain().GetStore()
	last, err := st.LoadBlockLastSequence()
	if err != nil {
		return nil, -1, err
	}
	var recs []SeqRecord
	for s := int64(0); s <= last; s++ {
		r, err := st.GetBlockSequence(s)
		if err != nil {
			return recs, last, fmt.Errorf("sequence %d missing: %v", s, err)
		}
		recs = append(recs, SeqRecord{Seq: s, Hash: r.Hash, Type: r.Type})
	}
	return recs, last, nil
}
