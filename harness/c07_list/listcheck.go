// C07: paged listing (ListHelper.List / PrefixCount, merged view over layered databases, LocalDB).
//
// Oracle (from the property text): the entries "under prefix P" are the keys k with HasPrefix(k, P); an
// entry is live when its visible value is non-empty (an empty value marks it deleted); in a layered view
// the visible value of a key is the one in the top-most layer that has the key (a tombstone there hides
// lower values).  Paging = List(P, nil, count, dir) then List(P, lastReturnedKey, count, dir) until nothing
// is returned; the concatenation of the pages must be exactly the live keys under P, ascending for
// ListASC / descending for ListDESC, with their visible values; PrefixCount(P) = number of live keys.
// Secondary probes grounded in callers/tests of the repository: List(P, K, 1, ListSeek) is the floor lookup
// used by SimpleMVCC.GetV (largest live key <= K under P), and a listing may start after an arbitrary key K
// under P (list_helper_test.go) and then returns the live keys strictly beyond K.
package c07

import (
	"bytes"
	"encoding/hex"
	"fmt"
	"os"
	"sort"
	"strconv"
	"strings"

	dbm "github.com/33cn/chain33/common/db"
	"github.com/33cn/chain33/types"
	"pgregory.net/rapid"
	"verifharness/lib"
)

// Prop is the property id.
const Prop = "C07"

// NodeNS is the key namespace of the node variant (package c07_node).
const NodeNS = "c07~"

// ---------------------------------------------------------------------------------------------------
// case description

// Entry is one write of the case.
type Entry struct {
	Layer int    // 0 = top (txcache), 1 = cache, 2 = base
	K     []byte // key
	Tomb  bool   // empty value: marked deleted
	Nil   bool   // tombstone written as nil instead of []byte{}
}

// Value of a live entry: key + '#' + layer digit, so that the key can be rebuilt from a value-only listing
// (as real callers rebuild their keys from the stored records) and the layer that supplied it is visible.
func (e Entry) Value() []byte {
	if e.Tomb {
		if e.Nil {
			return nil
		}
		return []byte{}
	}
	return append(append([]byte{}, e.K...), '#', byte('0'+e.Layer))
}

// Case is one generated key set with the view it is loaded into.
type Case struct {
	Fixture string   // single:<backend> | merged:<b0>,<b1>,<b2> | localdb:<backend> | localdb-ro:<backend> | node
	Prefix  []byte   // nil or bytes
	Entries []Entry  // written layer 2 first, then 1, then 0; inside a layer in this order
	Warm    [][]byte // localdb: keys read with Get before the transaction starts (read-through copies base->cache)
	Probes  [][]byte // keys under Prefix for ListSeek and "start after K" listings
	Sizes   []int32  // page sizes
}

func h(b []byte) string {
	if b == nil {
		return "nil"
	}
	return "x" + hex.EncodeToString(b)
}

func hs(ks [][]byte) string {
	s := make([]string, len(ks))
	for i, k := range ks {
		s[i] = h(k)
	}
	return "[" + strings.Join(s, " ") + "]"
}

func (c Case) Render() map[string]interface{} {
	es := make([]string, len(c.Entries))
	for i, e := range c.Entries {
		es[i] = fmt.Sprintf("L%d %s=%s", e.Layer, h(e.K), h(e.Value()))
	}
	return map[string]interface{}{"fixture": c.Fixture, "prefix": h(c.Prefix), "entries": es, "warm": hs(c.Warm), "probes": hs(c.Probes), "sizes": fmt.Sprint(c.Sizes)}
}

// ---------------------------------------------------------------------------------------------------
// model

type vis struct {
	k, v   []byte
	layers int // number of layers holding the key
}

// visible returns, sorted by key, every distinct key under the prefix with its visible value.
func (c Case) visible() []vis {
	top := map[string]Entry{}
	layers := map[string]map[int]bool{}
	for _, e := range c.Entries {
		if !bytes.HasPrefix(e.K, c.Prefix) {
			continue
		}
		k := string(e.K)
		if layers[k] == nil {
			layers[k] = map[int]bool{}
		}
		layers[k][e.Layer] = true
		if cur, ok := top[k]; !ok || e.Layer <= cur.Layer { // upper layer wins; inside a layer the later write wins
			top[k] = e
		}
	}
	var out []vis
	for k, e := range top {
		out = append(out, vis{[]byte(k), e.Value(), len(layers[k])})
	}
	sort.Slice(out, func(i, j int) bool { return bytes.Compare(out[i].k, out[j].k) < 0 })
	return out
}

func live(all []vis) []vis {
	var out []vis
	for _, v := range all {
		if len(v.v) > 0 {
			out = append(out, v)
		}
	}
	return out
}

func reversed(v []vis) []vis {
	out := make([]vis, len(v))
	for i := range v {
		out[len(v)-1-i] = v[i]
	}
	return out
}

// ---------------------------------------------------------------------------------------------------
// the checks on one view

type enc struct {
	name string
	flag int32
}

var encs = []enc{{"value", 0}, {"withkey", dbm.ListWithKey}, {"keyonly", dbm.ListKeyOnly}}

// decode one returned item into (key, value); value nil when the encoding carries none.
func decode(e enc, item []byte) (k, v []byte, err error) {
	switch e.flag {
	case dbm.ListKeyOnly:
		return item, nil, nil
	case dbm.ListWithKey:
		var kv types.KeyValue
		if err := types.Decode(item, &kv); err != nil {
			return nil, nil, err
		}
		return kv.Key, kv.Value, nil
	}
	if len(item) < 2 || item[len(item)-2] != '#' {
		return nil, nil, fmt.Errorf("value %s is not one the harness wrote", h(item))
	}
	return item[:len(item)-2], item, nil
}

type Result struct {
	Listings, Pages int
	BoundaryNT      bool // some listing had >= 2 pages with a tombstone or a layer duplicate adjacent to a page boundary
	Seeks           int
}

// CheckView runs PrefixCount and every listing of the case on view l. fail must not return.
func CheckView(c Case, l dbm.Lister, fail func(format string, a ...interface{})) (res Result) {
	all := c.visible()
	want := live(all)

	if n := l.PrefixCount(Clone(c.Prefix)); n != int64(len(want)) {
		fail("PrefixCount(%s) = %d, model has %d live entries %s", h(c.Prefix), n, len(want), keysOf(want))
	}
	res = CheckLists(c, l, fail)
	return res
}

// CheckLists runs every listing of the case on view l.
func CheckLists(c Case, l interface {
	List(prefix, key []byte, count, direction int32) ([][]byte, error)
}, fail func(format string, a ...interface{})) (res Result) {
	all := c.visible()
	want := live(all)

	// listAfter pages through the view starting after key `from` (nil: from the end given by the direction).
	listAfter := func(from []byte, count int32, asc bool, e enc, expect []vis) {
		dir := dbm.ListDESC
		if asc {
			dir = dbm.ListASC
		}
		what := fmt.Sprintf("List(prefix=%s, from=%s, count=%d, dir=%d|%s)", h(c.Prefix), h(from), count, dir, e.name)
		var got []vis
		var bounds []int // index in got of the first item of pages 2..
		key := Clone(from)
		for page := 0; ; page++ {
			if page > len(expect)+2 {
				fail("%s: paging does not terminate: %d pages for %d expected entries; keys so far %s", what, page, len(expect), keysOf(got))
			}
			items, err := l.List(Clone(c.Prefix), key, count, dir|e.flag)
			if err != nil && err != types.ErrNotFound {
				fail("%s: page %d returned error %v", what, page, err)
			}
			if len(items) == 0 {
				break
			}
			res.Pages++
			if count > 0 && len(items) > int(count) {
				fail("%s: page %d has %d items", what, page, len(items))
			}
			if page > 0 {
				bounds = append(bounds, len(got))
			}
			for _, it := range items {
				k, v, derr := decode(e, it)
				if derr != nil {
					fail("%s: page %d: cannot decode item %s: %v", what, page, h(it), derr)
				}
				got = append(got, vis{k: k, v: v})
			}
			key = Clone(got[len(got)-1].k)
		}
		res.Listings++
		// exactly the expected keys, in order, once
		ok := len(got) == len(expect)
		for i := 0; ok && i < len(got); i++ {
			ok = bytes.Equal(got[i].k, expect[i].k) && (got[i].v == nil || bytes.Equal(got[i].v, expect[i].v))
		}
		if !ok {
			fail("%s returned %s, model expects %s", what, kvsOf(got), kvsOf(expect))
		}
		// non-triviality: >= 2 pages and a tombstone or a layer duplicate next to a page boundary
		for _, b := range bounds {
			a, z := got[b-1].k, got[b].k
			for _, v := range all {
				between := (bytes.Compare(a, v.k) < 0 && bytes.Compare(v.k, z) < 0) || (bytes.Compare(z, v.k) < 0 && bytes.Compare(v.k, a) < 0)
				edge := bytes.Equal(v.k, a) || bytes.Equal(v.k, z)
				if (between && len(v.v) == 0) || (edge && v.layers > 1) {
					res.BoundaryNT = true
				}
			}
		}
	}

	for _, asc := range []bool{true, false} {
		expect := want
		if !asc {
			expect = reversed(want)
		}
		for _, e := range encs {
			for _, count := range c.Sizes {
				listAfter(nil, count, asc, e, expect)
			}
		}
	}

	for i, k := range c.Probes {
		// floor lookup
		res.Seeks++
		var floor *vis
		for j := range want {
			if bytes.Compare(want[j].k, k) <= 0 {
				floor = &want[j]
			}
		}
		r, err := l.List(Clone(c.Prefix), Clone(k), 1, dbm.ListSeek)
		if err != nil && err != types.ErrNotFound {
			fail("List(prefix=%s, key=%s, 1, ListSeek) returned error %v", h(c.Prefix), h(k), err)
		}
		switch {
		case floor == nil && len(r) != 0:
			fail("List(prefix=%s, key=%s, 1, ListSeek) = %s, model: no live key <= key under the prefix", h(c.Prefix), h(k), hs(r))
		case floor != nil && (len(r) != 2 || !bytes.Equal(r[0], floor.k) || !bytes.Equal(r[1], floor.v)):
			fail("List(prefix=%s, key=%s, 1, ListSeek) = %s, model: [%s %s]", h(c.Prefix), h(k), hs(r), h(floor.k), h(floor.v))
		}
		// listing that starts after an arbitrary key under the prefix
		for _, asc := range []bool{true, false} {
			var expect []vis
			for _, v := range want {
				if cmp := bytes.Compare(v.k, k); (asc && cmp > 0) || (!asc && cmp < 0) {
					expect = append(expect, v)
				}
			}
			if !asc {
				expect = reversed(expect)
			}
			listAfter(k, c.Sizes[i%len(c.Sizes)], asc, encs[i%len(encs)], expect)
		}
	}
	return res
}

// kvsOf renders key=value pairs (value omitted when the encoding carries none).
func kvsOf(v []vis) string {
	s := make([]string, len(v))
	for i := range v {
		s[i] = h(v[i].k)
		if v[i].v != nil {
			s[i] += "=" + h(v[i].v)
		}
	}
	return "[" + strings.Join(s, " ") + "]"
}

func keysOf(v []vis) string {
	s := make([]string, len(v))
	for i := range v {
		s[i] = h(v[i].k)
	}
	return "[" + strings.Join(s, " ") + "]"
}

// ---------------------------------------------------------------------------------------------------
// generator

var prefixes = [][]byte{nil, {}, []byte("k"), []byte("ab"), {'a', 0xff}, {'k', 0xff, 0xff}, {0xff}, {0xff, 0xff}, {'t', '-', 0x00}}

var sufAlpha = []byte{0x00, 'a', 'b', 0xff}

func maxKeys() int {
	if n, err := strconv.Atoi(os.Getenv("C07_MAXKEYS")); err == nil && n > 0 {
		return n
	}
	return 12
}

// GenCase: ns is prepended to the drawn prefix (the node variant keeps to its own namespace).
func GenCase(t *rapid.T, fixtures []string, ns string) Case {
	c := Case{Fixture: rapid.SampledFrom(fixtures).Draw(t, "fixture")}
	c.Prefix = Clone(rapid.SampledFrom(prefixes).Draw(t, "prefix"))
	if ns != "" {
		c.Prefix = append([]byte(ns), c.Prefix...)
	}
	layered := !strings.HasPrefix(c.Fixture, "single") && !strings.HasPrefix(c.Fixture, "localdb-ro")
	layer := func() int {
		switch {
		case strings.HasPrefix(c.Fixture, "single"):
			return 0
		case strings.HasPrefix(c.Fixture, "localdb-ro"):
			return 2
		case strings.HasPrefix(c.Fixture, "merged"):
			return rapid.IntRange(0, strings.Count(c.Fixture, ",")).Draw(t, "layer")
		}
		return rapid.IntRange(0, 2).Draw(t, "layer")
	}
	suffix := func(label string) []byte {
		return rapid.SliceOfN(rapid.SampledFrom(sufAlpha), 0, 3).Draw(t, label)
	}
	under := func(label string) []byte { return append(Clone(c.Prefix), suffix(label)...) }
	add := func(k []byte, l int) {
		if len(k) == 0 {
			return // the empty key is not a key
		}
		e := Entry{Layer: l, K: k}
		if rapid.IntRange(0, 4).Draw(t, "tomb") == 0 {
			e.Tomb, e.Nil = true, rapid.Bool().Draw(t, "nil")
		}
		c.Entries = append(c.Entries, e)
	}
	n := rapid.IntRange(0, maxKeys()).Draw(t, "nkeys")
	for i := 0; i < n; i++ {
		if layered && len(c.Entries) > 0 && rapid.IntRange(0, 2).Draw(t, "dup") == 0 {
			// the same key again, possibly in another layer
			add(Clone(rapid.SampledFrom(c.Entries).Draw(t, "dupof").K), layer())
			continue
		}
		add(under("suffix"), layer())
	}
	// decoys just outside the prefix
	if p := c.Prefix; len(p) > 0 {
		for i, nd := 0, rapid.IntRange(0, 4).Draw(t, "ndecoys"); i < nd; i++ {
			k := Clone(p)
			switch rapid.IntRange(0, 3).Draw(t, "decoy") {
			case 0:
				k = k[:len(k)-1] // shorter than the prefix
			case 1:
				if k[len(k)-1] > 0 {
					k[len(k)-1]--
					k = append(k, suffix("dsuffix")...)
				}
			case 2, 3:
				// the first key above every key of the prefix: drop trailing 0xff bytes, add one to the last
				// byte left (none exists for an all-0xff prefix); alone or followed by a suffix
				for len(k) > 0 && k[len(k)-1] == 0xff {
					k = k[:len(k)-1]
				}
				if len(k) > 0 {
					k[len(k)-1]++
					if rapid.Bool().Draw(t, "dabove-suffix") {
						k = append(k, suffix("dsuffix")...)
					}
				}
			}
			if len(k) == 0 {
				continue
			}
			if !bytes.HasPrefix(k, p) {
				add(k, layer())
			}
		}
	}
	if strings.HasPrefix(c.Fixture, "localdb:") {
		for _, e := range c.Entries {
			if e.Layer == 2 && rapid.IntRange(0, 3).Draw(t, "warm") == 0 {
				c.Warm = append(c.Warm, e.K)
			}
		}
	}
	for i, np := 0, rapid.IntRange(0, 3).Draw(t, "nprobes"); i < np; i++ {
		var k []byte
		if len(c.Entries) > 0 && rapid.Bool().Draw(t, "probe-existing") {
			k = Clone(rapid.SampledFrom(c.Entries).Draw(t, "probe").K)
		} else {
			k = under("probe-suffix")
		}
		if len(k) > 0 && bytes.HasPrefix(k, c.Prefix) {
			c.Probes = append(c.Probes, k)
		}
	}
	// page sizes: every size 1..live+1 (capped at 16, larger ones sampled) and 0 = unlimited
	nl := len(live(c.visible()))
	for s := 1; s <= nl+1 && s <= 16; s++ {
		c.Sizes = append(c.Sizes, int32(s))
	}
	if nl+1 > 16 {
		c.Sizes = append(c.Sizes, int32(nl), int32(nl+1), int32(rapid.IntRange(17, nl+1).Draw(t, "size")))
	}
	c.Sizes = append(c.Sizes, 0)
	return c
}

// ---------------------------------------------------------------------------------------------------

func Classify(c Case, res Result) {
	lib.Class("fixture:" + strings.Split(c.Fixture, ":")[0])
	switch {
	case len(c.Prefix) == 0 || string(c.Prefix) == NodeNS:
		lib.Class("prefix:empty")
	case bytes.Count(c.Prefix, []byte{0xff}) == len(c.Prefix):
		lib.Class("prefix:all-ff")
	case c.Prefix[len(c.Prefix)-1] == 0xff:
		lib.Class("prefix:ends-ff")
	default:
		lib.Class("prefix:plain")
	}
	all := c.visible()
	tomb, dup := 0, 0
	for _, v := range all {
		if len(v.v) == 0 {
			tomb++
		}
		if v.layers > 1 {
			dup++
		}
	}
	if tomb > 0 {
		lib.Class("set:has_tombstone")
	}
	if dup > 0 {
		lib.Class("set:has_layer_duplicate")
	}
	if len(all) < len(c.Entries)-dup {
		lib.Class("set:has_decoy_or_overwrite")
	}
	if res.BoundaryNT {
		lib.Class("case:tombstone_or_dup_at_page_boundary")
	}
	lib.ClassN("listings", res.Listings)
	lib.ClassN("pages", res.Pages)
	lib.ClassN("listseek_probes", res.Seeks)
}

func Clone(b []byte) []byte {
	if b == nil {
		return nil
	}
	return append([]byte{}, b...)
}

func MustSet(err error) {
	if err != nil {
		lib.Inconclusive("fixture write failed: %v", err)
	}
}
