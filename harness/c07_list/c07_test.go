// C07 direct fixtures: one database behind NewKVDB, NewMergedIteratorDB over 2-3 databases, NewLocalDB.
// The oracle, the generator and the listing checks are in listcheck.go (shared with package c07_node).
package c07

import (
	"os"
	"strings"
	"testing"

	dbm "github.com/33cn/chain33/common/db"
	clog "github.com/33cn/chain33/common/log"
	"pgregory.net/rapid"
	"verifharness/lib"
)

func TestMain(m *testing.M) {
	clog.SetLogLevel("crit")
	lib.Main(m)
}

// ---------------------------------------------------------------------------------------------------
// fixtures (fresh per case; on-disk databases under $VERIF_WORK, removed after the case)

func workDir() string {
	if d := os.Getenv("VERIF_WORK"); d != "" {
		return d
	}
	return os.TempDir()
}

func openDB(backend string) (dbm.DB, func()) {
	if backend == "memdb" {
		d, _ := dbm.NewGoMemDB("c07", "", 0)
		return d, func() {}
	}
	dir, err := os.MkdirTemp(workDir(), "c07-ldb-")
	if err != nil {
		lib.Inconclusive("cannot create scratch dir: %v", err)
	}
	d, err := dbm.NewGoLevelDB("c07", dir, 16)
	if err != nil {
		os.RemoveAll(dir)
		lib.Inconclusive("cannot open goleveldb in %s: %v", dir, err)
	}
	return d, func() { d.Close(); os.RemoveAll(dir) }
}

type helperLister struct{ *dbm.ListHelper }

func (l helperLister) List(prefix, key []byte, count, direction int32) ([][]byte, error) {
	return l.ListHelper.List(prefix, key, count, direction), nil
}

// build creates the databases of the case and returns the view under test.
func build(c Case) (dbm.Lister, func()) {
	kind, arg, _ := strings.Cut(c.Fixture, ":")
	var closers []func()
	open := func(b string) dbm.DB {
		d, cl := openDB(b)
		closers = append(closers, cl)
		return d
	}
	closeAll := func() {
		for _, cl := range closers {
			cl()
		}
	}
	inLayer := func(l int, f func(e Entry)) {
		for _, e := range c.Entries {
			if e.Layer == l {
				f(e)
			}
		}
	}
	switch kind {
	case "single":
		d := open(arg)
		inLayer(0, func(e Entry) { MustSet(d.Set(Clone(e.K), e.Value())) })
		return dbm.NewKVDB(d), closeAll
	case "merged":
		var dbs []dbm.IteratorDB
		for l, b := range strings.Split(arg, ",") {
			d := open(b)
			inLayer(l, func(e Entry) { MustSet(d.Set(Clone(e.K), e.Value())) })
			dbs = append(dbs, d)
		}
		return helperLister{dbm.NewListHelper(dbm.NewMergedIteratorDB(dbs))}, closeAll
	case "localdb", "localdb-ro":
		base := open(arg)
		inLayer(2, func(e Entry) { MustSet(base.Set(Clone(e.K), e.Value())) })
		l := dbm.NewLocalDB(base, kind == "localdb-ro")
		if kind == "localdb" {
			inLayer(1, func(e Entry) { MustSet(l.Set(Clone(e.K), e.Value())) })
			for _, k := range c.Warm {
				_, _ = l.Get(Clone(k))
			}
			l.Begin()
			inLayer(0, func(e Entry) { MustSet(l.Set(Clone(e.K), e.Value())) })
		}
		return l, closeAll
	}
	panic("unknown fixture " + c.Fixture)
}

// ---------------------------------------------------------------------------------------------------

var directFixtures = []string{
	"single:memdb", "single:goleveldb",
	"merged:memdb,memdb", "merged:memdb,memdb,goleveldb", "merged:goleveldb,memdb,memdb",
	"localdb:memdb", "localdb:goleveldb", "localdb:goleveldb", "localdb-ro:goleveldb",
}

func TestPropList(t *testing.T) {
	defer lib.Flush()
	rapid.Check(t, func(t *rapid.T) {
		c := GenCase(t, directFixtures, "")
		lib.Eval()
		view, closeAll := build(c)
		defer closeAll()
		res := CheckView(c, view, func(format string, a ...interface{}) {
			lib.Violation(t, Prop, "TestPropList", c.Render(), format, a...)
		})
		Classify(c, res)
		if res.BoundaryNT {
			lib.NonTrivialCase(c.Render())
		}
	})
}
