// C07: paged listing (ListHelper.List / PrefixCount, merged view over layered databases, LocalDB).
//
// Oracle (from the property text): the entries "under prefix P" are the keys k with HasPrefix(k, P); an
// entry is live when its visible value is non-empty (an empty value marks it deleted); in a layered view
// the visible value of a key is the one in the top-most layer that has the key (a tombstone there hides
// lower values).  Paging = List(P, nil, count, dir) then List(P, lastReturnedKey, count, dir) until nothing
// is returned; the concatenation of the pages must be exactly the live keys under P, ascending for
// ListASC / descending for ListDESC, with their visible values; PrefixCount(P) = number of live keys.
// Secondary probes grounded in callers/tests of the repository: List(P, K, 1, ListSeek) is the floor lookup
// used by SimpleMVCC.GetV (largest live key <= K under P), and a listing may start after an arbitrary key K
// under P (list_helper_test.go) and then returns the live keys strictly beyond K.
package c07

import (
	"bytes"
	"encoding/hex"
	"fmt"
	"os"
	"sort"
	"strconv"
	"strings"
	"testing"

	dbm "github.com/33cn/chain33/common/db"
	clog "github.com/33cn/chain33/common/log"
	"github.com/33cn/chain33/types"
	"pgregory.net/rapid"
	"verifharness/lib"
)

const prop = "C07"

func TestMain(m *testing.M) {
	clog.SetLogLevel("crit")
	code := m.Run()
	closeNode()
	lib.Flush()
	os.Exit(code)
}

// ---------------------------------------------------------------------------------------------------
// case description

type entry struct {
	Layer int    // 0 = top (txcache), 1 = cache, 2 = base
	K     []byte // key
	Tomb  bool   // empty value: marked deleted
	Nil   bool   // tombstone written as nil instead of []byte{}
}

// value of a live entry: key + '#' + layer digit, so that the key can be rebuilt from a value-only listing
// (as real callers rebuild their keys from the stored records) and the layer that supplied it is visible.
func (e entry) value() []byte {
	if e.Tomb {
		if e.Nil {
			return nil
		}
		return []byte{}
	}
	return append(append([]byte{}, e.K...), '#', byte('0'+e.Layer))
}

type listCase struct {
	Fixture string   // single:<backend> | merged:<b0>,<b1>,<b2> | localdb:<backend> | localdb-ro:<backend> | node
	Prefix  []byte   // nil or bytes
	Entries []entry  // written layer 2 first, then 1, then 0; inside a layer in this order
	Warm    [][]byte // localdb: keys read with Get before the transaction starts (read-through copies base->cache)
	Probes  [][]byte // keys under Prefix for ListSeek and "start after K" listings
	Sizes   []int32  // page sizes
}

func h(b []byte) string {
	if b == nil {
		return "nil"
	}
	return "x" + hex.EncodeToString(b)
}

func hs(ks [][]byte) string {
	s := make([]string, len(ks))
	for i, k := range ks {
		s[i] = h(k)
	}
	return "[" + strings.Join(s, " ") + "]"
}

func (c listCase) render() map[string]interface{} {
	es := make([]string, len(c.Entries))
	for i, e := range c.Entries {
		es[i] = fmt.Sprintf("L%d %s=%s", e.Layer, h(e.K), h(e.value()))
	}
	return map[string]interface{}{"fixture": c.Fixture, "prefix": h(c.Prefix), "entries": es, "warm": hs(c.Warm), "probes": hs(c.Probes), "sizes": fmt.Sprint(c.Sizes)}
}

// ---------------------------------------------------------------------------------------------------
// model

type vis struct {
	k, v   []byte
	layers int // number of layers holding the key
}

// visible returns, sorted by key, every distinct key under the prefix with its visible value.
func (c listCase) visible() []vis {
	top := map[string]entry{}
	layers := map[string]map[int]bool{}
	for _, e := range c.Entries {
		if !bytes.HasPrefix(e.K, c.Prefix) {
			continue
		}
		k := string(e.K)
		if layers[k] == nil {
			layers[k] = map[int]bool{}
		}
		layers[k][e.Layer] = true
		if cur, ok := top[k]; !ok || e.Layer <= cur.Layer { // upper layer wins; inside a layer the later write wins
			top[k] = e
		}
	}
	var out []vis
	for k, e := range top {
		out = append(out, vis{[]byte(k), e.value(), len(layers[k])})
	}
	sort.Slice(out, func(i, j int) bool { return bytes.Compare(out[i].k, out[j].k) < 0 })
	return out
}

func live(all []vis) []vis {
	var out []vis
	for _, v := range all {
		if len(v.v) > 0 {
			out = append(out, v)
		}
	}
	return out
}

func reversed(v []vis) []vis {
	out := make([]vis, len(v))
	for i := range v {
		out[len(v)-1-i] = v[i]
	}
	return out
}

// ---------------------------------------------------------------------------------------------------
// fixtures (fresh per case; on-disk databases under $VERIF_WORK, removed after the case)

func workDir() string {
	if d := os.Getenv("VERIF_WORK"); d != "" {
		return d
	}
	return os.TempDir()
}

func openDB(backend string) (dbm.DB, func()) {
	if backend == "memdb" {
		d, _ := dbm.NewGoMemDB("c07", "", 0)
		return d, func() {}
	}
	dir, err := os.MkdirTemp(workDir(), "c07-ldb-")
	if err != nil {
		lib.Inconclusive("cannot create scratch dir: %v", err)
	}
	d, err := dbm.NewGoLevelDB("c07", dir, 16)
	if err != nil {
		os.RemoveAll(dir)
		lib.Inconclusive("cannot open goleveldb in %s: %v", dir, err)
	}
	return d, func() { d.Close(); os.RemoveAll(dir) }
}

type helperLister struct{ *dbm.ListHelper }

func (l helperLister) List(prefix, key []byte, count, direction int32) ([][]byte, error) {
	return l.ListHelper.List(prefix, key, count, direction), nil
}

func clone(b []byte) []byte {
	if b == nil {
		return nil
	}
	return append([]byte{}, b...)
}

func mustSet(err error) {
	if err != nil {
		lib.Inconclusive("fixture write failed: %v", err)
	}
}

// build creates the databases of the case and returns the view under test.
func build(c listCase) (dbm.Lister, func()) {
	kind, arg, _ := strings.Cut(c.Fixture, ":")
	var closers []func()
	open := func(b string) dbm.DB {
		d, cl := openDB(b)
		closers = append(closers, cl)
		return d
	}
	closeAll := func() {
		for _, cl := range closers {
			cl()
		}
	}
	inLayer := func(l int, f func(e entry)) {
		for _, e := range c.Entries {
			if e.Layer == l {
				f(e)
			}
		}
	}
	switch kind {
	case "single":
		d := open(arg)
		inLayer(0, func(e entry) { mustSet(d.Set(clone(e.K), e.value())) })
		return dbm.NewKVDB(d), closeAll
	case "merged":
		var dbs []dbm.IteratorDB
		for l, b := range strings.Split(arg, ",") {
			d := open(b)
			inLayer(l, func(e entry) { mustSet(d.Set(clone(e.K), e.value())) })
			dbs = append(dbs, d)
		}
		return helperLister{dbm.NewListHelper(dbm.NewMergedIteratorDB(dbs))}, closeAll
	case "localdb", "localdb-ro":
		base := open(arg)
		inLayer(2, func(e entry) { mustSet(base.Set(clone(e.K), e.value())) })
		l := dbm.NewLocalDB(base, kind == "localdb-ro")
		if kind == "localdb" {
			inLayer(1, func(e entry) { mustSet(l.Set(clone(e.K), e.value())) })
			for _, k := range c.Warm {
				_, _ = l.Get(clone(k))
			}
			l.Begin()
			inLayer(0, func(e entry) { mustSet(l.Set(clone(e.K), e.value())) })
		}
		return l, closeAll
	}
	panic("unknown fixture " + c.Fixture)
}

// ---------------------------------------------------------------------------------------------------
// the checks on one view

type enc struct {
	name string
	flag int32
}

var encs = []enc{{"value", 0}, {"withkey", dbm.ListWithKey}, {"keyonly", dbm.ListKeyOnly}}

// decode one returned item into (key, value); value nil when the encoding carries none.
func decode(e enc, item []byte) (k, v []byte, err error) {
	switch e.flag {
	case dbm.ListKeyOnly:
		return item, nil, nil
	case dbm.ListWithKey:
		var kv types.KeyValue
		if err := types.Decode(item, &kv); err != nil {
			return nil, nil, err
		}
		return kv.Key, kv.Value, nil
	}
	if len(item) < 2 || item[len(item)-2] != '#' {
		return nil, nil, fmt.Errorf("value %s is not one the harness wrote", h(item))
	}
	return item[:len(item)-2], item, nil
}

type result struct {
	listings, pages int
	boundaryNT      bool // some listing had >= 2 pages with a tombstone or a layer duplicate adjacent to a page boundary
	seeks           int
}

// checkView runs PrefixCount and every listing of the case on view l. fail must not return.
func checkView(c listCase, l dbm.Lister, fail func(format string, a ...interface{})) (res result) {
	all := c.visible()
	want := live(all)

	if n := l.PrefixCount(clone(c.Prefix)); n != int64(len(want)) {
		fail("PrefixCount(%s) = %d, model has %d live entries %s", h(c.Prefix), n, len(want), keysOf(want))
	}
	res = checkLists(c, l, fail)
	return res
}

// checkLists runs every listing of the case on view l.
func checkLists(c listCase, l interface {
	List(prefix, key []byte, count, direction int32) ([][]byte, error)
}, fail func(format string, a ...interface{})) (res result) {
	all := c.visible()
	want := live(all)

	// listAfter pages through the view starting after key `from` (nil: from the end given by the direction).
	listAfter := func(from []byte, count int32, asc bool, e enc, expect []vis) {
		dir := dbm.ListDESC
		if asc {
			dir = dbm.ListASC
		}
		what := fmt.Sprintf("List(prefix=%s, from=%s, count=%d, dir=%d|%s)", h(c.Prefix), h(from), count, dir, e.name)
		var got []vis
		var bounds []int // index in got of the first item of pages 2..
		key := clone(from)
		for page := 0; ; page++ {
			if page > len(expect)+2 {
				fail("%s: paging does not terminate: %d pages for %d expected entries; keys so far %s", what, page, len(expect), keysOf(got))
			}
			items, err := l.List(clone(c.Prefix), key, count, dir|e.flag)
			if err != nil && err != types.ErrNotFound {
				fail("%s: page %d returned error %v", what, page, err)
			}
			if len(items) == 0 {
				break
			}
			res.pages++
			if count > 0 && len(items) > int(count) {
				fail("%s: page %d has %d items", what, page, len(items))
			}
			if page > 0 {
				bounds = append(bounds, len(got))
			}
			for _, it := range items {
				k, v, derr := decode(e, it)
				if derr != nil {
					fail("%s: page %d: cannot decode item %s: %v", what, page, h(it), derr)
				}
				got = append(got, vis{k: k, v: v})
			}
			key = clone(got[len(got)-1].k)
		}
		res.listings++
		// exactly the expected keys, in order, once
		ok := len(got) == len(expect)
		for i := 0; ok && i < len(got); i++ {
			ok = bytes.Equal(got[i].k, expect[i].k) && (got[i].v == nil || bytes.Equal(got[i].v, expect[i].v))
		}
		if !ok {
			fail("%s returned keys %s, model expects %s (values must be the visible ones)", what, keysOf(got), keysOf(expect))
		}
		// non-triviality: >= 2 pages and a tombstone or a layer duplicate next to a page boundary
		for _, b := range bounds {
			a, z := got[b-1].k, got[b].k
			for _, v := range all {
				between := (bytes.Compare(a, v.k) < 0 && bytes.Compare(v.k, z) < 0) || (bytes.Compare(z, v.k) < 0 && bytes.Compare(v.k, a) < 0)
				edge := bytes.Equal(v.k, a) || bytes.Equal(v.k, z)
				if (between && len(v.v) == 0) || (edge && v.layers > 1) {
					res.boundaryNT = true
				}
			}
		}
	}

	for _, asc := range []bool{true, false} {
		expect := want
		if !asc {
			expect = reversed(want)
		}
		for _, e := range encs {
			for _, count := range c.Sizes {
				listAfter(nil, count, asc, e, expect)
			}
		}
	}

	for i, k := range c.Probes {
		// floor lookup
		res.seeks++
		var floor *vis
		for j := range want {
			if bytes.Compare(want[j].k, k) <= 0 {
				floor = &want[j]
			}
		}
		r, err := l.List(clone(c.Prefix), clone(k), 1, dbm.ListSeek)
		if err != nil && err != types.ErrNotFound {
			fail("List(prefix=%s, key=%s, 1, ListSeek) returned error %v", h(c.Prefix), h(k), err)
		}
		switch {
		case floor == nil && len(r) != 0:
			fail("List(prefix=%s, key=%s, 1, ListSeek) = %s, model: no live key <= key under the prefix", h(c.Prefix), h(k), hs(r))
		case floor != nil && (len(r) != 2 || !bytes.Equal(r[0], floor.k) || !bytes.Equal(r[1], floor.v)):
			fail("List(prefix=%s, key=%s, 1, ListSeek) = %s, model: [%s %s]", h(c.Prefix), h(k), hs(r), h(floor.k), h(floor.v))
		}
		// listing that starts after an arbitrary key under the prefix
		for _, asc := range []bool{true, false} {
			var expect []vis
			for _, v := range want {
				if cmp := bytes.Compare(v.k, k); (asc && cmp > 0) || (!asc && cmp < 0) {
					expect = append(expect, v)
				}
			}
			if !asc {
				expect = reversed(expect)
			}
			listAfter(k, c.Sizes[i%len(c.Sizes)], asc, encs[i%len(encs)], expect)
		}
	}
	return res
}

func keysOf(v []vis) string {
	s := make([]string, len(v))
	for i := range v {
		s[i] = h(v[i].k)
	}
	return "[" + strings.Join(s, " ") + "]"
}

// ---------------------------------------------------------------------------------------------------
// generator

var prefixes = [][]byte{nil, {}, []byte("k"), []byte("ab"), {'a', 0xff}, {0xff}, {0xff, 0xff}, {'t', '-', 0x00}}

var sufAlpha = []byte{0x00, 'a', 'b', 0xff}

func maxKeys() int {
	if n, err := strconv.Atoi(os.Getenv("C07_MAXKEYS")); err == nil && n > 0 {
		return n
	}
	return 12
}

// genCase: ns is prepended to the drawn prefix (the node variant keeps to its own namespace).
func genCase(t *rapid.T, fixtures []string, ns string) listCase {
	c := listCase{Fixture: rapid.SampledFrom(fixtures).Draw(t, "fixture")}
	c.Prefix = clone(rapid.SampledFrom(prefixes).Draw(t, "prefix"))
	if ns != "" {
		c.Prefix = append([]byte(ns), c.Prefix...)
	}
	layered := !strings.HasPrefix(c.Fixture, "single") && !strings.HasPrefix(c.Fixture, "localdb-ro")
	layer := func() int {
		switch {
		case strings.HasPrefix(c.Fixture, "single"):
			return 0
		case strings.HasPrefix(c.Fixture, "localdb-ro"):
			return 2
		case strings.HasPrefix(c.Fixture, "merged"):
			return rapid.IntRange(0, strings.Count(c.Fixture, ",")).Draw(t, "layer")
		}
		return rapid.IntRange(0, 2).Draw(t, "layer")
	}
	suffix := func(label string) []byte {
		return rapid.SliceOfN(rapid.SampledFrom(sufAlpha), 0, 3).Draw(t, label)
	}
	under := func(label string) []byte { return append(clone(c.Prefix), suffix(label)...) }
	add := func(k []byte, l int) {
		if len(k) == 0 {
			return // the empty key is not a key
		}
		e := entry{Layer: l, K: k}
		if rapid.IntRange(0, 4).Draw(t, "tomb") == 0 {
			e.Tomb, e.Nil = true, rapid.Bool().Draw(t, "nil")
		}
		c.Entries = append(c.Entries, e)
	}
	n := rapid.IntRange(0, maxKeys()).Draw(t, "nkeys")
	for i := 0; i < n; i++ {
		if layered && len(c.Entries) > 0 && rapid.IntRange(0, 2).Draw(t, "dup") == 0 {
			// the same key again, possibly in another layer
			add(clone(rapid.SampledFrom(c.Entries).Draw(t, "dupof").K), layer())
			continue
		}
		add(under("suffix"), layer())
	}
	// decoys just outside the prefix
	if p := c.Prefix; len(p) > 0 {
		for i, nd := 0, rapid.IntRange(0, 4).Draw(t, "ndecoys"); i < nd; i++ {
			k := clone(p)
			switch rapid.IntRange(0, 3).Draw(t, "decoy") {
			case 0:
				k = k[:len(k)-1] // shorter than the prefix
			case 1:
				if k[len(k)-1] > 0 {
					k[len(k)-1]--
					k = append(k, suffix("dsuffix")...)
				}
			case 2:
				if k[len(k)-1] < 0xff {
					k[len(k)-1]++ // exactly the prefix successor
				}
			case 3:
				if k[len(k)-1] < 0xff {
					k[len(k)-1]++
					k = append(k, suffix("dsuffix")...)
				}
			}
			if !bytes.HasPrefix(k, p) {
				add(k, layer())
			}
		}
	}
	if strings.HasPrefix(c.Fixture, "localdb:") {
		for _, e := range c.Entries {
			if e.Layer == 2 && rapid.IntRange(0, 3).Draw(t, "warm") == 0 {
				c.Warm = append(c.Warm, e.K)
			}
		}
	}
	for i, np := 0, rapid.IntRange(0, 3).Draw(t, "nprobes"); i < np; i++ {
		var k []byte
		if len(c.Entries) > 0 && rapid.Bool().Draw(t, "probe-existing") {
			k = clone(rapid.SampledFrom(c.Entries).Draw(t, "probe").K)
		} else {
			k = under("probe-suffix")
		}
		if len(k) > 0 && bytes.HasPrefix(k, c.Prefix) {
			c.Probes = append(c.Probes, k)
		}
	}
	// page sizes: every size 1..live+1 (capped at 16, larger ones sampled) and 0 = unlimited
	nl := len(live(c.visible()))
	for s := 1; s <= nl+1 && s <= 16; s++ {
		c.Sizes = append(c.Sizes, int32(s))
	}
	if nl+1 > 16 {
		c.Sizes = append(c.Sizes, int32(nl), int32(nl+1), int32(rapid.IntRange(17, nl+1).Draw(t, "size")))
	}
	c.Sizes = append(c.Sizes, 0)
	return c
}

// ---------------------------------------------------------------------------------------------------

func classify(c listCase, res result) {
	lib.Class("fixture:" + strings.Split(c.Fixture, ":")[0])
	switch {
	case len(c.Prefix) == 0 || string(c.Prefix) == nodeNS:
		lib.Class("prefix:empty")
	case bytes.Count(c.Prefix, []byte{0xff}) == len(c.Prefix):
		lib.Class("prefix:all-ff")
	case c.Prefix[len(c.Prefix)-1] == 0xff:
		lib.Class("prefix:ends-ff")
	default:
		lib.Class("prefix:plain")
	}
	all := c.visible()
	tomb, dup := 0, 0
	for _, v := range all {
		if len(v.v) == 0 {
			tomb++
		}
		if v.layers > 1 {
			dup++
		}
	}
	if tomb > 0 {
		lib.Class("set:has_tombstone")
	}
	if dup > 0 {
		lib.Class("set:has_layer_duplicate")
	}
	if len(all) < len(c.Entries)-dup {
		lib.Class("set:has_decoy_or_overwrite")
	}
	if res.boundaryNT {
		lib.Class("case:tombstone_or_dup_at_page_boundary")
	}
	lib.ClassN("listings", res.listings)
	lib.ClassN("pages", res.pages)
	lib.ClassN("listseek_probes", res.seeks)
}

var directFixtures = []string{
	"single:memdb", "single:goleveldb",
	"merged:memdb,memdb", "merged:memdb,memdb,goleveldb", "merged:goleveldb,memdb,memdb",
	"localdb:memdb", "localdb:goleveldb", "localdb:goleveldb", "localdb-ro:goleveldb",
}

func TestPropList(t *testing.T) {
	defer lib.Flush()
	rapid.Check(t, func(t *rapid.T) {
		c := genCase(t, directFixtures, "")
		lib.Eval()
		view, closeAll := build(c)
		defer closeAll()
		res := checkView(c, view, func(format string, a ...interface{}) {
			lib.Violation(t, prop, "TestPropList", c.render(), format, a...)
		})
		classify(c, res)
		if res.boundaryNT {
			lib.NonTrivialCase(c.render())
		}
	})
}
