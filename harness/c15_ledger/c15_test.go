// C15: asset conservation and non-negative balances (account.DB: account.go, execaccount.go, genesis.go).
//
// A generated history of ledger operations is executed against account.DB on a private in-memory KV and,
// step by step, against a reference ledger kept in math/big and keyed by the CANONICAL address (a string of
// 40 hex digits with an optional 0x/0X prefix is lower-cased, everything else is taken literally - written
// here, not taken from common/address).  The oracle is the property text:
//   - an operation that returns an error (a panic counts as one) leaves every stored record unchanged;
//   - after a successful operation every balance and frozen amount equals the reference value, lies in
//     [0, MaxInt64], and a main-account balance never exceeds types.MaxTokenBalance ("the balance limit");
//   - total supply (sum of main-account balances found in the KV) moves only by mint / burn / issue / genesis
//     amounts;
//   - executor address balance minus the sum of (balance+frozen) held under it equals the expected gap: zero
//     change for the composite, caller-facing operations; the raw halves ExecDeposit / ExecWithdraw /
//     ExecIssueCoins are modelled as what they are (sub-ledger-only or executor-address-only changes);
//   - every spelling of a hex address reads the same record, and no record exists under a non-canonical key.
//
// The reference never predicts success or failure: it takes the implementation's verdict and checks what
// the verdict implies (this is all the property states).
package c15

import (
	"fmt"
	"math"
	"math/big"
	"sort"
	"strings"
	"testing"

	"github.com/33cn/chain33/account"
	"github.com/33cn/chain33/common"
	"github.com/33cn/chain33/common/address"
	clog "github.com/33cn/chain33/common/log"
	_ "github.com/33cn/chain33/system/address" // btc + eth address drivers
	"github.com/33cn/chain33/types"
	"pgregory.net/rapid"
	"verifharness/lib"
)

const prop = "C15"

// Known findings (see TestKnown_* below). When listed, the generator avoids exactly that class.
const (
	kAlias   = "C15-alias-exec-transfer"
	kGenesis = "C15-genesis-amount-unchecked"
	kWdPanic = "C15-withdraw-credit-panic"
	kSubAdd  = "C15-subledger-add-overflow"
)

func TestMain(m *testing.M) {
	clog.SetLogLevel("crit")
	lib.Main(m)
}

// ---------------------------------------------------------------------------------------------------------
// fixture

var (
	cfg      = types.NewChain33Config(types.GetDefaultCfgstring()) // one per process; read-only here
	opLimit  = types.MaxCoin * cfg.GetCoinPrecision()              // amounts must be in (0, opLimit)
	balLimit = types.MaxTokenBalance
	bigMaxI  = big.NewInt(math.MaxInt64)
	bigBal   = big.NewInt(balLimit)

	execIssuer = address.ExecAddress(cfg.ExecName(cfg.GetMinerExecs()[0])) // the only executor allowed to issue
	execOther  = address.ExecAddress("coins")
	execHex    = mustExec("paracross", 2) // executor address in eth format, canonical (lower-case) spelling
	execs      = []string{execIssuer, execOther, execHex}

	hexBodies = []string{hexBody("c15-hex-1"), hexBody("c15-hex-2")}
	bareBody  = hexBody("c15-hex-bare")
	plain     = []string{address.PubKeyToAddr(0, common.Sha256([]byte("c15-user-1"))), address.PubKeyToAddr(0, common.Sha256([]byte("c15-user-2"))),
		address.PubKeyToAddr(1, common.Sha256([]byte("c15-multisig")))}
)

func mustExec(name string, id int32) string {
	a, err := address.GetExecAddress(name, id)
	if err != nil {
		panic(err)
	}
	return a
}

// hexBody derives 40 hex digits containing letters (so that letter case matters).
func hexBody(seed string) string {
	h := common.ToHex(common.Sha256([]byte(seed)))[2:42]
	if strings.ToLower(h) == strings.ToUpper(h) {
		panic("no letters")
	}
	return strings.ToLower(h)
}

func mixCase(s string, mask uint64) string {
	b := []byte(s)
	for i := range b {
		if mask>>(uint(i)%64)&1 == 1 {
			b[i] = strings.ToUpper(string(b[i]))[0]
		}
	}
	return string(b)
}

// spellings of the user-side address pool for one case: plain base58 + executor addresses (literal), and for
// each hex account: lower, upper digits, 0X + upper, alternating and one drawn mixed-case spelling.
func pool(mask uint64) []string {
	p := append([]string{}, plain...)
	p = append(p, execs...)
	for _, h := range hexBodies {
		p = append(p, "0x"+h, "0x"+strings.ToUpper(h), "0X"+strings.ToUpper(h), "0x"+mixCase(h, 0x5555555555555555), "0x"+mixCase(h, mask))
	}
	p = append(p, bareBody, strings.ToUpper(bareBody), mixCase(bareBody, mask))
	seen, out := map[string]bool{}, p[:0]
	for _, s := range p {
		if !seen[s] {
			seen[s] = true
			out = append(out, s)
		}
	}
	return out
}

// canon: the account a spelling names, by the property's rule (hex letter case is irrelevant, nothing else is).
func canon(s string) string {
	h := s
	if len(h) >= 2 && h[0] == '0' && (h[1] == 'x' || h[1] == 'X') {
		h = h[2:]
	}
	if len(h) != 40 {
		return s
	}
	for _, c := range h {
		if !strings.ContainsRune("0123456789abcdefABCDEF", c) {
			return s
		}
	}
	return strings.ToLower(s)
}

type memKV struct{ m map[string][]byte }

func (k *memKV) Get(key []byte) ([]byte, error) {
	if v, ok := k.m[string(key)]; ok {
		return v, nil
	}
	return nil, types.ErrNotFound
}
func (k *memKV) Set(key, value []byte) error {
	k.m[string(key)] = append([]byte{}, value...)
	return nil
}
func (k *memKV) Begin()        {}
func (k *memKV) Commit() error { return nil }
func (k *memKV) Rollback()     {}
func (k *memKV) snapshot() map[string]string {
	s := make(map[string]string, len(k.m))
	for a, b := range k.m {
		s[a] = string(b)
	}
	return s
}

// ---------------------------------------------------------------------------------------------------------
// reference ledger

type op struct {
	Op    string `json:"op"`
	A     string `json:"a,omitempty"` // from / addr
	B     string `json:"b,omitempty"` // to
	X     string `json:"x,omitempty"` // executor address
	Amt   int64  `json:"amt"`
	Times int    `json:"times,omitempty"` // repeat (>1) to reach the balance limits; stops at the first error
}

type sub struct{ bal, frz *big.Int }

type model struct {
	main   map[string]*big.Int // canonical address -> balance
	subs   map[string]*sub     // executor + ":" + canonical address
	supply *big.Int            // moves only by mint / burn / issue / genesis amounts
}

func newModel() *model {
	return &model{main: map[string]*big.Int{}, subs: map[string]*sub{}, supply: new(big.Int)}
}
func (m *model) mainOf(a string) *big.Int {
	k := canon(a)
	if m.main[k] == nil {
		m.main[k] = new(big.Int)
	}
	return m.main[k]
}
func (m *model) subOf(x, a string) *sub {
	k := x + ":" + canon(a)
	if m.subs[k] == nil {
		m.subs[k] = &sub{new(big.Int), new(big.Int)}
	}
	return m.subs[k]
}

// gap(x) = balance of the executor address minus everything held under it.
func (m *model) gap(x string) *big.Int {
	g := new(big.Int).Set(m.mainOf(x))
	for k, s := range m.subs {
		if strings.HasPrefix(k, x+":") {
			g.Sub(g, s.bal)
			g.Sub(g, s.frz)
		}
	}
	return g
}

// operations that touch an account held under an executor
var subLedger = map[string]bool{"TransferToExec": true, "TransferWithdraw": true, "ExecFrozen": true, "ExecActive": true, "ExecTransfer": true,
	"ExecTransferFrozen": true, "ExecDepositFrozen": true, "ExecDeposit": true, "ExecWithdraw": true, "GenesisInitExec": true}

var composite = map[string]bool{"TransferToExec": true, "TransferWithdraw": true, "ExecFrozen": true, "ExecActive": true, "ExecTransfer": true,
	"ExecTransferFrozen": true, "ExecDepositFrozen": true, "GenesisInitExec": true}

// apply performs the documented effect of a SUCCESSFUL operation (unconditional arithmetic: an operation that
// should have been refused shows up as an out-of-range reference value).
func (m *model) apply(o op) {
	amt := big.NewInt(o.Amt)
	add := func(z *big.Int, sign int) {
		if sign > 0 {
			z.Add(z, amt)
		} else {
			z.Sub(z, amt)
		}
	}
	switch o.Op {
	case "Transfer":
		add(m.mainOf(o.A), -1)
		add(m.mainOf(o.B), +1)
	case "TransferToExec": // coins move to the executor address and are credited to A's account under it
		add(m.mainOf(o.A), -1)
		add(m.mainOf(o.X), +1)
		add(m.subOf(o.X, o.A).bal, +1)
	case "TransferWithdraw":
		add(m.subOf(o.X, o.A).bal, -1)
		add(m.mainOf(o.X), -1)
		add(m.mainOf(o.A), +1)
	case "ExecFrozen":
		add(m.subOf(o.X, o.A).bal, -1)
		add(m.subOf(o.X, o.A).frz, +1)
	case "ExecActive":
		add(m.subOf(o.X, o.A).frz, -1)
		add(m.subOf(o.X, o.A).bal, +1)
	case "ExecTransfer":
		add(m.subOf(o.X, o.A).bal, -1)
		add(m.subOf(o.X, o.B).bal, +1)
	case "ExecTransferFrozen":
		add(m.subOf(o.X, o.A).frz, -1)
		add(m.subOf(o.X, o.B).bal, +1)
	case "ExecDepositFrozen": // issuance to the executor address, credited frozen to A under it
		add(m.mainOf(o.X), +1)
		add(m.subOf(o.X, o.A).frz, +1)
		add(m.supply, +1)
	case "ExecIssueCoins": // raw half: executor address only
		add(m.mainOf(o.X), +1)
		add(m.supply, +1)
	case "ExecDeposit": // raw half: sub-ledger only
		add(m.subOf(o.X, o.A).bal, +1)
	case "ExecWithdraw": // raw half: sub-ledger only
		add(m.subOf(o.X, o.A).bal, -1)
	case "Mint":
		add(m.mainOf(o.A), +1)
		add(m.supply, +1)
	case "Burn":
		add(m.mainOf(o.A), -1)
		add(m.supply, -1)
	case "GenesisInit":
		add(m.mainOf(o.A), +1)
		add(m.supply, +1)
	case "GenesisInitExec":
		add(m.mainOf(o.X), +1)
		add(m.subOf(o.X, o.A).bal, +1)
		add(m.supply, +1)
	default:
		panic("harness: unknown op " + o.Op)
	}
}

// ---------------------------------------------------------------------------------------------------------
// execution and oracle

type world struct {
	Ledger string `json:"ledger"`
	Mask   uint64 `json:"mask"`
	Ops    []op   `json:"ops"`

	test   string
	prefix string
	acc    *account.DB
	kv     *memKV
	m      *model
	pool   []string
	// per-history facts for classes / non-triviality
	spellings map[string]map[string]bool // canonical -> spellings used as an argument
	ntAlias   bool
	ntLimit   bool
	ok, errs  int
}

func newWorld(test, ledger string, mask uint64) *world {
	w := &world{Ledger: ledger, Mask: mask, test: test, kv: &memKV{m: map[string][]byte{}}, m: newModel(), pool: pool(mask), spellings: map[string]map[string]bool{}}
	if ledger == "coins" {
		w.acc = account.NewCoinsAccount(cfg).SetDB(w.kv)
		w.prefix = "mavl-" + cfg.GetCoinExec() + "-" + cfg.GetCoinSymbol() + "-"
	} else {
		acc, err := account.NewAccountDB(cfg, "token", "TEST", w.kv)
		if err != nil {
			panic(err)
		}
		w.acc, w.prefix = acc, "mavl-token-TEST-"
	}
	return w
}

func (w *world) call(o op) (err error, pan interface{}) {
	defer func() {
		if r := recover(); r != nil {
			pan = r
		}
	}()
	a := w.acc
	switch o.Op {
	case "Transfer":
		_, err = a.Transfer(o.A, o.B, o.Amt)
	case "TransferToExec":
		_, err = a.TransferToExec(o.A, o.X, o.Amt)
	case "TransferWithdraw":
		_, err = a.TransferWithdraw(o.A, o.X, o.Amt)
	case "ExecFrozen":
		_, err = a.ExecFrozen(o.A, o.X, o.Amt)
	case "ExecActive":
		_, err = a.ExecActive(o.A, o.X, o.Amt)
	case "ExecTransfer":
		_, err = a.ExecTransfer(o.A, o.B, o.X, o.Amt)
	case "ExecTransferFrozen":
		_, err = a.ExecTransferFrozen(o.A, o.B, o.X, o.Amt)
	case "ExecDepositFrozen":
		_, err = a.ExecDepositFrozen(o.A, o.X, o.Amt)
	case "ExecIssueCoins":
		_, err = a.ExecIssueCoins(o.X, o.Amt)
	case "ExecDeposit":
		_, err = a.ExecDeposit(o.A, o.X, o.Amt)
	case "ExecWithdraw":
		_, err = a.ExecWithdraw(o.X, o.A, o.Amt)
	case "Mint":
		_, err = a.Mint(o.A, o.Amt)
	case "Burn":
		_, err = a.Burn(o.A, o.Amt)
	case "GenesisInit":
		_, err = a.GenesisInit(o.A, o.Amt)
	case "GenesisInitExec":
		_, err = a.GenesisInitExec(o.A, o.Amt, o.X)
	default:
		panic("harness: unknown op " + o.Op)
	}
	return
}

func nearLimit(v int64) bool {
	for _, l := range []int64{0, opLimit, balLimit} {
		if v >= l-1 && v <= l+1 {
			return true
		}
	}
	return false
}

func (w *world) fail(format string, a ...interface{}) {
	panic(violation(fmt.Sprintf("step %d %+v: ", len(w.Ops)-1, w.Ops[len(w.Ops)-1]) + fmt.Sprintf(format, a...)))
}

type violation string

// step executes one generated operation (Times repetitions) and evaluates the oracle after each execution.
// It returns the violation text ("" if none); the caller reports it.
func (w *world) step(o op) (msg string) {
	defer func() {
		if r := recover(); r != nil {
			v, isV := r.(violation)
			if !isV {
				panic(r)
			}
			msg = string(v)
		}
	}()
	w.Ops = append(w.Ops, o)
	for _, s := range []string{o.A, o.B} {
		if s != "" {
			if w.spellings[canon(s)] == nil {
				w.spellings[canon(s)] = map[string]bool{}
			}
			w.spellings[canon(s)][s] = true
		}
	}
	if nearLimit(o.Amt) {
		w.ntLimit = true
	}
	twoParty := o.Op == "ExecTransfer" || o.Op == "ExecTransferFrozen"
	if twoParty && canon(o.A) == canon(o.B) {
		w.ntAlias = true
	}
	times := o.Times
	if times < 1 {
		times = 1
	}
	for i := 0; i < times; i++ {
		before := w.kv.snapshot()
		supplyBefore := new(big.Int).Set(w.m.supply)
		var gapBefore *big.Int
		if composite[o.Op] {
			gapBefore = w.m.gap(o.X)
		}
		err, pan := w.call(o)
		if err != nil || pan != nil {
			w.errs++
			if i == 0 {
				lib.Class("op:" + o.Op + ":refused")
			}
			after := w.kv.snapshot()
			if !sameKV(before, after) {
				w.fail("returned %v (panic: %v) but stored records changed: %s", err, pan, diffKV(before, after))
			}
			if pan != nil {
				lib.Class("panic_without_state_change:" + o.Op)
			}
			return ""
		}
		w.ok++
		if i == 0 {
			lib.Class("op:" + o.Op + ":ok")
		}
		if subLedger[o.Op] && len(w.spellings[canon(o.A)]) >= 2 {
			w.ntAlias = true
		}
		w.m.apply(o)
		// harness self-checks: the reference itself conserves what the property says is conserved
		if composite[o.Op] && canon(o.A) != o.X && w.m.gap(o.X).Cmp(gapBefore) != 0 {
			panic("harness: composite op changed the reference gap")
		}
		switch o.Op {
		case "Mint", "Burn", "GenesisInit", "GenesisInitExec", "ExecIssueCoins", "ExecDepositFrozen":
		default:
			if w.m.supply.Cmp(supplyBefore) != 0 {
				panic("harness: supply moved")
			}
		}
		w.observe(i == 0 || i == times-1)
	}
	return ""
}

// observe compares the implementation with the reference through both observation points: the loader
// functions under every spelling (skipped in the middle of a repeated operation: the complete record
// comparison below still runs every time), and the raw records in the KV.
func (w *world) observe(loaders bool) {
	// 1. reference values in range
	for k, b := range w.m.main {
		if b.Sign() < 0 {
			w.fail("balance of %s would be negative: %s", k, b)
		}
		if b.Cmp(bigBal) > 0 {
			w.fail("balance of %s exceeds the balance limit %d: %s", k, balLimit, b)
		}
	}
	for k, s := range w.m.subs {
		if s.bal.Sign() < 0 || s.frz.Sign() < 0 {
			w.fail("account %s would be negative: balance %s frozen %s", k, s.bal, s.frz)
		}
		if s.bal.Cmp(bigMaxI) > 0 || s.frz.Cmp(bigMaxI) > 0 {
			w.fail("account %s overflows int64: balance %s frozen %s", k, s.bal, s.frz)
		}
	}
	// 2. every spelling reads the reference value
	for _, a := range w.pool {
		if !loaders {
			break
		}
		got := w.acc.LoadAccount(a)
		if want := w.m.mainOf(a); big.NewInt(got.Balance).Cmp(want) != 0 || got.Frozen != 0 {
			w.fail("LoadAccount(%s) = balance %d frozen %d, reference balance %s frozen 0", a, got.Balance, got.Frozen, want)
		}
		for _, x := range execs {
			got := w.acc.LoadExecAccount(a, x)
			if want := w.m.subOf(x, a); big.NewInt(got.Balance).Cmp(want.bal) != 0 || big.NewInt(got.Frozen).Cmp(want.frz) != 0 {
				w.fail("LoadExecAccount(%s, %s) = balance %d frozen %d, reference balance %s frozen %s", a, x, got.Balance, got.Frozen, want.bal, want.frz)
			}
		}
	}
	// 3. raw records: only canonical keys, values equal to the reference, supply and executor gaps
	supply := new(big.Int)
	gaps := map[string]*big.Int{}
	for _, x := range execs {
		gaps[x] = new(big.Int)
	}
	for key, val := range w.kv.m {
		var rec types.Account
		if !strings.HasPrefix(key, w.prefix) || types.Decode(val, &rec) != nil {
			w.fail("unexpected record %q", key)
		}
		rest := key[len(w.prefix):]
		if strings.HasPrefix(rest, "exec-") {
			i := strings.LastIndex(rest, ":")
			if i < 0 {
				w.fail("unexpected record %q", key)
			}
			x, a := rest[len("exec-"):i], rest[i+1:]
			s, known := w.m.subs[x+":"+a]
			if !known || gaps[x] == nil {
				w.fail("record %q is not under a canonical key of any account of the history", key)
			}
			if big.NewInt(rec.Balance).Cmp(s.bal) != 0 || big.NewInt(rec.Frozen).Cmp(s.frz) != 0 {
				w.fail("record %q holds balance %d frozen %d, reference %s / %s", key, rec.Balance, rec.Frozen, s.bal, s.frz)
			}
			gaps[x].Sub(gaps[x], big.NewInt(rec.Balance))
			gaps[x].Sub(gaps[x], big.NewInt(rec.Frozen))
			continue
		}
		b, known := w.m.main[rest]
		if !known {
			w.fail("record %q is not under a canonical key of any account of the history", key)
		}
		if big.NewInt(rec.Balance).Cmp(b) != 0 || rec.Frozen != 0 {
			w.fail("record %q holds balance %d frozen %d, reference %s / 0", key, rec.Balance, rec.Frozen, b)
		}
		supply.Add(supply, big.NewInt(rec.Balance))
		if gaps[rest] != nil {
			gaps[rest].Add(gaps[rest], big.NewInt(rec.Balance))
		}
	}
	if supply.Cmp(w.m.supply) != 0 {
		w.fail("total supply in the store is %s, minted/issued/granted minus burned is %s", supply, w.m.supply)
	}
	for _, x := range execs {
		if want := w.m.gap(x); gaps[x].Cmp(want) != 0 {
			w.fail("executor %s: own balance minus accounts held under it = %s, expected %s", x, gaps[x], want)
		}
	}
}

func sameKV(a, b map[string]string) bool {
	if len(a) != len(b) {
		return false
	}
	for k, v := range a {
		if w, ok := b[k]; !ok || w != v {
			return false
		}
	}
	return true
}

func diffKV(a, b map[string]string) string {
	var out []string
	show := func(v string, ok bool) string {
		var rec types.Account
		if !ok || types.Decode([]byte(v), &rec) != nil {
			return "absent"
		}
		return fmt.Sprintf("{balance %d frozen %d}", rec.Balance, rec.Frozen)
	}
	for k, v := range b {
		if w, ok := a[k]; !ok || w != v {
			out = append(out, fmt.Sprintf("%s: %s -> %s", k, show(w, ok), show(v, true)))
		}
	}
	sort.Strings(out)
	return strings.Join(out, "; ")
}

// run executes a fixed history (pinned tests and replays).
func run(test, ledger string, mask uint64, ops []op) (*world, string) {
	w := newWorld(test, ledger, mask)
	for _, o := range ops {
		if msg := w.step(o); msg != "" {
			return w, msg
		}
	}
	return w, ""
}

// ---------------------------------------------------------------------------------------------------------
// generator

// rapid favours early entries: the executor-internal operations come first
var kinds = []string{"ExecTransfer", "ExecTransferFrozen", "ExecActive", "ExecFrozen", "TransferWithdraw", "TransferToExec", "Transfer",
	"ExecTransfer", "ExecTransferFrozen", "ExecActive", "ExecFrozen", "TransferWithdraw", "TransferToExec", "Transfer",
	"ExecDepositFrozen", "GenesisInitExec", "GenesisInit", "ExecDeposit", "ExecWithdraw", "ExecIssueCoins", "Mint", "Burn"}

// what an operation spends: the main balance, the sub-account balance or the sub-account frozen amount
var spends = map[string]string{"Transfer": "main", "TransferToExec": "main", "Burn": "main", "TransferWithdraw": "bal", "ExecFrozen": "bal",
	"ExecTransfer": "bal", "ExecWithdraw": "bal", "ExecActive": "frz", "ExecTransferFrozen": "frz"}

func (w *world) spellingOf(t *rapid.T, c string, label string) string {
	var alts []string
	for _, s := range w.pool {
		if canon(s) == c {
			alts = append(alts, s)
		}
	}
	return rapid.SampledFrom(alts).Draw(t, label)
}

// funded lists the holders ("canonical address" or "executor:canonical address") that have something of the
// given kind to spend, sorted for determinism.
func (w *world) funded(what string) []string {
	var out []string
	if what == "main" {
		for k, b := range w.m.main {
			if b.Sign() > 0 {
				out = append(out, k)
			}
		}
	} else {
		for k, s := range w.m.subs {
			if (what == "bal" && s.bal.Sign() > 0) || (what == "frz" && s.frz.Sign() > 0) {
				out = append(out, k)
			}
		}
	}
	sort.Strings(out)
	return out
}

// held = everything held under executor x in the reference.
func (w *world) held(x string) *big.Int {
	h := new(big.Int)
	for k, s := range w.m.subs {
		if strings.HasPrefix(k, x+":") {
			h.Add(h, s.bal)
			h.Add(h, s.frz)
		}
	}
	return h
}

func (w *world) genOp(t *rapid.T, first bool) op {
	o := op{Op: rapid.SampledFrom(kinds).Draw(t, "kind")}
	if first { // start from a grant so that the history has something to move
		o.Op = rapid.SampledFrom([]string{"GenesisInit", "GenesisInitExec", "Mint", "ExecDepositFrozen"}).Draw(t, "grant")
	}
	// nothing to spend for this kind of operation yet: mostly generate the operation that provides it instead
	if sp := spends[o.Op]; sp != "" && len(w.funded(sp)) == 0 && rapid.IntRange(0, 9).Draw(t, "provide") < 8 {
		switch {
		case sp == "main":
			o.Op = "GenesisInit"
		case sp == "frz" && len(w.funded("bal")) > 0:
			o.Op = "ExecFrozen"
		case sp == "frz":
			o.Op = rapid.SampledFrom([]string{"GenesisInitExec", "ExecDepositFrozen"}).Draw(t, "provider")
		case len(w.funded("main")) > 0:
			o.Op = rapid.SampledFrom([]string{"TransferToExec", "GenesisInitExec"}).Draw(t, "provider")
		default:
			o.Op = "GenesisInitExec"
		}
	}
	o.X = rapid.SampledFrom(execs).Draw(t, "x")
	if (o.Op == "ExecIssueCoins" || o.Op == "ExecDepositFrozen") && rapid.IntRange(0, 9).Draw(t, "issuer") > 0 {
		o.X = execIssuer // the other executors are refused (ErrNotAllowDeposit)
	}
	o.A = rapid.SampledFrom(w.pool).Draw(t, "a")
	if f := w.funded(spends[o.Op]); spends[o.Op] != "" && len(f) > 0 && rapid.IntRange(0, 9).Draw(t, "fundedA") < 8 {
		h := rapid.SampledFrom(f).Draw(t, "holder")
		if i := strings.LastIndex(h, ":"); i >= 0 {
			o.X, h = h[:i], h[i+1:]
		}
		o.A = w.spellingOf(t, h, "a")
	}
	if o.Op == "Transfer" || o.Op == "ExecTransfer" || o.Op == "ExecTransferFrozen" {
		switch r := rapid.IntRange(0, 9).Draw(t, "bmode"); {
		case r < 3: // another spelling of the same account (or the same one when it has only one)
			o.B = w.spellingOf(t, canon(o.A), "b")
		case r < 4:
			o.B = o.A
		default:
			o.B = rapid.SampledFrom(w.pool).Draw(t, "b")
		}
		if o.Op != "Transfer" && o.A != o.B && canon(o.A) == canon(o.B) && lib.Known(kAlias) {
			lib.ExcludedKnown(kAlias) // known finding: from/to are distinct strings naming one account
			for canon(o.B) == canon(o.A) {
				o.B = rapid.SampledFrom(w.pool).Draw(t, "bOther")
			}
		}
	}
	// amount: small, relative to what is being spent (or to the head-room below the balance limit for credits),
	// at a limit, or anywhere below the per-operation limit
	src := new(big.Int)
	switch {
	case spends[o.Op] == "main":
		src.Set(w.m.mainOf(o.A))
	case spends[o.Op] == "bal":
		src.Set(w.m.subOf(o.X, o.A).bal)
	case spends[o.Op] == "frz":
		src.Set(w.m.subOf(o.X, o.A).frz)
	case o.Op == "GenesisInit" || o.Op == "Mint":
		src.Sub(bigBal, w.m.mainOf(o.A))
	case o.Op == "ExecDeposit":
		src.Sub(bigMaxI, w.held(o.X))
	default: // GenesisInitExec, ExecIssueCoins, ExecDepositFrozen credit the executor address
		src.Sub(bigBal, w.m.mainOf(o.X))
	}
	switch r := rapid.IntRange(0, 19).Draw(t, "amtmode"); {
	case r < 5 && src.Sign() > 0: // a valid part of what is available
		top := opLimit - 1
		if src.IsInt64() && src.Int64() < top {
			top = src.Int64()
		}
		o.Amt = rapid.Int64Range(1, top).Draw(t, "amt")
	case r < 9 && src.IsInt64() && src.Int64() < math.MaxInt64: // exactly what is available, or one off
		o.Amt = src.Int64() + rapid.SampledFrom([]int64{0, 0, -1, 1}).Draw(t, "delta")
	case r < 13:
		o.Amt = rapid.Int64Range(1, 1000).Draw(t, "amt")
	case r < 17:
		o.Amt = rapid.SampledFrom([]int64{0, 1, -1, opLimit - 1, opLimit, opLimit + 1, balLimit - 1, balLimit, balLimit + 1, math.MaxInt64, math.MinInt64, -opLimit}).Draw(t, "amt")
	default:
		o.Amt = rapid.Int64Range(1, opLimit-1).Draw(t, "amt")
	}
	switch r := rapid.IntRange(0, 49).Draw(t, "timesmode"); {
	case r < 3:
		o.Times = rapid.IntRange(2, 5).Draw(t, "times")
	case r < 5: // enough repetitions, mostly of the largest valid amount, to cross the balance limit and MaxInt64
		o.Times = rapid.IntRange(90, 100).Draw(t, "times")
		if rapid.IntRange(0, 2).Draw(t, "maxAmt") > 0 {
			o.Amt = opLimit - 1
		}
	}
	if o.Op == "ExecIssueCoins" {
		o.A = "" // takes no user address
	}
	w.avoidKnown(t, &o)
	return o
}

// avoidKnown rewrites an operation that falls into the exact class of a LISTED known finding (counted in
// excluded_known); when a finding is not listed nothing is rewritten and the oracle is strict.
func (w *world) avoidKnown(t *rapid.T, o *op) {
	valid := o.Amt > 0 && o.Amt < opLimit
	reps := int64(o.Times)
	if reps < 1 {
		reps = 1
	}
	amt := big.NewInt(o.Amt)
	// fitReps(room) = how many repetitions of amt fit into room
	fitReps := func(room *big.Int) int64 {
		if room.Sign() < 0 {
			return 0
		}
		q := new(big.Int).Div(room, amt)
		if !q.IsInt64() || q.Int64() > reps {
			return reps
		}
		return q.Int64()
	}
	shrink := func(fit int64, room *big.Int) { // keep the part of the operation that stays outside the class
		switch {
		case fit >= 1:
			o.Times = int(fit)
		case room.Sign() > 0:
			o.Amt, o.Times = room.Int64(), 0 // lands exactly on the limit
		default:
			o.Amt, o.Times = 0, 0 // refused cleanly (ErrAmount)
		}
	}
	if o.Op == "GenesisInit" && lib.Known(kGenesis) && o.Amt < 0 {
		// known finding: a negative grant is accepted
		lib.ExcludedKnown(kGenesis)
		o.Amt = rapid.Int64Range(1, opLimit-1).Draw(t, "amtOK")
	}
	if o.Op == "GenesisInitExec" && lib.Known(kGenesis) && (!valid || o.A == o.X) {
		// known finding: the executor address is credited before the deposit half refuses amount or address pair
		lib.ExcludedKnown(kGenesis)
		if !valid {
			o.Amt = rapid.Int64Range(1, opLimit-1).Draw(t, "amtOK")
			valid, amt = true, big.NewInt(o.Amt)
		}
		if o.A == o.X {
			o.A = plain[0]
		}
	}
	if o.Op == "TransferWithdraw" && lib.Known(kWdPanic) && valid {
		// known finding: the sub-account is debited, then crediting `from` beyond the balance limit panics.
		// The class: the (fit+1)-th repetition passes the balance checks but its credit exceeds the limit.
		room := new(big.Int).Sub(bigBal, w.m.mainOf(o.A))
		if fit := fitReps(room); fit < reps {
			need := new(big.Int).Mul(amt, big.NewInt(fit+1))
			if w.m.subOf(o.X, o.A).bal.Cmp(need) >= 0 && w.m.mainOf(o.X).Cmp(need) >= 0 && canon(o.A) != o.X {
				lib.ExcludedKnown(kWdPanic)
				shrink(fit, room)
			}
		}
	}
	if lib.Known(kSubAdd) && valid {
		// known finding: additions to sub-account fields have no overflow check. The class: the credited field
		// would pass MaxInt64 (only possible when the sub-ledger is not backed by the executor address's balance)
		var credited *big.Int
		switch o.Op {
		case "ExecDeposit", "GenesisInitExec", "TransferToExec", "ExecActive":
			credited = w.m.subOf(o.X, o.A).bal
		case "ExecDepositFrozen", "ExecFrozen":
			credited = w.m.subOf(o.X, o.A).frz
		case "ExecTransfer", "ExecTransferFrozen":
			credited = w.m.subOf(o.X, o.B).bal
		}
		if credited != nil {
			room := new(big.Int).Sub(bigMaxI, credited)
			if fit := fitReps(room); fit < reps {
				// the wrapping repetition must actually be reached: the operation's own checks pass fit+1 times
				need := new(big.Int).Mul(amt, big.NewInt(fit+1))
				has := func(v *big.Int) bool { return v.Cmp(need) >= 0 }
				fitsMain := func(a string) bool { return new(big.Int).Add(w.m.mainOf(a), need).Cmp(bigBal) <= 0 }
				reached := true
				switch o.Op {
				case "GenesisInitExec", "ExecDepositFrozen":
					reached = fitsMain(o.X)
				case "TransferToExec":
					reached = has(w.m.mainOf(o.A)) && fitsMain(o.X)
				case "ExecActive":
					reached = has(w.m.subOf(o.X, o.A).frz)
				case "ExecFrozen", "ExecTransfer":
					reached = has(w.m.subOf(o.X, o.A).bal)
				case "ExecTransferFrozen":
					reached = has(w.m.subOf(o.X, o.A).frz)
				}
				if reached {
					lib.ExcludedKnown(kSubAdd)
					shrink(fit, room)
				}
			}
		}
	}
}

func TestPropLedgerModel(t *testing.T) {
	defer lib.Flush()
	maxSteps := 40
	rapid.Check(t, func(t *rapid.T) {
		ledger := rapid.SampledFrom([]string{"coins", "coins", "token"}).Draw(t, "ledger")
		w := newWorld("TestPropLedgerModel", ledger, rapid.Uint64().Draw(t, "caseMask"))
		n := rapid.IntRange(1, maxSteps).Draw(t, "steps")
		lib.Eval()
		for i := 0; i < n; i++ {
			if msg := w.step(w.genOp(t, i == 0)); msg != "" {
				lib.Violation(t, prop, w.test, w, "%s", msg)
			}
		}
		lib.Class("ledger:" + ledger)
		if w.ntAlias {
			lib.Class("nt:exec_op_on_aliased_account")
		}
		if w.ntLimit {
			lib.Class("nt:amount_at_limit")
		}
		if w.ok >= 5 {
			lib.Class("history:>=5_successful_ops")
		}
		if w.ntAlias || w.ntLimit {
			lib.NonTrivialCase(w)
		}
	})
}

// ---------------------------------------------------------------------------------------------------------
// pinned minimal histories of the genuine defects found (plain tests, no generation). Each passes silently
// once the defect is gone; while it is present it is a KNOWN-FINDING if listed, a violation otherwise.

func pinned(t *testing.T, name, id, what string, histories ...[]op) {
	defer lib.Flush()
	for _, h := range histories {
		if w, msg := run(name, "coins", 0, h); msg != "" {
			lib.KnownOrViolation(t, prop, name, id, w, what+" ["+msg+"]")
			return
		}
	}
}

// ExecTransfer / ExecTransferFrozen compare from and to as strings; two hex-case spellings of one account
// load the same record twice and the second save overwrites the debit: the amount is minted.
func TestKnown_AliasExecTransfer(t *testing.T) {
	up, lo := "0x"+strings.ToUpper(hexBodies[0]), "0x"+hexBodies[0]
	pinned(t, "TestKnown_AliasExecTransfer", kAlias, "ExecTransfer/ExecTransferFrozen between two hex-case spellings of one account mints the amount",
		[]op{{Op: "GenesisInitExec", A: up, X: execOther, Amt: 1000}, {Op: "ExecTransfer", A: up, B: lo, X: execOther, Amt: 400}},
		[]op{{Op: "GenesisInitExec", A: up, X: execOther, Amt: 1000}, {Op: "ExecFrozen", A: lo, X: execOther, Amt: 600}, {Op: "ExecTransferFrozen", A: lo, B: up, X: execOther, Amt: 400}})
}

// GenesisInit / GenesisInitExec never validate the amount: a negative grant drives a balance below zero, and
// GenesisInitExec panics AFTER crediting the executor address when its deposit half refuses the amount
// (<= 0 or >= the per-operation limit) or the address pair.
func TestKnown_GenesisAmountUnchecked(t *testing.T) {
	pinned(t, "TestKnown_GenesisAmountUnchecked", kGenesis, "genesis grants accept a negative amount; GenesisInitExec panics after crediting the executor address",
		[]op{{Op: "GenesisInit", A: plain[0], Amt: -5}},
		[]op{{Op: "GenesisInitExec", A: plain[0], X: execOther, Amt: 0}},
		[]op{{Op: "GenesisInitExec", A: plain[0], X: execOther, Amt: opLimit}},
		[]op{{Op: "GenesisInitExec", A: execOther, X: execOther, Amt: 7}})
}

// TransferWithdraw debits the sub-account, then panics when crediting `from` would exceed the balance limit.
func TestKnown_WithdrawCreditPanic(t *testing.T) {
	pinned(t, "TestKnown_WithdrawCreditPanic", kWdPanic, "TransferWithdraw panics after debiting the sub-account when the credit would exceed the balance limit",
		[]op{{Op: "GenesisInit", A: plain[0], Amt: balLimit}, {Op: "GenesisInitExec", A: plain[0], X: execOther, Amt: 10}, {Op: "TransferWithdraw", A: plain[0], X: execOther, Amt: 10}})
}

// Additions to sub-account fields (ExecDeposit and every other crediting path) have no overflow check: once the
// sub-ledger is not backed by the executor address's balance, repeated credits wrap int64.
func TestKnown_SubLedgerAddOverflow(t *testing.T) {
	pinned(t, "TestKnown_SubLedgerAddOverflow", kSubAdd, "sub-account additions have no overflow check: ExecDeposit wraps the balance past MaxInt64",
		[]op{{Op: "ExecDeposit", A: plain[0], X: execOther, Amt: opLimit - 1, Times: 93}})
}
