// vlocal: a synthetic executor whose local data is written the way a table-based dapp writes it, so that several
// transactions of ONE block hit the same local key and the block's removal has to compose their per-transaction
// rollback logs.
//
// It is registered exactly as an external chain33 plugin registers itself (types.RegFork + types.RegExec ->
// RegistorExecutor of an ExecutorType; pluginmgr.Register whose Exec hook calls drivers.Register + InitFuncList) and is
// dispatched through the ordinary DriverBase reflection path (Exec_Modify / ExecLocal_Modify / ExecDelLocal_Modify /
// Query_*). The action container is the repository's own ManageAction{Modify: ModifyConfig} message (no protoc in the
// sandbox); ModifyConfig.Value carries the JSON text of the transaction's local operations.
//
// ExecLocal uses only the standard helpers, as manage does:
//   - plain keys  LODB-vlocal-kv-<k>          set / overwritten / deleted;
//   - a common/db/table table "rows" (primary "id", indexes "val" and "owner") with Replace / Del + Save;
//   - every produced kv goes through DriverBase.AddRollbackKV(tx, execer, kvs), which records each key's value *before this
//     transaction* under LODB-vlocal-rollback-<txhash>;
//   - ExecDelLocal returns DriverBase.DelRollbackKV(tx, execer).
package c14

import (
	"encoding/json"
	"errors"

	dbm "github.com/33cn/chain33/common/db"
	"github.com/33cn/chain33/common/db/table"
	"github.com/33cn/chain33/pluginmgr"
	drivers "github.com/33cn/chain33/system/dapp"
	mty "github.com/33cn/chain33/system/dapp/manage/types"
	"github.com/33cn/chain33/types"
)

const vlocalName = "vlocal"

// vop is one local operation: kset k v | kdel k (plain key) ; tput k v | tdel k (table row id k, indexed value v) ;
// fail (Exec returns an error: receipt ExecPack, no local data).
type vop struct {
	Op string `json:"op"`
	K  string `json:"k,omitempty"`
	V  string `json:"v,omitempty"`
}

// the SMALL key space the generator draws from (so that transactions of one block collide)
var (
	vKeys   = []string{"a", "b", "c"}
	vValues = []string{"x", "y", "z"}
	vRows   = []string{"r1", "r2", "r3"}
	vColors = []string{"red", "blue"}
)

func vlocalPayload(ops []vop) []byte {
	b, err := json.Marshal(ops)
	if err != nil {
		panic(err)
	}
	return types.Encode(&mty.ManageAction{Ty: mty.ManageActionModifyConfig,
		Value: &mty.ManageAction_Modify{Modify: &types.ModifyConfig{Key: "ops", Value: string(b)}}})
}

func vlocalOps(payload []byte) []vop {
	var a mty.ManageAction
	var ops []vop
	if types.Decode(payload, &a) == nil {
		_ = json.Unmarshal([]byte(a.GetModify().GetValue()), &ops)
	}
	return ops
}

// ---- types-package part -----------------------------------------------------------------------------------------

type vlocalType struct{ types.ExecTypeBase }

func (t *vlocalType) GetName() string                     { return vlocalName }
func (t *vlocalType) GetPayload() types.Message           { return &mty.ManageAction{} }
func (t *vlocalType) GetLogMap() map[int64]*types.LogInfo { return map[int64]*types.LogInfo{} }
func (t *vlocalType) GetTypeMap() map[string]int32 {
	return map[string]int32{"Modify": mty.ManageActionModifyConfig}
}

func init() {
	types.AllowUserExec = append(types.AllowUserExec, []byte(vlocalName))
	types.RegFork(vlocalName, func(cfg *types.Chain33Config) { cfg.RegisterDappFork(vlocalName, "Enable", 0) })
	types.RegExec(vlocalName, func(cfg *types.Chain33Config) {
		t := &vlocalType{}
		t.SetChild(t)
		t.SetConfig(cfg)
		types.RegistorExecutor(vlocalName, t)
	})
	pluginmgr.Register(&pluginmgr.PluginBase{
		Name:     "verif." + vlocalName,
		ExecName: vlocalName,
		Exec: func(_ string, cfg *types.Chain33Config, _ []byte) {
			drivers.Register(cfg, vlocalName, newVLocal, cfg.GetDappFork(vlocalName, "Enable"))
			types.LoadExecutorType(vlocalName).InitFuncList(types.ListMethod(&VLocal{}))
		},
	})
}

// ---- executor part ----------------------------------------------------------------------------------------------

// VLocal is the synthetic executor.
type VLocal struct{ drivers.DriverBase }

func newVLocal() drivers.Driver {
	d := &VLocal{}
	d.SetChild(d)
	d.SetExecutorType(types.LoadExecutorType(vlocalName))
	return d
}

// GetDriverName is the fixed driver name.
func (d *VLocal) GetDriverName() string { return vlocalName }

// CheckReceiptExecOk: local data only for ExecOk receipts, on add and on removal alike (DriverBase.callLocal).
func (d *VLocal) CheckReceiptExecOk() bool { return true }

var errVLocalFail = errors.New("vlocal: fail op")

func decodeOps(payload *types.ModifyConfig) ([]vop, error) {
	var ops []vop
	err := json.Unmarshal([]byte(payload.GetValue()), &ops)
	return ops, err
}

// Exec_Modify writes no state; a "fail" op makes the transaction fail after the fee (receipt ExecPack).
func (d *VLocal) Exec_Modify(payload *types.ModifyConfig, tx *types.Transaction, index int) (*types.Receipt, error) {
	ops, err := decodeOps(payload)
	if err != nil {
		return nil, err
	}
	for _, o := range ops {
		if o.Op == "fail" {
			return nil, errVLocalFail
		}
	}
	return &types.Receipt{Ty: types.ExecOk}, nil
}

// the "rows" table: data = ModifyConfig{Key: id, Value: val, Addr: owner}
var vlocalTableOpt = &table.Option{Prefix: "LODB-" + vlocalName, Name: "rows", Primary: "id", Index: []string{"val", "owner"}}

type vlocalRow struct{ *types.ModifyConfig }

func (r *vlocalRow) CreateRow() *table.Row { return &table.Row{Data: &types.ModifyConfig{}} }
func (r *vlocalRow) SetPayload(data types.Message) error {
	if d, ok := data.(*types.ModifyConfig); ok {
		r.ModifyConfig = d
		return nil
	}
	return types.ErrTypeAsset
}
func (r *vlocalRow) Get(key string) ([]byte, error) {
	switch key {
	case "id":
		return []byte(r.Key), nil
	case "val":
		return []byte(r.Value), nil
	case "owner":
		return []byte(r.Addr), nil
	}
	return nil, types.ErrNotFound
}

func vlocalTable(kvdb dbm.KV) *table.Table {
	t, err := table.NewTable(&vlocalRow{ModifyConfig: &types.ModifyConfig{}}, kvdb, vlocalTableOpt)
	if err != nil {
		panic(err)
	}
	return t
}

func vlocalKey(k string) []byte { return []byte("LODB-" + vlocalName + "-kv-" + k) }

// ExecLocal_Modify applies the operations in order and returns the kvs plus the rollback log (AddRollbackKV).
func (d *VLocal) ExecLocal_Modify(payload *types.ModifyConfig, tx *types.Transaction, receipt *types.ReceiptData, index int) (*types.LocalDBSet, error) {
	ops, err := decodeOps(payload)
	if err != nil {
		return nil, err
	}
	tab := vlocalTable(d.GetLocalDB())
	var plain []*types.KeyValue
	for _, o := range ops {
		switch o.Op {
		case "kset":
			plain = append(plain, &types.KeyValue{Key: vlocalKey(o.K), Value: []byte(o.V)})
		case "kdel":
			plain = append(plain, &types.KeyValue{Key: vlocalKey(o.K)})
		case "tput":
			if err := tab.Replace(&types.ModifyConfig{Key: o.K, Value: o.V, Addr: tx.From()}); err != nil {
				return nil, err
			}
		case "tdel":
			if err := tab.Del([]byte(o.K)); err != nil && err != types.ErrNotFound {
				return nil, err
			}
		}
	}
	kvs, err := tab.Save()
	if err != nil {
		return nil, err
	}
	return &types.LocalDBSet{KV: d.AddRollbackKV(tx, tx.Execer, append(kvs, plain...))}, nil
}

// ExecDelLocal_Modify undoes the transaction from its rollback log (DelRollbackKV).
func (d *VLocal) ExecDelLocal_Modify(payload *types.ModifyConfig, tx *types.Transaction, receipt *types.ReceiptData, index int) (*types.LocalDBSet, error) {
	kvs, err := d.DelRollbackKV(tx, tx.Execer)
	if err != nil {
		return nil, err
	}
	return &types.LocalDBSet{KV: kvs}, nil
}

// Query_Get returns the value of plain key in.Data.
func (d *VLocal) Query_Get(in *types.ReqString) (types.Message, error) {
	v, err := d.GetLocalDB().Get(vlocalKey(in.Data))
	if err != nil {
		return nil, err
	}
	return &types.ReplyString{Data: string(v)}, nil
}

// Query_List lists the table through index in.Key ("primary", "val", "owner") with index prefix in.Value: "id=val@owner".
func (d *VLocal) Query_List(in *types.ModifyConfig) (types.Message, error) {
	rows, err := vlocalTable(d.GetLocalDB()).ListIndex(in.Key, []byte(in.Value), nil, 100, 1)
	if err != nil {
		return nil, err
	}
	out := &types.ReplyStrings{}
	for _, r := range rows {
		m := r.Data.(*types.ModifyConfig)
		out.Datas = append(out.Datas, m.Key+"="+m.Value+"@"+m.Addr)
	}
	return out, nil
}
