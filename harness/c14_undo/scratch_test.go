package c14

import (
	"fmt"
	"testing"
	"time"
)

func TestScratch(t *testing.T) {
	t0 := time.Now()
	lap := func(s string) { fmt.Printf("%-20s %v\n", s, time.Since(t0)); t0 = time.Now() }
	fmt.Println(mvccThroughExecutor())
	lap("probe")
	n := newNode(variant{Quick: true}, false)
	lap("newNode")
	g := n.genesisDetail()
	lap("genesisDetail")
	n.mvccApply(true, g)
	u := newUniverse()
	u.addBlock(n.cfg, g)
	lap("mvcc")
	d := n.execute(n.build([]txSpec{{Kind: "transfer", From: 0, To: 2, Amount: 1e8, Fee: 1e5}}))
	lap("execute")
	u.addBlock(n.cfg, d)
	s := n.snap(u)
	lap("snap")
	fmt.Println(len(s))
	n.rawDump()
	lap("rawDump")
	set, err := n.localKVs(64, d)
	_ = set
	fmt.Println(err)
	n.connect(d.Block)
	lap("connect")
	n.Close()
	lap("close")
}
