package c14

import (
	"fmt"
	"os"
	"testing"
	"time"
)

func TestScratch(t *testing.T) {
	if os.Getenv("PROBE") != "" {
		mvccThroughExecutor()
	}
	for i := 0; i < 4; i++ {
		t0 := time.Now()
		lap := func(s string) { fmt.Printf("%-20s %v\n", s, time.Since(t0)); t0 = time.Now() }
		n := newNode(variant{Quick: true}, false)
		lap("newNode")
		d := n.execute(n.build([]txSpec{{Kind: "transfer", From: 0, To: 2, Amount: 1e8, Fee: 1e5}}))
		lap("execute")
		n.connect(d.Block)
		lap("connect")
		n.Close()
		lap("close")
	}
}
