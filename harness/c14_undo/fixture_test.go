// C14 fixture: an in-process node with every local-index plugin enabled, a transaction builder for the
// generated specs, the two ways a block's local-index updates are applied and removed, and the
// observational snapshot the oracle compares.
package c14

import (
	"bytes"
	"encoding/hex"
	"fmt"
	"os"
	"sort"
	"strings"
	"sync"
	"time"

	"github.com/33cn/chain33/blockchain"
	"github.com/33cn/chain33/client"
	"github.com/33cn/chain33/common/address"
	"github.com/33cn/chain33/common/crypto"
	cryptocli "github.com/33cn/chain33/common/crypto/client"
	dbm "github.com/33cn/chain33/common/db"
	"github.com/33cn/chain33/common/log"
	"github.com/33cn/chain33/common/merkle"
	"github.com/33cn/chain33/consensus"
	"github.com/33cn/chain33/executor"
	"github.com/33cn/chain33/mempool"
	"github.com/33cn/chain33/queue"
	"github.com/33cn/chain33/store"
	_ "github.com/33cn/chain33/system" // register drivers, consensus, store, crypto
	drivers "github.com/33cn/chain33/system/dapp"
	cty "github.com/33cn/chain33/system/dapp/coins/types"
	mty "github.com/33cn/chain33/system/dapp/manage/types"
	"github.com/33cn/chain33/types"
	"github.com/33cn/chain33/util"
	"github.com/33cn/chain33/wallet"
)

// fixtureErr marks a problem of the harness fixture (never a verdict about the code under test).
type fixtureErr struct{ msg string }

func fixturef(format string, a ...interface{}) { panic(fixtureErr{fmt.Sprintf(format, a...)}) }

// variant is the node configuration of a case. Every index plugin is always enabled (txindex, addrindex,
// fee by default; addrfeeindex, mvcc, stat by the [exec] switches); what varies is whether fees are charged
// (free chains allow blocks that change no state) and whether the short tx key ("quickIndex") is written.
type variant struct {
	Free    bool `json:"free"`
	Quick   bool `json:"quickIndex"`
	LevelDB bool `json:"leveldb"` // production backend (slow to open on a loaded machine); otherwise chain33's memdb backend
}

// paraTitle is the title of the para-chain configuration. On a para chain every executor name carries the title
// ("user.p.c14.coins") and a coins transfer / transferToExec / withdraw has tx.To = the coins contract address while the
// recipient sits in the payload (tx.GetRealToAddr() != tx.To).
const paraTitle = "user.p.c14."

// procTitle is the chain title of this process ("" = the default main-chain test configuration). Executor types are
// registered once per process with the first configuration, so one process hosts one title only: the main-chain and the
// para-chain properties run in separate processes (separate prop entries of checks.d/C14.json).
var (
	procTitle    string
	procTitleSet bool
)

// useTitle claims the process for a title; false when the process already hosts the other one.
func useTitle(title string) bool {
	if procTitleSet && procTitle != title {
		return false
	}
	procTitle, procTitleSet = title, true
	return true
}

// ex is the executor name as transactions of this process's chain spell it.
func ex(name string) string { return procTitle + name }

func realExec(tx *types.Transaction) string { return string(types.GetRealExecName(tx.Execer)) }

func cfgString(v variant, mvccInNode bool) string {
	s := types.GetDefaultCfgstring()
	if procTitle != "" {
		if strings.Count(s, `Title="local"`) != 1 {
			fixturef("default config: Title line not found")
		}
		s = strings.Replace(s, `Title="local"`, `Title="`+procTitle+`"`, 1)
	}
	rep := func(old, new string) {
		if strings.Count(s, old) != 1 {
			fixturef("default config: %q occurs %d times", old, strings.Count(s, old))
		}
		s = strings.Replace(s, old, new, 1)
	}
	rep("[exec]\nenableStat=false\nenableMVCC=false", fmt.Sprintf("[exec]\nenableStat=true\nenableMVCC=%v\nenableAddrFeeIndex=true", mvccInNode))
	if !v.Quick {
		rep("enableTxQuickIndex=true", "enableTxQuickIndex=false")
	}
	if !v.LevelDB {
		if strings.Count(s, "driver=\"leveldb\"") != 4 { // blockchain, p2p, store, wallet
			fixturef("default config: unexpected number of leveldb drivers")
		}
		s = strings.ReplaceAll(s, "driver=\"leveldb\"", "driver=\"memdb\"")
	}
	return s
}

// keys of the address pool: 0 = genesis account (the only one funded at height 0), 1 = a manage super manager,
// 2.. = fixed keys derived from constants (no randomness).
var keys = func() []crypto.PrivKey {
	ks := []crypto.PrivKey{util.TestPrivkeyList[1], util.TestPrivkeyList[0]}
	c, err := crypto.Load(types.GetSignName("", types.SECP256K1), -1)
	if err != nil {
		panic(err)
	}
	for i := 0; i < 4; i++ {
		seed := bytes.Repeat([]byte{byte(0x31 + i)}, 32)
		k, err := c.PrivKeyFromBytes(seed)
		if err != nil {
			panic(err)
		}
		ks = append(ks, k)
	}
	return ks
}()

func addrOf(k crypto.PrivKey) string {
	return address.PubKeyToAddr(address.DefaultID, k.PubKey().Bytes())
}

var poolAddrs = func() []string {
	var a []string
	for _, k := range keys {
		a = append(a, addrOf(k))
	}
	return a
}()

// execNames are the executors coins are moved into / out of, and whose addresses appear as "to".
var execNames = []string{"manage", "none", "coins"}

// node is an in-process chain33 node assembled exactly like util/testnode assembles one (same modules, same
// order, same mock p2p) minus what this check never uses and what makes testnode's start-up take 0.3–4 s on a loaded
// machine: the wait for the mempool's one-second sync polls, the wallet seed / key import, and the RPC server.
// Mining is off: the only blocks are the genesis block (written by the solo consensus at start) and the ones
// the case delivers.
type node struct {
	cfg     *types.Chain33Config
	q       queue.Queue
	cli     queue.Client
	api     client.QueueProtocolAPI
	chain   *blockchain.BlockChain
	db      dbm.DB
	mods    []interface{ Close() }
	datadir string
	nonce   int64
	// mvccInNode: the mvcc plugin runs inside the node's executor; otherwise the harness applies it (see mvccThroughExecutor)
	mvccInNode bool
}

func (n *node) GetClient() queue.Client { return n.cli }

type mockP2P struct{}

func (m *mockP2P) SetQueueClient(c queue.Client) {
	go func() {
		c.Sub("p2p")
		for msg := range c.Recv() {
			switch msg.Ty {
			case types.EventPeerInfo:
				msg.Reply(c.NewMessage("p2p", types.EventPeerList, &types.PeerList{}))
			case types.EventGetNetInfo:
				msg.Reply(c.NewMessage("p2p", types.EventPeerList, &types.NodeNetInfo{}))
			case types.EventTxBroadcast, types.EventBlockBroadcast, types.EventAddBlock:
				c.FreeMessage(msg)
			default:
				msg.ReplyErr("p2p->Do not support "+types.GetEventName(int(msg.Ty)), types.ErrNotSupport)
			}
		}
	}()
}
func (m *mockP2P) Wait()  {}
func (m *mockP2P) Close() {}

func newNode(v variant, mvccInNode bool) *node {
	log.SetLogLevel("crit")
	cfg := types.NewChain33Config(cfgString(v, mvccInNode))
	mcfg := cfg.GetModuleConfig()
	mcfg.Consensus.Minerstart = false
	if v.Free {
		mcfg.Mempool.MinTxFeeRate = 0
		mcfg.Wallet.MinFee = 0
		cfg.SetMinFee(0)
	}
	q := queue.New("channel")
	q.SetConfig(cfg)
	n := &node{q: q, mvccInNode: mvccInNode, datadir: util.ResetDatadir(mcfg, "$TEMP/")}
	address.Init(mcfg.Address)
	start := func(m queue.Module) {
		m.SetQueueClient(q.Client())
		n.mods = append(n.mods, m)
	}
	start(cryptocli.New())
	start(executor.New(cfg))
	start(store.New(cfg))
	n.chain = blockchain.New(cfg)
	start(n.chain)
	start(consensus.New(cfg))
	start(mempool.New(cfg))
	start(wallet.New(cfg))
	start(&mockP2P{})
	n.cli = q.Client()
	api, err := client.New(q.Client(), nil)
	if err != nil {
		fixturef("client.New: %v", err)
	}
	n.api, n.cfg, n.db = api, n.cli.GetConfig(), n.chain.GetDB()
	for i := 0; n.chain.GetBlockHeight() < 0; i++ { // genesis is written by the consensus module at start
		if i > 30000 {
			n.Close()
			fixturef("no genesis block after 60 s")
		}
		time.Sleep(2 * time.Millisecond)
	}
	return n
}

// Close stops the modules in testnode's order and removes the data directory.
func (n *node) Close() {
	order := []int{0, 7, 5, 1, 4, 6, 3, 2} // crypto, p2p, mempool, exec, consensus, wallet, blockchain, store
	for _, i := range order {
		n.mods[i].Close()
	}
	n.cli.Close()
	os.RemoveAll(n.datadir)
}

// mvccThroughExecutor reports whether a node configured with exec.enableMVCC=true can execute a block above
// genesis at all. On the pinned tree it cannot: version 0 is stored as the empty encoding of Int64{0}, the
// blockchain-side LocalDB reads an empty value as "deleted", and StateDB.enableMVCC panics at height 1
// ("it must be synchronized from 0 height"). When that is so, the node runs without the mvcc plugin and the
// plugin's two functions (executor.AddMVCC / executor.DelMVCC, the whole body of mvccPlugin.ExecLocal /
// ExecDelLocal) are applied by the harness to the same db; when the executor path works, it is used.
var mvccThroughExecutor = sync.OnceValue(func() bool {
	n := newNode(variant{Quick: true}, true)
	defer n.Close()
	parent := n.tip()
	txs := n.build([]txSpec{{Kind: "transfer", From: 0, To: 2, Amount: 1e8, Fee: 1e5}})
	blk := &types.Block{Height: 1, ParentHash: parent.Hash(n.cfg), BlockTime: parent.BlockTime + 1, Txs: txs}
	blk.TxHash = merkle.CalcMerkleRoot(n.cfg, blk.Height, blk.Txs)
	_, _, err := util.ExecBlock(n.GetClient(), parent.StateHash, blk, false, true, false)
	if err != nil && err != types.ErrExecPanic {
		fixturef("mvcc probe: %v", err)
	}
	return err == nil
})

// ---- specs and transactions -------------------------------------------------------------------------------------

// txSpec is the plain-data rendering of a generated transaction (also what a replay file shows).
type txSpec struct {
	Kind    string   `json:"kind"`              // transfer | toexec | withdraw | none | modify | apply | vlocal | group
	From    int      `json:"from"`              // index into keys
	To      int      `json:"to,omitempty"`      // transfer, none: index into poolAddrs; len(poolAddrs)+i = address of execNames[i]
	Exec    string   `json:"exec,omitempty"`    // toexec, withdraw
	Amount  int64    `json:"amount,omitempty"`  // coins actions
	Fee     int64    `json:"fee"`               //
	Key     string   `json:"key,omitempty"`     // manage
	Op      string   `json:"op,omitempty"`      // manage
	Value   string   `json:"value,omitempty"`   // manage
	EmptyTo bool     `json:"emptyTo,omitempty"` // manage: legacy shape without a To field (real recipient = the manage contract address)
	Ops     []vop    `json:"ops,omitempty"`     // vlocal: local operations (see vlocal_test.go)
	Members []txSpec `json:"members,omitempty"` // group
}

func targetAddr(i int) string {
	if i < len(poolAddrs) {
		return poolAddrs[i]
	}
	return address.ExecAddress(ex(execNames[i-len(poolAddrs)]))
}

func nTargets() int { return len(poolAddrs) + len(execNames) }

func (n *node) rawTx(s txSpec) *types.Transaction {
	n.nonce++
	tx := &types.Transaction{Fee: s.Fee, Nonce: n.nonce, ChainID: n.cfg.GetChainID()}
	// coins: on the main chain tx.To is the recipient itself; on a para chain tx.To is the coins contract address and
	// only the payload names the recipient
	coinsTo := func(recipient string) string {
		if procTitle != "" {
			return address.ExecAddress(ex("coins"))
		}
		return recipient
	}
	manageTo := address.ExecAddress(ex("manage"))
	if s.EmptyTo {
		manageTo = ""
	}
	switch s.Kind {
	case "transfer":
		to := targetAddr(s.To)
		tx.Execer, tx.To = []byte(ex("coins")), coinsTo(to)
		tx.Payload = types.Encode(&cty.CoinsAction{Ty: cty.CoinsActionTransfer,
			Value: &cty.CoinsAction_Transfer{Transfer: &types.AssetsTransfer{Amount: s.Amount, To: to}}})
	case "toexec":
		to := address.ExecAddress(ex(s.Exec))
		tx.Execer, tx.To = []byte(ex("coins")), coinsTo(to)
		tx.Payload = types.Encode(&cty.CoinsAction{Ty: cty.CoinsActionTransferToExec,
			Value: &cty.CoinsAction_TransferToExec{TransferToExec: &types.AssetsTransferToExec{Amount: s.Amount, ExecName: ex(s.Exec), To: to}}})
	case "withdraw":
		to := address.ExecAddress(ex(s.Exec))
		tx.Execer, tx.To = []byte(ex("coins")), coinsTo(to)
		tx.Payload = types.Encode(&cty.CoinsAction{Ty: cty.CoinsActionWithdraw,
			Value: &cty.CoinsAction_Withdraw{Withdraw: &types.AssetsWithdraw{Amount: s.Amount, ExecName: ex(s.Exec), To: to}}})
	case "none":
		tx.Execer, tx.To = []byte(ex("none")), targetAddr(s.To)
		tx.Payload = []byte(s.Value)
	case "modify":
		tx.Execer, tx.To = []byte(ex("manage")), manageTo
		tx.Payload = types.Encode(&mty.ManageAction{Ty: mty.ManageActionModifyConfig,
			Value: &mty.ManageAction_Modify{Modify: &types.ModifyConfig{Key: s.Key, Op: s.Op, Value: s.Value}}})
	case "apply":
		tx.Execer, tx.To = []byte(ex("manage")), manageTo
		tx.Payload = types.Encode(&mty.ManageAction{Ty: mty.ManageActionApplyConfig,
			Value: &mty.ManageAction_Apply{Apply: &mty.ApplyConfig{Config: &types.ModifyConfig{Key: s.Key, Op: s.Op, Value: s.Value}}}})
	case "vlocal":
		tx.Execer, tx.To = []byte(ex(vlocalName)), address.ExecAddress(ex(vlocalName))
		tx.Payload = vlocalPayload(s.Ops)
	default:
		fixturef("unknown tx kind %q", s.Kind)
	}
	return tx
}

// build turns specs into signed transactions (a group becomes its member transactions, in order).
func (n *node) build(specs []txSpec) []*types.Transaction {
	var out []*types.Transaction
	for _, s := range specs {
		if s.Kind != "group" {
			tx := n.rawTx(s)
			tx.Sign(types.SECP256K1, keys[s.From])
			out = append(out, tx)
			continue
		}
		var txs []*types.Transaction
		for _, m := range s.Members {
			txs = append(txs, n.rawTx(m))
		}
		g, err := types.CreateTxGroup(txs, n.cfg.GetMinTxFeeRate())
		if err != nil {
			fixturef("CreateTxGroup: %v", err)
		}
		for i, m := range s.Members {
			if err := g.SignN(i, types.SECP256K1, keys[m.From]); err != nil {
				fixturef("SignN: %v", err)
			}
		}
		out = append(out, g.GetTxs()...)
	}
	return out
}

// ---- executing, applying and removing a block -------------------------------------------------------------------

func (n *node) tip() *types.Block {
	d, err := n.chain.GetBlock(n.chain.GetBlockHeight())
	if err != nil {
		fixturef("tip: %v", err)
	}
	return d.Block
}

// execute builds the block on the tip and executes it the way a producing node does (failed-before-fee
// transactions are dropped). The block is NOT connected. nil when every transaction was dropped.
func (n *node) execute(txs []*types.Transaction) *types.BlockDetail {
	parent := n.tip()
	blk := &types.Block{Height: parent.Height + 1, ParentHash: parent.Hash(n.cfg), BlockTime: parent.BlockTime + 1,
		Difficulty: n.cfg.GetP(0).PowLimitBits, Txs: txs}
	if n.cfg.IsFork(blk.Height, "ForkRootHash") {
		blk.Txs = types.TransactionSort(blk.Txs)
	}
	blk.TxHash = merkle.CalcMerkleRoot(n.cfg, blk.Height, blk.Txs)
	detail, _, err := util.ExecBlock(n.GetClient(), parent.StateHash, blk, false, true, false)
	if err != nil {
		fixturef("ExecBlock height %d: %v", blk.Height, err)
	}
	if len(detail.Block.Txs) == 0 {
		return nil
	}
	return detail
}

// localKVs asks the executor for the block's local-index update (EventAddBlock) or removal (EventDelBlock)
// set — the message blockstore.getLocalKV / getDelLocalKV send.
func (n *node) localKVs(ev int64, detail *types.BlockDetail) (*types.LocalDBSet, error) {
	cli := n.GetClient()
	msg := cli.NewMessage("execs", ev, types.Clone(detail).(*types.BlockDetail))
	if err := cli.Send(msg, true); err != nil {
		return nil, err
	}
	resp, err := cli.Wait(msg)
	if err != nil {
		return nil, err
	}
	set, ok := resp.GetData().(*types.LocalDBSet)
	if !ok {
		return nil, fmt.Errorf("reply is %T", resp.GetData())
	}
	return set, nil
}

// applyKVs writes a local KV set to the blockchain db exactly as BlockStore.AddTxs / DelTxs do:
// in order, one batch, nil value = delete.
func (n *node) applyKVs(set *types.LocalDBSet) {
	b := n.db.NewBatch(true)
	for _, kv := range set.KV {
		if kv.Value == nil {
			b.Delete(kv.Key)
		} else {
			b.Set(kv.Key, kv.Value)
		}
	}
	if err := b.Write(); err != nil {
		fixturef("batch write: %v", err)
	}
}

// mvccApply runs the mvcc plugin's update (AddMVCC) or removal (DelMVCC) for the block against the blockchain db and
// writes the returned set like any other local KV set. No-op when the node's executor runs the plugin itself.
// The two functions panic on error, exactly what the plugin lets escape; the panic text is returned.
func (n *node) mvccApply(add bool, d *types.BlockDetail) (failure string) {
	if n.mvccInNode {
		return ""
	}
	defer func() {
		if r := recover(); r != nil {
			failure = fmt.Sprint(r)
		}
	}()
	kvdb := dbm.NewKVDB(n.db)
	var kvs []*types.KeyValue
	if add {
		kvs = executor.AddMVCC(kvdb, d)
	} else {
		kvs = executor.DelMVCC(kvdb, d)
	}
	n.applyKVs(&types.LocalDBSet{KV: kvs})
	return ""
}

// genesisDetail re-executes the genesis transactions to recover the block's state write set (BlockDetail.KV is
// not persisted; ExecTx only computes receipts, it stores nothing).
func (n *node) genesisDetail() *types.BlockDetail {
	g := types.Clone(n.tip()).(*types.Block)
	if g.Height != 0 {
		fixturef("genesisDetail called at height %d", g.Height)
	}
	rs, err := util.ExecTx(n.GetClient(), make([]byte, 32), g)
	if err != nil {
		fixturef("re-executing genesis: %v", err)
	}
	d := &types.BlockDetail{Block: g}
	for _, r := range rs.Receipts {
		if r.Ty != types.ExecOk {
			fixturef("genesis receipt type %d", r.Ty)
		}
		d.KV = append(d.KV, r.KV...)
	}
	d.KV = util.DelDupKey(d.KV)
	return d
}

// connect delivers the block to the blockchain module as the node's own consensus does (real add).
func (n *node) connect(b *types.Block) *types.BlockDetail {
	blk := types.Clone(b).(*types.Block)
	d, isMain, _, err := n.chain.ProcessBlock(false, &types.BlockDetail{Block: blk}, "self", true, -1)
	if err != nil || !isMain {
		fixturef("ProcessBlock height %d: main=%v err=%v", b.Height, isMain, err)
	}
	return d
}

// rollbackTo removes the blocks above height h through the node's own rollback path
// (BlockChain.Rollback -> disBlock -> BlockStore.DelTxs/DelBlock). A panic inside is returned as text.
func (n *node) rollbackTo(h int64) (failure string) {
	defer func() {
		if r := recover(); r != nil {
			failure = fmt.Sprint(r)
		}
	}()
	n.cfg.GetModuleConfig().BlockChain.RollbackBlock = h
	n.chain.Rollback()
	return ""
}

func (n *node) rawDump() map[string]string {
	out := map[string]string{}
	it := n.db.Iterator(nil, nil, false)
	defer it.Close()
	for it.Rewind(); it.Valid(); it.Next() {
		out[string(it.Key())] = string(it.Value())
	}
	return out
}

// ---- the observational snapshot ---------------------------------------------------------------------------------

// universe is the set of things the snapshot asks about. Addresses are fixed; hashes, state keys and versions
// grow with the chain (a block's own items are added before its "before" snapshot is taken).
type universe struct {
	addrs     []string
	txs       [][]byte
	blocks    [][]byte // block hashes (total fee is stored per block hash)
	stateRoot [][]byte // state hashes (mvcc version per hash)
	stateKeys []string
	seenKey   map[string]bool
	versions  int64    // versions 0..versions are probed
	hot       []string // addresses also observed through the node's API (the block under test's from/to addresses)
}

func newUniverse() *universe {
	u := &universe{seenKey: map[string]bool{}}
	for i := 0; i < nTargets(); i++ {
		u.addrs = append(u.addrs, targetAddr(i))
	}
	u.addrs = append(u.addrs, address.ExecAddress(ex(vlocalName)))
	return u
}

func (u *universe) addBlock(cfg *types.Chain33Config, d *types.BlockDetail) {
	for _, tx := range d.Block.Txs {
		u.txs = append(u.txs, tx.Hash())
	}
	u.blocks = append(u.blocks, d.Block.Hash(cfg))
	u.stateRoot = append(u.stateRoot, d.Block.StateHash)
	for _, kv := range d.KV {
		if !u.seenKey[string(kv.Key)] {
			u.seenKey[string(kv.Key)] = true
			u.stateKeys = append(u.stateKeys, string(kv.Key))
		}
	}
	if d.Block.Height+1 > u.versions {
		u.versions = d.Block.Height + 1
	}
}

// obs is one observation: enc is what is compared, txt is for humans.
type obs struct{ enc, txt string }

type snapshot map[string]obs

func render(m types.Message, err error) obs {
	if err != nil {
		return obs{"err:" + err.Error(), "error: " + err.Error()}
	}
	if m == nil {
		return obs{"nil", "nil"}
	}
	return obs{hex.EncodeToString(types.Encode(m)), fmt.Sprint(m)}
}

// snap evaluates every query of the property's list over the universe:
//
//	tx lookup by hash; per-address tx lists (all / from / to, both directions) and counts; coins AddrReciver;
//	per-address fee list; manage proposal lists; total fee per block hash; the plugin flags;
//	MVCC GetVersion / GetVersionHash / GetMaxVersion / GetV(key, version).
//
// The per-address executor queries are evaluated by the executors' own Query functions (the code
// Executor.procExecQuery dispatches to) on a driver whose local db is the blockchain db: the node's message path
// costs ~10 ms per executor query on this tree, so it is used only for the addresses the block under test touches
// ("hot": GetAddrOverview and GetTransactionByAddr exactly as RPC clients get them). Tx lookup, total fee and flags
// always go through the node's API.
// Absent and zero are the same observation for the received total (GetAddrOverview reports 0 for both).
func (n *node) snap(u *universe) snapshot {
	s := snapshot{}
	for _, h := range u.txs {
		s["tx:"+hex.EncodeToString(h)] = render(n.api.QueryTx(&types.ReqHash{Hash: h}))
	}
	local := dbm.NewKVDB(n.db)
	height := n.chain.GetBlockHeight()
	query := func(driver, fn string, param types.Message) obs {
		d, err := drivers.LoadDriver(driver, height)
		if err != nil {
			fixturef("LoadDriver %s: %v", driver, err)
		}
		d.SetLocalDB(local)
		d.SetAPI(n.api)
		m, err := d.Query(fn, types.Encode(param))
		if fn == "GetAddrReciver" && err == types.ErrEmpty {
			m, err = &types.Int64{}, nil
		}
		return render(m, err)
	}
	for _, a := range u.addrs {
		for flag := int32(0); flag <= 2; flag++ {
			for dir := int32(0); dir <= 1; dir++ {
				s[fmt.Sprintf("addrtx:%s:flag%d:dir%d", a, flag, dir)] = query("coins", "GetTxsByAddr",
					&types.ReqAddr{Addr: a, Flag: flag, Count: 1000, Direction: dir, Height: -1})
			}
		}
		s["recv:"+a] = query("coins", "GetAddrReciver", &types.ReqAddr{Addr: a})
		s["txcount:"+a] = query("coins", "GetAddrTxsCount", &types.ReqKey{Key: types.CalcAddrTxsCountKey(a)})
		for dir := int32(0); dir <= 1; dir++ {
			s[fmt.Sprintf("feelist:%s:dir%d", a, dir)] = query("coins", "GetTxsFeeByAddr",
				&types.ReqAddr{Addr: a, Count: 1000, Direction: dir, Height: -1})
		}
		for status := int32(0); status <= 1; status++ {
			s[fmt.Sprintf("proposals:%s:status%d", a, status)] = query("manage", "ListConfigID",
				&mty.ReqQueryConfigList{Proposer: a, Status: status, Count: 100, Direction: 0})
		}
	}
	// the synthetic executor's local data: its two queries over the whole (small) key space and a dump of its prefix
	for _, k := range vKeys {
		s["vlocal:get:"+k] = query(vlocalName, "Get", &types.ReqString{Data: k})
	}
	s["vlocal:rows"] = query(vlocalName, "List", &types.ModifyConfig{Key: "primary"})
	for _, c := range vColors {
		s["vlocal:rows-by-val:"+c] = query(vlocalName, "List", &types.ModifyConfig{Key: "val", Value: c})
	}
	for _, a := range poolAddrs {
		s["vlocal:rows-by-owner:"+a] = query(vlocalName, "List", &types.ModifyConfig{Key: "owner", Value: a})
	}
	var dump strings.Builder
	it := n.db.Iterator([]byte("LODB-"+vlocalName+"-"), nil, false)
	for it.Rewind(); it.Valid(); it.Next() {
		fmt.Fprintf(&dump, "%q=%x\n", it.Key(), it.Value())
	}
	it.Close()
	s["vlocal:dump"] = obs{dump.String(), dump.String()}
	for _, a := range u.hot {
		s["overview:"+a] = render(n.api.GetAddrOverview(&types.ReqAddr{Addr: a}))
		s["api-addrtx:"+a] = render(n.api.GetTransactionByAddr(&types.ReqAddr{Addr: a, Flag: 0, Count: 1000, Direction: 0, Height: -1}))
	}
	for _, h := range u.blocks {
		s["totalfee:"+hex.EncodeToString(h)] = n.localGet(types.TotalFeeKey(h), &types.TotalFee{})
	}
	s["flag:mvcc"] = n.localGet(types.FlagKeyMVCC, &types.Int64{})
	s["flag:stat"] = n.localGet(types.StatisticFlag(), &types.Int64{})
	mv := dbm.NewSimpleMVCC(local)
	verObs := func(v int64, err error) obs {
		if err != nil {
			return obs{"err:" + err.Error(), "error: " + err.Error()}
		}
		return obs{fmt.Sprint(v), fmt.Sprint(v)}
	}
	bytesObs := func(b []byte, err error) obs {
		if err != nil {
			return obs{"err:" + err.Error(), "error: " + err.Error()}
		}
		return obs{hex.EncodeToString(b), hex.EncodeToString(b)}
	}
	s["mvcc:max"] = verObs(mv.GetMaxVersion())
	for _, h := range u.stateRoot {
		s["mvcc:version-of:"+hex.EncodeToString(h)] = verObs(mv.GetVersion(h))
	}
	for v := int64(0); v <= u.versions; v++ {
		s[fmt.Sprintf("mvcc:hash-of:%d", v)] = bytesObs(mv.GetVersionHash(v))
		for _, k := range u.stateKeys {
			s[fmt.Sprintf("mvcc:getv:%s@%d", k, v)] = bytesObs(mv.GetV([]byte(k), v))
		}
	}
	return s
}

func (n *node) localGet(key []byte, into types.Message) obs {
	r, err := n.api.LocalGet(&types.LocalDBGet{Keys: [][]byte{key}})
	if err != nil {
		return obs{"err:" + err.Error(), "error: " + err.Error()}
	}
	if len(r.Values) == 0 || r.Values[0] == nil {
		return obs{"absent", "absent"}
	}
	if err := types.Decode(r.Values[0], into); err != nil {
		return obs{"raw:" + hex.EncodeToString(r.Values[0]), "undecodable " + hex.EncodeToString(r.Values[0])}
	}
	return obs{hex.EncodeToString(r.Values[0]), fmt.Sprint(into)}
}

// diff lists the observation keys (restricted to those of `before`) whose value changed, sorted.
func diff(before, after snapshot) []string {
	var d []string
	for k, b := range before {
		if a, ok := after[k]; !ok || a.enc != b.enc {
			d = append(d, k)
		}
	}
	sort.Strings(d)
	return d
}

func rawDiff(before, after map[string]string) []string {
	seen := map[string]bool{}
	for k, v := range before {
		if a, ok := after[k]; !ok || a != v {
			seen[k] = true
		}
	}
	for k := range after {
		if _, ok := before[k]; !ok {
			seen[k] = true
		}
	}
	var d []string
	for k := range seen {
		d = append(d, k)
	}
	sort.Strings(d)
	return d
}

// keyClass maps a raw db key to its prefix (up to the first ':' or a '-' after the 4th byte) for the
// information-only counters.
func keyClass(k string) string {
	for i, c := range k {
		if c == ':' || c == '-' && i > 3 {
			return k[:i]
		}
	}
	if len(k) > 8 {
		return fmt.Sprintf("%q", k[:8])
	}
	return fmt.Sprintf("%q", k)
}
