// C14: local indexes are exactly undone when a block is removed.
//
// Oracle (from the property text): for any block B on top of a chain, the observational snapshot S — every local
// *query result* the property lists — taken before B's local-index updates are applied must equal S after the
// updates have been applied and then removed. Two removal paths are driven:
//
//	(i)  the executor's EventAddBlock / EventDelBlock KV sets written to the blockchain db exactly as
//	     BlockStore.AddTxs / DelTxs write them (in order, one batch, nil value = delete);
//	(ii) real ProcessBlock followed by the node's own rollback (BlockChain.Rollback -> disBlock -> DelTxs).
//
// Raw db differences that no query reads are counted as information only.
package c14

import (
	"encoding/hex"
	"fmt"
	"sort"
	"strings"
	"testing"

	"github.com/33cn/chain33/common/address"
	cty "github.com/33cn/chain33/system/dapp/coins/types"
	"github.com/33cn/chain33/types"
	"pgregory.net/rapid"
	"verifharness/lib"
)

const (
	prop = "C14"
	// knownFailedRecv: coins.ExecLocal adds a *failed* (ExecPack) transfer's amount to the receiver's AddrReciver
	// total, the inherited DriverBase.ExecDelLocal skips non-ExecOk receipts, so the amount is never subtracted.
	knownFailedRecv = "C14-failed-transfer-receiver-not-undone"
	// knownMvccSameHash: the MVCC index keeps ONE state-hash -> version entry per hash. For a block whose state hash
	// equals that of an earlier version (a block that changes no state: same hash as its parent; or a block that brings
	// the state back, e.g. deposit 1 then withdraw 1) AddMVCC overwrites the earlier version's entry and DelMVCC deletes
	// it, so the earlier version can no longer be looked up (GetVersion, and GetMaxVersion when it was the parent, fail;
	// a later DelMVCC of that earlier version fails too).
	knownMvccSameHash = "C14-mvcc-recurring-state-hash-version-lost"
)

// tolerance says which listed known findings are tolerated by exact signature (strict = zero value).
type tolerance struct{ failedRecv, mvccSameHash bool }

func listed() tolerance {
	return tolerance{failedRecv: lib.Known(knownFailedRecv), mvccSameHash: lib.Known(knownMvccSameHash)}
}

func TestMain(m *testing.M) { lib.Main(m) }

type chainCase struct {
	Cfg        variant    `json:"cfg"`
	Blocks     [][]txSpec `json:"blocks"`
	RollbackTo int        `json:"rollbackTo"` // path (ii): height the node is rolled back to (< number of connected blocks)
}

var cfgKeys = []string{"cfg-a", "cfg-b"}

// ---- the signature of the known finding ------------------------------------------------------------------------

// failedCoinsReceived returns, per address, the sum of the amounts of the block's coins transfer / transferToExec /
// withdraw transactions whose receipt is ExecPack (failed after the fee) — the exact quantity finding
// knownFailedRecv leaves behind in the receiver total.
func failedCoinsReceived(d *types.BlockDetail) map[string]int64 {
	out := map[string]int64{}
	for i, tx := range d.Block.Txs {
		if realExec(tx) != "coins" || d.Receipts[i].Ty != types.ExecPack {
			continue
		}
		var a cty.CoinsAction
		if types.Decode(tx.Payload, &a) != nil {
			continue
		}
		switch a.Ty {
		case cty.CoinsActionTransfer:
			out[tx.GetRealToAddr()] += a.GetTransfer().GetAmount()
		case cty.CoinsActionTransferToExec:
			out[tx.GetRealToAddr()] += a.GetTransferToExec().GetAmount()
		case cty.CoinsActionWithdraw:
			out[tx.From()] += a.GetWithdraw().GetAmount()
		}
	}
	return out
}

func decodeObs(o obs, into types.Message) bool {
	b, err := hex.DecodeString(o.enc)
	return err == nil && types.Decode(b, into) == nil
}

// unexplained removes from diffs the keys that match the known finding's signature exactly: the received total
// of address A (recv:A, and the Reciver field of overview:A with every other field equal) is higher than before
// by precisely failed[A] != 0. Everything else stays a violation.
func unexplained(diffs []string, before, after snapshot, failed map[string]int64) (rest []string, tolerated []string) {
	for _, k := range diffs {
		ok := false
		switch {
		case strings.HasPrefix(k, "recv:"):
			a := strings.TrimPrefix(k, "recv:")
			var x, y types.Int64
			ok = decodeObs(before[k], &x) && decodeObs(after[k], &y) && failed[a] != 0 && y.Data-x.Data == failed[a]
			if ok {
				tolerated = append(tolerated, a)
			}
		case strings.HasPrefix(k, "overview:"):
			a := strings.TrimPrefix(k, "overview:")
			var x, y types.AddrOverview
			ok = decodeObs(before[k], &x) && decodeObs(after[k], &y) && failed[a] != 0 && y.Reciver-x.Reciver == failed[a] &&
				x.TxCount == y.TxCount && x.Balance == y.Balance
		}
		if !ok {
			rest = append(rest, k)
		}
	}
	return
}

// unexplainedMvcc removes the keys matching knownMvccSameHash's signature: for a block whose state hash equals that of
// an earlier version, exactly the lookups that go through that hash's version entry — GetVersion(hash) and
// GetMaxVersion — succeeded before and report ErrNotFound after.
func unexplainedMvcc(diffs []string, before, after snapshot, stateHash []byte) (rest []string, hit bool) {
	lost := "err:" + types.ErrNotFound.Error()
	for _, k := range diffs {
		if (k == "mvcc:max" || k == "mvcc:version-of:"+hex.EncodeToString(stateHash)) &&
			!strings.HasPrefix(before[k].enc, "err:") && after[k].enc == lost {
			hit = true
			continue
		}
		rest = append(rest, k)
	}
	return
}

func mvccHashKey(stateHash []byte) string { return ".-mvcc-.m." + string(stateHash) }

func recvKey(addr string) string { return "LODB-coins-Addr:" + string(address.FormatAddrKey(addr)) }

// ---- running one case ------------------------------------------------------------------------------------------

type blockFacts struct {
	repeat, self, failed, group, groupFailed, noStateChange bool
	toDiffers                                               bool // some transaction's real recipient (GetRealToAddr) is not its To field
	stateRecurs                                             bool // the block's state hash is the state hash of an earlier version
	sharedLocal                                             bool // >= 2 ExecOk vlocal transactions of the block write the same local key / table row
	vlocalOk                                                int  // number of ExecOk vlocal transactions
}

func factsOf(d *types.BlockDetail, parentState []byte, earlier map[string]bool) blockFacts {
	var f blockFacts
	seen := map[string]int{}
	writers := map[string]int{}
	for i, tx := range d.Block.Txs {
		if realExec(tx) == vlocalName && d.Receipts[i].Ty == types.ExecOk {
			f.vlocalOk++
			mine := map[string]bool{}
			for _, o := range vlocalOps(tx.Payload) {
				mine[o.Op[:1]+":"+o.K] = true // k:<plain key> / t:<row id>
			}
			for k := range mine {
				if writers[k]++; writers[k] >= 2 {
					f.sharedLocal = true
				}
			}
		}
		from, to := tx.From(), tx.GetRealToAddr()
		if to != tx.To {
			f.toDiffers = true
			lib.Class("tx:real_recipient_differs_from_To")
		}
		if from == to {
			f.self = true
			seen[from]++
		} else {
			seen[from]++
			seen[to]++
		}
		// a plain "none" (notary) transaction is never executed and always carries an ExecPack receipt: not a failure
		if d.Receipts[i].Ty != types.ExecOk && realExec(tx) != "none" {
			f.failed = true
			if tx.GroupCount > 0 {
				f.groupFailed = true
			}
		}
		if tx.GroupCount > 0 {
			f.group = true
		}
		lib.Class(fmt.Sprintf("tx:%s:%s:receipt%d", tx.Execer, tx.ActionName(), d.Receipts[i].Ty))
	}
	for _, c := range seen {
		if c >= 2 {
			f.repeat = true
		}
	}
	f.noStateChange = string(d.Block.StateHash) == string(parentState)
	f.stateRecurs = earlier[string(d.Block.StateHash)]
	return f
}

func (f blockFacts) nonTrivial() bool {
	return f.repeat || f.self || f.failed || f.sharedLocal || f.toDiffers
}

type connected struct {
	detail *types.BlockDetail
	facts  blockFacts
	before snapshot // S taken before the block's local updates, over the universe that includes the block's own items
	hot    []string // addresses observed through the node API in `before`
	failed map[string]int64
}

// runCase executes a chain case and returns a violation message ("" = the property held).
func runCase(c chainCase, tol tolerance) (fail string, nonTrivial bool) {
	n := newNode(c.Cfg, mvccThroughExecutor())
	defer n.Close()
	u := newUniverse()
	if n.mvccInNode {
		lib.Class("mvcc:through_executor")
		u.addBlock(n.cfg, &types.BlockDetail{Block: n.tip()}) // genesis hash / state root / version 0
	} else {
		lib.Class("mvcc:plugin_functions_applied_by_harness")
		g := n.genesisDetail()
		if msg := n.mvccApply(true, g); msg != "" {
			fixturef("mvcc genesis: %s", msg)
		}
		u.addBlock(n.cfg, g)
	}
	var chain []connected
	earlier := map[string]bool{string(n.tip().StateHash): true} // state hashes of the versions on the chain
	for name, on := range map[string]bool{"variant:free": c.Cfg.Free, "variant:paid": !c.Cfg.Free, "variant:leveldb": c.Cfg.LevelDB,
		"variant:memdb": !c.Cfg.LevelDB, "variant:quickIndex": c.Cfg.Quick} {
		if on {
			lib.Class(name)
		}
	}
	for bi, specs := range c.Blocks {
		parent := n.tip()
		detail := n.execute(n.build(specs))
		if detail == nil {
			lib.Class("block:all_txs_dropped")
			continue
		}
		lib.ClassN("tx:dropped_before_fee", countTxs(specs)-len(detail.Block.Txs))
		f := factsOf(detail, parent.StateHash, earlier)
		earlier[string(detail.Block.StateHash)] = true
		for name, on := range map[string]bool{"block:repeated_address": f.repeat, "block:self_transfer": f.self, "block:failed_tx": f.failed,
			"block:group": f.group, "block:failed_group": f.groupFailed, "block:no_state_change": f.noStateChange, "block:state_hash_recurs": f.stateRecurs, "block:vlocal_same_key_in_2+_txs": f.sharedLocal,
			"block:vlocal_2+_txs": f.vlocalOk >= 2, "block:real_recipient_differs_from_To": f.toDiffers, "block:nontrivial": f.nonTrivial()} {
			if on {
				lib.Class(name)
			}
		}
		lib.Class("block:evaluated")
		nonTrivial = nonTrivial || f.nonTrivial()
		failed := failedCoinsReceived(detail)

		// path (i): executor KV sets applied to the blockchain db as AddTxs / DelTxs do
		u.addBlock(n.cfg, detail)
		u.hot = touched(detail)
		before, rawBefore := n.snap(u), n.rawDump()
		addSet, err := n.localKVs(types.EventAddBlock, detail)
		if err != nil {
			fixturef("EventAddBlock block %d: %v", bi, err)
		}
		n.applyKVs(addSet)
		if msg := n.mvccApply(true, detail); msg != "" {
			fixturef("block %d: AddMVCC: %s", bi, msg)
		}
		if len(rawDiff(rawBefore, n.rawDump())) == 0 {
			fixturef("block %d: applying the local updates changed nothing in the db (vacuous)", bi)
		}
		delSet, err := n.localKVs(types.EventDelBlock, detail)
		if err != nil {
			return fmt.Sprintf("block %d (height %d): EventDelBlock failed: %v", bi, detail.Block.Height, err), nonTrivial
		}
		n.applyKVs(delSet)
		if msg := n.mvccApply(false, detail); msg != "" {
			return fmt.Sprintf("block %d (height %d): DelMVCC failed: %s", bi, detail.Block.Height, msg), nonTrivial
		}
		after, rawAfter := n.snap(u), n.rawDump()
		d := diff(before, after)
		rd := rawDiff(rawBefore, rawAfter)
		for _, k := range rd {
			lib.Note("raw-db key differs after add+del (information only): "+keyClass(k), 1)
		}
		if len(d) > 0 {
			// listed known findings are tolerated by exact signature; the damaged raw keys are put back so that the
			// rest of the chain is checked from an undamaged state
			rest, repair := d, []string(nil)
			if tol.failedRecv {
				var addrs []string
				if rest, addrs = unexplained(rest, before, after, failed); len(addrs) > 0 {
					lib.ExcludedKnown(knownFailedRecv)
					for _, a := range addrs {
						repair = append(repair, recvKey(a))
					}
				}
			}
			if tol.mvccSameHash && f.stateRecurs {
				var hit bool
				if rest, hit = unexplainedMvcc(rest, before, after, detail.Block.StateHash); hit {
					lib.ExcludedKnown(knownMvccSameHash)
					repair = append(repair, mvccHashKey(detail.Block.StateHash))
				}
			}
			if len(rest) > 0 {
				return fmt.Sprintf("block %d (height %d): after EventAddBlock + EventDelBlock %d observation(s) differ from before the block: %s",
					bi, detail.Block.Height, len(rest), describe(rest, before, after)), nonTrivial
			}
			b := n.db.NewBatch(true)
			for _, k := range repair {
				if v, ok := rawBefore[k]; ok {
					b.Set([]byte(k), []byte(v))
				} else {
					b.Delete([]byte(k))
				}
			}
			if err := b.Write(); err != nil {
				fixturef("repair write: %v", err)
			}
		}

		// real add of the same block
		real := n.connect(detail.Block)
		if string(real.Block.Hash(n.cfg)) != string(detail.Block.Hash(n.cfg)) {
			fixturef("block %d: connected block differs from the executed one", bi)
		}
		if msg := n.mvccApply(true, detail); msg != "" {
			return fmt.Sprintf("block %d (height %d): AddMVCC after a clean add+del failed: %s", bi, detail.Block.Height, msg), nonTrivial
		}
		chain = append(chain, connected{detail: detail, facts: f, before: before, hot: u.hot, failed: failed})
	}
	if len(chain) == 0 {
		return "", nonTrivial
	}

	// path (ii): the node's own rollback of the blocks above chain[k]'s parent
	k := c.RollbackTo % len(chain)
	lib.ClassN("rollback:blocks_removed", len(chain)-k)
	target := chain[k]
	// knownMvccSameHash also breaks the removal of the earlier version that shares the hash (its version entry is gone
	// once the later block was removed): when that finding is listed and such a block is among the removed ones, the mvcc
	// part of this path is left out.
	skipMvcc := false
	for _, cb := range chain[k:] {
		skipMvcc = skipMvcc || (tol.mvccSameHash && cb.facts.stateRecurs)
	}
	if msg := n.rollbackTo(target.detail.Block.Height - 1); msg != "" {
		if skipMvcc && n.mvccInNode {
			lib.ExcludedKnown(knownMvccSameHash)
			return "", nonTrivial
		}
		return fmt.Sprintf("rollback to height %d failed: %s", target.detail.Block.Height-1, msg), nonTrivial
	}
	for i := len(chain) - 1; i >= k && !skipMvcc; i-- {
		if msg := n.mvccApply(false, chain[i].detail); msg != "" {
			return fmt.Sprintf("rollback: DelMVCC of height %d failed: %s", chain[i].detail.Block.Height, msg), nonTrivial
		}
	}
	// observations known when chain[k] was about to be added, plus the own items (tx hashes, block hash) of the later blocks
	ur := *u
	ur.hot = target.hot
	after := n.snap(&ur)
	want := snapshot{}
	for key, o := range target.before {
		if skipMvcc && strings.HasPrefix(key, "mvcc:") {
			continue
		}
		want[key] = o
	}
	if skipMvcc {
		lib.ExcludedKnown(knownMvccSameHash)
	}
	failed := map[string]int64{}
	for _, cb := range chain[k:] {
		for _, tx := range cb.detail.Block.Txs {
			key := "tx:" + hex.EncodeToString(tx.Hash())
			want[key] = cb.before[key]
		}
		key := "totalfee:" + hex.EncodeToString(cb.detail.Block.Hash(n.cfg))
		want[key] = cb.before[key]
		for a, v := range cb.failed {
			failed[a] += v
		}
	}
	if d := diff(want, after); len(d) > 0 {
		rest := d
		if tol.failedRecv {
			var addrs []string
			if rest, addrs = unexplained(rest, want, after, failed); len(addrs) > 0 {
				lib.ExcludedKnown(knownFailedRecv)
			}
		}
		if len(rest) > 0 {
			return fmt.Sprintf("after real add of %d block(s) and rollback to height %d, %d observation(s) differ from before block %d: %s",
				len(chain)-k, target.detail.Block.Height-1, len(rest), target.detail.Block.Height, describe(rest, want, after)), nonTrivial
		}
	}
	return "", nonTrivial
}

// touched picks the (at most two) addresses that are also observed through the node's API: sender and receiver of the
// block's first transaction.
func touched(d *types.BlockDetail) []string {
	tx := d.Block.Txs[0]
	out := []string{tx.From()}
	if to := tx.GetRealToAddr(); to != out[0] {
		out = append(out, to)
	}
	sort.Strings(out)
	return out
}

func countTxs(specs []txSpec) int {
	c := 0
	for _, s := range specs {
		if s.Kind == "group" {
			c += len(s.Members)
		} else {
			c++
		}
	}
	return c
}

func describe(keys []string, before, after snapshot) string {
	var sb strings.Builder
	for i, k := range keys {
		if i == 6 {
			fmt.Fprintf(&sb, " … and %d more", len(keys)-i)
			break
		}
		fmt.Fprintf(&sb, "\n  %s\n    before: %s\n    after:  %s", k, clip(before[k].txt), clip(after[k].txt))
	}
	return sb.String()
}

func clip(s string) string {
	if len(s) > 300 {
		return s[:300] + "…"
	}
	return s
}

// check runs a case; fixture problems end the process as inconclusive, oracle failures are violations.
func check(t lib.TB, test string, c chainCase) {
	defer func() {
		if r := recover(); r != nil {
			if fe, ok := r.(fixtureErr); ok {
				lib.Inconclusive("C14 fixture: %s", fe.msg)
			}
			panic(r)
		}
	}()
	lib.Eval()
	msg, nt := runCase(c, listed())
	if nt {
		lib.NonTrivialCase(c)
	}
	if msg != "" {
		lib.Violation(t, prop, test, c, "%s", msg)
	}
}

// ---- generator -------------------------------------------------------------------------------------------------

var (
	amounts     = []int64{1, 1000, 1e5, 1e7, 1e8, 3e8, 5e9, 1e12, 2e16} // 2e16 exceeds the whole supply: always fails
	fundAmounts = []int64{1e8, 1e9, 1e10}
)

func genSimple(t *rapid.T, free bool, label string) txSpec {
	fee := rapid.SampledFrom([]int64{1e5, 2e5, 1e6}).Draw(t, label+"fee")
	if free {
		fee = rapid.SampledFrom([]int64{0, 0, 1e5}).Draw(t, label+"fee0")
	}
	s := txSpec{Fee: fee, From: rapid.IntRange(0, len(keys)-1).Draw(t, label+"from")}
	s.Kind = rapid.SampledFrom([]string{"transfer", "transfer", "transfer", "toexec", "withdraw", "none", "none", "modify", "apply", "vlocal"}).Draw(t, label+"kind")
	switch s.Kind {
	case "transfer":
		s.Amount = rapid.SampledFrom(amounts).Draw(t, label+"amount")
		if rapid.IntRange(0, 4).Draw(t, label+"self") == 0 {
			s.To = s.From // self-transfer
		} else {
			s.To = rapid.IntRange(0, nTargets()-1).Draw(t, label+"to")
		}
	case "toexec", "withdraw":
		s.Amount = rapid.SampledFrom([]int64{1, 1e5, 1e7, 1e12}).Draw(t, label+"amount")
		s.Exec = rapid.SampledFrom([]string{"manage", "manage", "manage", "none"}).Draw(t, label+"exec")
	case "none":
		s.To = rapid.IntRange(0, nTargets()-1).Draw(t, label+"to")
		s.Value = rapid.SampledFrom([]string{"", "x", "payload"}).Draw(t, label+"payload")
	case "vlocal":
		genVLocal(t, &s, label)
	case "modify", "apply":
		if s.Kind == "modify" && rapid.Bool().Draw(t, label+"bymanager") {
			s.From = 1 // the super manager: succeeds
		}
		s.EmptyTo = rapid.IntRange(0, 2).Draw(t, label+"emptyTo") == 0 // legacy shape: no To field
		s.Key = rapid.SampledFrom(cfgKeys).Draw(t, label+"key")
		s.Op = rapid.SampledFrom([]string{"add", "add", "delete"}).Draw(t, label+"op")
		s.Value = rapid.SampledFrom([]string{"v1", "v2"}).Draw(t, label+"value")
	}
	return s
}

// genVLocal fills a vlocal transaction: 1-4 operations over the small key space; half of the senders are the genesis
// account so that the transaction is kept on fee-charging chains.
func genVLocal(t *rapid.T, s *txSpec, label string) {
	s.Kind = "vlocal"
	if rapid.Bool().Draw(t, label+"vfromGenesis") {
		s.From = 0
	}
	for i, n := 0, rapid.IntRange(1, 4).Draw(t, label+"vops"); i < n; i++ {
		o := vop{Op: rapid.SampledFrom([]string{"kset", "kset", "kdel", "tput", "tput", "tdel", "kset", "tput", "kset", "tput", "fail"}).Draw(t, label+"vop")}
		switch o.Op {
		case "kset":
			o.K, o.V = rapid.SampledFrom(vKeys).Draw(t, label+"vk"), rapid.SampledFrom(vValues).Draw(t, label+"vv")
		case "kdel":
			o.K = rapid.SampledFrom(vKeys).Draw(t, label+"vk")
		case "tput":
			o.K, o.V = rapid.SampledFrom(vRows).Draw(t, label+"vr"), rapid.SampledFrom(vColors).Draw(t, label+"vc")
		case "tdel":
			o.K = rapid.SampledFrom(vRows).Draw(t, label+"vr")
		}
		s.Ops = append(s.Ops, o)
	}
}

func genCase(t *rapid.T) chainCase {
	c := chainCase{Cfg: variant{Free: rapid.IntRange(0, 2).Draw(t, "free") == 0, Quick: rapid.IntRange(0, 3).Draw(t, "quick") != 0,
		LevelDB: rapid.IntRange(0, 7).Draw(t, "leveldb") == 7}}
	nb := rapid.IntRange(1, lib.Pick(4, 6)).Draw(t, "blocks")
	for b := 0; b < nb; b++ {
		var specs []txSpec
		if b == 0 {
			// the first block funds a drawn subset of the pool from the genesis account (by construction, so that
			// later senders can pay fees and fail on amounts rather than being dropped)
			for k := 1; k < len(keys); k++ {
				if rapid.IntRange(0, 9).Draw(t, "fund") < 7 {
					specs = append(specs, txSpec{Kind: "transfer", From: 0, To: k, Fee: 1e5,
						Amount: rapid.SampledFrom(fundAmounts).Draw(t, "fundAmount")})
					if rapid.IntRange(0, 4).Draw(t, "deposit") > 0 { // ... and lets it deposit into an executor, so that withdrawals can succeed
						specs = append(specs, txSpec{Kind: "toexec", From: k, Exec: "manage", Fee: 1e5, Amount: 1e7})
					}
				}
			}
		}
		nfund := len(specs)
		ntx := rapid.IntRange(1, 7).Draw(t, "ntx")
		for i := 0; i < ntx; i++ {
			if rapid.IntRange(0, 6).Draw(t, "isgroup") == 0 {
				g := txSpec{Kind: "group"}
				for m, nm := 0, rapid.IntRange(2, 3).Draw(t, "members"); m < nm; m++ {
					g.Members = append(g.Members, genSimple(t, c.Cfg.Free, "g"))
				}
				specs = append(specs, g)
			} else {
				specs = append(specs, genSimple(t, c.Cfg.Free, ""))
			}
		}
		// two blocks in three additionally carry 2-6 vlocal transactions at drawn positions among the others
		if rapid.IntRange(0, 2).Draw(t, "withVLocal") > 0 {
			for i, nv := 0, rapid.IntRange(2, 6).Draw(t, "nvlocal"); i < nv; i++ {
				fee := rapid.SampledFrom([]int64{1e5, 2e5}).Draw(t, "vfee")
				if c.Cfg.Free {
					fee = 0
				}
				s := txSpec{Fee: fee, From: rapid.IntRange(0, len(keys)-1).Draw(t, "vfrom")}
				genVLocal(t, &s, "")
				pos := rapid.IntRange(nfund, len(specs)).Draw(t, "vpos") // never before the funding transactions
				specs = append(specs[:pos], append([]txSpec{s}, specs[pos:]...)...)
			}
		}
		c.Blocks = append(c.Blocks, specs)
	}
	c.RollbackTo = rapid.IntRange(0, nb-1).Draw(t, "rollbackTo")
	return c
}

func TestPropLocalUndo(t *testing.T) {
	defer lib.Flush()
	if !useTitle("") {
		t.Skip("this process hosts the para-chain title")
	}
	rapid.Check(t, func(t *rapid.T) {
		check(t, "TestPropLocalUndo", genCase(t))
	})
}

// TestPropLocalUndoPara is the same property on a para-chain configuration (title user.p.c14.), where every coins
// transfer / transferToExec / withdraw has its recipient in the payload only. It needs its own process.
func TestPropLocalUndoPara(t *testing.T) {
	defer lib.Flush()
	if !useTitle(paraTitle) {
		t.Skip("this process hosts the main-chain title")
	}
	rapid.Check(t, func(t *rapid.T) {
		check(t, "TestPropLocalUndoPara", genCase(t))
	})
}

// ---- pinned known finding --------------------------------------------------------------------------------------

// pinned runs a minimal hand-written case strictly. If it fails, the failure must be exactly the named finding (the
// same case passes once only that signature is tolerated); then it is a KNOWN-FINDING when listed, a violation otherwise.
func pinned(t *testing.T, test, id string, only tolerance, c chainCase, what string) {
	if !useTitle("") {
		t.Skip("this process hosts the para-chain title")
	}
	defer func() {
		if r := recover(); r != nil {
			if fe, ok := r.(fixtureErr); ok {
				lib.Inconclusive("C14 fixture: %s", fe.msg)
			}
			panic(r)
		}
	}()
	msg, _ := runCase(c, tolerance{})
	if msg == "" {
		return
	}
	if beyond, _ := runCase(c, only); beyond != "" {
		lib.Violation(t, prop, test, c, "pinned case fails beyond the signature of %s: %s", id, beyond)
	}
	lib.KnownOrViolation(t, prop, test, id, c, what+": "+firstLine(msg))
}

// TestKnown_FailedTransferReceiver: block 1 funds B with 1 coin; block 2 holds one transfer B -> C of far more than
// B owns (receipt ExecPack). Adding then removing block 2's local updates must leave C's received total at 0.
func TestKnown_FailedTransferReceiver(t *testing.T) {
	defer lib.Flush()
	pinned(t, "TestKnown_FailedTransferReceiver", knownFailedRecv, tolerance{failedRecv: true},
		chainCase{Cfg: variant{Quick: true}, Blocks: [][]txSpec{
			{{Kind: "transfer", From: 0, To: 2, Amount: 1e8, Fee: 1e5}},
			{{Kind: "transfer", From: 2, To: 3, Amount: 1e12, Fee: 1e5}},
		}, RollbackTo: 1},
		"a failed (ExecPack) coins transfer adds its amount to the receiver's AddrReciver total in ExecLocal and block removal does not subtract it")
}

// TestKnown_MvccUnchangedStateHash: on a chain without fees, block 1 holds one fee-less "none" transaction, so its state
// hash equals the genesis state hash. Adding then removing block 1 must leave GetVersion(genesis state hash) == 0.
func TestKnown_MvccUnchangedStateHash(t *testing.T) {
	defer lib.Flush()
	pinned(t, "TestKnown_MvccUnchangedStateHash", knownMvccSameHash, tolerance{mvccSameHash: true},
		chainCase{Cfg: variant{Free: true, Quick: true}, Blocks: [][]txSpec{
			{{Kind: "none", From: 0, To: 0, Fee: 0}},
		}, RollbackTo: 0},
		"removing a block whose state hash equals an earlier version's (here: a block that changed no state) deletes that version's MVCC hash->version entry")
}

// TestRegress_SameLocalKeyInOneBlock: a hand-written minimal member of the class "several transactions of one block
// write the same local key, undone through per-transaction rollback logs": three vlocal transactions set, overwrite and
// delete plain key "a" and put / re-colour / delete table row "r1". Any order of undoing other than newest-first leaves
// data behind. Strict oracle (no tolerance): it must hold on a correct tree.
func TestRegress_SameLocalKeyInOneBlock(t *testing.T) {
	defer lib.Flush()
	regress(t, "TestRegress_SameLocalKeyInOneBlock", "", sameLocalKeyCase)
}

var sameLocalKeyCase = func() chainCase {
	c := chainCase{Cfg: variant{Quick: true}, Blocks: [][]txSpec{
		{{Kind: "vlocal", From: 0, Fee: 1e5, Ops: []vop{{Op: "kset", K: "b", V: "z"}, {Op: "tput", K: "r2", V: "blue"}}}},
		{
			{Kind: "vlocal", From: 0, Fee: 1e5, Ops: []vop{{Op: "kset", K: "a", V: "x"}, {Op: "tput", K: "r1", V: "red"}, {Op: "kset", K: "b", V: "y"}}},
			{Kind: "vlocal", From: 0, Fee: 1e5, Ops: []vop{{Op: "kset", K: "a", V: "y"}, {Op: "tput", K: "r1", V: "blue"}, {Op: "tdel", K: "r2"}}},
			{Kind: "vlocal", From: 0, Fee: 1e5, Ops: []vop{{Op: "kdel", K: "a"}, {Op: "tdel", K: "r1"}, {Op: "kdel", K: "b"}}},
		},
	}, RollbackTo: 1}
	return c
}()

// regress runs a hand-written case strictly (no tolerance) on the chain title it is written for.
func regress(t *testing.T, test, title string, c chainCase) {
	if !useTitle(title) {
		t.Skip("this process hosts the other chain title")
	}
	defer func() {
		if r := recover(); r != nil {
			if fe, ok := r.(fixtureErr); ok {
				lib.Inconclusive("C14 fixture: %s", fe.msg)
			}
			panic(r)
		}
	}()
	if msg, _ := runCase(c, tolerance{}); msg != "" {
		lib.Violation(t, prop, test, c, "%s", msg)
	}
}

// TestRegress_ManageWithoutTo: main chain, the one stock transaction shape whose real recipient is not its To field —
// a manage transaction without a To field (ManageType.GetRealToAddr answers the manage contract address). Block 1 leaves
// an ordinary manage transaction of the same sender indexed; block 2 holds the To-less one and is added and removed.
func TestRegress_ManageWithoutTo(t *testing.T) {
	defer lib.Flush()
	regress(t, "TestRegress_ManageWithoutTo", "", chainCase{Cfg: variant{Quick: true}, Blocks: [][]txSpec{
		{{Kind: "transfer", From: 0, To: 1, Amount: 1e9, Fee: 1e5}, {Kind: "modify", From: 1, Fee: 1e5, Key: "cfg-a", Op: "add", Value: "v1"}},
		{{Kind: "modify", From: 1, Fee: 1e5, Key: "cfg-a", Op: "add", Value: "v2", EmptyTo: true}, {Kind: "apply", From: 0, Fee: 1e5, Key: "cfg-b", Op: "add", Value: "v1", EmptyTo: true}},
	}, RollbackTo: 1})
}

// TestParaRecipientInPayload (own process, para title): block 1 funds two accounts; block 2 holds a transfer, a deposit
// into an executor and a withdrawal, each with tx.To = the coins contract address and the recipient in the payload.
func TestParaRecipientInPayload(t *testing.T) {
	defer lib.Flush()
	regress(t, "TestParaRecipientInPayload", paraTitle, chainCase{Cfg: variant{Quick: true}, Blocks: [][]txSpec{
		{{Kind: "transfer", From: 0, To: 2, Amount: 1e9, Fee: 1e5}, {Kind: "transfer", From: 0, To: 3, Amount: 1e9, Fee: 1e5},
			{Kind: "toexec", From: 2, Exec: "manage", Amount: 1e7, Fee: 1e5}},
		{{Kind: "transfer", From: 2, To: 3, Amount: 1e5, Fee: 1e5}, {Kind: "toexec", From: 3, Exec: "manage", Amount: 1e7, Fee: 1e5},
			{Kind: "withdraw", From: 2, Exec: "manage", Amount: 1e5, Fee: 1e5}, {Kind: "transfer", From: 3, To: 2, Amount: 1, Fee: 1e5}},
	}, RollbackTo: 1})
}

func firstLine(s string) string {
	parts := strings.SplitN(s, "\n", 3)
	if len(parts) >= 2 {
		return strings.TrimSpace(parts[0]) + " | " + strings.TrimSpace(parts[1])
	}
	return s
}
