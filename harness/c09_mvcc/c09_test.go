// C09: versioned reads of common/db MVCC (GetV / AddMVCC / DelMVCC / Trash) against a map[key][]{version,value} model.
//
// Oracle, derived from the property text:
//   - versions are added in order (AddMVCC + write of the returned records) and removed from the top (DelMVCC strict +
//     delete of the returned records);
//   - GetV(k, v) returns the value of the most recent write to k at a version <= v, or an error (not-found); every value
//     carries the tag "<key>@<version>" of the write that produced it, so a value written under a different key is
//     recognisable;
//   - removing the top version restores every read (all keys x all versions) to the result observed before it was added;
//   - after Trash(v) every key's newest write and every write at a version > v is still readable at its own version;
//     reads still never return another key's value.
//
// Values are never empty (the list layer treats an empty value as a deletion marker).
package c09

import (
	"crypto/sha256"
	"fmt"
	"os"
	"strings"
	"testing"

	dbm "github.com/33cn/chain33/common/db"
	clog "github.com/33cn/chain33/common/log"
	"github.com/33cn/chain33/types"
	"pgregory.net/rapid"
	"verifharness/lib"
)

const (
	prop       = "C09"
	knownGetV  = "C09-getv-foreign-key"
	knownTrash = "C09-trash-foreign-newest"
)

func TestMain(m *testing.M) {
	clog.SetLogLevel("crit")
	lib.Main(m)
}

// The family is built around the record encoding "<prefix><key>.<20 digit version>": keys that are a prefix of another key
// followed by the separator, by characters sorting below it (! , -), above it (/ 0 k) or by digits that look like a
// version; plus unrelated keys.
var family = []string{"k", "k.", "k.0", "k.5", "k.00000000000000000001", "k-", "k-x", "k!", "k,", "k/", "k0", "kk", "x", "x.y"}

type op struct {
	Op   string   `json:"op"` // add | deltop
	Keys []string `json:"keys,omitempty"`
}

type kase struct {
	Backend string `json:"backend"`
	Ops     []op   `json:"ops"`
}

func genCase(t *rapid.T) kase {
	c := kase{Backend: rapid.SampledFrom([]string{"memdb", "memdb", "memdb", "leveldb"}).Draw(t, "backend")}
	n := rapid.IntRange(1, 16).Draw(t, "nops")
	top := -1
	for i := 0; i < n; i++ {
		if top >= 0 && rapid.IntRange(0, 3).Draw(t, "del") == 0 {
			c.Ops = append(c.Ops, op{Op: "deltop"})
			top--
			continue
		}
		if top >= 12 {
			continue
		}
		perm := rapid.Permutation(family).Draw(t, "keys")
		c.Ops = append(c.Ops, op{Op: "add", Keys: perm[:rapid.IntRange(1, 6).Draw(t, "nkeys")]})
		top++
	}
	return c
}

// ---- model ------------------------------------------------------------------------------------------------------

type write struct {
	ver int64
	val string
}
type model map[string][]write // per key, ascending versions

func tag(k string, v int64) string { return fmt.Sprintf("%s@%d", k, v) }

func (m model) getV(k string, v int64) (string, bool) {
	ws := m[k]
	for i := len(ws) - 1; i >= 0; i-- {
		if ws[i].ver <= v {
			return ws[i].val, true
		}
	}
	return "", false
}

func (m model) clone() model {
	c := model{}
	for k, ws := range m {
		c[k] = append([]write(nil), ws...)
	}
	return c
}

// enc is the record key without the constant table prefix; only its order and prefix relations are used, and only to
// decide whether a failure matches the signature of a listed known finding (never for a verdict).
func enc(k string, v int64) string { return fmt.Sprintf("%s.%020d", k, v) }

// ---- fixture ----------------------------------------------------------------------------------------------------

type store struct {
	db  dbm.DB
	dir string
	mv  *dbm.MVCCHelper
}

func newStore(backend string) *store {
	s := &store{}
	if backend == "leveldb" {
		dir, err := os.MkdirTemp("", "c09-ldb")
		if err != nil {
			lib.Inconclusive("mkdir temp: %v", err)
		}
		ldb, err := dbm.NewGoLevelDB("c09", dir, 4)
		if err != nil {
			lib.Inconclusive("open leveldb: %v", err)
		}
		s.db, s.dir = ldb, dir
	} else {
		m, _ := dbm.NewGoMemDB("c09", "", 0)
		s.db = m
	}
	s.mv = dbm.NewMVCC(s.db)
	return s
}

func (s *store) close() {
	s.db.Close()
	if s.dir != "" {
		os.RemoveAll(s.dir)
	}
}

func (s *store) copyTo(backend string) *store {
	c := newStore(backend)
	it := s.db.Iterator(nil, types.EmptyValue, false)
	defer it.Close()
	for it.Rewind(); it.Valid(); it.Next() {
		if err := c.db.Set(append([]byte(nil), it.Key()...), append([]byte(nil), it.Value()...)); err != nil {
			lib.Inconclusive("copy db: %v", err)
		}
	}
	return c
}

func hashOf(seq int) []byte { h := sha256.Sum256([]byte(fmt.Sprint("state", seq))); return h[:] }

// ---- checks -----------------------------------------------------------------------------------------------------

type runner struct {
	t     lib.TB
	test  string
	c     kase
	step  int
	stats struct {
		ntPairs                      map[string]bool
		foreignTolerated, trashTol   int
		trashDeleted, deltops, reads int
	}
}

func (r *runner) fail(format string, a ...interface{}) {
	cc := r.c
	if r.step+1 <= len(r.c.Ops) {
		cc.Ops = r.c.Ops[:r.step+1]
	}
	lib.Violation(r.t, prop, r.test, cc, "step %d: %s", r.step, fmt.Sprintf(format, a...))
}

// readTable reads every key at every version 0..top+1, compares with the model and returns the rendered table.
func (r *runner) readTable(mv *dbm.MVCCHelper, m model, top int64, ctx string) []string {
	var table []string
	for _, k := range family {
		for v := int64(0); v <= top+1; v++ {
			got, err := mv.GetV([]byte(k), v)
			want, found := m.getV(k, v)
			r.stats.reads++
			cell := "-"
			if err == nil {
				cell = string(got)
			}
			table = append(table, cell)
			if (err == nil) == found && (!found || string(got) == want) {
				continue
			}
			// mismatch: does it match the signature of the listed finding "value / version of a key k' = k + '.' + s"?
			if lib.Known(knownGetV) && r.foreignSignature(m, k, string(got), err, found) {
				lib.ExcludedKnown(knownGetV)
				r.stats.foreignTolerated++
				continue
			}
			r.fail("%s: GetV(%q,%d) = %q err=%v, model %q found=%v", ctx, k, v, got, err, want, found)
		}
	}
	return table
}

// foreignSignature: the value returned carries the tag of a stored key k' that extends k + ".", or the call failed with
// ErrVersion (a record of such a k' with a higher version was hit) although k has a readable write.
func (r *runner) foreignSignature(m model, k, got string, err error, modelFound bool) bool {
	stored := false
	for k2, ws := range m {
		if len(ws) > 0 && k2 != k && strings.HasPrefix(k2, k+".") {
			stored = true
			if err == nil && strings.HasPrefix(got, k2+"@") {
				return true
			}
		}
	}
	return stored && err == types.ErrVersion && modelFound
}

// noteNonTrivial records the pairs (a, b) with b = a + c..., c in ". - ! , / 0-9", b stored at a version where a has no
// write yet: reads of a at that version are the ones the encoding can get wrong.
func (r *runner) noteNonTrivial(m model) {
	for a := range family {
		for b := range family {
			ka, kb := family[a], family[b]
			if len(kb) <= len(ka) || !strings.HasPrefix(kb, ka) || !strings.ContainsRune(".-!,/0123456789", rune(kb[len(ka)])) || len(m[kb]) == 0 {
				continue
			}
			if _, found := m.getV(ka, m[kb][0].ver); !found {
				r.stats.ntPairs[ka+"|"+kb] = true
			}
		}
	}
}

// trashAt copies the store, runs Trash(cut) on the copy and checks what must survive.
func (r *runner) trashAt(s *store, m model, top, cut int64) {
	backend := r.c.Backend
	if cut != top && cut != top/2 {
		backend = "memdb" // opening a leveldb costs ~40 ms of I/O: two cut points per leveldb chain run on leveldb, the rest on memdb
	}
	c := s.copyTo(backend)
	defer c.close()
	if err := c.mv.Trash(cut); err != nil {
		r.fail("Trash(%d) returned %v", cut, err)
	}
	after := model{}
	for _, k := range family {
		ws := m[k]
		for i, w := range ws {
			got, err := c.mv.GetV([]byte(k), w.ver) // exact probe of the record (k, w.ver)
			if err == nil && string(got) == w.val {
				after[k] = append(after[k], w)
				continue
			}
			r.stats.trashDeleted++
			newest := i == len(ws)-1
			if !newest && w.ver <= cut {
				continue // an old version at or below the cut: Trash may remove it
			}
			what := "a version newer than the cut"
			if w.ver <= cut {
				what = "the newest version of the key"
				if lib.Known(knownTrash) && trashSignature(m, k, w.ver) {
					lib.ExcludedKnown(knownTrash)
					r.stats.trashTol++
					continue
				}
			}
			r.fail("Trash(%d) removed %s: GetV(%q,%d) = %q err=%v, written %q (top version %d)", cut, what, k, w.ver, got, err, w.val, top)
		}
	}
	// remaining reads: most recent surviving write, never another key's value
	r.readTable(c.mv, after, top, fmt.Sprintf("after Trash(%d)", cut))
}

// trashSignature: the removed record's key, read as bytes, starts with another stored key j (so Trash, which compares
// records with j's key cut *before* the separator, takes it for an older version of j) and a record of j is visited before
// it in the descending walk.
func trashSignature(m model, k string, ver int64) bool {
	victim := enc(k, ver)
	for j, ws := range m {
		if j == k || !strings.HasPrefix(victim, j) {
			continue
		}
		for _, w := range ws {
			if enc(j, w.ver) > victim {
				return true
			}
		}
	}
	return false
}

func runCase(t lib.TB, test string, c kase) *runner {
	r := &runner{t: t, test: test, c: c}
	r.stats.ntPairs = map[string]bool{}
	s := newStore(c.Backend)
	defer s.close()
	m := model{}
	top := int64(-1)
	var hashes [][]byte   // hash of every live version
	var before [][]string // read table observed just before version i was added
	seq := 0
	last := r.readTable(s.mv, m, top, "empty store")
	for r.step = 0; r.step < len(c.Ops); r.step++ {
		o := c.Ops[r.step]
		switch o.Op {
		case "add":
			before = append(before, last)
			top++
			seq++
			var kvs []*types.KeyValue
			for _, k := range o.Keys {
				kvs = append(kvs, &types.KeyValue{Key: []byte(k), Value: []byte(tag(k, top))})
				m[k] = append(m[k], write{top, tag(k, top)})
			}
			var prev []byte
			if top > 0 {
				prev = hashes[top-1]
			}
			h := hashOf(seq)
			recs, err := s.mv.AddMVCC(kvs, h, prev, top)
			if err != nil {
				r.fail("AddMVCC(version %d) returned %v", top, err)
			}
			for _, kv := range recs {
				if err := s.db.Set(kv.Key, kv.Value); err != nil {
					lib.Inconclusive("db.Set: %v", err)
				}
			}
			hashes = append(hashes, h)
		case "deltop":
			recs, err := s.mv.DelMVCC(hashes[top], top, true)
			if err != nil {
				r.fail("DelMVCC(version %d, strict) returned %v", top, err)
			}
			for _, kv := range recs {
				if err := s.db.Delete(kv.Key); err != nil {
					lib.Inconclusive("db.Delete: %v", err)
				}
			}
			for k, ws := range m {
				if len(ws) > 0 && ws[len(ws)-1].ver == top {
					m[k] = ws[:len(ws)-1]
				}
			}
			hashes = hashes[:top]
			top--
			r.stats.deltops++
		}
		if mx, err := s.mv.GetMaxVersion(); top >= 0 && (err != nil || mx != top) {
			r.fail("GetMaxVersion = %d err=%v, model %d", mx, err, top)
		}
		last = r.readTable(s.mv, m, top, "after "+o.Op)
		if o.Op == "deltop" {
			// metamorphic part, independent of the model: every read (all keys, versions 0..top+1) is back to what it was
			// just before the removed version was added
			if was := before[len(before)-1]; fmt.Sprint(last) != fmt.Sprint(was) {
				r.fail("reads after removing version %d differ from the reads before it was added:\n now %v\n was %v", top+1, last, was)
			}
			before = before[:len(before)-1]
		}
		r.noteNonTrivial(m)
	}
	r.step = len(c.Ops) - 1
	for cut := int64(0); cut <= top; cut++ {
		r.trashAt(s, m.clone(), top, cut)
	}
	return r
}

func account(c kase, r *runner) {
	lib.Eval()
	lib.Class("backend=" + c.Backend)
	lib.ClassN("reads", r.stats.reads)
	if r.stats.deltops > 0 {
		lib.Class("has_deltop")
	}
	if r.stats.trashDeleted > 0 {
		lib.Class("trash_removed_records")
	}
	if r.stats.foreignTolerated > 0 {
		lib.Class("known_getv_signature_tolerated")
	}
	if r.stats.trashTol > 0 {
		lib.Class("known_trash_signature_tolerated")
	}
	for p := range r.stats.ntPairs {
		a, b, _ := strings.Cut(p, "|")
		lib.Class("pair_next_char=" + string(b[len(a)]))
	}
	// non-triviality rule: some key is a proper prefix of another stored key followed by one of ". - ! , / 0-9" and is read at
	// a version where the longer key has a write and the shorter has none (reads cover every key x version after every step)
	if len(r.stats.ntPairs) > 0 {
		lib.NonTrivialCase(c)
	}
}

func TestPropMVCCModel(t *testing.T) {
	defer lib.Flush()
	rapid.Check(t, func(t *rapid.T) {
		c := genCase(t)
		account(c, runCase(t, "TestPropMVCCModel", c))
	})
}

// ---- pinned known findings --------------------------------------------------------------------------------------

// TestKnown_GetVForeignKey: "k.0" written at version 0, "k" first written at version 1. GetV("k", 0) must be not-found.
func TestKnown_GetVForeignKey(t *testing.T) {
	defer lib.Flush()
	c := kase{Backend: "memdb", Ops: []op{{Op: "add", Keys: []string{"k.0"}}, {Op: "add", Keys: []string{"k"}}}}
	s := buildPinned(c)
	defer s.close()
	got, err := s.mv.GetV([]byte("k"), 0)
	if err == nil {
		lib.KnownOrViolation(t, prop, "TestKnown_GetVForeignKey", knownGetV, c,
			fmt.Sprintf("GetV(\"k\",0) returned %q, the value written under key \"k.0\"; \"k\" has no write at version <= 0", got))
	}
}

// TestKnown_TrashForeignNewest: "k-" written once at version 1, "k" at version 2. Trash(2) must keep the only (newest)
// version of "k-".
func TestKnown_TrashForeignNewest(t *testing.T) {
	defer lib.Flush()
	c := kase{Backend: "memdb", Ops: []op{{Op: "add", Keys: []string{"x"}}, {Op: "add", Keys: []string{"k-"}}, {Op: "add", Keys: []string{"k"}}}}
	s := buildPinned(c)
	defer s.close()
	if err := s.mv.Trash(2); err != nil {
		t.Fatalf("Trash: %v", err)
	}
	got, err := s.mv.GetV([]byte("k-"), 2)
	if err != nil || string(got) != tag("k-", 1) {
		lib.KnownOrViolation(t, prop, "TestKnown_TrashForeignNewest", knownTrash, c,
			fmt.Sprintf("after Trash(2) GetV(\"k-\",2) = %q err=%v: the newest (only) version of \"k-\", written at version 1, was removed as if it were an old version of \"k\"", got, err))
	}
}

// buildPinned replays add-only histories without rapid and without any oracle.
func buildPinned(c kase) *store {
	s := newStore(c.Backend)
	var prev []byte
	for v, o := range c.Ops {
		var kvs []*types.KeyValue
		for _, k := range o.Keys {
			kvs = append(kvs, &types.KeyValue{Key: []byte(k), Value: []byte(tag(k, int64(v)))})
		}
		h := hashOf(v + 1)
		recs, err := s.mv.AddMVCC(kvs, h, prev, int64(v))
		if err != nil {
			lib.Inconclusive("pinned AddMVCC: %v", err)
		}
		for _, kv := range recs {
			_ = s.db.Set(kv.Key, kv.Value)
		}
		prev = h
	}
	return s
}
