// C09: versioned reads of common/db MVCC (GetV / AddMVCC / DelMVCC / Trash) against a map[key][]{version,value} model.
//
// Oracle, derived from the property text:
//   - versions are added in order (AddMVCC + write of the returned records) and removed from the top (DelMVCC strict +
//     delete of the returned records);
//   - GetV(k, v) returns the value of the most recent write to k at a version <= v, or an error (not-found); every value
//     carries the tag "<key>@<version>" of the write that produced it, so a value written under a different key is
//     recognisable;
//   - removing the top version restores every read (all keys x all versions) to the result observed before it was added;
//   - after Trash(v) every key's newest write and every write at a version > v is still readable at its own version;
//     reads still never return another key's value;
//   - a version's write list is applied in order: when it names a key more than once the last occurrence is that
//     version's write ("most recent write"). This is what AddMVCC (records emitted in list order), SetV and MVCCIter's
//     last-value records do on the unchanged tree; the block executor de-duplicates before the mvcc plugin, so this is
//     API-level behaviour;
//   - MVCCIter: Iterator lists exactly the keys whose most recent write at the top version is a value, with that value.
//
// Records are applied the way the local-DB write path does: a nil value deletes the record, anything else is stored.
// A write with a nil / empty value is a deletion. On the unchanged tree GetV does not see it (it returns the older value)
// while MVCCIter's Iterator drops the key, and DelMVCC of a later version then restores the older value into the Iterator
// view. The property text would make such a read not-found; neither behaviour is asserted: for a key with a deletion in
// its live history a read may be not-found or the older value, but never a value that was overwritten within its version.
package c09

import (
	"crypto/sha256"
	"fmt"
	"os"
	"sort"
	"strings"
	"testing"

	dbm "github.com/33cn/chain33/common/db"
	clog "github.com/33cn/chain33/common/log"
	"github.com/33cn/chain33/types"
	"pgregory.net/rapid"
	"verifharness/lib"
)

const (
	prop       = "C09"
	knownGetV  = "C09-getv-foreign-key"
	knownTrash = "C09-trash-foreign-newest"
)

func TestMain(m *testing.M) {
	clog.SetLogLevel("crit")
	lib.Main(m)
}

// The family is built around the record encoding "<prefix><key>.<20 digit version>": keys that are a prefix of another key
// followed by the separator, by characters sorting below it (! , -), above it (/ 0 k) or by digits that look like a
// version; plus unrelated keys.
var family = []string{"k", "k.", "k.0", "k.5", "k.00000000000000000001", "k-", "k-x", "k!", "k,", "k/", "k0", "kk", "x", "x.y"}

// plainFamily (MVCCIter cases): prefix-related keys without a "<key>." extension, so that the listed GetV finding cannot
// interfere with MVCCIter.DelMVCC, which restores last values through GetV.
var plainFamily = []string{"k", "k-", "k0", "kk", "x", "y"}

// entry is one element of a version's write list. Its value is "<key>@<version>#<position in the list>" unless Del is set.
type entry struct {
	K   string `json:"k"`
	Del string `json:"del,omitempty"` // "nil": nil value, "empty": []byte{}
}

type op struct {
	Op      string  `json:"op"`            // add | deltop
	Via     string  `json:"via,omitempty"` // add: "" = AddMVCC + write of its records, "setv" = SetVersion + SetV per entry
	Entries []entry `json:"entries,omitempty"`
}

type kase struct {
	Backend string `json:"backend"`
	Iter    bool   `json:"iter,omitempty"` // MVCCIter (last-value records + Iterator) instead of MVCCHelper
	Ops     []op   `json:"ops"`
}

func keysOp(keys ...string) op {
	o := op{Op: "add"}
	for _, k := range keys {
		o.Entries = append(o.Entries, entry{K: k})
	}
	return o
}

// genEntries: 1..6 distinct keys; with probability 1/dupOneIn one or two of them are repeated (2-3 occurrences in total,
// positions shuffled); every entry is a deletion with probability 1/6 (so repeated keys give delete-then-set and
// set-then-delete within one version).
func genEntries(t *rapid.T, fam []string, dupOneIn int) []entry {
	perm := rapid.Permutation(fam).Draw(t, "keys")
	max := 6
	if len(fam) < max {
		max = len(fam)
	}
	var es []entry
	for _, k := range perm[:rapid.IntRange(1, max).Draw(t, "nkeys")] {
		es = append(es, entry{K: k})
	}
	if rapid.IntRange(1, dupOneIn).Draw(t, "dup") == 1 {
		for j, nd := 0, rapid.IntRange(1, 2).Draw(t, "ndupkeys"); j < nd; j++ {
			k := es[rapid.IntRange(0, len(es)-1).Draw(t, "dupkey")].K
			for x, extra := 0, rapid.IntRange(1, 2).Draw(t, "extra"); x < extra; x++ {
				es = append(es, entry{K: k})
			}
		}
		es = rapid.Permutation(es).Draw(t, "order")
	}
	for i := range es {
		switch rapid.IntRange(0, 11).Draw(t, "del") {
		case 0:
			es[i].Del = "nil"
		case 1:
			es[i].Del = "empty"
		}
	}
	return es
}

func genCase(t *rapid.T) kase {
	c := kase{Backend: rapid.SampledFrom([]string{"memdb", "memdb", "memdb", "leveldb"}).Draw(t, "backend")}
	n := rapid.IntRange(1, 16).Draw(t, "nops")
	top := -1
	for i := 0; i < n; i++ {
		if top >= 0 && rapid.IntRange(0, 3).Draw(t, "del") == 0 {
			c.Ops = append(c.Ops, op{Op: "deltop"})
			top--
			continue
		}
		if top >= 12 {
			continue
		}
		o := op{Op: "add", Entries: genEntries(t, family, 3)}
		if rapid.IntRange(0, 7).Draw(t, "via") == 0 {
			o.Via = "setv"
		}
		c.Ops = append(c.Ops, o)
		top++
	}
	return c
}

// genIterCase: MVCCIter chains over plainFamily; version 0 is never removed (MVCCIter.DelMVCC does not touch the last-value
// records for version 0; the genesis version is never rolled back).
func genIterCase(t *rapid.T) kase {
	c := kase{Backend: "memdb", Iter: true}
	n := rapid.IntRange(2, 14).Draw(t, "nops")
	top := -1
	for i := 0; i < n; i++ {
		if top >= 1 && rapid.IntRange(0, 2).Draw(t, "del") == 0 {
			c.Ops = append(c.Ops, op{Op: "deltop"})
			top--
			continue
		}
		if top >= 10 {
			continue
		}
		c.Ops = append(c.Ops, op{Op: "add", Entries: genEntries(t, plainFamily, 2)})
		top++
	}
	return c
}

// ---- model ------------------------------------------------------------------------------------------------------

type write struct {
	ver  int64
	val  string
	tomb bool // the version's last write to the key was a deletion (nil / empty value)
}
type model map[string][]write // per key, ascending versions, one entry per (key, version): the last occurrence

func tag(k string, v int64, pos int) string { return fmt.Sprintf("%s@%d#%d", k, v, pos) }

// getV: the most recent value write at a version <= v; tombAbove reports a deletion more recent than it (and <= v).
func (m model) getV(k string, v int64) (val string, found, tombAbove bool) {
	ws := m[k]
	for i := len(ws) - 1; i >= 0; i-- {
		if ws[i].ver > v {
			continue
		}
		if ws[i].tomb {
			tombAbove = true
			continue
		}
		return ws[i].val, true, tombAbove
	}
	return "", false, tombAbove
}

// apply records a version's write list in order: the last occurrence of a key wins.
func (m model) apply(ver int64, es []entry) (dup, delThenSet, setThenDel bool) {
	seen := map[string]write{}
	for pos, e := range es {
		w := write{ver: ver, val: tag(e.K, ver, pos), tomb: e.Del != ""}
		if old, ok := seen[e.K]; ok {
			dup = true
			delThenSet = delThenSet || (old.tomb && !w.tomb)
			setThenDel = setThenDel || (!old.tomb && w.tomb)
			m[e.K][len(m[e.K])-1] = w
		} else {
			m[e.K] = append(m[e.K], w)
		}
		seen[e.K] = w
	}
	return
}

func (m model) hasTomb(k string) bool {
	for _, w := range m[k] {
		if w.tomb {
			return true
		}
	}
	return false
}

func (m model) clone() model {
	c := model{}
	for k, ws := range m {
		c[k] = append([]write(nil), ws...)
	}
	return c
}

// enc is the record key without the constant table prefix; only its order and prefix relations are used, and only to
// decide whether a failure matches the signature of a listed known finding (never for a verdict).
func enc(k string, v int64) string { return fmt.Sprintf("%s.%020d", k, v) }

// ---- fixture ----------------------------------------------------------------------------------------------------

type store struct {
	db  dbm.DB
	dir string
	mv  *dbm.MVCCHelper
	it  *dbm.MVCCIter // same store seen through MVCCIter (iter cases)
}

// write applies records the way the local-DB write path does: a nil value deletes the record.
func (s *store) write(recs []*types.KeyValue) {
	for _, kv := range recs {
		if kv.Value == nil {
			_ = s.db.Delete(kv.Key) // deleting an absent record is not an error on the real (batch) write path
		} else if err := s.db.Set(kv.Key, kv.Value); err != nil {
			lib.Inconclusive("db.Set: %v", err)
		}
	}
}

func (e entry) value(ver int64, pos int) []byte {
	switch e.Del {
	case "nil":
		return nil
	case "empty":
		return []byte{}
	}
	return []byte(tag(e.K, ver, pos))
}

func newStore(backend string) *store {
	s := &store{}
	if backend == "leveldb" {
		dir, err := os.MkdirTemp("", "c09-ldb")
		if err != nil {
			lib.Inconclusive("mkdir temp: %v", err)
		}
		ldb, err := dbm.NewGoLevelDB("c09", dir, 4)
		if err != nil {
			lib.Inconclusive("open leveldb: %v", err)
		}
		s.db, s.dir = ldb, dir
	} else {
		m, _ := dbm.NewGoMemDB("c09", "", 0)
		s.db = m
	}
	s.it = dbm.NewMVCCIter(s.db)
	s.mv = s.it.MVCCHelper
	return s
}

func (s *store) close() {
	s.db.Close()
	if s.dir != "" {
		os.RemoveAll(s.dir)
	}
}

func (s *store) copyTo(backend string) *store {
	c := newStore(backend)
	it := s.db.Iterator(nil, types.EmptyValue, false)
	defer it.Close()
	for it.Rewind(); it.Valid(); it.Next() {
		if err := c.db.Set(append([]byte(nil), it.Key()...), append([]byte(nil), it.Value()...)); err != nil {
			lib.Inconclusive("copy db: %v", err)
		}
	}
	return c
}

func hashOf(seq int) []byte { h := sha256.Sum256([]byte(fmt.Sprint("state", seq))); return h[:] }

// ---- checks -----------------------------------------------------------------------------------------------------

type runner struct {
	t     lib.TB
	test  string
	c     kase
	step  int
	stats struct {
		ntPairs                            map[string]bool
		foreignTolerated, trashTol         int
		trashDeleted, deltops, reads       int
		dup, delThenSet, setThenDel, setv  bool
		tombOlder, tombNotFound, iterReads int
	}
}

func (r *runner) keys() []string {
	if r.c.Iter {
		return plainFamily
	}
	return family
}

func (r *runner) fail(format string, a ...interface{}) {
	cc := r.c
	if r.step+1 <= len(r.c.Ops) {
		cc.Ops = r.c.Ops[:r.step+1]
	}
	lib.Violation(r.t, prop, r.test, cc, "step %d: %s", r.step, fmt.Sprintf(format, a...))
}

// readTable reads every key at every version 0..top+1, compares with the model and returns the rendered table.
func (r *runner) readTable(mv *dbm.MVCCHelper, m model, top int64, ctx string) []string {
	var table []string
	for _, k := range r.keys() {
		for v := int64(0); v <= top+1; v++ {
			got, err := mv.GetV([]byte(k), v)
			want, found, tombAbove := m.getV(k, v)
			r.stats.reads++
			cell := "-"
			if err == nil {
				cell = string(got)
			}
			table = append(table, cell)
			if (err == nil) == found && (!found || string(got) == want) {
				if tombAbove && found {
					r.stats.tombOlder++ // the deletion is not seen by GetV: the older value is returned (not asserted either way)
				}
				continue
			}
			// mismatch: does it match the signature of the listed finding "value / version of a key k' = k + '.' + s"?
			if lib.Known(knownGetV) && r.foreignSignature(m, k, string(got), err, found) {
				lib.ExcludedKnown(knownGetV)
				r.stats.foreignTolerated++
				continue
			}
			if tombAbove && err != nil {
				r.stats.tombNotFound++ // the deletion is the most recent write: not-found is what the property text says
				continue
			}
			r.fail("%s: GetV(%q,%d) = %q err=%v, model %q found=%v", ctx, k, v, got, err, want, found)
		}
	}
	return table
}

// foreignSignature: the value returned carries the tag of a stored key k' that extends k + ".", or the call failed with
// ErrVersion (a record of such a k' with a higher version was hit) although k has a readable write.
func (r *runner) foreignSignature(m model, k, got string, err error, modelFound bool) bool {
	stored := false
	for k2, ws := range m {
		if len(ws) > 0 && k2 != k && strings.HasPrefix(k2, k+".") {
			stored = true
			if err == nil && strings.HasPrefix(got, k2+"@") {
				return true
			}
		}
	}
	return stored && err == types.ErrVersion && modelFound
}

// noteNonTrivial records the pairs (a, b) with b = a + c..., c in ". - ! , / 0-9", b stored at a version where a has no
// write yet: reads of a at that version are the ones the encoding can get wrong.
func (r *runner) noteNonTrivial(m model) {
	for a := range family {
		for b := range family {
			ka, kb := family[a], family[b]
			if len(kb) <= len(ka) || !strings.HasPrefix(kb, ka) || !strings.ContainsRune(".-!,/0123456789", rune(kb[len(ka)])) {
				continue
			}
			for _, w := range m[kb] {
				if w.tomb {
					continue
				}
				if _, found, _ := m.getV(ka, w.ver); !found {
					r.stats.ntPairs[ka+"|"+kb] = true
				}
				break
			}
		}
	}
}

// trashAt copies the store, runs Trash(cut) on the copy and checks what must survive.
func (r *runner) trashAt(s *store, m model, top, cut int64) {
	backend := r.c.Backend
	if cut != top && cut != top/2 {
		backend = "memdb" // opening a leveldb costs ~40 ms of I/O: two cut points per leveldb chain run on leveldb, the rest on memdb
	}
	c := s.copyTo(backend)
	defer c.close()
	if err := c.mv.Trash(cut); err != nil {
		r.fail("Trash(%d) returned %v", cut, err)
	}
	after := model{}
	for _, k := range family {
		ws := m[k]
		for i, w := range ws {
			if w.tomb {
				after[k] = append(after[k], w) // deletions stay in the model: reads above them remain lenient
				continue
			}
			got, err := c.mv.GetV([]byte(k), w.ver) // exact probe of the record (k, w.ver)
			if err == nil && string(got) == w.val {
				after[k] = append(after[k], w)
				continue
			}
			r.stats.trashDeleted++
			newest := i == len(ws)-1 // a deletion above it makes the deletion the key's newest version
			if !newest && w.ver <= cut {
				continue // an old version at or below the cut: Trash may remove it
			}
			what := "a version newer than the cut"
			if w.ver <= cut {
				what = "the newest version of the key"
				if lib.Known(knownTrash) && trashSignature(m, k, w.ver) {
					lib.ExcludedKnown(knownTrash)
					r.stats.trashTol++
					continue
				}
			}
			r.fail("Trash(%d) removed %s: GetV(%q,%d) = %q err=%v, written %q (top version %d)", cut, what, k, w.ver, got, err, w.val, top)
		}
	}
	// remaining reads: most recent surviving write, never another key's value
	r.readTable(c.mv, after, top, fmt.Sprintf("after Trash(%d)", cut))
}

// trashSignature: the removed record's key, read as bytes, starts with another stored key j (so Trash, which compares
// records with j's key cut *before* the separator, takes it for an older version of j) and a record of j is visited before
// it in the descending walk.
func trashSignature(m model, k string, ver int64) bool {
	victim := enc(k, ver)
	for j, ws := range m {
		if j == k || !strings.HasPrefix(victim, j) {
			continue
		}
		for _, w := range ws {
			if enc(j, w.ver) > victim {
				return true
			}
		}
	}
	return false
}

type liveVersion struct {
	hash []byte
	via  string
	keys []string // distinct keys written (setv versions are removed key by key)
}

// iterTable reads MVCCIter.Iterator (whole range forward and backward, and the keys with prefix "k") and compares it with
// the model at the top version.
func (r *runner) iterTable(s *store, m model, top int64, ctx string) {
	for _, q := range []struct {
		start   string
		reverse bool
	}{{"", false}, {"", true}, {"k", false}} {
		var start []byte
		if q.start != "" {
			start = []byte(q.start)
		}
		it := s.it.Iterator(start, nil, q.reverse)
		got, order := map[string]string{}, []string{}
		for it.Rewind(); it.Valid(); it.Next() {
			got[string(it.Key())] = string(it.Value())
			order = append(order, string(it.Key()))
		}
		it.Close()
		r.stats.iterReads++
		sorted := append([]string(nil), order...)
		sort.Strings(sorted)
		if q.reverse {
			sort.Sort(sort.Reverse(sort.StringSlice(sorted)))
		}
		if fmt.Sprint(sorted) != fmt.Sprint(order) || len(got) != len(order) {
			r.fail("%s: Iterator(%q,nil,%v) yields keys %v: not in order / repeated", ctx, q.start, q.reverse, order)
		}
		for k := range got {
			if _, ok := m[k]; !ok || !strings.HasPrefix(k, q.start) {
				r.fail("%s: Iterator(%q,nil,%v) yields key %q, never written / outside the range", ctx, q.start, q.reverse, k)
			}
		}
		for _, k := range plainFamily {
			if !strings.HasPrefix(k, q.start) {
				continue
			}
			want, found, _ := m.getV(k, top)
			val, present := got[k]
			if !m.hasTomb(k) {
				if present != found || (found && val != want) {
					r.fail("%s: Iterator(%q,nil,%v) has %q=%q present=%v, model %q present=%v", ctx, q.start, q.reverse, k, val, present, want, found)
				}
				continue
			}
			// a deletion lies in the key's live history: absent, empty, or any of the key's version-final values is accepted
			// (see the package comment), an overwritten value is not
			ok := !present || val == ""
			for _, w := range m[k] {
				ok = ok || (!w.tomb && w.val == val)
			}
			if !ok {
				r.fail("%s: Iterator(%q,nil,%v) has %q=%q, which is not the final write of any live version (model %v)", ctx, q.start, q.reverse, k, val, m[k])
			}
		}
	}
}

func runCase(t lib.TB, test string, c kase) *runner {
	r := &runner{t: t, test: test, c: c}
	r.stats.ntPairs = map[string]bool{}
	s := newStore(c.Backend)
	defer s.close()
	m := model{}
	top := int64(-1)
	var live []liveVersion // every live version
	var before [][]string  // read table observed just before version i was added
	seq := 0
	last := r.readTable(s.mv, m, top, "empty store")
	for r.step = 0; r.step < len(c.Ops); r.step++ {
		o := c.Ops[r.step]
		switch o.Op {
		case "add":
			before = append(before, last)
			top++
			seq++
			lv := liveVersion{hash: hashOf(seq), via: o.Via}
			var kvs []*types.KeyValue
			for pos, e := range o.Entries {
				kvs = append(kvs, &types.KeyValue{Key: []byte(e.K), Value: e.value(top, pos)})
				lv.keys = appendDistinct(lv.keys, e.K)
			}
			dup, ds, sd := m.apply(top, o.Entries)
			r.stats.dup, r.stats.delThenSet, r.stats.setThenDel = r.stats.dup || dup, r.stats.delThenSet || ds, r.stats.setThenDel || sd
			if o.Via == "setv" {
				// direct API, as common/db's own tests use it: the version record, then one SetV per list entry in order
				r.stats.setv = true
				if err := s.mv.SetVersion(lv.hash, top); err != nil {
					r.fail("SetVersion(version %d) returned %v", top, err)
				}
				for _, kv := range kvs {
					if err := s.mv.SetV(kv.Key, kv.Value, top); err != nil {
						r.fail("SetV(%q, version %d) returned %v", kv.Key, top, err)
					}
				}
			} else {
				var prev []byte
				if top > 0 {
					prev = live[top-1].hash
				}
				var recs []*types.KeyValue
				var err error
				if c.Iter {
					recs, err = s.it.AddMVCC(kvs, lv.hash, prev, top)
				} else {
					recs, err = s.mv.AddMVCC(kvs, lv.hash, prev, top)
				}
				if err != nil {
					r.fail("AddMVCC(version %d) returned %v", top, err)
				}
				s.write(recs)
			}
			live = append(live, lv)
		case "deltop":
			lv := live[top]
			if lv.via == "setv" {
				for _, k := range lv.keys {
					if err := s.mv.DelV([]byte(k), top); err != nil {
						r.fail("DelV(%q, version %d) returned %v", k, top, err)
					}
				}
				if err := s.mv.DelVersion(lv.hash); err != nil {
					r.fail("DelVersion(version %d) returned %v", top, err)
				}
			} else {
				var recs []*types.KeyValue
				var err error
				if c.Iter {
					recs, err = s.it.DelMVCC(lv.hash, top, true)
				} else {
					recs, err = s.mv.DelMVCC(lv.hash, top, true)
				}
				if err != nil {
					r.fail("DelMVCC(version %d, strict) returned %v", top, err)
				}
				s.write(recs)
			}
			for k, ws := range m {
				if len(ws) > 0 && ws[len(ws)-1].ver == top {
					m[k] = ws[:len(ws)-1]
				}
			}
			live = live[:top]
			top--
			r.stats.deltops++
		}
		if mx, err := s.mv.GetMaxVersion(); top >= 0 && (err != nil || mx != top) {
			r.fail("GetMaxVersion = %d err=%v, model %d", mx, err, top)
		}
		last = r.readTable(s.mv, m, top, "after "+o.Op)
		if o.Op == "deltop" {
			// metamorphic part, independent of the model: every read (all keys, versions 0..top+1) is back to what it was
			// just before the removed version was added
			if was := before[len(before)-1]; fmt.Sprint(last) != fmt.Sprint(was) {
				r.fail("reads after removing version %d differ from the reads before it was added:\n now %v\n was %v", top+1, last, was)
			}
			before = before[:len(before)-1]
		}
		if c.Iter {
			r.iterTable(s, m, top, "after "+o.Op)
		}
		r.noteNonTrivial(m)
	}
	r.step = len(c.Ops) - 1
	if !c.Iter {
		for cut := int64(0); cut <= top; cut++ {
			r.trashAt(s, m.clone(), top, cut)
		}
	}
	return r
}

func appendDistinct(ks []string, k string) []string {
	for _, x := range ks {
		if x == k {
			return ks
		}
	}
	return append(ks, k)
}

func account(c kase, r *runner) {
	lib.Eval()
	lib.Class("backend=" + c.Backend)
	lib.ClassN("reads", r.stats.reads)
	lib.ClassN("iterator_reads", r.stats.iterReads)
	lib.ClassN("reads_above_deletion_returning_older_value", r.stats.tombOlder)
	lib.ClassN("reads_above_deletion_returning_notfound", r.stats.tombNotFound)
	for label, on := range map[string]bool{"has_deltop": r.stats.deltops > 0, "trash_removed_records": r.stats.trashDeleted > 0,
		"known_getv_signature_tolerated": r.stats.foreignTolerated > 0, "known_trash_signature_tolerated": r.stats.trashTol > 0,
		"version_repeats_a_key": r.stats.dup, "version_delete_then_set": r.stats.delThenSet, "version_set_then_delete": r.stats.setThenDel,
		"version_written_with_SetV": r.stats.setv, "mvcciter": c.Iter, "repeated_key_then_later_version_removed": r.stats.dup && r.stats.deltops > 0} {
		if on {
			lib.Class(label)
		}
	}
	for p := range r.stats.ntPairs {
		a, b, _ := strings.Cut(p, "|")
		lib.Class("pair_next_char=" + string(b[len(a)]))
	}
	// non-triviality rule: (a) some key is a proper prefix of another stored key followed by one of ". - ! , / 0-9" and is read at
	// a version where the longer key has a write and the shorter has none, or (b) some version's write list names a key more
	// than once (reads cover every key x version after every step)
	if len(r.stats.ntPairs) > 0 || r.stats.dup {
		lib.NonTrivialCase(c)
	}
}

func TestPropMVCCModel(t *testing.T) {
	defer lib.Flush()
	rapid.Check(t, func(t *rapid.T) {
		c := genCase(t)
		account(c, runCase(t, "TestPropMVCCModel", c))
	})
}

// TestPropMVCCIterModel: the same chains through MVCCIter (last-value records, Iterator reads, DelMVCC restoring them).
func TestPropMVCCIterModel(t *testing.T) {
	defer lib.Flush()
	rapid.Check(t, func(t *rapid.T) {
		c := genIterCase(t)
		account(c, runCase(t, "TestPropMVCCIterModel", c))
	})
}

// ---- pinned known findings --------------------------------------------------------------------------------------

// TestKnown_GetVForeignKey: "k.0" written at version 0, "k" first written at version 1. GetV("k", 0) must be not-found.
func TestKnown_GetVForeignKey(t *testing.T) {
	defer lib.Flush()
	c := kase{Backend: "memdb", Ops: []op{keysOp("k.0"), keysOp("k")}}
	s := buildPinned(c)
	defer s.close()
	got, err := s.mv.GetV([]byte("k"), 0)
	if err == nil {
		lib.KnownOrViolation(t, prop, "TestKnown_GetVForeignKey", knownGetV, c,
			fmt.Sprintf("GetV(\"k\",0) returned %q, the value written under key \"k.0\"; \"k\" has no write at version <= 0", got))
	}
}

// TestKnown_TrashForeignNewest: "k-" written once at version 1, "k" at version 2. Trash(2) must keep the only (newest)
// version of "k-".
func TestKnown_TrashForeignNewest(t *testing.T) {
	defer lib.Flush()
	c := kase{Backend: "memdb", Ops: []op{keysOp("x"), keysOp("k-"), keysOp("k")}}
	s := buildPinned(c)
	defer s.close()
	if err := s.mv.Trash(2); err != nil {
		t.Fatalf("Trash: %v", err)
	}
	got, err := s.mv.GetV([]byte("k-"), 2)
	if err != nil || string(got) != tag("k-", 1, 0) {
		lib.KnownOrViolation(t, prop, "TestKnown_TrashForeignNewest", knownTrash, c,
			fmt.Sprintf("after Trash(2) GetV(\"k-\",2) = %q err=%v: the newest (only) version of \"k-\", written at version 1, was removed as if it were an old version of \"k\"", got, err))
	}
}

// buildPinned replays add-only histories without rapid and without any oracle.
func buildPinned(c kase) *store {
	s := newStore(c.Backend)
	var prev []byte
	for v, o := range c.Ops {
		var kvs []*types.KeyValue
		for pos, e := range o.Entries {
			kvs = append(kvs, &types.KeyValue{Key: []byte(e.K), Value: e.value(int64(v), pos)})
		}
		h := hashOf(v + 1)
		recs, err := s.mv.AddMVCC(kvs, h, prev, int64(v))
		if err != nil {
			lib.Inconclusive("pinned AddMVCC: %v", err)
		}
		for _, kv := range recs {
			_ = s.db.Set(kv.Key, kv.Value)
		}
		prev = h
	}
	return s
}
